/-
Helper lemmas for C19 (stop-and-restart preserves the workflow state) over the frozen `Sched2` model.

* generic lifting (`foldl_inv`, `run_inv`) stated for `Sched2`;
* `Keep c` = "no two proxies share (point, name)" ∧ "the triple (stop reason, stop point, DB stop point) is `c`":
  one lemma per primitive of the model, so that both facts are carried through every op;
* `StopInv`: unless the scheduler shut down automatically (which forgets the stop point by design), the live
  stop point is the one a restart computes from the database / flow.cylc / final point;
* the field-by-field characterisation of `restart`.
-/
import CylcModel.Sched2

namespace CylcModel.Sched2

/-! ### Generic lifting (copies of the `Sched` v1 lemmas, stated for `Sched2`) -/

theorem foldl_inv {α σ} (P : σ → Prop) (f : σ → α → σ) (h : ∀ s a, P s → P (f s a)) :
    ∀ (l : List α) (s : σ), P s → P (l.foldl f s) := by
  intro l; induction l with
  | nil => intro s hs; exact hs
  | cons a l ih => intro s hs; exact ih _ (h s a hs)

/-- every state of a run satisfies `P` when the start-up state does and every step preserves it -/
theorem run_inv (P : State → Prop) (g : Graph) (h0 : P (init g)) (hs : ∀ s op, P s → P (step g s op)) :
    ∀ ops, ∀ s ∈ run g ops, P s := by
  intro ops
  unfold run
  have key : ∀ (ops : List Op) (acc : List State) (cur : State),
      (∀ s ∈ acc, P s) → P cur →
      ∀ s ∈ (ops.foldl (fun (a : List State × State) op =>
          let s' := step g a.2 op; (a.1 ++ [s'], s')) (acc, cur)).1, P s := by
    intro ops
    induction ops with
    | nil => intro acc cur hacc _ s hm; exact hacc s hm
    | cons op ops ih =>
      intro acc cur hacc hcur
      simp only [List.foldl_cons]
      apply ih
      · intro s hm
        rcases List.mem_append.mp hm with h | h
        · exact hacc s h
        · simp at h; subst h; exact hs _ _ hcur
      · exact hs _ _ hcur
  exact key ops [init g] (init g) (by intro s hm; simp at hm; subst hm; exact h0) h0

/-! ### Keys of the pool, and the stop triple -/

def keys (s : State) : List (Int × String) := s.pool.map fun x => (x.pt, x.name)

/-- no two proxies for the same (point, name) -/
def NoDup (s : State) : Prop := (keys s).Nodup

/-- what decides the stop point after a restart: the stop reason, the live stop point, the DB stop point -/
def sp (s : State) : Option String × Option Int × Option Int := (s.stop, s.stopPoint, s.dbStopCp)

def Keep (c : Option String × Option Int × Option Int) (s : State) : Prop := NoDup s ∧ sp s = c

theorem keys_put (s : State) (x : Proxy) : keys (s.put x) = keys s := by
  unfold keys State.put
  simp only [List.map_map]
  apply List.map_congr_left
  intro y _
  simp only [Function.comp]
  split
  · rename_i h
    simp only [Bool.and_eq_true, beq_iff_eq] at h
    rw [h.1, h.2]
  · rfl

theorem get?_none_not_mem (s : State) (p : Int) (n : String) (h : s.get? p n = none) :
    (p, n) ∉ keys s := by
  unfold State.get? at h
  unfold keys
  intro hm
  obtain ⟨y, hy, hk⟩ := List.mem_map.mp hm
  have := List.find?_eq_none.mp h y hy
  simp only [Prod.mk.injEq] at hk
  simp [hk.1, hk.2] at this

theorem nodup_add (s : State) (x : Proxy) (h : NoDup s) : NoDup (s.add x) := by
  unfold State.add
  split
  · exact h
  · rename_i hn
    have hn' : s.get? x.pt x.name = none := by
      cases hg : s.get? x.pt x.name with
      | none => rfl
      | some v => simp [hg] at hn
    unfold NoDup keys
    simp only [List.map_append, List.map_cons, List.map_nil]
    apply List.nodup_append.mpr
    refine ⟨h, by simp, ?_⟩
    intro a ha b hb
    simp at hb; subst hb
    intro heq; subst heq
    exact get?_none_not_mem s x.pt x.name hn' ha

theorem sp_add (s : State) (x : Proxy) : sp (s.add x) = sp s := by
  unfold State.add; split <;> rfl

theorem keep_add {c} (s : State) (x : Proxy) (h : Keep c s) : Keep c (s.add x) :=
  ⟨nodup_add s x h.1, by rw [sp_add]; exact h.2⟩

theorem keep_put {c} (s : State) (x : Proxy) (h : Keep c s) : Keep c (s.put x) :=
  ⟨by unfold NoDup; rw [keys_put]; exact h.1, h.2⟩

theorem nodup_filter (s : State) (f : Proxy → Bool) (h : NoDup s) :
    NoDup { s with pool := s.pool.filter f } := by
  unfold NoDup keys at *
  exact List.Nodup.sublist (List.Sublist.map _ List.filter_sublist) h

/-- a state that differs from `s` in neither the pool nor the stop triple -/
theorem keep_of_eq {c} {s t : State} (hp : t.pool = s.pool) (hs : sp t = sp s) (h : Keep c s) : Keep c t := by
  refine ⟨?_, by rw [hs]; exact h.2⟩
  have := h.1
  unfold NoDup keys at *
  rw [hp]; exact this

/-! ### `Keep c` is preserved by every primitive that does not touch the stop triple -/

theorem spawnTask_frame (g : Graph) (s : State) (n : String) (p : Int) :
    (spawnTask g s n p).1.pool = s.pool ∧ sp (spawnTask g s n p).1 = sp s := by
  unfold spawnTask
  simp only
  repeat' split
  all_goals first
    | exact ⟨rfl, rfl⟩
    | (rename_i h; simp only [Prod.mk.injEq] at h; obtain ⟨h1, _⟩ := h; subst h1; exact ⟨rfl, rfl⟩)

theorem keep_spawnTask {c} (g : Graph) (s : State) (n : String) (p : Int) (h : Keep c s) :
    Keep c (spawnTask g s n p).1 :=
  keep_of_eq (spawnTask_frame g s n p).1 (spawnTask_frame g s n p).2 h

theorem keep_spawnAndAdd {c} (g : Graph) (s : State) (n : String) (p : Int) (h : Keep c s) :
    Keep c (spawnAndAdd g s n p) := by
  unfold spawnAndAdd
  split
  · exact h
  · have hk := keep_spawnTask g s n p h
    split
    · rename_i heq; rw [heq] at hk; exact keep_add _ _ hk
    · rename_i heq; rw [heq] at hk; exact hk

theorem keep_spawnNextParentless {c} (g : Graph) (s : State) (x : Proxy) (h : Keep c s) :
    Keep c (spawnNextParentless g s x) := by
  unfold spawnNextParentless
  split
  · exact h
  · split
    · exact keep_spawnAndAdd _ _ _ _ h
    · exact h

theorem computeRunahead_frame (g : Graph) (s : State) (f : Bool) :
    (computeRunahead g s f).pool = s.pool ∧ sp (computeRunahead g s f) = sp s := by
  unfold computeRunahead
  simp only
  split
  · exact ⟨rfl, rfl⟩
  · split <;> exact ⟨rfl, rfl⟩

theorem keep_computeRunahead {c} (g : Graph) (s : State) (f : Bool) (h : Keep c s) :
    Keep c (computeRunahead g s f) :=
  keep_of_eq (computeRunahead_frame g s f).1 (computeRunahead_frame g s f).2 h

theorem keep_releaseRunahead {c} (g : Graph) (s : State) (h : Keep c s) : Keep c (releaseRunahead g s).1 := by
  unfold releaseRunahead
  split
  · exact h
  · split
    · exact h
    · simp only
      apply foldl_inv (Keep c) _ _ _ _ h
      intro st x hst
      apply keep_spawnNextParentless
      split
      · exact keep_put _ _ hst
      · exact hst

theorem keep_releaseRunaheadN {c} (g : Graph) : ∀ (n : Nat) (s : State), Keep c s → Keep c (releaseRunaheadN g n s) := by
  intro n; induction n with
  | zero => intro s h; exact h
  | succ n ih =>
    intro s h
    unfold releaseRunaheadN
    simp only
    split
    · exact ih _ (keep_releaseRunahead g s h)
    · exact keep_releaseRunahead g s h

theorem keep_queueIfReady {c} (s : State) (x : Proxy) (h : Keep c s) : Keep c (queueIfReady s x) := by
  unfold queueIfReady; split
  · exact keep_put _ _ h
  · exact h

theorem keep_holdActive {c} (s : State) (x : Proxy) (h : Keep c s) : Keep c (holdActive s x) := by
  unfold holdActive
  simp only
  split
  · exact keep_put _ _ h
  · exact keep_of_eq rfl rfl (keep_put _ _ h)

theorem keep_releaseHeldActive {c} (s : State) (x : Proxy) (h : Keep c s) : Keep c (releaseHeldActive s x) := by
  unfold releaseHeldActive
  simp only
  split
  · exact keep_of_eq rfl rfl (keep_put _ _ h)
  · exact keep_of_eq rfl rfl h

theorem nodup_empty (sp0 : Option Int) : Keep (none, sp0, none) ({ stopPoint := sp0 } : State) := by
  refine ⟨?_, rfl⟩
  unfold NoDup keys; simp

theorem keep_loadFromPoint (g : Graph) : Keep (none, g.stopPoint, none) (loadFromPoint g) := by
  unfold loadFromPoint
  simp only
  apply foldl_inv (Keep _)
  · intro st x hst
    split
    · exact keep_queueIfReady _ _ hst
    · exact hst
  · apply keep_releaseRunaheadN
    apply keep_computeRunahead
    apply foldl_inv (Keep _)
    · intro st t hst
      split
      · exact keep_spawnAndAdd _ _ _ _ hst
      · exact hst
    · exact nodup_empty _

theorem keep_releaseAndSubmit {c} (s : State) (h : Keep c s) : Keep c (releaseAndSubmit s) := by
  unfold releaseAndSubmit
  simp only
  split
  · exact h
  · apply keep_of_eq (s := List.foldl _ s _) rfl rfl
    apply foldl_inv (Keep c) _ _ _ _ h
    intro st x hst
    exact keep_of_eq rfl rfl (keep_put _ _ hst)

theorem keep_remove {c} (g : Graph) (s : State) (x : Proxy) (h : Keep c s) : Keep c (remove g s x) := by
  unfold remove
  simp only
  have h0 := keep_releaseHeldActive s x h
  generalize releaseHeldActive s x = s0 at h0 ⊢
  generalize (s0.get? x.pt x.name).getD x = x0
  have h1 : Keep c (if (!x0.flows.isEmpty && x0.runahead) = true then spawnNextParentless g s0 x0 else s0) := by
    split
    · exact keep_spawnNextParentless _ _ _ h0
    · exact h0
  generalize (if (!x0.flows.isEmpty && x0.runahead) = true then spawnNextParentless g s0 x0 else s0) = s1 at h1 ⊢
  exact ⟨nodup_filter _ _ h1.1, h1.2⟩

theorem keep_removeIfComplete {c} (g : Graph) (s : State) (x : Proxy) (h : Keep c s) :
    Keep c (removeIfComplete g s x) := by
  unfold removeIfComplete
  split
  · exact h
  · simp only
    have h0 : Keep c (if s.stopTask == some (x.pt, x.name) then { s with stopTaskFinished := true } else s) := by
      split
      · exact keep_of_eq rfl rfl h
      · exact h
    generalize (if s.stopTask == some (x.pt, x.name) then { s with stopTaskFinished := true } else s) = s0 at h0 ⊢
    split
    · exact h0
    · split
      · exact keep_remove _ _ _ h0
      · exact h0

theorem keep_spawnChild {c} (g : Graph) (p : Int) (n out : String) (acc : State × List (Int × String)) (ch : Child)
    (h : Keep c acc.1) : Keep c (spawnChild g p n out acc ch).1 := by
  obtain ⟨st, sui⟩ := acc
  unfold spawnChild
  simp only
  have h0 : Keep c (if (ch.isAbs && !st.absDone.contains ⟨p, n, out⟩) = true then
      { st with absDone := st.absDone ++ [⟨p, n, out⟩] } else st) := by
    split
    · exact keep_of_eq rfl rfl h
    · exact h
  generalize (if (ch.isAbs && !st.absDone.contains ⟨p, n, out⟩) = true then
      { st with absDone := st.absDone ++ [⟨p, n, out⟩] } else st) = st0 at h0 ⊢
  have hfold : ∀ (ks : List (Int × String)) (a : State × List (Int × String)), Keep c a.1 →
      Keep c (ks.foldl (fun (a : State × List (Int × String)) k =>
        match a.1.get? k.1 k.2 with
        | none => a
        | some z =>
          let z := z.satisfyMe ⟨p, n, out⟩
          (a.1.put z, if (z.suicideNow && !a.2.contains k) = true then a.2 ++ [k] else a.2)) a).1 := by
    intro ks; induction ks with
    | nil => intro a ha; exact ha
    | cons k ks ih =>
      intro a ha
      apply ih
      simp only
      split
      · exact ha
      · exact keep_put _ _ ha
  -- the child: pooled, or spawned now (which may record a hold)
  cases hg : st0.get? ch.pt ch.name with
  | some y =>
    simp only
    apply hfold
    simp only [Option.isSome_some, if_true]
    exact h0
  | none =>
    have h1 := keep_spawnTask g st0 ch.name ch.pt h0
    generalize spawnTask g st0 ch.name ch.pt = r at h1 ⊢
    obtain ⟨st1, child⟩ := r
    simp only at h1 ⊢
    cases child with
    | none => exact h1
    | some y =>
      simp only
      apply hfold
      simp only [Option.isSome_none, Bool.false_eq_true, if_false]
      exact keep_add _ _ h1

theorem keep_spawnOnOutput {c} (g : Graph) (s : State) (p : Int) (n out : String) (h : Keep c s) :
    Keep c (spawnOnOutput g s p n out) := by
  unfold spawnOnOutput
  split
  · exact h
  · simp only
    have h1 : ∀ (cs : List Child) (acc : State × List (Int × String)), Keep c acc.1 →
        Keep c (cs.foldl (spawnChild g p n out) acc).1 := by
      intro cs; induction cs with
      | nil => intro acc ha; exact ha
      | cons ch cs ih => intro acc ha; exact ih _ (keep_spawnChild g p n out acc ch ha)
    have h2 : ∀ (ks : List (Int × String)) (st : State), Keep c st →
        Keep c (ks.foldl (fun (st : State) k => match st.get? k.1 k.2 with
          | some z => remove g st z
          | none => st) st) := by
      intro ks; induction ks with
      | nil => intro st hst; exact hst
      | cons k ks ih =>
        intro st hst
        apply ih
        simp only
        split
        · exact keep_remove _ _ _ hst
        · exact hst
    generalize hR : (List.foldl (spawnChild g p n out) (s, []) _) = R
    have hRn : Keep c R.1 := by rw [← hR]; exact h1 _ _ h
    have h3 := h2 R.2 R.1 hRn
    split
    · exact keep_removeIfComplete _ _ _ h3
    · exact h3

theorem keep_store {c} (s : State) (x : Proxy) (tr : Bool) (h : Keep c s) : Keep c (store s x tr) := by
  unfold store; split
  · exact keep_of_eq rfl rfl h
  · exact keep_put _ _ h

theorem keep_spawnChildren {c} (g : Graph) (s : State) (p : Int) (n out : String) (tr : Bool) (h : Keep c s) :
    Keep c (spawnChildren g s p n out tr) := by
  unfold spawnChildren; split
  · exact h
  · exact keep_spawnOnOutput _ _ _ _ _ h

theorem keep_processMessage {c} (g : Graph) : ∀ (fuel : Nat) (s : State) (p : Int) (n : String) (flag : Flag)
    (sn : Nat) (msg : String), Keep c s → Keep c (processMessage g fuel s p n flag sn msg).1 := by
  intro fuel
  induction fuel with
  | zero => intro s p n flag sn msg h; exact h
  | succ fuel ih =>
    intro s p n flag sn msg h
    unfold processMessage
    split
    · exact h
    · rename_i x tr _
      split
      · exact h
      · split
        · exact h
        · simp only
          have hstore : ∀ (y : Proxy), Keep c (store s y tr) := fun y => keep_store _ _ _ h
          have himp : ∀ (l : List String) (st : State), Keep c st →
              Keep c (l.foldl (fun st m => (processMessage g fuel st p n .internal sn m).1) st) := by
            intro l; induction l with
            | nil => intro st hst; exact hst
            | cons a l ihl => intro st hst; exact ihl _ (ih _ _ _ _ _ _ hst)
          generalize hS : (List.foldl (fun st m => (processMessage g fuel st p n Flag.internal sn m).1) _ _) = S
          have hSn : Keep c S := by rw [← hS]; exact himp _ _ (hstore _)
          split
          · exact hSn
          · repeat' split
            all_goals first
              | exact hSn
              | exact keep_store _ _ _ hSn
              | exact keep_spawnChildren _ _ _ _ _ _ (keep_store _ _ _ hSn)
              | exact keep_spawnChildren _ _ _ _ _ _ hSn

theorem keep_processQueue {c} (g : Graph) (s : State) (h : Keep c s) : Keep c (processQueue g s) := by
  unfold processQueue
  apply foldl_inv (Keep c)
  · intro st grp hst
    simp only
    split
    · exact hst
    · have : ∀ (l : List Msg) (acc : State × Bool), Keep c acc.1 →
          Keep c (l.foldl (fun (acc : State × Bool) m =>
            let (st', pl) := processMessage g 4 acc.1 grp.1.1 grp.1.2 .received m.submitNum m.text
            (st', acc.2 || pl)) acc).1 := by
        intro l; induction l with
        | nil => intro acc ha; exact ha
        | cons m l ihl =>
          intro acc ha
          apply ihl
          exact keep_processMessage g 4 _ _ _ _ _ _ ha
      have h2 := this grp.2 (st, false) hst
      split
      · exact keep_of_eq rfl rfl h2
      · exact h2
  · exact keep_of_eq rfl rfl h

theorem keep_checkStalled {c} (g : Graph) (s : State) (h : Keep c s) : Keep c (checkStalled g s) := by
  unfold checkStalled; split
  · exact h
  · split
    · exact h
    · split
      · exact keep_of_eq rfl rfl h
      · exact h

theorem keep_sweepQueue {c} (s : State) (h : Keep c s) : Keep c (sweepQueue s) := by
  unfold sweepQueue
  apply foldl_inv (Keep c)
  · intro st x hst
    split
    · split
      · exact keep_queueIfReady _ _ (keep_put _ _ hst)
      · exact hst
    · exact hst
  · exact h

theorem keep_mapUpd {c} (s : State) (h : Keep c s) (a b : Bool) :
    Keep c { s with stalled := a, schedUpd := b, pool := s.pool.map fun x => { x with upd := false } } := by
  refine ⟨?_, h.2⟩
  have := h.1
  unfold NoDup keys at *
  simp only [List.map_map]
  exact this

theorem keep_finishLoop {c} (g : Graph) (s : State) (h : Keep c s) : Keep c (finishLoop g s) := by
  unfold finishLoop
  simp only
  have h4 : Keep c (if s.pool.any (·.upd) = true then { s with restartWait := false } else s) := by
    split
    · exact keep_of_eq rfl rfl h
    · exact h
  generalize (if s.pool.any (·.upd) = true then { s with restartWait := false } else s) = s4 at h4 ⊢
  have h5 : Keep c (if (s.schedUpd || s.pool.any (·.upd)) = true then
      { s4 with stalled := false, schedUpd := false, pool := s4.pool.map fun x => { x with upd := false } }
    else s4) := by
    split
    · exact keep_mapUpd _ h4 _ _
    · exact h4
  generalize (if (s.schedUpd || s.pool.any (·.upd)) = true then
      { s4 with stalled := false, schedUpd := false, pool := s4.pool.map fun x => { x with upd := false } }
    else s4) = s5 at h5 ⊢
  have h6 : Keep c { s5 with db := some s5.pool } := keep_of_eq rfl rfl h5
  split
  · exact keep_checkStalled _ _ h6
  · exact h6

theorem keep_setHoldPoint {c} (s : State) (p : Int) (h : Keep c s) : Keep c (setHoldPoint s p) := by
  unfold setHoldPoint
  simp only
  apply foldl_inv (Keep c)
  · intro st x hst
    split
    · split
      · exact keep_holdActive _ _ hst
      · exact hst
    · exact hst
  · exact keep_of_eq rfl rfl h

theorem keep_holdTasks {c} (s : State) (ids : List (Int × String)) (h : Keep c s) : Keep c (holdTasks s ids) := by
  unfold holdTasks
  apply foldl_inv (Keep c) _ _ _ _ h
  intro st k hst
  split
  · exact keep_holdActive _ _ hst
  · split
    · exact hst
    · exact keep_of_eq rfl rfl hst

theorem keep_releaseTasks {c} (s : State) (ids : List (Int × String)) (h : Keep c s) : Keep c (releaseTasks s ids) := by
  unfold releaseTasks
  apply foldl_inv (Keep c) _ _ _ _ h
  intro st k hst
  split
  · exact hst
  · split
    · exact keep_releaseHeldActive _ _ hst
    · exact keep_of_eq rfl rfl hst

theorem keep_releaseHoldPoint {c} (s : State) (h : Keep c s) : Keep c (releaseHoldPoint s) := by
  unfold releaseHoldPoint
  simp only
  apply keep_of_eq (s := List.foldl _ _ _) rfl rfl
  apply foldl_inv (Keep c)
  · intro st x hst
    split
    · exact keep_releaseHeldActive _ _ hst
    · exact hst
  · exact keep_of_eq rfl rfl h

/-! ### The stop-point invariant -/

/-- the stop point a restart computes: DB `stopcp`, else `stop after cycle point` of flow.cylc, else the final point -/
def restartStop (g : Graph) (s : State) : Option Int :=
  some ((match s.dbStopCp with | some p => some p | none => g.cfgStop).getD g.fcp)

/-- well-formed start: the live stop point at start-up is the configured one (no `--stopcp` option) -/
def WFStop (g : Graph) : Prop := g.stopPoint = some (g.cfgStop.getD g.fcp)

instance (g : Graph) : Decidable (WFStop g) := by unfold WFStop; exact inferInstance

/-- unless the scheduler shut down on its own (having reached the stop point, which it then forgets by design),
the live stop point is the one a restart would compute -/
def StopOK (g : Graph) (s : State) : Prop := s.stop ≠ some "AUTOMATIC" → s.stopPoint = restartStop g s

/-- duplicate-free pool ∧ a relation `Q` between the live and the DB stop point that holds unless the scheduler shut
down on its own (generic in `Q` so that the same pass over the primitives also yields the plain `NoDup`) -/
def InvQ (Q : Option Int → Option Int → Prop) (s : State) : Prop :=
  NoDup s ∧ (s.stop ≠ some "AUTOMATIC" → Q s.stopPoint s.dbStopCp)

def stopQ (g : Graph) (a b : Option Int) : Prop :=
  a = some ((match b with | some p => some p | none => g.cfgStop).getD g.fcp)

def Inv (g : Graph) (s : State) : Prop := InvQ (stopQ g) s

theorem inv_iff (g : Graph) (s : State) : Inv g s ↔ NoDup s ∧ StopOK g s := Iff.rfl

theorem inv_of_keep {Q} {s t : State} (hi : InvQ Q s) (hk : Keep (sp s) t) : InvQ Q t := by
  refine ⟨hk.1, ?_⟩
  have h2 := hk.2
  unfold sp at h2
  simp only [Prod.mk.injEq] at h2
  obtain ⟨h21, h22, h23⟩ := h2
  intro hne
  have := hi.2 (by rw [← h21]; exact hne)
  rw [h22, h23]; exact this

theorem keep_self {s : State} (h : NoDup s) : Keep (sp s) s := ⟨h, rfl⟩

theorem canStop_automatic (s : State) (h : s.stopMode = some "AUTOMATIC") : canStop s = true := by
  unfold canStop
  rw [h]
  simp only
  have h1 : ("AUTOMATIC" == "REQUEST(NOW-NOW)") = false := by decide
  have h2 : ("AUTOMATIC" == "REQUEST(CLEAN)") = false := by decide
  have h3 : ("AUTOMATIC" == "REQUEST(KILL)") = false := by decide
  simp [h1, h2, h3]

theorem checkAutoShutdown_spec (g : Graph) (s : State) :
    (checkAutoShutdown g s).1.pool = s.pool ∧ (checkAutoShutdown g s).1.stop = s.stop ∧
    (checkAutoShutdown g s).1.stopMode = s.stopMode ∧
    (checkAutoShutdown g s).1.stopPoint = s.stopPoint ∧
    ((checkAutoShutdown g s).2 = false → (checkAutoShutdown g s).1.dbStopCp = s.dbStopCp) := by
  have hc : ∀ t : State, (checkStalled g t).pool = t.pool ∧ (checkStalled g t).stop = t.stop ∧
      (checkStalled g t).stopMode = t.stopMode ∧ (checkStalled g t).stopPoint = t.stopPoint ∧
      (checkStalled g t).dbStopCp = t.dbStopCp := by
    intro t
    unfold checkStalled
    split
    · exact ⟨rfl, rfl, rfl, rfl, rfl⟩
    · split
      · exact ⟨rfl, rfl, rfl, rfl, rfl⟩
      · split <;> exact ⟨rfl, rfl, rfl, rfl, rfl⟩
  unfold checkAutoShutdown
  split
  · exact ⟨rfl, rfl, rfl, rfl, fun _ => rfl⟩
  · simp only
    obtain ⟨c1, c2, c3, c4, c5⟩ := hc s
    split
    · exact ⟨c1, c2, c3, c4, fun _ => c5⟩
    · split
      · exact ⟨c1, c2, c3, c4, fun _ => c5⟩
      · exact ⟨c1, c2, c3, c4, fun h => by simp at h⟩

theorem inv_mainLoop {Q} (g : Graph) (s : State) (h : InvQ Q s) : InvQ Q (mainLoop g s) := by
  unfold mainLoop
  split
  · exact h
  · rename_i hstop
    have hs0 : s.stop = none := by
      cases hs : s.stop with
      | none => rfl
      | some v => simp [hs] at hstop
    simp only
    have k2 : Keep (sp s) (releaseRunahead g (computeRunahead g s)).1 :=
      keep_releaseRunahead g _ (keep_computeRunahead g s false (keep_self h.1))
    generalize (releaseRunahead g (computeRunahead g s)).1 = s2 at k2 ⊢
    have i2 : InvQ Q s2 := inv_of_keep h k2
    have hs2 : s2.stop = none := by
      have := k2.2; unfold sp at this; simp only [Prod.mk.injEq] at this; rw [this.1]; exact hs0
    -- the rest of the loop after the shutdown decision
    have rest : ∀ s3 : State, InvQ Q s3 → s3.stop = none →
        InvQ Q (finishLoop g (processQueue g
          (if ((sweepQueue s3).stopMode.isNone && !(sweepQueue s3).paused) = true then releaseAndSubmit (sweepQueue s3)
            else sweepQueue s3))) := by
      intro s3 i3 _
      apply inv_of_keep i3
      apply keep_finishLoop
      apply keep_processQueue
      split
      · exact keep_releaseAndSubmit _ (keep_sweepQueue _ (keep_self i3.1))
      · exact keep_sweepQueue _ (keep_self i3.1)
    -- the shutdown decision
    by_cases hm : s2.stopMode.isNone = true
    · simp only [hm, if_true]
      unfold stopTaskDone
      by_cases hstd : (s2.stopTask.isSome && s2.stopTaskFinished) = true
      · simp only [hstd, if_true]
        rw [if_pos (canStop_automatic _ rfl)]
        exact ⟨i2.1, fun hne => absurd rfl hne⟩
      · simp only [hstd, Bool.false_eq_true, if_false]
        obtain ⟨c1, c2, c3, c4, c5⟩ := checkAutoShutdown_spec g s2
        cases hauto : (checkAutoShutdown g s2).2 with
        | true =>
          simp only [if_true]
          rw [if_pos (canStop_automatic _ rfl)]
          refine ⟨?_, fun hne => absurd rfl hne⟩
          have := i2.1
          unfold NoDup keys at *
          show (List.map _ (checkAutoShutdown g s2).1.pool).Nodup
          rw [c1]; exact this
        | false =>
          simp only [Bool.false_eq_true, if_false]
          have i3 : InvQ Q (checkAutoShutdown g s2).1 := by
            apply inv_of_keep i2
            refine ⟨?_, ?_⟩
            · have := i2.1
              unfold NoDup keys at *
              rw [c1]; exact this
            · unfold sp; rw [c2, c4, c5 hauto]
          have hs3 : (checkAutoShutdown g s2).1.stop = none := by rw [c2]; exact hs2
          generalize (checkAutoShutdown g s2).1 = s3 at i3 hs3 ⊢
          split
          · refine ⟨i3.1, ?_⟩
            intro _
            exact i3.2 (by rw [hs3]; simp)
          · exact rest s3 i3 hs3
    · simp only [hm, Bool.false_eq_true, if_false]
      split
      · refine ⟨i2.1, ?_⟩
        intro _
        exact i2.2 (by rw [hs2]; simp)
      · exact rest s2 i2 hs2

/-- `set_stop_point`: the keys of the pool are kept; the live and the DB stop point are either both untouched or
both set to the new point -/
theorem setStopPoint_spec (s : State) (p : Int) :
    keys (setStopPoint s p) = keys s ∧ (setStopPoint s p).stop = s.stop ∧
    (((setStopPoint s p).stopPoint = s.stopPoint ∧ (setStopPoint s p).dbStopCp = s.dbStopCp) ∨
     ((setStopPoint s p).stopPoint = some p ∧ (setStopPoint s p).dbStopCp = some p)) := by
  unfold setStopPoint
  split
  · exact ⟨rfl, rfl, Or.inl ⟨rfl, rfl⟩⟩
  · simp only
    split
    · split
      · refine ⟨?_, rfl, Or.inr ⟨rfl, rfl⟩⟩
        unfold keys
        simp only [List.map_map]
        apply List.map_congr_left
        intro x _
        simp only [Function.comp]
        split
        · unfold Proxy.reset; simp only; split <;> rfl
        · rfl
      · exact ⟨rfl, rfl, Or.inr ⟨rfl, rfl⟩⟩
    · exact ⟨rfl, rfl, Or.inr ⟨rfl, rfl⟩⟩

theorem nodup_setStopPoint (s : State) (p : Int) (h : NoDup s) : NoDup (setStopPoint s p) := by
  unfold NoDup; rw [(setStopPoint_spec s p).1]; exact h

theorem inv_setStopPoint (g : Graph) (s : State) (p : Int) (h : Inv g s) : Inv g (setStopPoint s p) := by
  obtain ⟨_, h2, h3⟩ := setStopPoint_spec s p
  refine ⟨nodup_setStopPoint s p h.1, ?_⟩
  intro hne
  rcases h3 with ⟨h31, h32⟩ | ⟨h31, h32⟩
  · rw [h31, h32]; exact h.2 (by rw [← h2]; exact hne)
  · rw [h31, h32]; rfl

/-! ### `restart`, field by field -/

/-- what a restart does to one proxy (the documented normalisation): a task caught in job preparation comes back
waiting under the previous submit number; completed outputs are reloaded for running / failed / succeeded tasks
only; every task loads runahead-limited except the finished ones; queues are rebuilt -/
def restoreProxy (x : Proxy) : Proxy :=
  let (status, sn) := if x.status == .preparing then (Status.waiting, x.submitNum - 1) else (x.status, x.submitNum)
  let keepOut := status == .running || status == .failed || status == .succeeded
  let final := status == .failed || status == .succeeded || status == .expired
  { x with status := status, submitNum := sn, done := if keepOut then x.done else [],
           queued := false, runahead := !final, retryWait := false, live := false,
           upd := (x.status == .preparing) || final }

def restartCfgStop (g : Graph) (s : State) : Option Int :=
  match s.dbStopCp with | some p => some p | none => g.cfgStop

/-- the state loaded from the database, before `configure` re-applies the hold point -/
def restartBase (g : Graph) (s : State) : State :=
  { pool := s.pool.map restoreProxy, hist := s.hist, absDone := s.absDone,
    tasksToHold := s.tasksToHold, holdPoint := s.holdPoint, stopPoint := some ((restartCfgStop g s).getD g.fcp),
    dbStopCp := s.dbStopCp,
    restartWait := (s.pool.map restoreProxy).isEmpty || (match restartCfgStop g s with
      | some sp => (s.pool.map restoreProxy).all (fun x => x.pt > sp)
      | none => false),
    stopTask := s.stopTask, stopTaskFinished := false, schedUpd := true }

theorem restart_eq (g : Graph) (s : State) :
    restart g s = match s.holdPoint with
      | some hp => setHoldPoint (restartBase g s) hp
      | none => restartBase g s := rfl

/-- `hold_active_task` applied to a proxy beyond the hold point -/
def holdBeyond (p : Int) (x : Proxy) : Proxy := if x.pt > p then x.reset (held := some true) else x

def addHold (p : Int) (th : List (String × Int)) (x : Proxy) : List (String × Int) :=
  if x.pt > p then (if th.contains (x.name, x.pt) then th else th ++ [(x.name, x.pt)]) else th

theorem reset_held_key (x : Proxy) : (x.reset (held := some true)).pt = x.pt ∧ (x.reset (held := some true)).name = x.name := by
  unfold Proxy.reset; simp only; split <;> exact ⟨rfl, rfl⟩

theorem find?_append_of_none {α} (p : α → Bool) (l1 l2 : List α) (h : ∀ a ∈ l1, p a = false) :
    (l1 ++ l2).find? p = l2.find? p := by
  induction l1 with
  | nil => rfl
  | cons a l ih =>
    simp only [List.cons_append, List.find?_cons]
    rw [h a (List.mem_cons_self)]
    exact ih (fun b hb => h b (List.mem_cons_of_mem _ hb))

theorem map_id_of_forall {α} (f : α → α) (l : List α) (h : ∀ a ∈ l, f a = a) : l.map f = l := by
  induction l with
  | nil => rfl
  | cons a l ih =>
    simp only [List.map_cons]
    rw [h a (List.mem_cons_self), ih (fun b hb => h b (List.mem_cons_of_mem _ hb))]

theorem holdActive_spec (st : State) (x : Proxy) :
    holdActive st x = { (st.put (x.reset (held := some true))) with
      tasksToHold := if st.tasksToHold.contains (x.name, x.pt) then st.tasksToHold
                     else st.tasksToHold ++ [(x.name, x.pt)] } := by
  unfold holdActive
  simp only
  have : (st.put (x.reset (held := some true))).tasksToHold = st.tasksToHold := rfl
  rw [this]
  split <;> rfl

/-- the fold of `set_hold_point` over a duplicate-free pool: every proxy beyond the point is held in place,
and recorded in `tasks_to_hold` -/
theorem setHoldPoint_fold (p : Int) : ∀ (l done : List Proxy) (st : State),
    st.pool = done ++ l →
    (∀ a ∈ done, ∀ b ∈ l, ¬ (a.pt = b.pt ∧ a.name = b.name)) →
    (l.map fun x => (x.pt, x.name)).Nodup →
    l.foldl (fun st x => if x.pt > p then
        match st.get? x.pt x.name with | some y => holdActive st y | none => st
      else st) st =
      { st with pool := done ++ l.map (holdBeyond p), tasksToHold := l.foldl (addHold p) st.tasksToHold } := by
  intro l
  induction l with
  | nil =>
    intro done st hp _ _
    simp only [List.foldl_nil, List.map_nil, List.append_nil]
    rw [← (by simpa using hp : st.pool = done)]
  | cons x l ih =>
    intro done st hp hdis hnd
    simp only [List.foldl_cons]
    have hnd' : (l.map fun x => (x.pt, x.name)).Nodup := (List.nodup_cons.mp hnd).2
    have hxl : ∀ b ∈ l, ¬ (b.pt = x.pt ∧ b.name = x.name) := by
      intro b hb hk
      have := (List.nodup_cons.mp hnd).1
      apply this
      simp only [List.mem_map]
      exact ⟨b, hb, by rw [hk.1, hk.2]⟩
    by_cases hgt : x.pt > p
    · simp only [hgt, if_true]
      -- the proxy found under the key of `x` is `x` itself
      have hget : st.get? x.pt x.name = some x := by
        unfold State.get?
        rw [hp, find?_append_of_none]
        · simp
        · intro a ha
          have := hdis a ha x (List.mem_cons_self)
          simp only [Bool.and_eq_false_imp, beq_iff_eq]
          intro h1
          simp only [beq_eq_false_iff_ne, ne_eq]
          intro h2; exact this ⟨h1, h2⟩
      rw [hget]
      simp only
      -- `hold_active_task x`
      have hput : (st.put (x.reset (held := some true))).pool = (done ++ [x.reset (held := some true)]) ++ l := by
        unfold State.put
        simp only
        rw [hp, List.map_append, List.map_cons]
        have hk := reset_held_key x
        rw [map_id_of_forall _ done, map_id_of_forall _ l]
        · simp [hk.1, hk.2]
        · intro b hb
          have := hxl b hb
          rw [hk.1, hk.2]
          split
          · rename_i hc; simp only [Bool.and_eq_true, beq_iff_eq] at hc; exact absurd hc this
          · rfl
        · intro a ha
          have := hdis a ha x (List.mem_cons_self)
          rw [hk.1, hk.2]
          split
          · rename_i hc; simp only [Bool.and_eq_true, beq_iff_eq] at hc; exact absurd hc this
          · rfl
      have hdis' : ∀ a ∈ done ++ [x.reset (held := some true)], ∀ b ∈ l, ¬ (a.pt = b.pt ∧ a.name = b.name) := by
        intro a ha b hb
        rcases List.mem_append.mp ha with h | h
        · exact hdis a h b (List.mem_cons_of_mem _ hb)
        · simp only [List.mem_singleton] at h
          subst h
          have hk := reset_held_key x
          rw [hk.1, hk.2]
          intro hc; exact hxl b hb ⟨hc.1.symm, hc.2.symm⟩
      have hres : ∀ (st' : State), st'.pool = (done ++ [x.reset (held := some true)]) ++ l →
          l.foldl (fun st x => if x.pt > p then
              match st.get? x.pt x.name with | some y => holdActive st y | none => st
            else st) st' =
          { st' with pool := (done ++ [x.reset (held := some true)]) ++ l.map (holdBeyond p),
                     tasksToHold := l.foldl (addHold p) st'.tasksToHold } :=
        fun st' h' => ih _ st' h' hdis' hnd'
      have hres' := hres { (st.put (x.reset (held := some true))) with
        tasksToHold := if st.tasksToHold.contains (x.name, x.pt) then st.tasksToHold
                       else st.tasksToHold ++ [(x.name, x.pt)] } hput
      rw [holdActive_spec st x, hres']
      cases hc' : st.tasksToHold.contains (x.name, x.pt) with
      | true =>
        simp only [List.map_cons, addHold, holdBeyond, hgt, if_true, hc', List.append_assoc,
          List.singleton_append]
        rfl
      | false =>
        simp only [List.map_cons, addHold, holdBeyond, hgt, if_true, hc', List.append_assoc,
          List.singleton_append, Bool.false_eq_true, if_false]
        rfl
    · simp only [hgt, if_false]
      have hp' : st.pool = (done ++ [x]) ++ l := by rw [hp]; simp
      have hdis' : ∀ a ∈ done ++ [x], ∀ b ∈ l, ¬ (a.pt = b.pt ∧ a.name = b.name) := by
        intro a ha b hb
        rcases List.mem_append.mp ha with h | h
        · exact hdis a h b (List.mem_cons_of_mem _ hb)
        · simp only [List.mem_singleton] at h
          subst h
          intro hc; exact hxl b hb ⟨hc.1.symm, hc.2.symm⟩
      rw [ih _ st hp' hdis' hnd']
      simp only [List.map_cons, addHold, holdBeyond, hgt, if_false, List.append_assoc,
        List.singleton_append]

theorem setHoldPoint_spec (s : State) (p : Int) (h : NoDup s) :
    setHoldPoint s p = { s with holdPoint := some p, pool := s.pool.map (holdBeyond p),
                                tasksToHold := s.pool.foldl (addHold p) s.tasksToHold } := by
  unfold setHoldPoint
  simp only
  have := setHoldPoint_fold p s.pool [] { s with holdPoint := some p } (by simp) (by intro a ha; simp at ha) h
  refine this.trans ?_
  simp

theorem restoreProxy_key (x : Proxy) : ((restoreProxy x).pt, (restoreProxy x).name) = (x.pt, x.name) := by
  unfold restoreProxy; simp only

theorem keys_restartBase (g : Graph) (s : State) : keys (restartBase g s) = keys s := by
  unfold keys restartBase
  simp only [List.map_map]
  apply List.map_congr_left
  intro x _
  exact restoreProxy_key x

theorem nodup_restartBase (g : Graph) (s : State) (h : NoDup s) : NoDup (restartBase g s) := by
  unfold NoDup; rw [keys_restartBase]; exact h

/-- **`restart` in closed form** (duplicate-free pool): the database image of every proxy, then the hold point
re-applied to the proxies beyond it -/
theorem restart_spec (g : Graph) (s : State) (h : NoDup s) :
    restart g s = match s.holdPoint with
      | none => restartBase g s
      | some hp => { restartBase g s with
          holdPoint := some hp,
          pool := (s.pool.map restoreProxy).map (holdBeyond hp),
          tasksToHold := (s.pool.map restoreProxy).foldl (addHold hp) s.tasksToHold } := by
  rw [restart_eq]
  cases hh : s.holdPoint with
  | none => rfl
  | some hp =>
    simp only
    rw [setHoldPoint_spec _ _ (nodup_restartBase g s h)]
    rfl

theorem inv_restartBase (g : Graph) (s : State) (h : NoDup s) : Inv g (restartBase g s) := by
  refine ⟨nodup_restartBase g s h, ?_⟩
  intro _
  rfl

theorem inv_restart (g : Graph) (s : State) (h : NoDup s) : Inv g (restart g s) := by
  rw [restart_eq]
  split
  · exact inv_of_keep (inv_restartBase g s h) (keep_setHoldPoint _ _ (keep_self (nodup_restartBase g s h)))
  · exact inv_restartBase g s h

theorem inv_init (g : Graph) (hw : WFStop g) : Inv g (init g) := by
  have hk := keep_loadFromPoint g
  refine ⟨hk.1, ?_⟩
  intro _
  have h2 := hk.2
  unfold sp at h2
  simp only [Prod.mk.injEq] at h2
  show stopQ g (loadFromPoint g).stopPoint (loadFromPoint g).dbStopCp
  rw [h2.2.1, h2.2.2]
  exact hw

theorem inv_step (g : Graph) (s : State) (op : Op) (h : Inv g s) : Inv g (step g s op) := by
  unfold step
  have hc : Inv g (clearOp s) := inv_of_keep h (keep_of_eq rfl rfl (keep_self h.1))
  generalize clearOp s = s0 at hc ⊢
  cases op with
  | loop => exact inv_mainLoop g _ hc
  | subres p n ok sn => exact inv_of_keep hc (keep_processMessage g 4 _ _ _ _ _ _ (keep_self hc.1))
  | msg p n sn text => exact inv_of_keep hc (keep_of_eq rfl rfl (keep_self hc.1))
  | hold ids => exact inv_of_keep hc (keep_holdTasks _ _ (keep_self hc.1))
  | release ids => exact inv_of_keep hc (keep_releaseTasks _ _ (keep_self hc.1))
  | setHoldPoint p => exact inv_of_keep hc (keep_setHoldPoint _ _ (keep_self hc.1))
  | releaseHoldPoint => exact inv_of_keep hc (keep_releaseHoldPoint _ (keep_self hc.1))
  | stop mode => exact inv_of_keep hc (keep_of_eq rfl rfl (keep_self hc.1))
  | stopPoint p => exact inv_setStopPoint g _ p hc
  | stopTask p n => exact inv_of_keep hc (keep_of_eq rfl rfl (keep_self hc.1))
  | pause => exact inv_of_keep hc (keep_of_eq rfl rfl (keep_self hc.1))
  | resume => exact inv_of_keep hc (keep_of_eq rfl rfl (keep_self hc.1))
  | restart => exact inv_restart g _ hc.1

/-- in every state of every run (any instance graph whose start-up stop point is the configured one, any op list):
no two proxies share (point, name), and the live stop point is the one a restart would restore -/
theorem inv_run (g : Graph) (hw : WFStop g) (ops : List Op) : ∀ s ∈ run g ops, Inv g s :=
  run_inv (Inv g) g (inv_init g hw) (inv_step g) ops

/-- without the hypothesis on the graph: no two proxies share (point, name) -/
theorem nodup_step (g : Graph) (s : State) (op : Op) (h : NoDup s) : NoDup (step g s op) := by
  have hi : InvQ (fun _ _ => True) s := ⟨h, fun _ => trivial⟩
  suffices InvQ (fun _ _ => True) (step g s op) from this.1
  unfold step
  have hc : InvQ (fun _ _ => True) (clearOp s) := inv_of_keep hi (keep_of_eq rfl rfl (keep_self h))
  generalize clearOp s = s0 at hc ⊢
  cases op with
  | loop => exact inv_mainLoop g _ hc
  | subres p n ok sn => exact inv_of_keep hc (keep_processMessage g 4 _ _ _ _ _ _ (keep_self hc.1))
  | msg p n sn text => exact inv_of_keep hc (keep_of_eq rfl rfl (keep_self hc.1))
  | hold ids => exact inv_of_keep hc (keep_holdTasks _ _ (keep_self hc.1))
  | release ids => exact inv_of_keep hc (keep_releaseTasks _ _ (keep_self hc.1))
  | setHoldPoint p => exact inv_of_keep hc (keep_setHoldPoint _ _ (keep_self hc.1))
  | releaseHoldPoint => exact inv_of_keep hc (keep_releaseHoldPoint _ (keep_self hc.1))
  | stop mode => exact inv_of_keep hc (keep_of_eq rfl rfl (keep_self hc.1))
  | stopPoint p => exact ⟨nodup_setStopPoint _ p hc.1, fun _ => trivial⟩
  | stopTask p n => exact inv_of_keep hc (keep_of_eq rfl rfl (keep_self hc.1))
  | pause => exact inv_of_keep hc (keep_of_eq rfl rfl (keep_self hc.1))
  | resume => exact inv_of_keep hc (keep_of_eq rfl rfl (keep_self hc.1))
  | restart => exact ⟨(inv_restart g _ hc.1).1, fun _ => trivial⟩

theorem nodup_init (g : Graph) : NoDup (init g) := (keep_loadFromPoint g).1

/-- C26 for `Sched2`: in every state of every run no two proxies share (point, name) -/
theorem nodup_run (g : Graph) (ops : List Op) : ∀ s ∈ run g ops, NoDup s :=
  run_inv NoDup g (nodup_init g) (nodup_step g) ops

/-! ### What a restart does to one proxy, field by field -/

/-- the restored proxy: the database image, then the hold point (if any) re-applied -/
def normProxy (hp : Option Int) (x : Proxy) : Proxy :=
  match hp with
  | none => restoreProxy x
  | some p => holdBeyond p (restoreProxy x)

theorem restart_pool (g : Graph) (s : State) (h : NoDup s) :
    (restart g s).pool = s.pool.map (normProxy s.holdPoint) := by
  rw [restart_spec g s h]
  cases hh : s.holdPoint with
  | none => rfl
  | some hp =>
    simp only [List.map_map]
    rfl

/-- `hold_active_task` changes nothing but `held` (and the updated flag) -/
theorem holdBeyond_other (p : Int) (x : Proxy) :
    (holdBeyond p x).pt = x.pt ∧ (holdBeyond p x).name = x.name ∧ (holdBeyond p x).status = x.status ∧
    (holdBeyond p x).submitNum = x.submitNum ∧ (holdBeyond p x).flows = x.flows ∧ (holdBeyond p x).done = x.done ∧
    (holdBeyond p x).pre = x.pre ∧ (holdBeyond p x).sui = x.sui ∧ (holdBeyond p x).queued = x.queued ∧
    (holdBeyond p x).runahead = x.runahead ∧ (holdBeyond p x).execTry = x.execTry ∧
    (holdBeyond p x).subTry = x.subTry ∧ (holdBeyond p x).timers = x.timers := by
  unfold holdBeyond
  split
  · unfold Proxy.reset
    simp only
    split <;> exact ⟨rfl, rfl, rfl, rfl, rfl, rfl, rfl, rfl, rfl, rfl, rfl, rfl, rfl⟩
  · exact ⟨rfl, rfl, rfl, rfl, rfl, rfl, rfl, rfl, rfl, rfl, rfl, rfl, rfl⟩

theorem holdBeyond_held (p : Int) (x : Proxy) : (holdBeyond p x).held = (x.held || decide (x.pt > p)) := by
  unfold holdBeyond
  split
  · rename_i hgt
    unfold Proxy.reset
    simp only [Option.getD_some, Option.getD_none, beq_self_eq_true, Bool.true_and, Bool.and_true]
    split
    · rename_i hc
      have : x.held = true := by
        cases hx : x.held with
        | true => rfl
        | false => simp [hx] at hc
      simp [this]
    · simp [hgt]
  · rename_i hgt
    simp [hgt]

/-- the database image of a proxy keeps identity, flows, held flag, prerequisites and retry state -/
theorem restoreProxy_other (x : Proxy) :
    (restoreProxy x).pt = x.pt ∧ (restoreProxy x).name = x.name ∧ (restoreProxy x).flows = x.flows ∧
    (restoreProxy x).held = x.held ∧ (restoreProxy x).pre = x.pre ∧ (restoreProxy x).sui = x.sui ∧
    (restoreProxy x).execTry = x.execTry ∧ (restoreProxy x).subTry = x.subTry ∧ (restoreProxy x).timers = x.timers ∧
    (restoreProxy x).queued = false := by
  unfold restoreProxy
  simp only
  exact ⟨trivial, trivial, trivial, trivial, trivial, trivial, trivial, trivial, trivial, trivial⟩

theorem restoreProxy_status (x : Proxy) :
    (restoreProxy x).status = (if x.status = .preparing then .waiting else x.status) := by
  unfold restoreProxy
  by_cases h : x.status = .preparing
  · simp [h]
  · have : (x.status == Status.preparing) = false := by simpa using h
    simp [h, this]

theorem restoreProxy_submitNum (x : Proxy) :
    (restoreProxy x).submitNum = (if x.status = .preparing then x.submitNum - 1 else x.submitNum) := by
  unfold restoreProxy
  by_cases h : x.status = .preparing
  · simp [h]
  · have : (x.status == Status.preparing) = false := by simpa using h
    simp [h, this]

/-- completed outputs come back for running / failed / succeeded tasks only -/
theorem restoreProxy_done (x : Proxy) :
    (restoreProxy x).done =
      (if x.status = .running ∨ x.status = .failed ∨ x.status = .succeeded then x.done else []) := by
  unfold restoreProxy
  cases hs : x.status <;> simp

theorem restoreProxy_runahead (x : Proxy) :
    (restoreProxy x).runahead = !(x.status == .failed || x.status == .succeeded || x.status == .expired) := by
  unfold restoreProxy
  cases hs : x.status <;> simp <;> decide

/-! ### The spawn decision reads only data that a restart preserves -/

/-- `spawn_task` as a function of what it reads of the state: the DB history, `tasks_to_hold`, the hold point
and the record of completed absolute outputs -/
def spawnDecision (g : Graph) (hist : List Hist) (tth : List (String × Int)) (hp : Option Int) (abs : List Atom)
    (name : String) (p : Int) : Option Proxy :=
  (spawnTask g { hist := hist, tasksToHold := tth, holdPoint := hp, absDone := abs } name p).2

theorem spawnTask_decision (g : Graph) (s : State) (n : String) (p : Int) :
    (spawnTask g s n p).2 = spawnDecision g s.hist s.tasksToHold s.holdPoint s.absDone n p := by
  unfold spawnDecision spawnTask
  simp only
  repeat' split
  all_goals first
    | rfl
    | (rename_i h1 h2; simp only [Prod.mk.injEq] at h1 h2; obtain ⟨_, h1⟩ := h1; obtain ⟨_, h2⟩ := h2
       subst h1; subst h2; rfl)
    | (rename_i h1 h2; simp_all)

/-! ### Closed-loop execution: the scheduler model against a deterministic job environment

Used to *state* `continuation_equiv` (Props/C19); nothing below is proved about it. -/

/-- what job (point, name, submit number) reports, in order; the first entry is the submit result
(`"submitted"` / `"submit-failed"`) -/
abbrev Plan := Int → String → Nat → List String

structure Job where
  pt : Int
  name : String
  sn : Nat
  rest : List String

structure Sys where
  s : State
  jobs : List Job := []                      -- in-flight jobs with the reports still to come
  launched : List (Int × String) := []       -- every instance launched so far

def deliver (g : Graph) (s : State) (j : Job) (m : String) : State :=
  if m == "submitted" then step g s (.subres j.pt j.name true j.sn)
  else if m == "submit-failed" then step g s (.subres j.pt j.name false j.sn)
  else step g s (.msg j.pt j.name j.sn m)

/-- one round: a main loop; unless it shut the scheduler down, the jobs it launched are registered (a launch
under a submit number already known replaces that job) and every in-flight job makes its next report -/
def round (g : Graph) (plan : Plan) (y : Sys) : Sys :=
  let s1 := step g y.s .loop
  if s1.stop.isSome then { y with s := s1 } else
  let newJobs : List Job := s1.launched.map fun l => ⟨l.1, l.2.1, l.2.2, plan l.1 l.2.1 l.2.2⟩
  let jobs := (y.jobs.filter fun j =>
    !newJobs.any fun k => k.pt == j.pt && k.name == j.name && k.sn == j.sn) ++ newJobs
  let r := jobs.foldl (fun (acc : State × List Job) j =>
      match j.rest with
      | [] => acc
      | m :: rest => (deliver g acc.1 j m, acc.2 ++ [{ j with rest := rest }])) (s1, [])
  { s := r.1, jobs := r.2, launched := y.launched ++ s1.launched.map fun l => (l.1, l.2.1) }

def rounds (g : Graph) (plan : Plan) : Nat → Sys → Sys
  | 0, y => y
  | n + 1, y => rounds g plan n (round g plan y)

/-- rounds until the scheduler has shut down (at most `n`) -/
def roundsUntilStopped (g : Graph) (plan : Plan) : Nat → Sys → Sys
  | 0, y => y
  | n + 1, y => if y.s.stop.isSome then y else roundsUntilStopped g plan n (round g plan y)

/-- restart of the stopped system: the submission of a task still in preparation died with the scheduler (its
job is dropped, the task is prepared again); job messages received but not processed are sent again (polling) -/
def restartSys (g : Graph) (y : Sys) : Sys :=
  let s' := step g y.s .restart
  let s' := y.s.queue.foldl (fun st m => step g st (.msg m.pt m.name m.submitNum m.text)) s'
  { y with s := s',
           jobs := y.jobs.filter fun j => !(y.s.pool.any fun x =>
             x.pt == j.pt && x.name == j.name && x.submitNum == j.sn && x.status == .preparing) }

def sameSet {α} [BEq α] (a b : List α) : Bool := a.all (b.contains ·) && b.all (a.contains ·)

/-- final outputs of every instance the run knows of: removed ones (DB history) and pooled ones -/
def finals (s : State) : List (Int × String × List String) :=
  (s.hist.map fun h => (h.pt, h.name, h.done)) ++ (s.pool.map fun x => (x.pt, x.name, x.done))

def sameFinals (a b : List (Int × String × List String)) : Bool :=
  let le (a b : List (Int × String × List String)) : Bool :=
    a.all fun x => b.any fun y => x.1 == y.1 && x.2.1 == y.2.1 && sameSet x.2.2 y.2.2
  le a b && le b a

/-- the uninterrupted run: `n` rounds from start-up -/
def runU (g : Graph) (plan : Plan) (n : Nat) : Sys := rounds g plan n { s := init g }

/-- the interrupted run: `k` rounds, a stop request, rounds until the scheduler is down, restart, then
`2 * n + 4` rounds (room for the re-preparation of what was in flight) -/
def runI (g : Graph) (plan : Plan) (k : Nat) (mode : String) (n : Nat) : Sys :=
  let y := rounds g plan k { s := init g }
  let y := { y with s := step g y.s (.stop mode) }
  let y := roundsUntilStopped g plan n y
  rounds g plan (2 * n + 4) (restartSys g y)

/-- same set of launched task instances, same final outputs of every instance -/
def sameOutcome (u i : Sys) : Bool :=
  sameSet u.launched i.launched && sameFinals (finals u.s) (finals i.s)


/-! ### Projections of the restarted pool, the untouched workflow-level fields, reachability of `after` -/

/-- every field of the restored proxy that `hold_active_task` does not touch is the field of the database image -/
theorem normProxy_proj {α} (f : Proxy → α) (hf : ∀ p x, f (holdBeyond p x) = f x) (hp : Option Int) (x : Proxy) :
    f (normProxy hp x) = f (restoreProxy x) := by
  unfold normProxy
  split
  · rfl
  · exact hf _ _

theorem restart_map {α} (f : Proxy → α) (hf : ∀ p x, f (holdBeyond p x) = f x) (g : Graph) (ops : List Op) :
    ∀ s ∈ run g ops, (restart g s).pool.map f = s.pool.map fun x => f (restoreProxy x) := by
  intro s hs
  rw [restart_pool g s (nodup_run g ops s hs), List.map_map]
  apply List.map_congr_left
  intro x _
  exact normProxy_proj f hf _ x

/-- the fields of the restarted state that neither the database image nor the re-applied hold point change -/
theorem restart_globals (g : Graph) (s : State) :
    (restart g s).holdPoint = s.holdPoint ∧ (restart g s).stopTask = s.stopTask ∧
    (restart g s).absDone = s.absDone ∧ (restart g s).hist = s.hist ∧ (restart g s).dbStopCp = s.dbStopCp ∧
    (restart g s).stop = none ∧ (restart g s).stopMode = none ∧ (restart g s).queue = [] := by
  rw [restart_eq]
  cases hh : s.holdPoint with
  | none => exact ⟨hh, rfl, rfl, rfl, rfl, rfl, rfl, rfl⟩
  | some hp =>
    simp only
    -- `set_hold_point` = a fold of `hold_active_task`; none of these fields is touched
    have key : ∀ (l : List Proxy) (st : State),
        let r := l.foldl (fun st x => if x.pt > hp then
            match st.get? x.pt x.name with | some y => holdActive st y | none => st
          else st) st
        r.holdPoint = st.holdPoint ∧ r.stopTask = st.stopTask ∧ r.absDone = st.absDone ∧ r.hist = st.hist ∧
        r.dbStopCp = st.dbStopCp ∧ r.stop = st.stop ∧ r.stopMode = st.stopMode ∧ r.queue = st.queue := by
      intro l
      induction l with
      | nil => intro st; exact ⟨rfl, rfl, rfl, rfl, rfl, rfl, rfl, rfl⟩
      | cons x l ih =>
        intro st
        simp only [List.foldl_cons]
        have hstep : ∀ t : State, (t.holdPoint = st.holdPoint ∧ t.stopTask = st.stopTask ∧ t.absDone = st.absDone ∧
            t.hist = st.hist ∧ t.dbStopCp = st.dbStopCp ∧ t.stop = st.stop ∧ t.stopMode = st.stopMode ∧
            t.queue = st.queue) →
            (let r := l.foldl (fun st x => if x.pt > hp then
                match st.get? x.pt x.name with | some y => holdActive st y | none => st
              else st) t
            r.holdPoint = st.holdPoint ∧ r.stopTask = st.stopTask ∧ r.absDone = st.absDone ∧ r.hist = st.hist ∧
            r.dbStopCp = st.dbStopCp ∧ r.stop = st.stop ∧ r.stopMode = st.stopMode ∧ r.queue = st.queue) := by
          intro t ht
          obtain ⟨a1, a2, a3, a4, a5, a6, a7, a8⟩ := ih t
          obtain ⟨b1, b2, b3, b4, b5, b6, b7, b8⟩ := ht
          exact ⟨a1.trans b1, a2.trans b2, a3.trans b3, a4.trans b4, a5.trans b5, a6.trans b6, a7.trans b7, a8.trans b8⟩
        apply hstep
        split
        · split
          · rw [holdActive_spec]; exact ⟨rfl, rfl, rfl, rfl, rfl, rfl, rfl, rfl⟩
          · exact ⟨rfl, rfl, rfl, rfl, rfl, rfl, rfl, rfl⟩
        · exact ⟨rfl, rfl, rfl, rfl, rfl, rfl, rfl, rfl⟩
    unfold setHoldPoint
    obtain ⟨a1, a2, a3, a4, a5, a6, a7, a8⟩ := key (restartBase g s).pool { restartBase g s with holdPoint := some hp }
    exact ⟨a1, a2, a3, a4, a5, a6, a7, a8⟩

/-- the state reached by an op list -/
def after (g : Graph) (ops : List Op) : State := ops.foldl (step g) (init g)

theorem after_mem_run (g : Graph) (ops : List Op) : after g ops ∈ run g ops := by
  unfold run after
  have key : ∀ (ops : List Op) (acc : List State) (cur : State), cur ∈ acc →
      ops.foldl (step g) cur ∈ (ops.foldl (fun (a : List State × State) op =>
          let s' := step g a.2 op; (a.1 ++ [s'], s')) (acc, cur)).1 := by
    intro ops
    induction ops with
    | nil => intro acc cur h; exact h
    | cons op ops ih =>
      intro acc cur _
      simp only [List.foldl_cons]
      apply ih
      simp
  exact key ops [init g] (init g) (by simp)

/-! ### Two restarts in a row -/

/-- forget the `is_updated` flag -/
def forgetUpd (x : Proxy) : Proxy := { x with upd := false }

theorem holdBeyond_eq (p : Int) (y : Proxy) :
    holdBeyond p y = { y with held := y.held || decide (y.pt > p), upd := y.upd || (decide (y.pt > p) && !y.held) } := by
  unfold holdBeyond
  by_cases hgt : y.pt > p
  · simp only [hgt, if_true]
    unfold Proxy.reset
    simp only [Option.getD_some, Option.getD_none, beq_self_eq_true, Bool.true_and, Bool.and_true]
    cases hh : y.held
    · simp
    · cases y; simp_all
  · have hlt : decide (y.pt > p) = false := by simpa using hgt
    simp only [hgt, if_false]
    cases y; simp

theorem restoreProxy_held_upd (w : Proxy) (h u : Bool) :
    restoreProxy { w with held := h, upd := u } = { restoreProxy w with held := h } := by
  unfold restoreProxy
  simp only

theorem forget_restore_restore (x : Proxy) : forgetUpd (restoreProxy (restoreProxy x)) = forgetUpd (restoreProxy x) := by
  unfold restoreProxy forgetUpd
  cases hs : x.status <;> simp <;> decide

theorem restoreProxy_pt (x : Proxy) : (restoreProxy x).pt = x.pt := (restoreProxy_other x).1

/-- a second restart with nothing in between changes a restored proxy in its `is_updated` flag at most -/
theorem norm_idem (hp : Option Int) (x : Proxy) :
    forgetUpd (normProxy hp (normProxy hp x)) = forgetUpd (normProxy hp x) := by
  cases hp with
  | none => exact forget_restore_restore x
  | some p =>
    simp only [normProxy]
    generalize hr : restoreProxy x = r
    have hrr : forgetUpd (restoreProxy r) = forgetUpd r := by rw [← hr]; exact forget_restore_restore x
    rw [holdBeyond_eq p r, restoreProxy_held_upd, holdBeyond_eq]
    simp only [restoreProxy_pt]
    have h1 : (restoreProxy r).held = r.held := (restoreProxy_other r).2.2.2.1
    unfold forgetUpd at *
    have h2 : restoreProxy r = { r with upd := (restoreProxy r).upd } := by
      have := hrr
      cases hq : restoreProxy r
      cases r
      simp_all
    rw [h2]
    cases r
    simp



theorem addHold_mem (hp : Int) : ∀ (l : List Proxy) (th : List (String × Int)) (k : String × Int),
    k ∈ th → k ∈ l.foldl (addHold hp) th := by
  intro l
  induction l with
  | nil => intro th k h; exact h
  | cons x l ih =>
    intro th k h
    simp only [List.foldl_cons]
    apply ih
    unfold addHold
    split
    · split
      · exact h
      · exact List.mem_append_left _ h
    · exact h

theorem addHold_covers (hp : Int) : ∀ (l : List Proxy) (th : List (String × Int)),
    ∀ x ∈ l, x.pt > hp → (x.name, x.pt) ∈ l.foldl (addHold hp) th := by
  intro l
  induction l with
  | nil => intro th x hx; simp at hx
  | cons y l ih =>
    intro th x hx hgt
    simp only [List.foldl_cons]
    rcases List.mem_cons.mp hx with h | h
    · subst h
      apply addHold_mem
      unfold addHold
      simp only [hgt, if_true]
      split
      · rename_i hc; simpa using hc
      · exact List.mem_append_right _ (List.mem_singleton.mpr rfl)
    · exact ih _ x h hgt

theorem addHold_noop (hp : Int) : ∀ (l : List Proxy) (th : List (String × Int)),
    (∀ x ∈ l, x.pt > hp → (x.name, x.pt) ∈ th) → l.foldl (addHold hp) th = th := by
  intro l
  induction l with
  | nil => intro th _; rfl
  | cons x l ih =>
    intro th h
    simp only [List.foldl_cons]
    have hx : addHold hp th x = th := by
      unfold addHold
      split
      · rename_i hgt
        have := h x (List.mem_cons_self) hgt
        simp [this]
      · rfl
    rw [hx]
    exact ih th (fun y hy => h y (List.mem_cons_of_mem _ hy))

/-- **A second restart with nothing in between changes nothing** but the internal `is_updated` flags: the pool, the
holds, the hold / stop point, the stop task, the absolute outputs and the history are those of the first restart
("any number of successive restarts") -/
theorem restart_restart (g : Graph) (s : State) (h : NoDup s) :
    (restart g (restart g s)).pool.map forgetUpd = (restart g s).pool.map forgetUpd ∧
    (restart g (restart g s)).tasksToHold = (restart g s).tasksToHold ∧
    (restart g (restart g s)).holdPoint = (restart g s).holdPoint ∧
    (restart g (restart g s)).stopPoint = (restart g s).stopPoint ∧
    (restart g (restart g s)).stopTask = (restart g s).stopTask ∧
    (restart g (restart g s)).absDone = (restart g s).absDone ∧
    (restart g (restart g s)).hist = (restart g s).hist := by
  have hr : NoDup (restart g s) := (inv_restart g s h).1
  have hg := restart_globals g s
  have hg2 := restart_globals g (restart g s)
  refine ⟨?_, ?_, hg2.1, ?_, hg2.2.1, hg2.2.2.1, hg2.2.2.2.1⟩
  · rw [restart_pool g _ hr, hg.1, restart_pool g s h, List.map_map, List.map_map, List.map_map]
    apply List.map_congr_left
    intro x _
    exact norm_idem _ x
  · rw [restart_spec g _ hr, hg.1]
    cases hh : s.holdPoint with
    | none => rfl
    | some hp =>
      simp only
      apply addHold_noop
      intro y hy hgt
      obtain ⟨z, hz, rfl⟩ := List.mem_map.mp hy
      rw [(restoreProxy_other z).1] at hgt
      rw [(restoreProxy_other z).1, (restoreProxy_other z).2.1]
      -- `z` is a proxy of the first restart: the image of some `x` of `s`
      rw [restart_spec g s h, hh] at hz ⊢
      simp only at hz ⊢
      obtain ⟨w, hw, rfl⟩ := List.mem_map.mp hz
      rw [(holdBeyond_other hp w).1] at hgt
      rw [(holdBeyond_other hp w).1, (holdBeyond_other hp w).2.1]
      exact addHold_covers hp _ _ w hw hgt
  · have i1 := (inv_restart g s h).2 (by rw [hg.2.2.2.2.2.1]; simp)
    have i2 := (inv_restart g _ hr).2 (by rw [hg2.2.2.2.2.2.1]; simp)
    unfold stopQ at i1 i2
    rw [i2, i1, hg2.2.2.2.2.1]

end CylcModel.Sched2
