/-
Model of the flow-number manager (property C08):

  cylc/flow/flow_mgr.py        FlowMgr.__init__ / get_flow / cli_to_flow_nums / load_from_db
  cylc/flow/workflow_db_mgr.py put_insert_workflow_flows (+ process_queued_ops, taken as done
                               before a restart: clean shutdown)
  cylc/flow/rundb.py           select_workflow_flows_max_flow_num, select_workflow_flows,
                               table workflow_flows (primary key flow_num, INSERT OR REPLACE)

State: the in-memory counter and flow dict of `FlowMgr`, and the `flow_num` column of the
`workflow_flows` table. Flow numbers are `Int` (`--flow=-3` passes validation: `int(val)`).
Meta data (description, start time) is not modelled.

Second part (`namespace Spec`): the sentence of C08 about new flows as a judge over observed
answers ("a new flow started by command always gets a number never used before in the
workflow's history, including across restarts"), written without model functions.

Core Lean only.
-/
import CylcModel.Generated.FlowConsts

namespace CylcModel.Flow

structure St where
  /-- `self.counter`; `none` = Python `None` (after `load_from_db` on an empty table) -/
  counter : Option Int
  /-- keys of `self.flows` -/
  flows : List Int
  /-- `flow_num` values in table `workflow_flows` -/
  table : List Int
deriving Repr, DecidableEq

/-- `FlowMgr.__init__` (initial counter read from the source by `translate()`), empty DB -/
def init : St := { counter := some initCounter, flows := [], table := [] }

/-- `--flow=` arguments after validation -/
inductive Cli
  | none                 -- ["none"]
  | new                  -- ["new"]
  | nums (ns : List Int) -- integers, possibly none at all
deriving Repr, DecidableEq

inductive Op
  | new                      -- get_flow()
  | num (n : Int)            -- get_flow(n)
  | cli (c : Cli)            -- cli_to_flow_nums(...)
  | restart (pool : List Int) -- clean shutdown, then a new FlowMgr + load_from_db(pool)
deriving Repr, DecidableEq

inductive Out
  | unit
  | num (n : Int)
  | set (ns : List Int)     -- sorted, duplicate-free
  | typeError               -- `None += 1`
deriving Repr, DecidableEq

/-- `while self.counter in self.flows: self.counter += 1`, with fuel (enough: `flows.length`) -/
def skip (flows : List Int) : Nat → Int → Int
  | 0, c => c
  | fuel + 1, c => if flows.contains c then skip flows fuel (c + 1) else c

def insertNew (l : List Int) (n : Int) : List Int := if l.contains n then l else n :: l

/-- `get_flow(flow_num)` for a number: records it when it is not a known flow -/
def useNum (s : St) (n : Int) : St :=
  if s.flows.contains n then s
  else { s with flows := n :: s.flows, table := insertNew s.table n }

/-- `get_flow(None)` -/
def getNew (s : St) : St × Option Int :=
  match s.counter with
  | none => (s, none)
  | some c =>
    let c' := skip s.flows s.flows.length (c + 1)
    (useNum { s with counter := some c' } c', some c')

def useNums (s : St) : List Int → St
  | [] => s
  | n :: ns => useNums (useNum s n) ns

def insertSorted (n : Int) : List Int → List Int
  | [] => [n]
  | a :: l => if n < a then n :: a :: l else if n == a then a :: l else a :: insertSorted n l

/-- a Python set of ints, canonical -/
def toSet (l : List Int) : List Int := l.foldr insertSorted []

def maxOf : List Int → Option Int
  | [] => none
  | a :: l => match maxOf l with
    | none => some a
    | some m => some (if a < m then m else a)

def step (s : St) : Op → St × Out
  | .new => match getNew s with
    | (s', some n) => (s', .num n)
    | (s', none) => (s', .typeError)
  | .num n => (useNum s n, .num n)
  | .cli .none => (s, .set [])
  | .cli .new => match getNew s with
    | (s', some n) => (s', .set [n])
    | (s', none) => (s', .typeError)
  | .cli (.nums ns) => (useNums s ns, .set (toSet ns))
  | .restart pool =>
    ({ counter := match maxOf s.table with
                  | some m => some m
                  | none => emptyTableCounter     -- `SELECT MAX(flow_num)` of an empty table
       flows := s.table.filter (pool.contains ·), table := s.table }, .unit)

def run : St → List Op → List Out
  | _, [] => []
  | s, op :: ops => let r := step s op; r.2 :: run r.1 ops

def finalState : St → List Op → St
  | s, [] => s
  | s, op :: ops => finalState (step s op).1 ops

/-! ## Specification (judge) -/
namespace Spec

inductive Fail
  | shape (k : Nat)
  | reused (k : Nat) (n : Int)       -- a new flow got a number that was used before
  | noNumber (k : Nat) (blank : Bool)   -- a new flow did not get a number (`blank`: the last restart
                                        -- happened before the history had created or named any flow)
deriving Repr, DecidableEq

structure St where
  /-- every flow number returned by or handed to the manager so far -/
  used : List Int := []
  /-- the last restart happened while `used` was empty -/
  blank : Bool := false
deriving Repr, DecidableEq

def stepJudge (s : St) (k : Nat) : Op → Out → Except Fail St
  | .new, .num n => if s.used.contains n then .error (.reused k n) else .ok { s with used := n :: s.used }
  | .new, .typeError => .error (.noNumber k s.blank)
  | .num n, .num r => .ok { s with used := r :: n :: s.used }
  | .cli .none, .set _ => .ok s
  | .cli .new, .set [n] =>
    if s.used.contains n then .error (.reused k n) else .ok { s with used := n :: s.used }
  | .cli .new, .set _ => .error (.noNumber k false)
  | .cli .new, .typeError => .error (.noNumber k s.blank)
  | .cli (.nums ns), .set rs => .ok { s with used := rs ++ ns ++ s.used }
  | .restart _, .unit => .ok { s with blank := s.used.isEmpty }
  | _, _ => .error (.shape k)

def runJudge : St → Nat → List Op → List Out → Except Fail Unit
  | _, _, [], [] => .ok ()
  | s, k, op :: ops, o :: outs =>
    match stepJudge s k op o with
    | .ok s' => runJudge s' (k + 1) ops outs
    | .error f => .error f
  | _, k, _, _ => .error (.shape k)

def judge (ops : List Op) (outs : List Out) : Except Fail Unit := runJudge {} 0 ops outs

end Spec

end CylcModel.Flow
