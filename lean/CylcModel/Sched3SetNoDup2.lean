/-
Pool-shape invariant `INV Q` (see `Sched3SetNoDup`), continued: message processing, `cylc set`, the main loop, holds,
restart, start-up; lifted over all op lists (`inv_run`).
-/
import CylcModel.Sched3SetNoDup

namespace CylcModel.Sched3Set

section
variable {Q : State → Proxy → Prop}

theorem inv_ite_fst (c : Bool) (a b : State × Bool) (ha : INV Q a.1) (hb : INV Q b.1) :
    INV Q (if c = true then a else b).1 := by
  cases c <;> simp [ha, hb]

theorem setComplete_fields (g : Graph) (x : Proxy) (m : String) (f : Bool) :
    (setComplete g x m f).1.pt = x.pt ∧ (setComplete g x m f).1.name = x.name ∧ (setComplete g x m f).1.flows = x.flows := by
  unfold setComplete
  split
  · exact ⟨rfl, rfl, rfl⟩
  · split <;> exact ⟨rfl, rfl, rfl⟩

theorem inv_handleMessage {s : State} (hQ : PInv Q) (g : Graph) (p : Int) (n : String) (flag : Flag) (msg : String)
    (forced : Bool) (completed : Option Bool) (h : INV Q s) :
    INV Q (handleMessage g s p n flag msg forced completed).1 := by
  unfold handleMessage
  split
  · exact h
  · rename_i x tr hl
    have hst : ∀ y : Proxy, y.pt = x.pt → y.name = x.name → y.flows = x.flows → INV Q (store s y tr) :=
      fun y h1 h2 h3 => inv_store hQ h (q_of_lookup hQ h hl h1 h2 h3)
    have hsc : ∀ (y : Proxy) (out : String), y.pt = x.pt → y.name = x.name → y.flows = x.flows →
        INV Q (spawnChildren g (store s y tr) p n out tr forced) :=
      fun y out h1 h2 h3 => inv_spawnChildren hQ g p n out tr forced (hst y h1 h2 h3)
    have hfs : ∀ (y : Proxy) (m : String) (f : Bool), y.pt = x.pt → y.name = x.name → y.flows = x.flows →
        (setComplete g y m f).1.pt = x.pt ∧ (setComplete g y m f).1.name = x.name ∧
        (setComplete g y m f).1.flows = x.flows := by
      intro y m f h1 h2 h3
      have := setComplete_fields g y m f
      exact ⟨this.1.trans h1, this.2.1.trans h2, this.2.2.trans h3⟩
    repeat' split
    all_goals (try dsimp only)
    all_goals first
      | exact h
      | (apply inv_spawnChildren hQ; exact h)
      | (apply hsc <;> simp; done)
      | (apply hst <;> simp; done)
      | (apply hsc
         · exact (hfs _ _ _ (by simp) (by simp) (by simp)).1
         · exact (hfs _ _ _ (by simp) (by simp) (by simp)).2.1
         · exact (hfs _ _ _ (by simp) (by simp) (by simp)).2.2)
      | (apply inv_ite_fst
         · apply hst <;> simp
         · first
           | (apply hsc <;> simp; done)
           | (apply hsc
              · exact (hfs _ _ _ (by simp) (by simp) (by simp)).1
              · exact (hfs _ _ _ (by simp) (by simp) (by simp)).2.1
              · exact (hfs _ _ _ (by simp) (by simp) (by simp)).2.2))

theorem inv_processMessage (hQ : PInv Q) (g : Graph) : ∀ (fuel : Nat) (s : State) (p : Int) (n : String) (flag : Flag)
    (sn : Nat) (msg : String) (forced : Bool), INV Q s → INV Q (processMessage g fuel s p n flag sn msg forced).1 := by
  intro fuel
  induction fuel with
  | zero => intro s p n flag sn msg forced h; exact h
  | succ fuel ih =>
    intro s p n flag sn msg forced h
    unfold processMessage
    split
    · exact h
    · rename_i x tr hl
      split
      · exact h
      · split
        · exact h
        · dsimp only
          apply inv_handleMessage hQ
          apply foldl_inv (INV Q)
          · intro st m hst; exact ih st p n _ sn m forced hst
          · apply inv_store hQ h
            split
            · exact q_of_lookup hQ h hl rfl rfl rfl
            · have := setComplete_fields g x msg forced
              exact q_of_lookup hQ h hl this.1 this.2.1 this.2.2

theorem inv_forceOutput {acc : State × Bool} (hQ : PInv Q) (g : Graph) (p : Int) (n : String) (m : String)
    (h : INV Q acc.1) : INV Q (forceOutput g p n acc m).1 := by
  unfold forceOutput
  split
  · exact h
  · split
    · exact h
    · exact inv_processMessage hQ g 4 acc.1 p n _ _ m true h

theorem inv_setOutputsItask {s : State} (hQ : PInv Q) (g : Graph) (p : Int) (n : String) (outs : List String)
    (h : INV Q s) : INV Q (setOutputsItask g s p n outs) := by
  unfold setOutputsItask
  split
  · exact h
  · dsimp only
    have hR : ∀ (l : List String) (acc : State × Bool), INV Q acc.1 → INV Q (l.foldl (forceOutput g p n) acc).1 := by
      intro l; induction l with
      | nil => intro acc ha; exact ha
      | cons m l ih => intro acc ha; simp only [List.foldl_cons]; exact ih _ (inv_forceOutput hQ g p n m ha)
    generalize hRR : List.foldl (forceOutput g p n) (s, true) _ = R
    have hRp : INV Q R.1 := by rw [← hRR]; exact hR _ _ h
    split
    · exact hRp
    · rename_i x tr hl
      have hy : tr = false → Q R.1 (if (x.status != Status.waiting) = true then
          x.reset (queued := some false) (runahead := some false) else x) := by
        split
        · exact q_of_lookup hQ hRp hl (by simp) (by simp) (by simp)
        · exact q_of_lookup hQ hRp hl rfl rfl rfl
      split
      · exact inv_store hQ hRp hy
      · exact inv_flushDb hQ (inv_dbQueue hQ _ _ _ (inv_dbQueue hQ _ _ _ (inv_store hQ hRp hy)))

theorem inv_setPrePooled {s : State} (hQ : PInv Q) (g : Graph) (x : Proxy) (F : Flows) (v : List Atom) (a : Bool)
    (h : INV Q s) : INV Q (setPrePooled g s x F v a) := by
  unfold setPrePooled
  split
  · exact h
  · dsimp only
    have h1 := inv_mergeFlows hQ g x F h
    split
    · rename_i y hy
      exact inv_put hQ h1 (hQ.congr _ y _ rfl rfl rfl (q_of_get? h1 hy))
    · exact h1

theorem inv_setPreInactive {s : State} (hQ : PInv Q) (g : Graph) (p : Int) (n : String) (F : Flows) (w : Bool)
    (v : List Atom) (a : Bool) (h : INV Q s) : INV Q (setPreInactive g s p n F w v a) := by
  unfold setPreInactive
  split
  · exact h
  · dsimp only
    have hs := inv_spawnTask hQ g spawnFuel w s n p F h
    split
    · rename_i y hy
      exact inv_add hQ (inv_dbInsert hQ _ hs.1) (hQ.congr _ y _ rfl rfl rfl (hQ.ins _ y))
    · exact hs.1

theorem inv_setOutPooled {s : State} (hQ : PInv Q) (g : Graph) (x : Proxy) (F : Flows) (outs : List String)
    (h : INV Q s) : INV Q (setOutPooled g s x F outs) := by
  unfold setOutPooled
  exact inv_setOutputsItask hQ g _ _ outs (inv_mergeFlows hQ g x F h)

theorem inv_setOutInactive {s : State} (hQ : PInv Q) (g : Graph) (p : Int) (n : String) (F : Flows) (w : Bool)
    (outs : List String) (h : INV Q s) : INV Q (setOutInactive g s p n F w outs) := by
  unfold setOutInactive
  split
  · exact h
  · rename_i x0 _
    dsimp only
    apply inv_setOutputsItask hQ
    have hL := inv_loadHistoricalOutputs hQ g { x0 with flows := F, flowWait := w } h
    generalize loadHistoricalOutputs g s { x0 with flows := F, flowWait := w } = L at hL
    exact inv_of_eq hQ hL rfl rfl rfl

theorem cliFlows_prq (s : State) (f : FlowSpec) :
    (cliFlows s f).1.pool = s.pool ∧ (cliFlows s f).1.rows = s.rows ∧ (cliFlows s f).1.qIns = s.qIns := by
  have huse : ∀ (s : State) (n : Nat), (useFlow s n).pool = s.pool ∧ (useFlow s n).rows = s.rows ∧
      (useFlow s n).qIns = s.qIns := by
    intro s n; unfold useFlow; split <;> exact ⟨rfl, rfl, rfl⟩
  have hfold : ∀ (ns : List Nat) (s : State), (ns.foldl useFlow s).pool = s.pool ∧ (ns.foldl useFlow s).rows = s.rows ∧
      (ns.foldl useFlow s).qIns = s.qIns := by
    intro ns; induction ns with
    | nil => intro s; exact ⟨rfl, rfl, rfl⟩
    | cons a l ih =>
      intro s
      simp only [List.foldl_cons]
      have h1 := ih (useFlow s a)
      have h2 := huse s a
      exact ⟨h1.1.trans h2.1, h1.2.1.trans h2.2.1, h1.2.2.trans h2.2.2⟩
  cases f with
  | default => exact ⟨rfl, rfl, rfl⟩
  | none => exact ⟨rfl, rfl, rfl⟩
  | new =>
    unfold cliFlows newFlow
    dsimp only
    have := huse { s with flowCounter := skipKnown s.flowsKnown (s.flowsKnown.length + 1) (s.flowCounter + 1) }
      (skipKnown s.flowsKnown (s.flowsKnown.length + 1) (s.flowCounter + 1))
    exact this
  | nums ns =>
    unfold cliFlows
    dsimp only
    split <;> exact hfold ns s

theorem inv_setCmd {s : State} (hQ : PInv Q) (g : Graph) (id : Int × String) (outs : List String) (pre : PreSpec)
    (flow : FlowSpec) (wait : Bool) (h : INV Q s) : INV Q (setCmd g s id outs pre flow wait) := by
  unfold setCmd
  split
  · exact h
  · dsimp only
    have hC : INV Q (cliFlows s flow).1 := by
      have := cliFlows_prq s flow
      exact inv_of_eq hQ h this.1 this.2.1 this.2.2
    generalize cliFlows s flow = C at hC
    split
    · split
      · exact hC
      · split
        · exact inv_setPrePooled hQ g _ _ _ _ hC
        · exact inv_setOutPooled hQ g _ _ _ hC
    · split
      · exact hC
      · split
        · exact inv_setPreInactive hQ g _ _ _ _ _ _ hC
        · exact inv_setOutInactive hQ g _ _ _ _ _ hC

/-! ### main loop, holds -/

theorem inv_computeRunahead {s : State} (hQ : PInv Q) (g : Graph) (f : Bool) (h : INV Q s) :
    INV Q (computeRunahead g s f) := by
  unfold computeRunahead
  simp only
  split
  · exact h
  · split
    · exact inv_of_eq hQ h rfl rfl rfl
    · exact inv_of_eq hQ h rfl rfl rfl

theorem inv_releaseRunahead {s : State} (hQ : PInv Q) (g : Graph) (h : INV Q s) : INV Q (releaseRunahead g s).1 := by
  unfold releaseRunahead
  split
  · exact h
  · split
    · exact h
    · simp only
      apply foldl_inv (INV Q)
      · intro st x hst
        split
        · rename_i y hy
          exact inv_spawnNextParentless hQ g _
            (inv_put hQ hst (hQ.congr _ y _ (by simp) (by simp) (by simp) (q_of_get? hst hy)))
        · exact hst
      · exact h

theorem inv_releaseRunaheadN (hQ : PInv Q) (g : Graph) : ∀ (k : Nat) (s : State), INV Q s → INV Q (releaseRunaheadN g k s) := by
  intro k; induction k with
  | zero => intro s h; exact h
  | succ k ih =>
    intro s h
    unfold releaseRunaheadN
    simp only
    split
    · exact ih _ (inv_releaseRunahead hQ g h)
    · exact inv_releaseRunahead hQ g h

theorem inv_queueIfReady {s : State} (hQ : PInv Q) (x : Proxy) (h : INV Q s) (hx : Q s x) : INV Q (queueIfReady s x) := by
  unfold queueIfReady
  split
  · exact inv_put hQ h (hQ.congr _ x _ (by simp) (by simp) (by simp) hx)
  · exact h

theorem inv_sweepQueue {s : State} (hQ : PInv Q) (h : INV Q s) : INV Q (sweepQueue s) := by
  unfold sweepQueue
  apply foldl_inv (INV Q)
  · intro st x hst
    split
    · rename_i y hy
      have hyq : Q st y := q_of_get? hst hy
      split
      · have hy' : Q st { y with retryWait := false } := hQ.congr _ y _ rfl rfl rfl hyq
        exact inv_queueIfReady hQ _ (inv_put hQ hst hy') (q_put hQ hy')
      · exact hst
    · exact hst
  · exact h

theorem inv_releaseAndSubmit {s : State} (hQ : PInv Q) (h : INV Q s) : INV Q (releaseAndSubmit s) := by
  unfold releaseAndSubmit
  simp only
  split
  · exact h
  · have : ∀ (l : List Proxy), (∀ x ∈ l, ∀ st : State, RowsLe s st → Q st x) → ∀ (st : State), INV Q st → RowsLe s st →
        INV Q (l.foldl (fun (st : State) x =>
          { (st.put { ((x.reset (queued := some false)).reset (status := some .preparing)) with
              submitNum := x.submitNum + 1, live := true, timers := true }) with
            launched := st.launched ++ [(x.pt, x.name, x.submitNum + 1)] }) st) ∧
        RowsLe s (l.foldl (fun (st : State) x =>
          { (st.put { ((x.reset (queued := some false)).reset (status := some .preparing)) with
              submitNum := x.submitNum + 1, live := true, timers := true }) with
            launched := st.launched ++ [(x.pt, x.name, x.submitNum + 1)] }) st) := by
      intro l
      induction l with
      | nil => intro _ st hst hle; exact ⟨hst, hle⟩
      | cons a l ih =>
        intro hl st hst hle
        simp only [List.foldl_cons]
        apply ih (fun x hx => hl x (List.mem_cons_of_mem _ hx))
        · have hp : INV Q (st.put { ((a.reset (queued := some false)).reset (status := some .preparing)) with
              submitNum := a.submitNum + 1, live := true, timers := true }) :=
            inv_put hQ hst (hQ.congr _ a _ (by simp) (by simp) (by simp) (hl a List.mem_cons_self st hle))
          exact inv_of_eq hQ hp rfl rfl rfl
        · exact hle.trans (rowsLe_of_eq rfl rfl)
    have hfin := this (s.pool.filter fun x => x.queued && !x.held)
      (fun x hx st hle => hQ.mono _ _ _ hle (h.2 x (List.mem_filter.mp hx).1)) s h (RowsLe.refl s)
    exact inv_of_eq hQ hfin.1 rfl rfl rfl

theorem inv_processOne {acc : State × Bool} (hQ : PInv Q) (g : Graph) (p : Int) (n : String) (m : Msg) (h : INV Q acc.1) :
    INV Q (processOne g p n acc m).1 := by
  unfold processOne
  exact inv_processMessage hQ g 4 acc.1 p n _ _ _ false h

theorem inv_processGroup {st : State} (hQ : PInv Q) (g : Graph) (grp : (Int × String) × List Msg) (h : INV Q st) :
    INV Q (processGroup g st grp) := by
  unfold processGroup
  split
  · exact h
  · dsimp only
    have hR : INV Q (grp.2.foldl (processOne g grp.1.1 grp.1.2) (st, false)).1 := by
      apply foldl_inv (fun (a : State × Bool) => INV Q a.1)
      · intro a m ha; exact inv_processOne hQ g _ _ m ha
      · exact h
    generalize grp.2.foldl (processOne g grp.1.1 grp.1.2) (st, false) = R at hR
    split
    · exact inv_of_eq hQ hR rfl rfl rfl
    · exact hR

theorem inv_processQueue {s : State} (hQ : PInv Q) (g : Graph) (h : INV Q s) : INV Q (processQueue g s) := by
  unfold processQueue
  apply foldl_inv (INV Q)
  · intro st grp hst; exact inv_processGroup hQ g grp hst
  · exact inv_of_eq hQ h rfl rfl rfl

theorem inv_checkStalled {s : State} (hQ : PInv Q) (g : Graph) (h : INV Q s) : INV Q (checkStalled g s) := by
  unfold checkStalled
  split
  · exact h
  · split
    · exact h
    · split
      · exact inv_of_eq hQ h rfl rfl rfl
      · exact h

theorem inv_checkAutoShutdown {s : State} (hQ : PInv Q) (g : Graph) (h : INV Q s) : INV Q (checkAutoShutdown g s).1 := by
  unfold checkAutoShutdown
  split
  · exact h
  · simp only
    split
    · exact inv_checkStalled hQ g h
    · split
      · exact inv_checkStalled hQ g h
      · exact inv_of_eq hQ (inv_checkStalled hQ g h) rfl rfl rfl

theorem inv_putTaskPool {s : State} (hQ : PInv Q) (h : INV Q s) : INV Q (putTaskPool s) := by
  unfold putTaskPool
  apply foldl_inv (INV Q)
  · intro st x hst
    split
    · exact inv_dbQueue hQ _ _ _ hst
    · exact hst
  · exact h

theorem inv_finishLoop {s : State} (hQ : PInv Q) (g : Graph) (h : INV Q s) : INV Q (finishLoop g s) := by
  unfold finishLoop
  dsimp only
  have h1 : INV Q (if s.pool.any (·.upd) = true then { s with restartWait := false } else s) := by
    split
    · exact inv_of_eq hQ h rfl rfl rfl
    · exact h
  generalize (if s.pool.any (·.upd) = true then { s with restartWait := false } else s) = s1 at h1
  have h2 : INV Q (if (s.schedUpd || s.pool.any (·.upd)) = true then
      { putTaskPool s1 with stalled := false, schedUpd := false,
                            pool := (putTaskPool s1).pool.map fun x => { x with upd := false } }
    else s1) := by
    split
    · exact inv_map hQ (inv_putTaskPool hQ h1) (fun x => { x with upd := false }) rfl
        (fun y => ⟨rfl, rfl, rfl⟩) (rowsLe_of_eq rfl rfl)
    · exact h1
  generalize (if (s.schedUpd || s.pool.any (·.upd)) = true then
      { putTaskPool s1 with stalled := false, schedUpd := false,
                            pool := (putTaskPool s1).pool.map fun x => { x with upd := false } }
    else s1) = s2 at h2
  have h2' : INV Q { s2 with db := some s2.pool } := inv_of_eq hQ h2 rfl rfl rfl
  have h3 : INV Q (flushDb { s2 with db := some s2.pool }) := inv_flushDb hQ h2'
  split
  · exact inv_checkStalled hQ g h3
  · exact h3

theorem inv_stopTaskDone {s : State} (hQ : PInv Q) (h : INV Q s) : INV Q (stopTaskDone s).1 := by
  unfold stopTaskDone
  split
  · exact inv_of_eq hQ h rfl rfl rfl
  · exact h

theorem inv_mainLoop {s : State} (hQ : PInv Q) (g : Graph) (h : INV Q s) : INV Q (mainLoop g s) := by
  unfold mainLoop
  split
  · exact h
  · dsimp only
    have h1 := inv_releaseRunahead hQ g (inv_computeRunahead hQ g false h)
    generalize (releaseRunahead g (computeRunahead g s)).1 = s1 at h1
    have h2 : INV Q (if s1.stopMode.isNone = true then
        (if (stopTaskDone s1).2 = true then { (stopTaskDone s1).1 with stopMode := some "AUTOMATIC" }
         else if (checkAutoShutdown g (stopTaskDone s1).1).2 = true then
           { (checkAutoShutdown g (stopTaskDone s1).1).1 with stopMode := some "AUTOMATIC" }
         else (checkAutoShutdown g (stopTaskDone s1).1).1)
      else s1) := by
      split
      · split
        · exact inv_of_eq hQ (inv_stopTaskDone hQ h1) rfl rfl rfl
        · split
          · exact inv_of_eq hQ (inv_checkAutoShutdown hQ g (inv_stopTaskDone hQ h1)) rfl rfl rfl
          · exact inv_checkAutoShutdown hQ g (inv_stopTaskDone hQ h1)
      · exact h1
    generalize (if s1.stopMode.isNone = true then
        (if (stopTaskDone s1).2 = true then { (stopTaskDone s1).1 with stopMode := some "AUTOMATIC" }
         else if (checkAutoShutdown g (stopTaskDone s1).1).2 = true then
           { (checkAutoShutdown g (stopTaskDone s1).1).1 with stopMode := some "AUTOMATIC" }
         else (checkAutoShutdown g (stopTaskDone s1).1).1)
      else s1) = s2 at h2
    split
    · exact inv_of_eq hQ h2 rfl rfl rfl
    · apply inv_finishLoop hQ
      apply inv_processQueue hQ
      split
      · exact inv_releaseAndSubmit hQ (inv_sweepQueue hQ h2)
      · exact inv_sweepQueue hQ h2

theorem inv_holdActive {s : State} (hQ : PInv Q) (x : Proxy) (h : INV Q s) (hx : Q s x) : INV Q (holdActive s x) := by
  unfold holdActive
  dsimp only
  have h1 : INV Q (s.put (x.reset (held := some true))) :=
    inv_put hQ h (hQ.congr _ x _ (by simp) (by simp) (by simp) hx)
  split
  · exact h1
  · exact inv_of_eq hQ h1 rfl rfl rfl

theorem inv_setStopPoint {s : State} (hQ : PInv Q) (p : Int) (h : INV Q s) : INV Q (setStopPoint s p) := by
  unfold setStopPoint
  split
  · exact h
  · dsimp only
    split
    · split
      · exact inv_map hQ h (fun x => if x.pt > p && x.status == .waiting then x.reset (runahead := some true) else x) rfl
          (by intro y; split <;> simp) (rowsLe_of_eq rfl rfl)
      · exact inv_of_eq hQ h rfl rfl rfl
    · exact inv_of_eq hQ h rfl rfl rfl

theorem inv_setHoldPoint {s : State} (hQ : PInv Q) (p : Int) (h : INV Q s) : INV Q (setHoldPoint s p) := by
  unfold setHoldPoint
  dsimp only
  have h0 : INV Q { s with holdPoint := some p } := inv_of_eq hQ h rfl rfl rfl
  apply foldl_inv (INV Q)
  · intro st x hst
    split
    · split
      · rename_i y hy
        exact inv_holdActive hQ y hst (q_of_get? hst hy)
      · exact hst
    · exact hst
  · exact h0

theorem inv_holdTasks {s : State} (hQ : PInv Q) (ids : List (Int × String)) (h : INV Q s) : INV Q (holdTasks s ids) := by
  unfold holdTasks
  apply foldl_inv (INV Q)
  · intro st k hst
    split
    · rename_i y hy
      exact inv_holdActive hQ y hst (q_of_get? hst hy)
    · split
      · exact hst
      · exact inv_of_eq hQ hst rfl rfl rfl
  · exact h

theorem inv_releaseTasks {s : State} (hQ : PInv Q) (ids : List (Int × String)) (h : INV Q s) : INV Q (releaseTasks s ids) := by
  unfold releaseTasks
  apply foldl_inv (INV Q)
  · intro st k hst
    split
    · exact hst
    · split
      · rename_i y hy
        exact inv_releaseHeldActive hQ y hst (q_of_get? hst hy)
      · exact inv_of_eq hQ hst rfl rfl rfl
  · exact h

theorem inv_releaseHoldPoint {s : State} (hQ : PInv Q) (h : INV Q s) : INV Q (releaseHoldPoint s) := by
  unfold releaseHoldPoint
  dsimp only
  have h0 : INV Q { s with holdPoint := none } := inv_of_eq hQ h rfl rfl rfl
  have h1 : INV Q (s.pool.foldl (fun st x => match st.get? x.pt x.name with
    | some y => releaseHeldActive st y | none => st) { s with holdPoint := none }) := by
    apply foldl_inv (INV Q)
    · intro st x hst
      split
      · rename_i y hy
        exact inv_releaseHeldActive hQ y hst (q_of_get? hst hy)
      · exact hst
    · exact h0
  exact inv_of_eq hQ h1 rfl rfl rfl

/-! ### restart, start-up, all runs -/

theorem restoreProxy_fields (g : Graph) (rows : List Row) (x y : Proxy) (h : restoreProxy g rows x = some y) :
    y.pt = x.pt ∧ y.name = x.name ∧ y.flows = x.flows := by
  unfold restoreProxy at h
  split at h
  · cases h
  · simp only [Option.some.injEq] at h
    rw [← h]
    exact ⟨rfl, rfl, rfl⟩

theorem keys_filterMap_sublist (f : Proxy → Option Proxy) (hf : ∀ x y, f x = some y → y.key = x.key) :
    ∀ l : List Proxy, ((l.filterMap f).map Proxy.key).Sublist (l.map Proxy.key) := by
  intro l
  induction l with
  | nil => simp
  | cons a l ih =>
    simp only [List.filterMap_cons, List.map_cons]
    cases hfa : f a with
    | none => simp only; exact List.Sublist.cons _ ih
    | some b =>
      simp only [List.map_cons]
      rw [hf a b hfa]
      exact List.Sublist.cons_cons _ ih

theorem inv_reloaded {s : State} (hQ : PInv Q) (g : Graph) (h : INV Q s) (hq : s.qIns = []) : INV Q (reloaded g s) := by
  unfold reloaded
  dsimp only
  have hle : ∀ s' : State, s'.rows = s.rows → RowsLe s s' := by
    intro s' hr p n f ⟨r, hm, hk⟩
    refine ⟨r, Or.inl ?_, hk⟩
    rw [hr]
    rcases hm with hm | hm
    · exact hm
    · rw [hq] at hm; cases hm
  refine ⟨?_, ?_⟩
  · unfold ND keys
    exact List.Nodup.sublist (keys_filterMap_sublist (restoreProxy g s.rows) (by
      intro x y hxy
      have := restoreProxy_fields g s.rows x y hxy
      unfold Proxy.key; rw [this.1, this.2.1]) s.pool) h.1
  · intro y hy
    obtain ⟨x, hx, hxy⟩ := List.mem_filterMap.mp hy
    have hf := restoreProxy_fields g s.rows x y hxy
    exact hQ.congr _ x y hf.1 hf.2.1 hf.2.2 (hQ.mono s _ x (hle _ rfl) (h.2 x hx))

theorem qIns_flushDb (s : State) : (flushDb s).qIns = [] := rfl

theorem inv_restart {s : State} (hQ : PInv Q) (g : Graph) (h : INV Q s) : INV Q (restart g s) := by
  unfold restart
  dsimp only
  have h1 : INV Q (flushDb (putTaskPool s)) := inv_flushDb hQ (inv_putTaskPool hQ h)
  have hI := inv_reloaded hQ g h1 (qIns_flushDb _)
  generalize reloaded g (flushDb (putTaskPool s)) = s' at hI
  have h2 : INV Q (match s'.holdPoint with | some hp => setHoldPoint s' hp | none => s') := by
    split
    · exact inv_setHoldPoint hQ _ hI
    · exact hI
  exact inv_flushDb hQ h2

theorem inv_init (hQ : PInv Q) (g : Graph) : INV Q (init g) := by
  unfold init loadFromPoint
  dsimp only
  have h0 : INV Q (newFlow { stopPoint := g.stopPoint }).1 := by
    refine ⟨?_, ?_⟩
    · show ([] : List (Int × String)).Nodup
      exact List.nodup_nil
    · intro y hy
      have : (newFlow { stopPoint := g.stopPoint }).1.pool = [] := rfl
      rw [this] at hy; cases hy
  generalize newFlow { stopPoint := g.stopPoint } = N at h0
  have h1 : INV Q (g.tasks.foldl (fun st t =>
      match t.firstParentless with
      | some p => spawnAndAdd g st t.name p [N.2]
      | none => st) N.1) := by
    apply foldl_inv (INV Q)
    · intro st t hst
      split
      · exact inv_spawnAndAdd hQ g _ _ _ hst
      · exact hst
    · exact h0
  generalize (g.tasks.foldl (fun st t =>
      match t.firstParentless with
      | some p => spawnAndAdd g st t.name p [N.2]
      | none => st) N.1) = s1 at h1
  have h2 : INV Q (releaseRunaheadN g 10 (computeRunahead g s1)) :=
    inv_releaseRunaheadN hQ g 10 _ (inv_computeRunahead hQ g false h1)
  generalize releaseRunaheadN g 10 (computeRunahead g s1) = s2 at h2
  have h3 : INV Q (s2.pool.foldl (fun st x => match st.get? x.pt x.name with
      | some y => queueIfReady st y | none => st) s2) := by
    apply foldl_inv (INV Q)
    · intro st x hst
      split
      · rename_i y hy
        exact inv_queueIfReady hQ y hst (q_of_get? hst hy)
      · exact hst
    · exact h2
  exact inv_flushDb hQ h3

theorem inv_step (hQ : PInv Q) (g : Graph) (s : State) (op : Op) (h : INV Q s) : INV Q (step g s op) := by
  unfold step
  dsimp only
  have hc : INV Q (clearOp s) := inv_of_eq hQ h rfl rfl rfl
  generalize clearOp s = c at hc
  cases op with
  | loop => exact inv_mainLoop hQ g hc
  | subres p n ok sn => exact inv_processMessage hQ g 4 c p n _ sn _ false hc
  | msg p n sn text => exact inv_of_eq hQ hc rfl rfl rfl
  | hold ids => exact inv_holdTasks hQ ids hc
  | release ids => exact inv_releaseTasks hQ ids hc
  | setHoldPoint p => exact inv_setHoldPoint hQ p hc
  | releaseHoldPoint => exact inv_releaseHoldPoint hQ hc
  | stop mode => exact inv_of_eq hQ hc rfl rfl rfl
  | stopPoint p => exact inv_setStopPoint hQ p hc
  | stopTask p n => exact inv_of_eq hQ hc rfl rfl rfl
  | pause => exact inv_of_eq hQ hc rfl rfl rfl
  | resume => exact inv_of_eq hQ hc rfl rfl rfl
  | restart => exact inv_restart hQ g hc
  | set ids outs pre flow wait =>
    dsimp only
    split
    · exact inv_setCmd hQ g _ outs pre flow wait hc
    · exact hc

/-- **`INV Q` holds in every state of every run** (any instance graph, any list of main loops, submit results, job
messages, hold / stop / pause commands, `cylc set` commands and restarts) -/
theorem inv_run (hQ : PInv Q) (g : Graph) (ops : List Op) : ∀ s ∈ run g ops, INV Q s :=
  run_inv (INV Q) g (inv_init hQ g) (inv_step hQ g) ops

end

end CylcModel.Sched3Set
