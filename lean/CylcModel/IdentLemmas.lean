/-
Helper lemmas for C23 (component `Ident`): the splitter undoes the printer.
-/
import CylcModel.Ident

namespace CylcModel.Ident
open CylcModel.Generated.IdentTables

/-! ## generic list splitting -/

theorem spanP_append (p : Char → Bool) (x r : Str) (hx : ∀ c ∈ x, p c = true)
    (hr : r = [] ∨ ∃ d r', r = d :: r' ∧ p d = false) : spanP p (x ++ r) = (x, r) := by
  induction x with
  | nil =>
    rcases hr with rfl | ⟨d, r', rfl, hd⟩
    · rfl
    · simp [spanP, hd]
  | cons a x ih =>
    have ha : p a = true := hx a (by simp)
    have ih' := ih (fun c hc => hx c (by simp [hc]))
    simp [spanP, ha, ih']

theorem splitLast_append (sep : Char) (x y : Str) (hy : sep ∉ y) :
    splitLast sep (x ++ sep :: y) = some (x, y) := by
  have hnone : splitLast sep y = none := by
    induction y with
    | nil => rfl
    | cons b y ih =>
      have hb : b ≠ sep := fun h => hy (by simp [h])
      have := ih (fun h => hy (by simp [h]))
      simp [splitLast, this, hb]
  induction x with
  | nil => simp [splitLast, hnone]
  | cons a x ih => simp [splitLast, ih]

theorem splitLast_none (sep : Char) (y : Str) (hy : sep ∉ y) : splitLast sep y = none := by
  induction y with
  | nil => rfl
  | cons b y ih =>
    have hb : b ≠ sep := fun h => hy (by simp [h])
    have := ih (fun h => hy (by simp [h]))
    simp [splitLast, this, hb]

theorem splitLast_some {sep : Char} {a x y : Str} (h : splitLast sep a = some (x, y)) :
    a = x ++ sep :: y ∧ sep ∉ y := by
  induction a generalizing x y with
  | nil => simp [splitLast] at h
  | cons c cs ih =>
    unfold splitLast at h
    split at h
    · rename_i a' b' heq
      simp at h
      obtain ⟨rfl, rfl⟩ := h
      have := ih heq
      exact ⟨by simp [this.1], this.2⟩
    · rename_i hnone
      split at h
      · rename_i hc
        simp at h
        obtain ⟨rfl, rfl⟩ := h
        subst hc
        refine ⟨rfl, ?_⟩
        intro hmem
        -- a separator in cs would have produced a split
        have : ∀ (l : Str), c ∈ l → splitLast c l ≠ none := by
          intro l
          induction l with
          | nil => simp
          | cons d l ihl =>
            intro hm
            unfold splitLast
            cases hs : splitLast c l with
            | some p => simp
            | none =>
              simp only
              by_cases hd : d = c
              · simp [hd]
              · have : c ∈ l := by
                  rcases List.mem_cons.mp hm with h1 | h1
                  · exact absurd h1.symm hd
                  · exact h1
                exact absurd hs (ihl this)
        exact this cs hmem hnone
      · simp at h

theorem splitFirst_append (sep : Char) (x y : Str) (hx : sep ∉ x) :
    splitFirst sep (x ++ sep :: y) = some (x, y) := by
  induction x with
  | nil => simp [splitFirst]
  | cons a x ih =>
    have ha : a ≠ sep := fun h => hx (by simp [h])
    have := ih (fun h => hx (by simp [h]))
    simp [splitFirst, ha, this]

theorem splitFirst_none (sep : Char) (y : Str) (hy : sep ∉ y) : splitFirst sep y = none := by
  induction y with
  | nil => rfl
  | cons b y ih =>
    have hb : b ≠ sep := fun h => hy (by simp [h])
    have := ih (fun h => hy (by simp [h]))
    simp [splitFirst, this, hb]

theorem chomp_of_not_mem (s : Str) (h : '\n' ∉ s) : chomp s = s := by
  induction s with
  | nil => rfl
  | cons a s ih =>
    cases s with
    | nil =>
      have : a ≠ '\n' := fun e => h (by simp [e])
      simp [chomp, this]
    | cons b s =>
      have := ih (fun hm => h (List.mem_cons_of_mem _ hm))
      simp [chomp, this]

/-! ## str.strip -/

theorem pyStrip_of_stripped (s : Str) (h : stripped s = true) : pyStrip s = s := by
  cases s with
  | nil => simp [stripped] at h
  | cons c cs =>
    simp only [stripped, Bool.and_eq_true, Bool.not_eq_true'] at h
    obtain ⟨hc, hl⟩ := h
    unfold pyStrip
    have h1 : (c :: cs).dropWhile isWs = c :: cs := by simp [List.dropWhile, hc]
    rw [h1]
    cases hr : (c :: cs).reverse with
    | nil => simp at hr
    | cons d l =>
      have hd : (c :: cs).getLast? = some d := by
        rw [← List.head?_reverse, hr]; rfl
      rw [hd] at hl
      simp only [Option.getD_some] at hl
      have h2 : (d :: l).dropWhile isWs = d :: l := by simp [List.dropWhile, hl]
      rw [h2, ← hr, List.reverse_reverse]

theorem stripped_ne_nil {s : Str} (h : stripped s = true) : s ≠ [] := by
  intro e; subst e; simp [stripped] at h

theorem stripOpt_of_stripped (s : Str) (h : stripped s = true) : stripOpt (some s) = some s := by
  cases s with
  | nil => simp [stripped] at h
  | cons c cs => simp [stripOpt, pyStrip_of_stripped _ h]

/-! ## numbers -/

theorem digitCh_iff (c : Char) : digitCh c = true ↔ c ∈ asciiDigits := by
  simp [digitCh]

theorem digitChar_digit (d : Nat) (h : d < 10) : digitCh (digitChar d) = true := by
  have : d = 0 ∨ d = 1 ∨ d = 2 ∨ d = 3 ∨ d = 4 ∨ d = 5 ∨ d = 6 ∨ d = 7 ∨ d = 8 ∨ d = 9 := by omega
  rcases this with rfl | rfl | rfl | rfl | rfl | rfl | rfl | rfl | rfl | rfl <;> decide

theorem digitVal_digitChar (d : Nat) (h : d < 10) : digitVal (digitChar d) = d := by
  have : d = 0 ∨ d = 1 ∨ d = 2 ∨ d = 3 ∨ d = 4 ∨ d = 5 ∨ d = 6 ∨ d = 7 ∨ d = 8 ∨ d = 9 := by omega
  rcases this with rfl | rfl | rfl | rfl | rfl | rfl | rfl | rfl | rfl | rfl <;> decide

theorem natDigitsAux_all (fuel n : Nat) (acc : Str) (hacc : ∀ c ∈ acc, digitCh c = true) :
    ∀ c ∈ natDigitsAux fuel n acc, digitCh c = true := by
  induction fuel generalizing n acc with
  | zero => simpa [natDigitsAux] using hacc
  | succ f ih =>
    unfold natDigitsAux
    split
    · rename_i hn
      intro c hc
      rcases List.mem_cons.mp hc with rfl | hc
      · exact digitChar_digit n hn
      · exact hacc c hc
    · apply ih
      intro c hc
      rcases List.mem_cons.mp hc with rfl | hc
      · exact digitChar_digit _ (Nat.mod_lt _ (by decide))
      · exact hacc c hc

theorem natDigits_all (n : Nat) : ∀ c ∈ natDigits n, digitCh c = true :=
  natDigitsAux_all _ _ _ (by simp)

theorem natDigitsAux_ne_nil (fuel n : Nat) (acc : Str) (h : 0 < fuel) : natDigitsAux fuel n acc ≠ [] := by
  induction fuel generalizing n acc with
  | zero => omega
  | succ f ih =>
    unfold natDigitsAux
    split
    · simp
    · cases f with
      | zero => simp [natDigitsAux]
      | succ f => exact ih _ _ (by omega)

theorem natDigits_ne_nil (n : Nat) : natDigits n ≠ [] := natDigitsAux_ne_nil _ _ _ (by omega)

theorem decVal_foldl (s : Str) (a : Nat) :
    s.foldl (fun a c => a * 10 + digitVal c) a = a * 10 ^ s.length + decVal s := by
  induction s generalizing a with
  | nil => simp [decVal]
  | cons c cs ih =>
    simp only [List.foldl_cons, List.length_cons, decVal]
    rw [ih, ih (0 * 10 + digitVal c)]
    simp [Nat.pow_succ, Nat.add_mul, Nat.mul_assoc, Nat.mul_comm 10, Nat.add_assoc]

theorem decVal_cons (c : Char) (cs : Str) : decVal (c :: cs) = digitVal c * 10 ^ cs.length + decVal cs := by
  have := decVal_foldl cs (digitVal c)
  simpa [decVal] using this

theorem decVal_natDigitsAux (fuel n : Nat) (acc : Str) (h : n < fuel) :
    decVal (natDigitsAux fuel n acc) = n * 10 ^ acc.length + decVal acc := by
  induction fuel generalizing n acc with
  | zero => omega
  | succ f ih =>
    unfold natDigitsAux
    split
    · rename_i hn
      rw [decVal_cons, digitVal_digitChar n hn]
    · rename_i hn
      have hlt : n / 10 < f := by omega
      rw [ih _ _ hlt, decVal_cons, digitVal_digitChar _ (Nat.mod_lt _ (by decide))]
      simp only [List.length_cons, Nat.pow_succ]
      have := Nat.div_add_mod n 10
      calc n / 10 * (10 ^ acc.length * 10) + (n % 10 * 10 ^ acc.length + decVal acc)
          = (10 * (n / 10) + n % 10) * 10 ^ acc.length + decVal acc := by
            rw [Nat.add_mul, Nat.mul_comm 10 (n / 10), Nat.mul_assoc, Nat.mul_comm 10, Nat.add_assoc]
        _ = n * 10 ^ acc.length + decVal acc := by rw [this]

theorem decVal_natDigits (n : Nat) : decVal (natDigits n) = n := by
  have := decVal_natDigitsAux (n + 1) n [] (by omega)
  simpa [natDigits, decVal] using this

theorem digit_not_ws (c : Char) (h : digitCh c = true) : isWs c = false := by
  have hall : ∀ d ∈ asciiDigits, isWs d = false := by decide
  exact hall c ((digitCh_iff c).mp h)

theorem parseDigits_digits (s : Str) (acc : Nat) (prev : Bool) (hd : ∀ c ∈ s, digitCh c = true)
    (hne : s ≠ [] ∨ prev = true) :
    parseDigits s acc prev = some (s.foldl (fun a c => a * 10 + digitVal c) acc) := by
  induction s generalizing acc prev with
  | nil =>
    rcases hne with h | h
    · exact absurd rfl h
    · simp [parseDigits, h]
  | cons c cs ih =>
    have hc : digitCh c = true := hd c (by simp)
    have hu : c ≠ '_' := by
      intro e; subst e; revert hc; decide
    unfold parseDigits
    simp only [hu, if_false, hc, if_true, List.foldl_cons]
    exact ih _ true (fun d hdm => hd d (by simp [hdm])) (Or.inr rfl)

theorem stripped_of_digits (j : Str) (hne : j ≠ []) (hd : ∀ c ∈ j, digitCh c = true) : stripped j = true := by
  cases j with
  | nil => exact absurd rfl hne
  | cons c cs =>
    have h1 : isWs c = false := digit_not_ws c (hd c (by simp))
    have hl : ∃ d, (c :: cs).getLast? = some d ∧ d ∈ (c :: cs) := by
      have := List.getLast?_eq_some_getLast (l := c :: cs) (by simp)
      exact ⟨_, this, List.getLast_mem _⟩
    obtain ⟨d, hd1, hd2⟩ := hl
    simp [stripped, h1, hd1, digit_not_ws d (hd d hd2)]

theorem pyInt_digits (j : Str) (hne : j ≠ []) (hd : ∀ c ∈ j, digitCh c = true) :
    pyInt j = some (decVal j : Int) := by
  unfold pyInt
  rw [pyStrip_of_stripped j (stripped_of_digits j hne hd)]
  have hp := parseDigits_digits j 0 false hd (Or.inl hne)
  cases j with
  | nil => exact absurd rfl hne
  | cons c cs =>
    have hc : digitCh c = true := hd c (by simp)
    have h1 : c ≠ '-' := by intro e; subst e; revert hc; decide
    have h2 : c ≠ '+' := by intro e; subst e; revert hc; decide
    split
    · rename_i heq; simp at heq; exact absurd heq.1 h1
    · rename_i heq; simp at heq; exact absurd heq.1 h2
    · rw [hp]; simp [decVal]

theorem fmt02_nat (n : Nat) :
    fmt02 (n : Int) = (if (natDigits n).length < 2 then '0' :: natDigits n else natDigits n) := by
  unfold fmt02
  have : ¬ ((n : Int) < 0) := by omega
  simp [this]

/-! ## facts about the generated tables (re-checked by the kernel whenever a class changes) -/

theorem digit_jobCh (c : Char) (h : digitCh c = true) : jobCh c = true := by
  have hall : ∀ d ∈ asciiDigits, jobCh d = true := by decide
  exact hall c ((digitCh_iff c).mp h)

theorem notIn_false_of_mem {ex : List Char} {c : Char} (h : c ∈ ex) : notIn ex c = false := by
  simp [notIn, h]

theorem notIn_of_subset {ex ex' : List Char} (hsub : ∀ c ∈ ex', c ∈ ex) (c : Char) (h : notIn ex c = true) :
    notIn ex' c = true := by
  simp only [notIn, Bool.not_eq_true', List.contains_eq_mem, decide_eq_false_iff_not] at h ⊢
  exact fun hm => h (hsub c hm)

theorem not_mem_of_all {cls : Char → Bool} {s : Str} {x : Char} (hx : cls x = false)
    (h : ∀ c ∈ s, cls c = true) : x ∉ s := by
  intro hm
  have := h x hm
  rw [hx] at this
  exact Bool.noConfusion this

/-! ## the selector suffix -/

theorem optSel_suffix (cls : Char → Bool) (b : Bool) (sel : Option Str) (r : Str)
    (hsel : ∀ s, sel = some s → s ≠ [] ∧ ∀ c ∈ s, cls c = true)
    (hslash : cls '/' = false)
    (hr : r = [] ∨ ∃ r', r = '/' :: r') :
    optSel cls (selSuffix b sel ++ r) = some (keepSel b sel, r) := by
  have hplain : optSel cls r = some (none, r) := by
    rcases hr with rfl | ⟨r', rfl⟩
    · rfl
    · rfl
  cases sel with
  | none => cases b <;> simpa [selSuffix, keepSel] using hplain
  | some s =>
    cases b with
    | false => simpa [selSuffix, keepSel] using hplain
    | true =>
      obtain ⟨hne, hall⟩ := hsel s rfl
      have hsp : spanP cls (s ++ r) = (s, r) := by
        apply spanP_append _ _ _ hall
        rcases hr with rfl | ⟨r', rfl⟩
        · exact Or.inl rfl
        · exact Or.inr ⟨'/', r', rfl, hslash⟩
      cases s with
      | nil => exact absurd rfl hne
      | cons a s' =>
        simp only [selSuffix, if_true, List.cons_append, optSel, keepSel]
        rw [show a :: (s' ++ r) = (a :: s') ++ r from rfl, hsp]
        simp

theorem selSuffix_head (b : Bool) (sel : Option Str) (r : Str) (hr : r = [] ∨ ∃ r', r = '/' :: r') :
    selSuffix b sel ++ r = [] ∨ (∃ r', selSuffix b sel ++ r = ':' :: r') ∨ (∃ r', selSuffix b sel ++ r = '/' :: r') := by
  cases sel with
  | none =>
    rcases hr with rfl | ⟨r', rfl⟩
    · left; simp [selSuffix]
    · right; right; exact ⟨r', by simp [selSuffix]⟩
  | some s =>
    cases b with
    | true => right; left; exact ⟨s ++ r, by simp [selSuffix]⟩
    | false =>
      rcases hr with rfl | ⟨r', rfl⟩
      · left; simp [selSuffix]
      · right; right; exact ⟨r', by simp [selSuffix]⟩

/-- `spanP` over a field followed by `[:sel]` and then the end or a slash -/
theorem spanP_field (cls : Char → Bool) (x : Str) (b : Bool) (sel : Option Str) (r : Str)
    (hx : ∀ c ∈ x, cls c = true) (hcolon : cls ':' = false) (hslash : cls '/' = false)
    (hr : r = [] ∨ ∃ r', r = '/' :: r') :
    spanP cls (x ++ (selSuffix b sel ++ r)) = (x, selSuffix b sel ++ r) := by
  apply spanP_append _ _ _ hx
  rcases selSuffix_head b sel r hr with h | ⟨r', h⟩ | ⟨r', h⟩
  · exact Or.inl h
  · exact Or.inr ⟨':', r', h, hcolon⟩
  · exact Or.inr ⟨'/', r', h, hslash⟩

/-! ## job / task / cycle levels of the splitter -/

theorem isEmpty_false_of_ne {x : Str} (h : x ≠ []) : x.isEmpty = false := by
  cases x with
  | nil => exact absurd rfl h
  | cons _ _ => rfl

theorem parseJob_spec (t0 : Tokens) (j : Str) (b : Bool) (js : Option Str)
    (hj : j ≠ []) (hja : ∀ c ∈ j, jobCh c = true)
    (hjs : ∀ s, js = some s → s ≠ [] ∧ ∀ c ∈ s, jobSelCh c = true) :
    parseJob t0 (j ++ selSuffix b js) = some { t0 with job := some j, jobSel := keepSel b js } := by
  unfold parseJob
  have h1 := spanP_field jobCh j b js [] hja (by decide) (by decide) (Or.inl rfl)
  simp only [List.append_nil] at h1
  have h2 := optSel_suffix jobSelCh b js [] hjs (by decide) (Or.inl rfl)
  simp only [List.append_nil] at h2
  simp only [h1, h2, isEmpty_false_of_ne hj]
  simp

/-- task level, nothing after it -/
theorem parseTask_end (t0 : Tokens) (k : Str) (b : Bool) (ts : Option Str)
    (hk : k ≠ []) (hka : ∀ c ∈ k, taskCh c = true)
    (hts : ∀ s, ts = some s → s ≠ [] ∧ ∀ c ∈ s, taskSelCh c = true) :
    parseTask t0 (k ++ selSuffix b ts) = some { t0 with task := some k, taskSel := keepSel b ts } := by
  unfold parseTask
  have h1 := spanP_field taskCh k b ts [] hka (by decide) (by decide) (Or.inl rfl)
  simp only [List.append_nil] at h1
  have h2 := optSel_suffix taskSelCh b ts [] hts (by decide) (Or.inl rfl)
  simp only [List.append_nil] at h2
  simp only [h1, h2, isEmpty_false_of_ne hk]
  simp

/-- task level followed by `/job...` -/
theorem parseTask_job (t0 : Tokens) (k : Str) (b : Bool) (ts : Option Str) (a : Char) (r : Str)
    (hk : k ≠ []) (hka : ∀ c ∈ k, taskCh c = true)
    (hts : ∀ s, ts = some s → s ≠ [] ∧ ∀ c ∈ s, taskSelCh c = true) :
    parseTask t0 (k ++ (selSuffix b ts ++ '/' :: a :: r))
      = parseJob { t0 with task := some k, taskSel := keepSel b ts } (a :: r) := by
  unfold parseTask
  have h1 := spanP_field taskCh k b ts ('/' :: a :: r) hka (by decide) (by decide) (Or.inr ⟨_, rfl⟩)
  have h2 := optSel_suffix taskSelCh b ts ('/' :: a :: r) hts (by decide) (Or.inr ⟨_, rfl⟩)
  simp only [h1, h2, isEmpty_false_of_ne hk]
  simp

theorem cycleOk_iff (c : Str) : cycleOk c = true ↔ ∃ a cs, c = a :: cs ∧ cyc0Ch a = true ∧ ∀ d ∈ cs, cycCh d = true := by
  cases c with
  | nil => simp [cycleOk]
  | cons a cs =>
    simp only [cycleOk, Bool.and_eq_true, List.all_eq_true]
    constructor
    · intro h; exact ⟨a, cs, rfl, h⟩
    · rintro ⟨a', cs', heq, h⟩
      simp at heq
      obtain ⟨rfl, rfl⟩ := heq
      exact h

/-- the cycle text followed by its selector is split back, unless the cycle itself ends in `:tail` and no selector follows -/
theorem cycleSeg_spec (c : Str) (b : Bool) (cs : Option Str)
    (hc : cycleOk c = true)
    (hcs : ∀ s, cs = some s → s ≠ [] ∧ ∀ d ∈ s, cycSelCh d = true)
    (hamb : keepSel b cs = none → ∀ h tl, splitLast ':' c = some (h, tl) → tl = []) :
    cycleSeg (c ++ selSuffix b cs) = some (c, keepSel b cs) := by
  have plain : keepSel b cs = none → cycleSeg c = some (c, none) := by
    intro hk
    unfold cycleSeg
    cases hs : splitLast ':' c with
    | none => simp [hc]
    | some p =>
      obtain ⟨h, tl⟩ := p
      have := hamb hk h tl hs
      subst this
      simp [selOk, hc]
  cases cs with
  | none => simpa [selSuffix, keepSel] using plain (by simp [keepSel])
  | some s =>
    cases b with
    | false => simpa [selSuffix, keepSel] using plain (by simp [keepSel])
    | true =>
      obtain ⟨hne, hall⟩ := hcs s rfl
      have hcolon : ':' ∉ s := not_mem_of_all (cls := cycSelCh) (by decide) hall
      have : selOk cycSelCh s = true := by
        simp [selOk, isEmpty_false_of_ne hne, List.all_eq_true]
        exact hall
      simp only [selSuffix, if_true, cycleSeg, splitLast_append ':' c s hcolon, hc, this, keepSel]
      simp

theorem ne_of_cls_false {cls : Char → Bool} {x d : Char} (hx : cls x = false) (hd : cls d = true) : (d != x) = true := by
  simp only [bne_iff_ne, ne_eq]
  intro e; subst e; rw [hx] at hd; exact Bool.noConfusion hd

theorem cycle_noSlash (c : Str) (hc : cycleOk c = true) : ∀ d ∈ c, (d != '/') = true := by
  obtain ⟨a, cs, rfl, ha, hcs⟩ := (cycleOk_iff c).mp hc
  intro d hd
  rcases List.mem_cons.mp hd with rfl | hd
  · exact ne_of_cls_false (cls := cyc0Ch) (by decide) ha
  · exact ne_of_cls_false (cls := cycCh) (by decide) (hcs d hd)

theorem selSuffix_noSlash (b : Bool) (cs : Option Str)
    (hcs : ∀ s, cs = some s → s ≠ [] ∧ ∀ d ∈ s, cycSelCh d = true) : ∀ d ∈ selSuffix b cs, (d != '/') = true := by
  cases cs with
  | none => simp [selSuffix]
  | some s =>
    cases b with
    | false => simp [selSuffix]
    | true =>
      intro d hd
      simp only [selSuffix, if_true, List.mem_cons] at hd
      rcases hd with rfl | hd
      · decide
      · exact ne_of_cls_false (cls := cycSelCh) (by decide) ((hcs s rfl).2 d hd)

theorem span_cycle (c : Str) (b : Bool) (cs : Option Str) (rt : Str)
    (hc : cycleOk c = true) (hcs : ∀ s, cs = some s → s ≠ [] ∧ ∀ d ∈ s, cycSelCh d = true)
    (hrt : rt = [] ∨ ∃ r', rt = '/' :: r') :
    spanP (· != '/') (c ++ (selSuffix b cs ++ rt)) = (c ++ selSuffix b cs, rt) := by
  rw [← List.append_assoc]
  apply spanP_append
  · intro d hd
    rcases List.mem_append.mp hd with h | h
    · exact cycle_noSlash c hc d h
    · exact selSuffix_noSlash b cs hcs d h
  · rcases hrt with rfl | ⟨r', rfl⟩
    · exact Or.inl rfl
    · exact Or.inr ⟨'/', r', rfl, by decide⟩

theorem parseRel_end (t0 : Tokens) (c : Str) (b : Bool) (cs : Option Str)
    (hc : cycleOk c = true) (hcs : ∀ s, cs = some s → s ≠ [] ∧ ∀ d ∈ s, cycSelCh d = true)
    (hamb : keepSel b cs = none → ∀ h tl, splitLast ':' c = some (h, tl) → tl = []) :
    parseRel t0 (c ++ selSuffix b cs) = some { t0 with cycle := some c, cycleSel := keepSel b cs } := by
  unfold parseRel
  have h1 := span_cycle c b cs [] hc hcs (Or.inl rfl)
  simp only [List.append_nil] at h1
  simp only [h1, cycleSeg_spec c b cs hc hcs hamb]

theorem parseRel_task (t0 : Tokens) (c : Str) (b : Bool) (cs : Option Str) (a : Char) (r : Str)
    (hc : cycleOk c = true) (hcs : ∀ s, cs = some s → s ≠ [] ∧ ∀ d ∈ s, cycSelCh d = true)
    (hamb : keepSel b cs = none → ∀ h tl, splitLast ':' c = some (h, tl) → tl = []) :
    parseRel t0 (c ++ (selSuffix b cs ++ '/' :: a :: r))
      = parseTask { t0 with cycle := some c, cycleSel := keepSel b cs } (a :: r) := by
  unfold parseRel
  have h1 := span_cycle c b cs ('/' :: a :: r) hc hcs (Or.inr ⟨_, rfl⟩)
  simp only [h1, cycleSeg_spec c b cs hc hcs hamb]

/-! ## the padded job -/

theorem jobOk_cases {j : Str} (h : jobOk j = true) : j = strNN ∨ (j ≠ strNN ∧ j ≠ [] ∧ ∀ c ∈ j, digitCh c = true) := by
  by_cases e : j = strNN
  · exact Or.inl e
  · right
    simp only [jobOk, e, decide_false, Bool.false_or, Bool.and_eq_true, Bool.not_eq_true',
      List.all_eq_true] at h
    refine ⟨e, ?_, h.2⟩
    intro e2; subst e2; simp at h

theorem padJob_NN : padJob strNN = strNN := by simp [padJob]

theorem padJob_digits {j : Str} (hne : j ≠ strNN) :
    padJob j = (if (natDigits (decVal j)).length < 2 then '0' :: natDigits (decVal j) else natDigits (decVal j)) := by
  simp [padJob, hne]

theorem padJob_all_digit_or_NN {j : Str} (h : jobOk j = true) :
    padJob j = strNN ∨ (padJob j ≠ strNN ∧ padJob j ≠ [] ∧ ∀ c ∈ padJob j, digitCh c = true) := by
  rcases jobOk_cases h with rfl | ⟨hne, _, _⟩
  · exact Or.inl padJob_NN
  · right
    have hall : ∀ c ∈ padJob j, digitCh c = true := by
      rw [padJob_digits hne]
      split
      · intro c hc
        rcases List.mem_cons.mp hc with rfl | hc
        · decide
        · exact natDigits_all _ c hc
      · exact natDigits_all _
    have hnn : padJob j ≠ [] := by
      rw [padJob_digits hne]
      split
      · simp
      · exact natDigits_ne_nil _
    refine ⟨?_, hnn, hall⟩
    intro e
    have := hall 'N' (by rw [e]; simp [strNN])
    revert this; decide

theorem padJob_jobOk {j : Str} (h : jobOk j = true) : jobOk (padJob j) = true := by
  rcases padJob_all_digit_or_NN h with e | ⟨hne, hnn, hall⟩
  · rw [e]; decide
  · simp only [jobOk, hne, decide_false, Bool.false_or, Bool.and_eq_true, Bool.not_eq_true',
      List.all_eq_true]
    exact ⟨isEmpty_false_of_ne hnn, hall⟩

theorem jobOk_facts {j : Str} (h : jobOk j = true) :
    j ≠ [] ∧ (∀ c ∈ j, jobCh c = true) ∧ stripped j = true := by
  rcases jobOk_cases h with rfl | ⟨_, hnn, hall⟩
  · refine ⟨by decide, by decide, by decide⟩
  · exact ⟨hnn, fun c hc => digit_jobCh c (hall c hc), stripped_of_digits j hnn hall⟩

theorem decVal_zero_cons (d : Str) : decVal ('0' :: d) = decVal d := by
  rw [decVal_cons]; simp [digitVal]

theorem padJob_idem {j : Str} (h : jobOk j = true) : padJob (padJob j) = padJob j := by
  rcases jobOk_cases h with rfl | ⟨hne, _, _⟩
  · simp [padJob_NN]
  · rcases padJob_all_digit_or_NN h with e | ⟨hne2, _, _⟩
    · rw [e, padJob_NN]
    · rw [padJob_digits hne2]
      have hv : decVal (padJob j) = decVal j := by
        rw [padJob_digits hne]
        split
        · rw [decVal_zero_cons, decVal_natDigits]
        · rw [decVal_natDigits]
      rw [hv, ← padJob_digits hne]

/-! ## what `wf` says -/

def FieldP (cls : Char → Bool) (x : Option Str) : Prop :=
  ∀ s, x = some s → s ≠ [] ∧ (∀ c ∈ s, cls c = true) ∧ stripped s = true

theorem fieldP_of_optOk {cls : Char → Bool} {x : Option Str} (h : optOk (fieldOk cls) x = true) : FieldP cls x := by
  intro s hs
  subst hs
  simp only [optOk, fieldOk, Bool.and_eq_true, List.all_eq_true] at h
  exact ⟨stripped_ne_nil h.2, h.1, h.2⟩

structure WF (t : Tokens) : Prop where
  user : FieldP userCh t.user
  workflow : ∀ w, t.workflow = some w → wfShape w = true ∧ stripped w = true
  workflowSel : FieldP wfSelCh t.workflowSel
  cycle : ∀ c, t.cycle = some c → cycleOk c = true ∧ stripped c = true
  cycleSel : FieldP cycSelCh t.cycleSel
  task : FieldP taskCh t.task
  taskSel : FieldP taskSelCh t.taskSel
  job : ∀ j, t.job = some j → jobOk j = true
  jobSel : FieldP jobSelCh t.jobSel
  wsel_wf : t.workflowSel.isSome → t.workflow.isSome
  csel_c : t.cycleSel.isSome → t.cycle.isSome
  tsel_t : t.taskSel.isSome → t.task.isSome
  jsel_j : t.jobSel.isSome → t.job.isSome
  job_task : t.job.isSome → t.task.isSome
  task_cycle : t.task.isSome → t.cycle.isSome
  user_cycle_wf : t.user.isSome → t.cycle.isSome → t.workflow.isSome
  nonempty : t.user.isSome ∨ t.workflow.isSome ∨ t.cycle.isSome

theorem isNone_or_isSome_imp {α} {a b : Option α} (h : (a.isNone || b.isSome) = true) : a.isSome → b.isSome := by
  cases a <;> cases b <;> simp_all

theorem WF_of_wf {t : Tokens} (h : wf t = true) : WF t := by
  simp only [wf, Bool.and_eq_true] at h
  obtain ⟨⟨⟨⟨⟨⟨⟨⟨⟨⟨⟨⟨⟨⟨⟨⟨h1, h2⟩, h3⟩, h4⟩, h5⟩, h6⟩, h7⟩, h8⟩, h9⟩, h10⟩, h11⟩, h12⟩, h13⟩, h14⟩, h15⟩, h16⟩, h17⟩ := h
  refine ⟨fieldP_of_optOk h1, ?_, fieldP_of_optOk h3, ?_, fieldP_of_optOk h5, fieldP_of_optOk h6,
    fieldP_of_optOk h7, ?_, fieldP_of_optOk h9, isNone_or_isSome_imp h10, isNone_or_isSome_imp h11,
    isNone_or_isSome_imp h12, isNone_or_isSome_imp h13, isNone_or_isSome_imp h14, isNone_or_isSome_imp h15, ?_, ?_⟩
  · intro w hw; rw [hw] at h2; simpa [optOk, workflowOk] using h2
  · intro c hc; rw [hc] at h4; simpa [optOk, cycleFieldOk] using h4
  · intro j hj; rw [hj] at h8; simpa [optOk] using h8
  · intro hu hc
    cases hu' : t.user <;> cases hc' : t.cycle <;> cases hw' : t.workflow <;> simp_all
  · cases hu' : t.user <;> cases hc' : t.cycle <;> cases hw' : t.workflow <;> simp_all

/-! ## the relative part: cycle[:sel][/task[:sel][/job[:sel]]] -/

theorem ambig_hyp {t : Tokens} {b : Bool} {c : Str} (hc : t.cycle = some c) (hamb : cycleAmbiguous t b = false) :
    keepSel b t.cycleSel = none → ∀ h tl, splitLast ':' c = some (h, tl) → tl = [] := by
  intro hk h tl hs
  simp only [cycleAmbiguous, hc, hs] at hamb
  have hk' : (!b || t.cycleSel.isNone) = true := by
    cases b <;> cases hcs : t.cycleSel <;> simp_all [keepSel]
  rw [hk'] at hamb
  cases tl with
  | nil => rfl
  | cons _ _ => simp at hamb

theorem fieldP_sel {cls : Char → Bool} {x : Option Str} (h : FieldP cls x) :
    ∀ s, x = some s → s ≠ [] ∧ ∀ c ∈ s, cls c = true :=
  fun s hs => ⟨(h s hs).1, (h s hs).2.1⟩

theorem parseRel_render (u w ws : Option Str) (t : Tokens) (b : Bool) (h : WF t) (c : Str) (hc : t.cycle = some c)
    (hamb : cycleAmbiguous t b = false) :
    parseRel { user := u, workflow := w, workflowSel := ws } (renderRel t b) =
      some { user := u, workflow := w, workflowSel := ws, cycle := t.cycle, cycleSel := keepSel b t.cycleSel,
             task := t.task, taskSel := keepSel b t.taskSel, job := t.job.map padJob,
             jobSel := keepSel b t.jobSel } := by
  have hA := ambig_hyp hc hamb
  have hcyc := (h.cycle c hc).1
  have hcs := fieldP_sel h.cycleSel
  have hts := fieldP_sel h.taskSel
  have hjs := fieldP_sel h.jobSel
  cases hk : t.task with
  | none =>
    have h1 : t.taskSel = none := by
      cases hx : t.taskSel with
      | none => rfl
      | some _ => have := h.tsel_t (by simp [hx]); simp [hk] at this
    have h2 : t.job = none := by
      cases hx : t.job with
      | none => rfl
      | some _ => have := h.job_task (by simp [hx]); simp [hk] at this
    have h3 : t.jobSel = none := by
      cases hx : t.jobSel with
      | none => rfl
      | some _ => have := h.jsel_j (by simp [hx]); simp [h2] at this
    simp only [renderRel, hc, renderTask, hk, List.append_nil, h1, h2, h3, keepSel, Option.map_none, ite_self]
    have := parseRel_end { user := u, workflow := w, workflowSel := ws } c b t.cycleSel hcyc hcs hA
    simpa [keepSel] using this
  | some k =>
    obtain ⟨hkne, hka, _⟩ := h.task k hk
    obtain ⟨a, k', rfl⟩ : ∃ a k', k = a :: k' := by
      cases k with
      | nil => exact absurd rfl hkne
      | cons a k' => exact ⟨a, k', rfl⟩
    cases hj : t.job with
    | none =>
      have h3 : t.jobSel = none := by
        cases hx : t.jobSel with
        | none => rfl
        | some _ => have := h.jsel_j (by simp [hx]); simp [hj] at this
      simp only [renderRel, hc, renderTask, hk, renderJob, hj, List.append_nil, h3, Option.map_none,
        List.cons_append]
      rw [parseRel_task _ c b t.cycleSel a _ hcyc hcs hA, ← List.cons_append,
        parseTask_end _ (a :: k') b t.taskSel hkne hka hts]
      simp [keepSel]
    | some j =>
      have hjok := h.job j hj
      obtain ⟨hpne, hpa, _⟩ := jobOk_facts (padJob_jobOk hjok)
      obtain ⟨a', r', hp⟩ : ∃ a r, padJob j = a :: r := by
        cases hpj : padJob j with
        | nil => exact absurd hpj hpne
        | cons a r => exact ⟨a, r, rfl⟩
      rw [hp] at hpne hpa
      simp only [renderRel, hc, renderTask, hk, renderJob, hj, Option.map_some, hp, List.cons_append]
      rw [parseRel_task _ c b t.cycleSel a _ hcyc hcs hA, ← List.cons_append,
        parseTask_job _ (a :: k') b t.taskSel a' _ hkne hka hts, ← List.cons_append,
        parseJob_spec _ (a' :: r') b t.jobSel hpne hpa hjs]

/-! ## the workflow part -/

theorem wfSpan_stop (r : Str) (hr : r = [] ∨ (∃ r', r = ':' :: r') ∨ (∃ r', r = '/' :: '/' :: r')) :
    wfSpan r = ([], r) := by
  rcases hr with rfl | ⟨r', rfl⟩ | ⟨r', rfl⟩
  · rfl
  · have h1 : wfCh ':' = false := by decide
    simp [wfSpan, h1]
  · have h1 : wfCh '/' = false := by decide
    simp [wfSpan, h1]

theorem wfSpan_body (cs r : Str) (hb : wfBody cs = true)
    (hr : r = [] ∨ (∃ r', r = ':' :: r') ∨ (∃ r', r = '/' :: '/' :: r')) :
    wfSpan (cs ++ r) = (cs, r) := by
  induction cs with
  | nil => simpa using wfSpan_stop r hr
  | cons c cs ih =>
    unfold wfBody at hb
    by_cases hc : wfCh c = true
    · simp only [hc, if_true] at hb
      simp [wfSpan, hc, ih hb]
    · simp only [hc, Bool.false_eq_true, if_false, Bool.and_eq_true, decide_eq_true_eq] at hb
      obtain ⟨rfl, hb⟩ := hb
      cases cs with
      | nil => simp at hb
      | cons d cs' =>
        simp only [Bool.and_eq_true] at hb
        have := ih hb.2
        simp only [List.cons_append] at this ⊢
        have e : wfSpan ('/' :: d :: (cs' ++ r))
            = ('/' :: (wfSpan (d :: (cs' ++ r))).1, (wfSpan (d :: (cs' ++ r))).2) := by
          rw [wfSpan]; simp [hc, hb.1]
        rw [e, this]

theorem wfSpan_shape (w r : Str) (hw : wfShape w = true)
    (hr : r = [] ∨ (∃ r', r = ':' :: r') ∨ (∃ r', r = '/' :: '/' :: r')) :
    wfSpan (w ++ r) = (w, r) := by
  cases w with
  | nil => simp [wfShape] at hw
  | cons c cs =>
    simp only [wfShape, Bool.and_eq_true] at hw
    simp [wfSpan, hw.1, wfSpan_body cs r hw.2 hr]

theorem wfShape_head {w : Str} (hw : wfShape w = true) : ∃ a w', w = a :: w' ∧ wfCh a = true := by
  cases w with
  | nil => simp [wfShape] at hw
  | cons c cs =>
    simp only [wfShape, Bool.and_eq_true] at hw
    exact ⟨c, cs, rfl, hw.1⟩

theorem selSuffix_wf_head (b : Bool) (sel : Option Str) (r : Str) (hr : r = [] ∨ ∃ r', r = '/' :: '/' :: r') :
    selSuffix b sel ++ r = [] ∨ (∃ r', selSuffix b sel ++ r = ':' :: r') ∨ (∃ r', selSuffix b sel ++ r = '/' :: '/' :: r') := by
  cases sel with
  | none =>
    rcases hr with rfl | ⟨r', rfl⟩
    · left; simp [selSuffix]
    · right; right; exact ⟨r', by simp [selSuffix]⟩
  | some s =>
    cases b with
    | true => right; left; exact ⟨s ++ r, by simp [selSuffix]⟩
    | false =>
      rcases hr with rfl | ⟨r', rfl⟩
      · left; simp [selSuffix]
      · right; right; exact ⟨r', by simp [selSuffix]⟩

theorem parseWf_end (t0 : Tokens) (w : Str) (b : Bool) (ws : Option Str)
    (hw : wfShape w = true) (hws : ∀ s, ws = some s → s ≠ [] ∧ ∀ c ∈ s, wfSelCh c = true) :
    parseWf t0 (w ++ selSuffix b ws) = some { t0 with workflow := some w, workflowSel := keepSel b ws } := by
  obtain ⟨a, w', rfl, ha⟩ := wfShape_head hw
  have h1 := wfSpan_shape (a :: w') (selSuffix b ws ++ []) hw (selSuffix_wf_head b ws [] (Or.inl rfl))
  have h2 := optSel_suffix wfSelCh b ws [] hws (by decide) (Or.inl rfl)
  simp only [List.append_nil] at h1 h2
  simp only [List.cons_append] at h1 ⊢
  unfold parseWf
  simp only [ha, Bool.not_true, Bool.false_eq_true, if_false, h1, h2]

theorem parseWf_rel (t0 : Tokens) (w : Str) (b : Bool) (ws : Option Str) (a : Char) (r : Str)
    (hw : wfShape w = true) (hws : ∀ s, ws = some s → s ≠ [] ∧ ∀ c ∈ s, wfSelCh c = true) :
    parseWf t0 (w ++ (selSuffix b ws ++ '/' :: '/' :: a :: r))
      = parseRel { t0 with workflow := some w, workflowSel := keepSel b ws } (a :: r) := by
  obtain ⟨a0, w', rfl, ha⟩ := wfShape_head hw
  have h1 := wfSpan_shape (a0 :: w') (selSuffix b ws ++ '/' :: '/' :: a :: r) hw
    (selSuffix_wf_head b ws _ (Or.inr ⟨_, rfl⟩))
  have h2 := optSel_suffix wfSelCh b ws ('/' :: '/' :: a :: r) hws (by decide) (Or.inr ⟨_, rfl⟩)
  simp only [List.cons_append] at h1 ⊢
  unfold parseWf
  simp only [ha, Bool.not_true, Bool.false_eq_true, if_false, h1, h2]

/-! ## no newline in a canonical string (so `$` is the end of the string) -/

theorem selSuffix_noNl {cls : Char → Bool} (hcls : cls '\n' = false) (b : Bool) (sel : Option Str)
    (hsel : FieldP cls sel) : '\n' ∉ selSuffix b sel := by
  cases sel with
  | none => simp [selSuffix]
  | some s =>
    cases b with
    | false => simp [selSuffix]
    | true =>
      simp only [selSuffix, if_true, List.mem_cons, not_or]
      exact ⟨by decide, not_mem_of_all hcls (hsel s rfl).2.1⟩

theorem cycle_noNl {c : Str} (hc : cycleOk c = true) : '\n' ∉ c := by
  obtain ⟨a, cs, rfl, ha, hcs⟩ := (cycleOk_iff c).mp hc
  simp only [List.mem_cons, not_or]
  refine ⟨?_, not_mem_of_all (cls := cycCh) (by decide) hcs⟩
  intro e; rw [← e] at ha; revert ha; decide

theorem wfBody_noNl (cs : Str) (h : wfBody cs = true) : '\n' ∉ cs := by
  induction cs with
  | nil => simp
  | cons c cs ih =>
    unfold wfBody at h
    by_cases hc : wfCh c = true
    · simp only [hc, if_true] at h
      simp only [List.mem_cons, not_or]
      refine ⟨?_, ih h⟩
      intro e; rw [← e] at hc; revert hc; decide
    · simp only [hc, Bool.false_eq_true, if_false, Bool.and_eq_true, decide_eq_true_eq] at h
      obtain ⟨rfl, h⟩ := h
      cases cs with
      | nil => simp at h
      | cons d cs' =>
        simp only [Bool.and_eq_true] at h
        simp only [List.mem_cons, not_or]
        exact ⟨by decide, by simpa [List.mem_cons, not_or] using ih h.2⟩

theorem wfShape_noNl {w : Str} (h : wfShape w = true) : '\n' ∉ w := by
  cases w with
  | nil => simp
  | cons c cs =>
    simp only [wfShape, Bool.and_eq_true] at h
    simp only [List.mem_cons, not_or]
    refine ⟨?_, wfBody_noNl cs h.2⟩
    intro e; have := h.1; rw [← e] at this; revert this; decide

theorem renderJob_noNl {t : Tokens} (h : WF t) (b : Bool) : '\n' ∉ renderJob t b := by
  unfold renderJob
  cases hj : t.job with
  | none => simp
  | some j =>
    obtain ⟨_, hpa, _⟩ := jobOk_facts (padJob_jobOk (h.job j hj))
    simp only [List.mem_cons, List.mem_append, not_or, and_assoc]
    exact ⟨by decide, not_mem_of_all (cls := jobCh) (by decide) hpa,
      selSuffix_noNl (cls := jobSelCh) (by decide) b _ h.jobSel⟩

theorem renderTask_noNl {t : Tokens} (h : WF t) (b : Bool) : '\n' ∉ renderTask t b := by
  unfold renderTask
  cases hk : t.task with
  | none => simp
  | some k =>
    simp only [List.mem_cons, List.mem_append, not_or, and_assoc]
    exact ⟨by decide, not_mem_of_all (cls := taskCh) (by decide) (h.task k hk).2.1,
      selSuffix_noNl (cls := taskSelCh) (by decide) b _ h.taskSel, renderJob_noNl h b⟩

theorem renderRel_noNl {t : Tokens} (h : WF t) (b : Bool) : '\n' ∉ renderRel t b := by
  unfold renderRel
  cases hc : t.cycle with
  | none => simp
  | some c =>
    simp only [List.mem_append, not_or]
    exact ⟨cycle_noNl (h.cycle c hc).1, selSuffix_noNl (cls := cycSelCh) (by decide) b _ h.cycleSel,
      renderTask_noNl h b⟩

theorem renderWf_noNl {t : Tokens} (h : WF t) (b : Bool) : '\n' ∉ renderWf t b := by
  unfold renderWf
  cases hw : t.workflow with
  | none => simp
  | some w =>
    simp only [List.mem_append, not_or]
    refine ⟨wfShape_noNl (h.workflow w hw).1, selSuffix_noNl (cls := wfSelCh) (by decide) b _ h.workflowSel, ?_⟩
    split
    · simp only [List.mem_cons, not_or]
      exact ⟨by decide, by decide, renderRel_noNl h b⟩
    · simp

theorem canonical_noNl {t : Tokens} (h : WF t) (b : Bool) : '\n' ∉ canonical t b := by
  unfold canonical
  cases hu : t.user with
  | none =>
    simp only
    split
    · exact renderWf_noNl h b
    · simp only [List.mem_cons, not_or]
      exact ⟨by decide, by decide, renderRel_noNl h b⟩
  | some u =>
    simp only [List.mem_cons, List.mem_append, not_or, and_assoc]
    refine ⟨by decide, not_mem_of_all (cls := userCh) (by decide) (h.user u hu).2.1, ?_⟩
    split
    · simp only [List.mem_cons, not_or]
      exact ⟨by decide, renderWf_noNl h b⟩
    · simp


/-! ## tokenise after canonical -/

theorem WF.below_cycle {t : Tokens} (h : WF t) (hc : t.cycle = none) :
    t.cycleSel = none ∧ t.task = none ∧ t.taskSel = none ∧ t.job = none ∧ t.jobSel = none := by
  have h1 : t.cycleSel = none := by
    cases hx : t.cycleSel with
    | none => rfl
    | some _ => have := h.csel_c (by simp [hx]); simp [hc] at this
  have h2 : t.task = none := by
    cases hx : t.task with
    | none => rfl
    | some _ => have := h.task_cycle (by simp [hx]); simp [hc] at this
  have h3 : t.taskSel = none := by
    cases hx : t.taskSel with
    | none => rfl
    | some _ => have := h.tsel_t (by simp [hx]); simp [h2] at this
  have h4 : t.job = none := by
    cases hx : t.job with
    | none => rfl
    | some _ => have := h.job_task (by simp [hx]); simp [h2] at this
  have h5 : t.jobSel = none := by
    cases hx : t.jobSel with
    | none => rfl
    | some _ => have := h.jsel_j (by simp [hx]); simp [h4] at this
  exact ⟨h1, h2, h3, h4, h5⟩

theorem WF.below_wf {t : Tokens} (h : WF t) (hw : t.workflow = none) : t.workflowSel = none := by
  cases hx : t.workflowSel with
  | none => rfl
  | some _ => have := h.wsel_wf (by simp [hx]); simp [hw] at this

theorem keepSel_none (b : Bool) : keepSel b none = none := by cases b <;> rfl

theorem parseWf_render (u : Option Str) (t : Tokens) (b : Bool) (h : WF t) (w : Str) (hw : t.workflow = some w)
    (hamb : cycleAmbiguous t b = false) :
    parseWf { user := u } (renderWf t b) = some { expected t b with user := u } := by
  have hws := fieldP_sel h.workflowSel
  have hshape := (h.workflow w hw).1
  cases hc : t.cycle with
  | none =>
    obtain ⟨h1, h2, h3, h4, h5⟩ := h.below_cycle hc
    simp only [renderWf, hw, hc, Option.isSome_none, Bool.false_eq_true, if_false, List.append_nil]
    rw [parseWf_end _ w b t.workflowSel hshape hws]
    simp [expected, hw, hc, h1, h2, h3, h4, h5, keepSel_none]
  | some c =>
    obtain ⟨a, r, hr⟩ : ∃ a r, renderRel t b = a :: r := by
      have hcne := stripped_ne_nil (h.cycle c hc).2
      cases c with
      | nil => exact absurd rfl hcne
      | cons a c' => exact ⟨a, c' ++ (selSuffix b t.cycleSel ++ renderTask t b), by simp [renderRel, hc]⟩
    simp only [renderWf, hw, hc, Option.isSome_some, if_true, hr]
    rw [parseWf_rel _ w b t.workflowSel a r hshape hws, ← hr]
    have := parseRel_render u (some w) (keepSel b t.workflowSel) t b h c hc hamb
    simp only [] at this ⊢
    rw [this]
    simp [expected, hw, hc]

theorem universal_noUser (s : Str) (a : Char) (r : Str) (hs : chomp s = a :: r) (ha : a ≠ '~') :
    universal s = parseWf {} (a :: r) := by
  unfold universal
  rw [hs]
  split
  · rename_i heq; simp at heq
  · rename_i heq; simp at heq; exact absurd heq.1 ha
  · rfl

theorem renderWf_head {t : Tokens} (h : WF t) (b : Bool) (w : Str) (hw : t.workflow = some w) :
    ∃ a r, renderWf t b = a :: r ∧ wfCh a = true := by
  obtain ⟨a, w', rfl, ha⟩ := wfShape_head (h.workflow w hw).1
  exact ⟨a, w' ++ (selSuffix b t.workflowSel ++ if t.cycle.isSome = true then '/' :: '/' :: renderRel t b else []),
    by simp [renderWf, hw], ha⟩

theorem universal_canonical (t : Tokens) (b : Bool) (h : WF t) (hamb : cycleAmbiguous t b = false)
    (hx : t.user.isSome ∨ t.workflow.isSome) :
    universal (canonical t b) = some (expected t b) := by
  have hch := chomp_of_not_mem _ (canonical_noNl h b)
  cases hu : t.user with
  | none =>
    cases hw : t.workflow with
    | none => simp [hu, hw] at hx
    | some w =>
      obtain ⟨a, r, hr, ha⟩ := renderWf_head h b w hw
      have hcan : canonical t b = a :: r := by simp [canonical, hu, hw, hr]
      have hne : a ≠ '~' := by intro e; subst e; revert ha; decide
      rw [universal_noUser _ a r (by rw [hch, hcan]) hne, ← hr]
      have := parseWf_render none t b h w hw hamb
      simp only [] at this
      rw [this]
      simp [expected, hu]
  | some u =>
    obtain ⟨hune, hua, _⟩ := h.user u hu
    unfold universal
    rw [hch]
    cases hw : t.workflow with
    | none =>
      have hc : t.cycle = none := by
        cases hc : t.cycle with
        | none => rfl
        | some _ => have := h.user_cycle_wf (by simp [hu]) (by simp [hc]); simp [hw] at this
      obtain ⟨h1, h2, h3, h4, h5⟩ := h.below_cycle hc
      have h0 := h.below_wf hw
      have hsp := spanP_append userCh u [] hua (Or.inl rfl)
      simp only [List.append_nil] at hsp
      simp only [canonical, hu, hw, Option.isSome_none, Bool.false_eq_true, if_false, List.append_nil, hsp,
        isEmpty_false_of_ne hune]
      simp [expected, hu, hw, hc, h0, h1, h2, h3, h4, h5, keepSel_none]
    | some w =>
      obtain ⟨a, r, hr, ha⟩ := renderWf_head h b w hw
      have hsp := spanP_append userCh u ('/' :: a :: r) hua (Or.inr ⟨'/', _, rfl, by decide⟩)
      simp only [canonical, hu, hw, Option.isSome_some, if_true, hr, List.cons_append, hsp, isEmpty_false_of_ne hune]
      rw [← hr]
      have := parseWf_render (some u) t b h w hw hamb
      simp only [] at this
      rw [this]
      simp [expected, hu]

theorem stripOpt_field {x : Option Str} (h : ∀ s, x = some s → stripped s = true) : stripOpt x = x := by
  cases x with
  | none => rfl
  | some s => exact stripOpt_of_stripped s (h s rfl)

theorem stripOpt_keepSel {cls : Char → Bool} {x : Option Str} (h : FieldP cls x) (b : Bool) :
    stripOpt (keepSel b x) = keepSel b x := by
  cases b with
  | false => rfl
  | true => exact stripOpt_field (fun s hs => (h s hs).2.2)

theorem dictStrip_expected {t : Tokens} (h : WF t) (b : Bool) : dictStrip (expected t b) = expected t b := by
  have hj : stripOpt (t.job.map padJob) = t.job.map padJob := by
    cases hj : t.job with
    | none => rfl
    | some j => exact stripOpt_of_stripped _ (jobOk_facts (padJob_jobOk (h.job j hj))).2.2
  simp only [dictStrip, expected, stripOpt_keepSel h.workflowSel, stripOpt_keepSel h.cycleSel,
    stripOpt_keepSel h.taskSel, stripOpt_keepSel h.jobSel, hj,
    stripOpt_field (fun s hs => (h.user s hs).2.2), stripOpt_field (fun s hs => (h.workflow s hs).2),
    stripOpt_field (fun s hs => (h.cycle s hs).2), stripOpt_field (fun s hs => (h.task s hs).2.2)]

theorem relative_canonical (t : Tokens) (b : Bool) (h : WF t) (hamb : cycleAmbiguous t b = false)
    (hu : t.user = none) (hw : t.workflow = none) :
    universal ('/' :: '/' :: renderRel t b) = none ∧ relativeId ('/' :: '/' :: renderRel t b) = some (expected t b) := by
  have hc : ∃ c, t.cycle = some c := by
    rcases h.nonempty with h1 | h1 | h1
    · simp [hu] at h1
    · simp [hw] at h1
    · cases hc : t.cycle with
      | none => simp [hc] at h1
      | some c => exact ⟨c, rfl⟩
  obtain ⟨c, hc⟩ := hc
  have hnl : '\n' ∉ '/' :: '/' :: renderRel t b := by
    simp only [List.mem_cons, not_or]
    exact ⟨by decide, by decide, renderRel_noNl h b⟩
  have hch := chomp_of_not_mem _ hnl
  constructor
  · rw [universal_noUser _ '/' ('/' :: renderRel t b) hch (by decide)]
    have : wfCh '/' = false := by decide
    simp [parseWf, this]
  · unfold relativeId
    rw [hch]
    have := parseRel_render none none none t b h c hc hamb
    simp only [] at this ⊢
    rw [show ({} : Tokens) = { user := none, workflow := none, workflowSel := none } from rfl, this]
    simp [expected, hu, hw, h.below_wf hw, keepSel_none]

theorem tokenise_canonical (t : Tokens) (b : Bool) (h : WF t) (hamb : cycleAmbiguous t b = false) :
    tokenise (canonical t b) false = some (expected t b) := by
  unfold tokenise
  simp only [Bool.false_and, Bool.false_eq_true, if_false]
  by_cases hx : t.user.isSome ∨ t.workflow.isSome
  · rw [universal_canonical t b h hamb hx]
    simp only [dictStrip_expected h b]
  · have hu : t.user = none := by cases hu : t.user <;> simp_all
    have hw : t.workflow = none := by cases hw : t.workflow <;> simp_all
    have hcan : canonical t b = '/' :: '/' :: renderRel t b := by simp [canonical, hu, hw]
    obtain ⟨h1, h2⟩ := relative_canonical t b h hamb hu hw
    rw [hcan, h1, h2]
    simp only [dictStrip_expected h b]


/-! ## detokenise writes the canonical string -/

theorem keyOrder_eq : keyOrder = [.user, .workflow, .cycle, .task, .job] := by decide

theorem truthy_some {s : Str} (h : s ≠ []) : truthy (some s) = true := by
  cases s with
  | nil => exact absurd rfl h
  | cons _ _ => rfl

theorem addSel_eq (b : Bool) (v : Str) (sel : Option Str) (hsel : ∀ s, sel = some s → s ≠ []) :
    addSel b v sel = v ++ selSuffix b sel := by
  cases sel with
  | none => cases b <;> simp [addSel, selSuffix, truthy]
  | some s =>
    have := truthy_some (hsel s rfl)
    cases b <;> simp [addSel, selSuffix, this]

theorem detokPart_user_none {t : Tokens} (b p : Bool) (hu : t.user = none) :
    detokPart t b p .user = some none := by
  simp [detokPart, Tokens.get, hu, truthy]

theorem detokPart_user_some {t : Tokens} (b p : Bool) {u : Str} (hu : t.user = some u) (hne : u ≠ []) :
    detokPart t b p .user = some (some ('~' :: u)) := by
  have ht := truthy_some hne
  simp only [detokPart, Tokens.get, hu, ht, Tokens.getSel]
  simp [addSel, truthy]

theorem detokPart_workflow {t : Tokens} (h : WF t) (b p : Bool) {w : Str} (hw : t.workflow = some w) :
    detokPart t b p .workflow = some (some (w ++ selSuffix b t.workflowSel ++ (if p then [] else ['/']))) := by
  have hne := stripped_ne_nil (h.workflow w hw).2
  have hs := addSel_eq b w t.workflowSel (fun s hs => (h.workflowSel s hs).1)
  simp only [detokPart, Tokens.get, hw, truthy_some hne, Tokens.getSel]
  simp [isEmpty_false_of_ne hne, hs]
  cases p <;> simp

theorem detokPart_cycle {t : Tokens} (h : WF t) (b p : Bool) {c : Str} (hc : t.cycle = some c) :
    detokPart t b p .cycle = some (some (c ++ selSuffix b t.cycleSel)) := by
  have hne := stripped_ne_nil (h.cycle c hc).2
  have hs := addSel_eq b c t.cycleSel (fun s hs => (h.cycleSel s hs).1)
  simp only [detokPart, Tokens.get, hc, truthy_some hne, Tokens.getSel]
  simp [isEmpty_false_of_ne hne, hs]

theorem detokPart_task {t : Tokens} (h : WF t) (b p : Bool) {k : Str} (hk : t.task = some k) :
    detokPart t b p .task = some (some (k ++ selSuffix b t.taskSel)) := by
  have hne := (h.task k hk).1
  have hs := addSel_eq b k t.taskSel (fun s hs => (h.taskSel s hs).1)
  simp only [detokPart, Tokens.get, hk, truthy_some hne, Tokens.getSel]
  simp [isEmpty_false_of_ne hne, hs]

theorem detokPart_job {t : Tokens} (h : WF t) (b p : Bool) {j : Str} (hj : t.job = some j) :
    detokPart t b p .job = some (some (padJob j ++ selSuffix b t.jobSel)) := by
  have hjok := h.job j hj
  obtain ⟨hne, _, _⟩ := jobOk_facts hjok
  obtain ⟨hpne, _, _⟩ := jobOk_facts (padJob_jobOk hjok)
  have hs := addSel_eq b (padJob j) t.jobSel (fun s hs => (h.jobSel s hs).1)
  simp only [detokPart, Tokens.get, hj, truthy_some hne, Tokens.getSel]
  rcases jobOk_cases hjok with rfl | ⟨hnn, _, hd⟩
  · rw [padJob_NN] at hs ⊢
    simp only [bne_self_eq_false, Bool.and_false, Bool.false_eq_true, if_false, Option.getD_some]
    simp [hne, hs]
  · have hpi := pyInt_digits j hne hd
    have hpad : fmt02 (decVal j : Int) = padJob j := by rw [fmt02_nat, padJob_digits hnn]
    simp [hnn, hpi, hpad, isEmpty_false_of_ne hpne, hs]

theorem WF.below_task {t : Tokens} (h : WF t) (hk : t.task = none) :
    t.taskSel = none ∧ t.job = none ∧ t.jobSel = none := by
  have h3 : t.taskSel = none := by
    cases hx : t.taskSel with
    | none => rfl
    | some _ => have := h.tsel_t (by simp [hx]); simp [hk] at this
  have h4 : t.job = none := by
    cases hx : t.job with
    | none => rfl
    | some _ => have := h.job_task (by simp [hx]); simp [hk] at this
  have h5 : t.jobSel = none := by
    cases hx : t.jobSel with
    | none => rfl
    | some _ => have := h.jsel_j (by simp [hx]); simp [h4] at this
  exact ⟨h3, h4, h5⟩

theorem WF.truthy_get {t : Tokens} (h : WF t) (k : Key) : truthy (t.get k) = (t.get k).isSome := by
  cases k with
  | user => cases hu : t.user with
    | none => simp [Tokens.get, hu, truthy]
    | some u => simp [Tokens.get, hu, truthy_some (h.user u hu).1]
  | workflow => cases hu : t.workflow with
    | none => simp [Tokens.get, hu, truthy]
    | some u => simp [Tokens.get, hu, truthy_some (stripped_ne_nil (h.workflow u hu).2)]
  | cycle => cases hu : t.cycle with
    | none => simp [Tokens.get, hu, truthy]
    | some u => simp [Tokens.get, hu, truthy_some (stripped_ne_nil (h.cycle u hu).2)]
  | task => cases hu : t.task with
    | none => simp [Tokens.get, hu, truthy]
    | some u => simp [Tokens.get, hu, truthy_some (h.task u hu).1]
  | job => cases hu : t.job with
    | none => simp [Tokens.get, hu, truthy]
    | some u => simp [Tokens.get, hu, truthy_some (jobOk_facts (h.job u hu)).1]

theorem truthy_none : truthy none = false := rfl
theorem tt_cycle_cycle : takeThrough (fun x => decide (x = Key.cycle)) [Key.cycle, Key.task, Key.job] = [Key.cycle] := by decide
theorem tt_cycle_task : takeThrough (fun x => decide (x = Key.task)) [Key.cycle, Key.task, Key.job] = [Key.cycle, Key.task] := by decide
theorem tt_cycle_job : takeThrough (fun x => decide (x = Key.job)) [Key.cycle, Key.task, Key.job] = [Key.cycle, Key.task, Key.job] := by decide
theorem tt_user_user : takeThrough (fun x => decide (x = Key.user)) [Key.user, Key.workflow, Key.cycle, Key.task, Key.job] = [Key.user] := by decide
theorem tt_user_workflow : takeThrough (fun x => decide (x = Key.workflow)) [Key.user, Key.workflow, Key.cycle, Key.task, Key.job] = [Key.user, Key.workflow] := by decide
theorem tt_user_cycle : takeThrough (fun x => decide (x = Key.cycle)) [Key.user, Key.workflow, Key.cycle, Key.task, Key.job] = [Key.user, Key.workflow, Key.cycle] := by decide
theorem tt_user_task : takeThrough (fun x => decide (x = Key.task)) [Key.user, Key.workflow, Key.cycle, Key.task, Key.job] = [Key.user, Key.workflow, Key.cycle, Key.task] := by decide
theorem tt_user_job : takeThrough (fun x => decide (x = Key.job)) [Key.user, Key.workflow, Key.cycle, Key.task, Key.job] = [Key.user, Key.workflow, Key.cycle, Key.task, Key.job] := by decide
theorem ks_cycle_cycle : takeThrough (fun x => decide (x = Key.cycle)) (List.dropWhile (fun x => x != Key.cycle) [Key.user, Key.workflow, Key.cycle, Key.task, Key.job]) = [Key.cycle] := by decide
theorem ks_cycle_task : takeThrough (fun x => decide (x = Key.task)) (List.dropWhile (fun x => x != Key.cycle) [Key.user, Key.workflow, Key.cycle, Key.task, Key.job]) = [Key.cycle, Key.task] := by decide
theorem ks_cycle_job : takeThrough (fun x => decide (x = Key.job)) (List.dropWhile (fun x => x != Key.cycle) [Key.user, Key.workflow, Key.cycle, Key.task, Key.job]) = [Key.cycle, Key.task, Key.job] := by decide
theorem ks_user_user : takeThrough (fun x => decide (x = Key.user)) (List.dropWhile (fun x => x != Key.user) [Key.user, Key.workflow, Key.cycle, Key.task, Key.job]) = [Key.user] := by decide
theorem ks_user_workflow : takeThrough (fun x => decide (x = Key.workflow)) (List.dropWhile (fun x => x != Key.user) [Key.user, Key.workflow, Key.cycle, Key.task, Key.job]) = [Key.user, Key.workflow] := by decide
theorem ks_user_cycle : takeThrough (fun x => decide (x = Key.cycle)) (List.dropWhile (fun x => x != Key.user) [Key.user, Key.workflow, Key.cycle, Key.task, Key.job]) = [Key.user, Key.workflow, Key.cycle] := by decide
theorem ks_user_task : takeThrough (fun x => decide (x = Key.task)) (List.dropWhile (fun x => x != Key.user) [Key.user, Key.workflow, Key.cycle, Key.task, Key.job]) = [Key.user, Key.workflow, Key.cycle, Key.task] := by decide
theorem ks_user_job : takeThrough (fun x => decide (x = Key.job)) (List.dropWhile (fun x => x != Key.user) [Key.user, Key.workflow, Key.cycle, Key.task, Key.job]) = [Key.user, Key.workflow, Key.cycle, Key.task, Key.job] := by decide

set_option linter.unusedSimpArgs false in
theorem detokenise_canonical (t : Tokens) (b : Bool) (h : WF t) :
    detokenise t b false = some (canonical t b) := by
  have tU : truthy t.user = t.user.isSome := h.truthy_get .user
  have tW : truthy t.workflow = t.workflow.isSome := h.truthy_get .workflow
  have tC : truthy t.cycle = t.cycle.isSome := h.truthy_get .cycle
  have tK : truthy t.task = t.task.isSome := h.truthy_get .task
  have tJ : truthy t.job = t.job.isSome := h.truthy_get .job
  unfold detokenise
  simp only [keyOrder_eq, Tokens.get, tU, tW, tC, tK, tJ]
  rcases Option.eq_none_or_eq_some t.user with hu | ⟨x_user, hu⟩ <;> rw [hu] at tU <;> simp only [Option.isSome_none, Option.isSome_some] at tU
  ·
    have eU := fun p => detokPart_user_none (t := t) b p hu
    rcases Option.eq_none_or_eq_some t.workflow with hw | ⟨x_workflow, hw⟩ <;> rw [hw] at tW <;> simp only [Option.isSome_none, Option.isSome_some] at tW
    ·
      rcases Option.eq_none_or_eq_some t.cycle with hc | ⟨x_cycle, hc⟩ <;> rw [hc] at tC <;> simp only [Option.isSome_none, Option.isSome_some] at tC
      · have := h.nonempty; simp [hu, hw, hc] at this
      ·
        have eC := fun p => detokPart_cycle h b p hc
        rcases Option.eq_none_or_eq_some t.task with hk | ⟨x_task, hk⟩ <;> rw [hk] at tK <;> simp only [Option.isSome_none, Option.isSome_some] at tK
        ·
          have hj : t.job = none := (h.below_task hk).2.1
          simp +decide [truthy_none, tU, tW, tC, tK, tJ, hj, List.filter, tt_cycle_cycle, tt_cycle_task, tt_cycle_job, tt_user_user, tt_user_workflow, tt_user_cycle, tt_user_task, tt_user_job, ks_cycle_cycle, ks_cycle_task, ks_cycle_job, ks_user_user, ks_user_workflow, ks_user_cycle, ks_user_task, ks_user_job, detokParts, eC, joinSlash, canonical, hu, hw, renderRel,
            renderTask, hc, hk]
        ·
          have eK := fun p => detokPart_task h b p hk
          rcases Option.eq_none_or_eq_some t.job with hj | ⟨x_job, hj⟩ <;> rw [hj] at tJ <;> simp only [Option.isSome_none, Option.isSome_some] at tJ
          ·
            simp +decide [truthy_none, tU, tW, tC, tK, tJ, List.filter, tt_cycle_cycle, tt_cycle_task, tt_cycle_job, tt_user_user, tt_user_workflow, tt_user_cycle, tt_user_task, tt_user_job, ks_cycle_cycle, ks_cycle_task, ks_cycle_job, ks_user_user, ks_user_workflow, ks_user_cycle, ks_user_task, ks_user_job, detokParts, eC, eK, joinSlash, canonical, hu, hw, renderRel,
              renderTask, renderJob, hc, hk, hj]
          ·
            have eJ := fun p => detokPart_job h b p hj
            simp +decide [truthy_none, tU, tW, tC, tK, tJ, List.filter, tt_cycle_cycle, tt_cycle_task, tt_cycle_job, tt_user_user, tt_user_workflow, tt_user_cycle, tt_user_task, tt_user_job, ks_cycle_cycle, ks_cycle_task, ks_cycle_job, ks_user_user, ks_user_workflow, ks_user_cycle, ks_user_task, ks_user_job, detokParts, eC, eK, eJ, joinSlash, canonical, hu, hw,
              renderRel, renderTask, renderJob, hc, hk, hj]
    ·
      have eW := fun p => detokPart_workflow h b p hw
      rcases Option.eq_none_or_eq_some t.cycle with hc | ⟨x_cycle, hc⟩ <;> rw [hc] at tC <;> simp only [Option.isSome_none, Option.isSome_some] at tC
      ·
        obtain ⟨_, hk, _, hj, _⟩ := h.below_cycle hc
        simp +decide [truthy_none, tU, tW, tC, tK, tJ, hk, hj, List.filter, tt_cycle_cycle, tt_cycle_task, tt_cycle_job, tt_user_user, tt_user_workflow, tt_user_cycle, tt_user_task, tt_user_job, ks_cycle_cycle, ks_cycle_task, ks_cycle_job, ks_user_user, ks_user_workflow, ks_user_cycle, ks_user_task, ks_user_job, detokParts, eU, eW, joinSlash, canonical, hu, hw,
          renderWf, hc]
      ·
        have eC := fun p => detokPart_cycle h b p hc
        rcases Option.eq_none_or_eq_some t.task with hk | ⟨x_task, hk⟩ <;> rw [hk] at tK <;> simp only [Option.isSome_none, Option.isSome_some] at tK
        ·
          have hj : t.job = none := (h.below_task hk).2.1
          simp +decide [truthy_none, tU, tW, tC, tK, tJ, hj, List.filter, tt_cycle_cycle, tt_cycle_task, tt_cycle_job, tt_user_user, tt_user_workflow, tt_user_cycle, tt_user_task, tt_user_job, ks_cycle_cycle, ks_cycle_task, ks_cycle_job, ks_user_user, ks_user_workflow, ks_user_cycle, ks_user_task, ks_user_job, detokParts, eU, eW, eC, joinSlash, canonical, hu, hw,
            renderWf, renderRel, renderTask, hc, hk]
        ·
          have eK := fun p => detokPart_task h b p hk
          rcases Option.eq_none_or_eq_some t.job with hj | ⟨x_job, hj⟩ <;> rw [hj] at tJ <;> simp only [Option.isSome_none, Option.isSome_some] at tJ
          ·
            simp +decide [truthy_none, tU, tW, tC, tK, tJ, List.filter, tt_cycle_cycle, tt_cycle_task, tt_cycle_job, tt_user_user, tt_user_workflow, tt_user_cycle, tt_user_task, tt_user_job, ks_cycle_cycle, ks_cycle_task, ks_cycle_job, ks_user_user, ks_user_workflow, ks_user_cycle, ks_user_task, ks_user_job, detokParts, eU, eW, eC, eK, joinSlash, canonical, hu, hw,
              renderWf, renderRel, renderTask, renderJob, hc, hk, hj]
          ·
            have eJ := fun p => detokPart_job h b p hj
            simp +decide [truthy_none, tU, tW, tC, tK, tJ, List.filter, tt_cycle_cycle, tt_cycle_task, tt_cycle_job, tt_user_user, tt_user_workflow, tt_user_cycle, tt_user_task, tt_user_job, ks_cycle_cycle, ks_cycle_task, ks_cycle_job, ks_user_user, ks_user_workflow, ks_user_cycle, ks_user_task, ks_user_job, detokParts, eU, eW, eC, eK, eJ, joinSlash, canonical,
              hu, hw, renderWf, renderRel, renderTask, renderJob, hc, hk, hj]
  ·
    have eU := fun p => detokPart_user_some (t := t) b p hu (h.user x_user hu).1
    rcases Option.eq_none_or_eq_some t.workflow with hw | ⟨x_workflow, hw⟩ <;> rw [hw] at tW <;> simp only [Option.isSome_none, Option.isSome_some] at tW
    ·
      have hc : t.cycle = none := by
        rcases Option.eq_none_or_eq_some t.cycle with hc | ⟨c, hc⟩
        · exact hc
        · have := h.user_cycle_wf (by simp [hu]) (by simp [hc]); simp [hw] at this
      rw [hc] at tC; simp only [Option.isSome_none] at tC
      obtain ⟨_, hk, _, hj, _⟩ := h.below_cycle hc
      simp +decide [truthy_none, tU, tW, tC, tK, tJ, hk, hj, hc, List.filter, tt_cycle_cycle, tt_cycle_task, tt_cycle_job, tt_user_user, tt_user_workflow, tt_user_cycle, tt_user_task, tt_user_job, ks_cycle_cycle, ks_cycle_task, ks_cycle_job, ks_user_user, ks_user_workflow, ks_user_cycle, ks_user_task, ks_user_job, detokParts, eU, joinSlash, canonical, hu, hw]
    ·
      have eW := fun p => detokPart_workflow h b p hw
      rcases Option.eq_none_or_eq_some t.cycle with hc | ⟨x_cycle, hc⟩ <;> rw [hc] at tC <;> simp only [Option.isSome_none, Option.isSome_some] at tC
      ·
        obtain ⟨_, hk, _, hj, _⟩ := h.below_cycle hc
        simp +decide [truthy_none, tU, tW, tC, tK, tJ, hk, hj, List.filter, tt_cycle_cycle, tt_cycle_task, tt_cycle_job, tt_user_user, tt_user_workflow, tt_user_cycle, tt_user_task, tt_user_job, ks_cycle_cycle, ks_cycle_task, ks_cycle_job, ks_user_user, ks_user_workflow, ks_user_cycle, ks_user_task, ks_user_job, detokParts, eU, eW, joinSlash, canonical, hu, hw,
          renderWf, hc]
      ·
        have eC := fun p => detokPart_cycle h b p hc
        rcases Option.eq_none_or_eq_some t.task with hk | ⟨x_task, hk⟩ <;> rw [hk] at tK <;> simp only [Option.isSome_none, Option.isSome_some] at tK
        ·
          have hj : t.job = none := (h.below_task hk).2.1
          simp +decide [truthy_none, tU, tW, tC, tK, tJ, hj, List.filter, tt_cycle_cycle, tt_cycle_task, tt_cycle_job, tt_user_user, tt_user_workflow, tt_user_cycle, tt_user_task, tt_user_job, ks_cycle_cycle, ks_cycle_task, ks_cycle_job, ks_user_user, ks_user_workflow, ks_user_cycle, ks_user_task, ks_user_job, detokParts, eU, eW, eC, joinSlash, canonical, hu, hw,
            renderWf, renderRel, renderTask, hc, hk]
        ·
          have eK := fun p => detokPart_task h b p hk
          rcases Option.eq_none_or_eq_some t.job with hj | ⟨x_job, hj⟩ <;> rw [hj] at tJ <;> simp only [Option.isSome_none, Option.isSome_some] at tJ
          ·
            simp +decide [truthy_none, tU, tW, tC, tK, tJ, List.filter, tt_cycle_cycle, tt_cycle_task, tt_cycle_job, tt_user_user, tt_user_workflow, tt_user_cycle, tt_user_task, tt_user_job, ks_cycle_cycle, ks_cycle_task, ks_cycle_job, ks_user_user, ks_user_workflow, ks_user_cycle, ks_user_task, ks_user_job, detokParts, eU, eW, eC, eK, joinSlash, canonical, hu, hw,
              renderWf, renderRel, renderTask, renderJob, hc, hk, hj]
          ·
            have eJ := fun p => detokPart_job h b p hj
            simp +decide [truthy_none, tU, tW, tC, tK, tJ, List.filter, tt_cycle_cycle, tt_cycle_task, tt_cycle_job, tt_user_user, tt_user_workflow, tt_user_cycle, tt_user_task, tt_user_job, ks_cycle_cycle, ks_cycle_task, ks_cycle_job, ks_user_user, ks_user_workflow, ks_user_cycle, ks_user_task, ks_user_job, detokParts, eU, eW, eC, eK, eJ, joinSlash, canonical,
              hu, hw, renderWf, renderRel, renderTask, renderJob, hc, hk, hj]

set_option linter.unusedSimpArgs false in
theorem detokenise_relative (t : Tokens) (b : Bool) (h : WF t) (hu : t.user = none) (hw : t.workflow = none) :
    detokenise t b true = some (renderRel t b) := by
  have tU : truthy t.user = false := by rw [hu]; rfl
  have tW : truthy t.workflow = false := by rw [hw]; rfl
  have tC : truthy t.cycle = t.cycle.isSome := h.truthy_get .cycle
  have tK : truthy t.task = t.task.isSome := h.truthy_get .task
  have tJ : truthy t.job = t.job.isSome := h.truthy_get .job
  unfold detokenise
  simp only [keyOrder_eq, Tokens.get, tU, tW, tC, tK, tJ]
  rcases Option.eq_none_or_eq_some t.cycle with hc | ⟨x_cycle, hc⟩ <;> rw [hc] at tC <;>
    simp only [Option.isSome_none, Option.isSome_some] at tC
  · have := h.nonempty; simp [hu, hw, hc] at this
  · have eC := fun p => detokPart_cycle h b p hc
    rcases Option.eq_none_or_eq_some t.task with hk | ⟨x_task, hk⟩ <;> rw [hk] at tK <;>
      simp only [Option.isSome_none, Option.isSome_some] at tK
    · have hj : t.job = none := (h.below_task hk).2.1
      simp +decide [truthy_none, tU, tW, tC, tK, tJ, hj, List.filter, tt_cycle_cycle, tt_cycle_task, tt_cycle_job,
        detokParts, eC, joinSlash, hu, hw, renderRel, renderTask, hc, hk]
    · have eK := fun p => detokPart_task h b p hk
      rcases Option.eq_none_or_eq_some t.job with hj | ⟨x_job, hj⟩ <;> rw [hj] at tJ <;>
        simp only [Option.isSome_none, Option.isSome_some] at tJ
      · simp +decide [truthy_none, tU, tW, tC, tK, tJ, List.filter, tt_cycle_cycle, tt_cycle_task, tt_cycle_job,
          detokParts, eC, eK, joinSlash, hu, hw, renderRel, renderTask, renderJob, hc, hk, hj]
      · have eJ := fun p => detokPart_job h b p hj
        simp +decide [truthy_none, tU, tW, tC, tK, tJ, List.filter, tt_cycle_cycle, tt_cycle_task, tt_cycle_job,
          detokParts, eC, eK, eJ, joinSlash, hu, hw, renderRel, renderTask, renderJob, hc, hk, hj]

theorem WF.taskPart {t : Tokens} (h : WF t) (hc : t.cycle.isSome) : WF t.taskPart where
  user := by intro s hs; simp [Tokens.taskPart] at hs
  workflow := by intro s hs; simp [Tokens.taskPart] at hs
  workflowSel := by intro s hs; simp [Tokens.taskPart] at hs
  cycle := h.cycle
  cycleSel := h.cycleSel
  task := h.task
  taskSel := h.taskSel
  job := h.job
  jobSel := h.jobSel
  wsel_wf := by simp [Tokens.taskPart]
  csel_c := h.csel_c
  tsel_t := h.tsel_t
  jsel_j := h.jsel_j
  job_task := h.job_task
  task_cycle := h.task_cycle
  user_cycle_wf := by simp [Tokens.taskPart]
  nonempty := Or.inr (Or.inr hc)

theorem renderRel_taskPart (t : Tokens) (b : Bool) : renderRel t.taskPart b = renderRel t b := by
  simp [renderRel, renderTask, renderJob, Tokens.taskPart]


/-! ## legacy identifiers -/

theorem lgSplitSel_text (cls : Char → Bool) (a : Str) (sel : Option Str) (ha : ':' ∉ a)
    (hsel : ∀ s, sel = some s → s ≠ [] ∧ ∀ c ∈ s, cls c = true) :
    lgSplitSel cls (a ++ selSuffix true sel) = some (a, sel) := by
  cases sel with
  | none => simp [selSuffix, lgSplitSel, splitFirst_none ':' a ha]
  | some s =>
    obtain ⟨hne, hall⟩ := hsel s rfl
    have : selOk cls s = true := by
      simp [selOk, isEmpty_false_of_ne hne, List.all_eq_true]; exact hall
    simp [selSuffix, lgSplitSel, splitFirst_append ':' a s ha, this]

theorem lgSplitSel_text_weak (cls : Char → Bool) (a : Str) (sel : Option Str) (ha : ':' ∉ a) :
    lgSplitSel cls (a ++ selSuffix true sel) = none ∨ lgSplitSel cls (a ++ selSuffix true sel) = some (a, sel) := by
  cases sel with
  | none => right; simp [selSuffix, lgSplitSel, splitFirst_none ':' a ha]
  | some s =>
    simp only [selSuffix, if_true, lgSplitSel, splitFirst_append ':' a s ha]
    by_cases h : selOk cls s = true
    · right; simp [h]
    · left; simp [h]

/-- facts about a legal legacy cycle -/
theorem lgCycle_facts {cls : Char → Bool} {cyc : Str} (h : lgCycleFieldOk cls cyc = true) :
    ∃ c cs, cyc = c :: cs ∧ digitCh c = true ∧ (∀ d ∈ cs, cls d = true) ∧ stripped cyc = true := by
  cases cyc with
  | nil => simp [lgCycleFieldOk] at h
  | cons c cs =>
    simp only [lgCycleFieldOk, Bool.and_eq_true, List.all_eq_true] at h
    exact ⟨c, cs, rfl, h.1.1, h.1.2, h.2⟩

theorem digit_ne {x : Char} (hx : digitCh x = false) {c : Char} (hc : digitCh c = true) : c ≠ x := by
  intro e; subst e; rw [hx] at hc; exact Bool.noConfusion hc

theorem lgCycle_not_mem {cls : Char → Bool} {cyc : Str} (h : lgCycleFieldOk cls cyc = true) {x : Char}
    (hx1 : digitCh x = false) (hx2 : cls x = false) : x ∉ cyc := by
  obtain ⟨c, cs, rfl, hc, hcs, _⟩ := lgCycle_facts h
  simp only [List.mem_cons, not_or]
  exact ⟨fun e => digit_ne hx1 hc e.symm, not_mem_of_all hx2 hcs⟩

theorem fieldOk_facts {cls : Char → Bool} {s : Str} (h : fieldOk cls s = true) :
    s ≠ [] ∧ (∀ c ∈ s, cls c = true) ∧ stripped s = true := by
  simp only [fieldOk, Bool.and_eq_true, List.all_eq_true] at h
  exact ⟨stripped_ne_nil h.2, h.1, h.2⟩

theorem optOk_fieldP {cls : Char → Bool} {x : Option Str} (h : optOk (fieldOk cls) x = true) : FieldP cls x :=
  fieldP_of_optOk h

theorem selOk_of {cls : Char → Bool} {s : Str} (hne : s ≠ []) (hall : ∀ c ∈ s, cls c = true) : selOk cls s = true := by
  simp [selOk, isEmpty_false_of_ne hne, List.all_eq_true]; exact hall

theorem lgCycleOk_of {cls : Char → Bool} {min : Nat} {cyc : Str} (h : lgCycleFieldOk cls cyc = true)
    (hmin : min < cyc.length) : lgCycleOk cls min cyc = true := by
  obtain ⟨c, cs, rfl, hc, hcs, _⟩ := lgCycle_facts h
  simp only [List.length_cons] at hmin
  simp only [lgCycleOk, hc, Bool.true_and, Bool.and_eq_true, List.all_eq_true, decide_eq_true_eq]
  exact ⟨hcs, by omega⟩

theorem legacyDot_text (p : LegacyParts) (hd : p.dot = true) (hok : p.ok = true)
    (hmin : lgDotCycleMin < p.cycle.length) :
    legacyDot p.text = some ⟨p.cycle, p.task, p.sel⟩ := by
  simp only [LegacyParts.ok, hd, if_true, Bool.and_eq_true] at hok
  obtain ⟨⟨htask, hcyc⟩, hsel⟩ := hok
  obtain ⟨htne, hta, _⟩ := fieldOk_facts htask
  have hselP := optOk_fieldP hsel
  have hcolon : ':' ∉ p.task ++ '.' :: p.cycle := by
    simp only [List.mem_append, List.mem_cons, not_or]
    exact ⟨not_mem_of_all (cls := lgDotTaskCh) (by decide) hta, by decide,
      lgCycle_not_mem hcyc (by decide) (by decide)⟩
  have hnl : '\n' ∉ p.text := by
    simp only [LegacyParts.text, hd, if_true, List.mem_append, List.mem_cons, not_or, and_assoc]
    exact ⟨not_mem_of_all (cls := lgDotTaskCh) (by decide) hta, by decide,
      lgCycle_not_mem hcyc (by decide) (by decide), selSuffix_noNl (cls := lgDotSelCh) (by decide) true _ hselP⟩
  have hdot : '.' ∉ p.cycle := lgCycle_not_mem hcyc (by decide) (by decide)
  unfold legacyDot legacyDotWith
  rw [chomp_of_not_mem _ hnl]
  simp only [LegacyParts.text, hd, if_true]
  rw [lgSplitSel_text lgDotSelCh _ p.sel hcolon (fun s hs => ⟨(hselP s hs).1, (hselP s hs).2.1⟩)]
  simp only [splitLast_append '.' p.task p.cycle hdot, selOk_of htne hta, lgCycleOk_of hcyc hmin, Bool.and_self,
    if_true]

theorem legacyDot_slash_text (p : LegacyParts) (hd : p.dot = false) (hok : p.ok = true) :
    legacyDot p.text = none := by
  simp only [LegacyParts.ok, hd, Bool.false_eq_true, if_false, Bool.and_eq_true] at hok
  obtain ⟨⟨htask, hcyc⟩, hsel⟩ := hok
  obtain ⟨htne, hta, _⟩ := fieldOk_facts htask
  have hselP := optOk_fieldP hsel
  have hcolon : ':' ∉ p.cycle ++ '/' :: p.task := by
    simp only [List.mem_append, List.mem_cons, not_or]
    exact ⟨lgCycle_not_mem hcyc (by decide) (by decide), by decide,
      not_mem_of_all (cls := lgSlashTaskCh) (by decide) hta⟩
  have hnl : '\n' ∉ p.text := by
    simp only [LegacyParts.text, hd, Bool.false_eq_true, if_false, List.mem_append, List.mem_cons, not_or, and_assoc]
    exact ⟨lgCycle_not_mem hcyc (by decide) (by decide), by decide,
      not_mem_of_all (cls := lgSlashTaskCh) (by decide) hta, selSuffix_noNl (cls := lgSlashSelCh) (by decide) true _ hselP⟩
  unfold legacyDot legacyDotWith
  rw [chomp_of_not_mem _ hnl]
  simp only [LegacyParts.text, hd, Bool.false_eq_true, if_false]
  rcases lgSplitSel_text_weak lgDotSelCh (p.cycle ++ '/' :: p.task) p.sel hcolon with h | h
  · rw [h]
  · rw [h]
    simp only
    cases hs : splitLast '.' (p.cycle ++ '/' :: p.task) with
    | none => rfl
    | some xy =>
      obtain ⟨x, y⟩ := xy
      obtain ⟨heq, _⟩ := splitLast_some hs
      have hmem : '/' ∈ x ++ '.' :: y := by rw [← heq]; simp
      simp only [List.mem_append, List.mem_cons] at hmem
      have hf : (selOk lgDotTaskCh x && lgCycleOk lgDotCycCh lgDotCycleMin y) = false := by
        rcases hmem with hx | hx | hy
        · have : selOk lgDotTaskCh x = false := by
            simp only [selOk, Bool.and_eq_false_iff]
            right
            rw [List.all_eq_false]
            exact ⟨'/', hx, by decide⟩
          simp [this]
        · exact absurd hx (by decide)
        · have : lgCycleOk lgDotCycCh lgDotCycleMin y = false := by
            cases y with
            | nil => rfl
            | cons c cs =>
              rcases List.mem_cons.mp hy with e | hy
              · subst e
                have : digitCh '/' = false := by decide
                simp [lgCycleOk, this]
              · have : cs.all lgDotCycCh = false := by
                  rw [List.all_eq_false]; exact ⟨'/', hy, by decide⟩
                simp [lgCycleOk, this]
          simp [this]
      simp [hf]

theorem legacySlash_text (p : LegacyParts) (hd : p.dot = false) (hok : p.ok = true)
    (hmin : lgSlashCycleMin < p.cycle.length) :
    legacySlash p.text = some ⟨p.cycle, p.task, p.sel⟩ := by
  simp only [LegacyParts.ok, hd, Bool.false_eq_true, if_false, Bool.and_eq_true] at hok
  obtain ⟨⟨htask, hcyc⟩, hsel⟩ := hok
  obtain ⟨htne, hta, _⟩ := fieldOk_facts htask
  have hselP := optOk_fieldP hsel
  have hcolon : ':' ∉ p.cycle ++ '/' :: p.task := by
    simp only [List.mem_append, List.mem_cons, not_or]
    exact ⟨lgCycle_not_mem hcyc (by decide) (by decide), by decide,
      not_mem_of_all (cls := lgSlashTaskCh) (by decide) hta⟩
  have hnl : '\n' ∉ p.text := by
    simp only [LegacyParts.text, hd, Bool.false_eq_true, if_false, List.mem_append, List.mem_cons, not_or, and_assoc]
    exact ⟨lgCycle_not_mem hcyc (by decide) (by decide), by decide,
      not_mem_of_all (cls := lgSlashTaskCh) (by decide) hta, selSuffix_noNl (cls := lgSlashSelCh) (by decide) true _ hselP⟩
  have hslash : '/' ∉ p.cycle := lgCycle_not_mem hcyc (by decide) (by decide)
  unfold legacySlash legacySlashWith
  rw [chomp_of_not_mem _ hnl]
  simp only [LegacyParts.text, hd, Bool.false_eq_true, if_false]
  rw [lgSplitSel_text lgSlashSelCh _ p.sel hcolon (fun s hs => ⟨(hselP s hs).1, (hselP s hs).2.1⟩)]
  simp only [splitFirst_append '/' p.cycle p.task hslash, selOk_of htne hta, lgCycleOk_of hcyc hmin, Bool.and_self,
    if_true]


theorem LegacyParts.stripped_fields (p : LegacyParts) (hok : p.ok = true) :
    stripped p.cycle = true ∧ stripped p.task = true ∧ (∀ s, p.sel = some s → stripped s = true) := by
  cases hd : p.dot with
  | true =>
    simp only [LegacyParts.ok, hd, if_true, Bool.and_eq_true] at hok
    obtain ⟨⟨htask, hcyc⟩, hsel⟩ := hok
    obtain ⟨_, _, _, _, _, hs⟩ := lgCycle_facts hcyc
    exact ⟨hs, (fieldOk_facts htask).2.2, fun s hs => ((optOk_fieldP hsel) s hs).2.2⟩
  | false =>
    simp only [LegacyParts.ok, hd, Bool.false_eq_true, if_false, Bool.and_eq_true] at hok
    obtain ⟨⟨htask, hcyc⟩, hsel⟩ := hok
    obtain ⟨_, _, _, _, _, hs⟩ := lgCycle_facts hcyc
    exact ⟨hs, (fieldOk_facts htask).2.2, fun s hs => ((optOk_fieldP hsel) s hs).2.2⟩

theorem legacyTokenise_text (p : LegacyParts) (hok : p.ok = true) (hmin : p.minLen < p.cycle.length) :
    legacyTokenise p.text = some ⟨p.cycle, p.task, p.sel⟩ := by
  obtain ⟨h1, h2, h3⟩ := p.stripped_fields hok
  have hs : stripOpt p.sel = p.sel := stripOpt_field h3
  unfold legacyTokenise
  cases hd : p.dot with
  | true =>
    simp only [LegacyParts.minLen, hd, if_true] at hmin
    simp [legacyDot_text p hd hok hmin, pyStrip_of_stripped _ h1, pyStrip_of_stripped _ h2, hs]
  | false =>
    simp only [LegacyParts.minLen, hd, Bool.false_eq_true, if_false] at hmin
    simp [legacyDot_slash_text p hd hok, legacySlash_text p hd hok hmin, pyStrip_of_stripped _ h1,
      pyStrip_of_stripped _ h2, hs]

theorem cls_mono {ex ex' : List Char} (hsub : ∀ c ∈ ex', c ∈ ex) {s : Str} (h : ∀ c ∈ s, notIn ex c = true) :
    ∀ c ∈ s, notIn ex' c = true := fun c hc => notIn_of_subset hsub c (h c hc)

theorem digit_cyc0 (c : Char) (h : digitCh c = true) : cyc0Ch c = true := by
  have hall : ∀ d ∈ asciiDigits, cyc0Ch d = true := by decide
  exact hall c ((digitCh_iff c).mp h)

/-- the tokens of the contemporary form of a legal legacy identifier are valid tokens -/
theorem LegacyParts.tokens_WF (p : LegacyParts) (hok : p.ok = true) : WF p.tokens := by
  obtain ⟨hs1, hs2, hs3⟩ := p.stripped_fields hok
  have key : cycleOk p.cycle = true ∧ (p.task ≠ [] ∧ ∀ c ∈ p.task, taskCh c = true) ∧
      (∀ s, p.sel = some s → s ≠ [] ∧ ∀ c ∈ s, taskSelCh c = true) := by
    cases hd : p.dot with
    | true =>
      simp only [LegacyParts.ok, hd, if_true, Bool.and_eq_true] at hok
      obtain ⟨⟨htask, hcyc⟩, hsel⟩ := hok
      obtain ⟨c, cs, hcc, hc, hcs, _⟩ := lgCycle_facts hcyc
      refine ⟨?_, ⟨(fieldOk_facts htask).1, ?_⟩, ?_⟩
      · rw [hcc, cycleOk, Bool.and_eq_true, List.all_eq_true]
        exact ⟨digit_cyc0 c hc, cls_mono (ex := lgDotCycleNot) (ex' := cycleRestNot) (by decide) hcs⟩
      · exact cls_mono (ex := lgDotTaskNot) (ex' := taskNot) (by decide) (fieldOk_facts htask).2.1
      · intro s hs
        exact ⟨((optOk_fieldP hsel) s hs).1,
          cls_mono (ex := lgDotSelNot) (ex' := taskSelNot) (by decide) ((optOk_fieldP hsel) s hs).2.1⟩
    | false =>
      simp only [LegacyParts.ok, hd, Bool.false_eq_true, if_false, Bool.and_eq_true] at hok
      obtain ⟨⟨htask, hcyc⟩, hsel⟩ := hok
      obtain ⟨c, cs, hcc, hc, hcs, _⟩ := lgCycle_facts hcyc
      refine ⟨?_, ⟨(fieldOk_facts htask).1, ?_⟩, ?_⟩
      · rw [hcc, cycleOk, Bool.and_eq_true, List.all_eq_true]
        exact ⟨digit_cyc0 c hc, cls_mono (ex := lgSlashCycleNot) (ex' := cycleRestNot) (by decide) hcs⟩
      · exact cls_mono (ex := lgSlashTaskNot) (ex' := taskNot) (by decide) (fieldOk_facts htask).2.1
      · intro s hs
        exact ⟨((optOk_fieldP hsel) s hs).1,
          cls_mono (ex := lgSlashSelNot) (ex' := taskSelNot) (by decide) ((optOk_fieldP hsel) s hs).2.1⟩
  obtain ⟨k1, k2, k3⟩ := key
  exact {
    user := by intro s hs; simp [LegacyParts.tokens] at hs
    workflow := by intro s hs; simp [LegacyParts.tokens] at hs
    workflowSel := by intro s hs; simp [LegacyParts.tokens] at hs
    cycle := by
      intro c hc; simp only [LegacyParts.tokens, Option.some.injEq] at hc; subst hc; exact ⟨k1, hs1⟩
    cycleSel := by intro s hs; simp [LegacyParts.tokens] at hs
    task := by
      intro c hc; simp only [LegacyParts.tokens, Option.some.injEq] at hc; subst hc; exact ⟨k2.1, k2.2, hs2⟩
    taskSel := by
      intro s hs; simp only [LegacyParts.tokens] at hs; exact ⟨(k3 s hs).1, (k3 s hs).2, hs3 s hs⟩
    job := by intro s hs; simp [LegacyParts.tokens] at hs
    jobSel := by intro s hs; simp [LegacyParts.tokens] at hs
    wsel_wf := by simp [LegacyParts.tokens]
    csel_c := by simp [LegacyParts.tokens]
    tsel_t := by simp [LegacyParts.tokens]
    jsel_j := by simp [LegacyParts.tokens]
    job_task := by simp [LegacyParts.tokens]
    task_cycle := by simp [LegacyParts.tokens]
    user_cycle_wf := by simp [LegacyParts.tokens]
    nonempty := by simp [LegacyParts.tokens] }

theorem LegacyParts.cycle_noColon (p : LegacyParts) (hok : p.ok = true) : ':' ∉ p.cycle := by
  cases hd : p.dot with
  | true =>
    simp only [LegacyParts.ok, hd, if_true, Bool.and_eq_true] at hok
    exact lgCycle_not_mem hok.1.2 (by decide) (by decide)
  | false =>
    simp only [LegacyParts.ok, hd, Bool.false_eq_true, if_false, Bool.and_eq_true] at hok
    exact lgCycle_not_mem hok.1.2 (by decide) (by decide)

theorem LegacyParts.notAmbiguous (p : LegacyParts) (hok : p.ok = true) (b : Bool) :
    cycleAmbiguous p.tokens b = false := by
  simp [cycleAmbiguous, LegacyParts.tokens, splitLast_none ':' p.cycle (p.cycle_noColon hok)]

theorem LegacyParts.expected_tokens (p : LegacyParts) : expected p.tokens true = p.tokens := by
  simp [expected, LegacyParts.tokens, keepSel]


theorem upgradeAll_texts (rel : Bool) (ps : List LegacyParts)
    (h : ∀ p ∈ ps, p.ok = true ∧ p.minLen < p.cycle.length) :
    upgradeAll rel (ps.map LegacyParts.text) = some (ps.map fun p => p.contemporary rel) := by
  induction ps with
  | nil => rfl
  | cons p ps ih =>
    obtain ⟨hok, hmin⟩ := h p (by simp)
    have ih' := ih (fun q hq => h q (by simp [hq]))
    have hwf := p.tokens_WF hok
    have hd : detokenise (Legacy.toTokens ⟨p.cycle, p.task, p.sel⟩) true rel = some (p.contemporary rel) := by
      show detokenise p.tokens true rel = _
      cases rel with
      | false => simpa [LegacyParts.contemporary] using detokenise_canonical p.tokens true hwf
      | true => simpa [LegacyParts.contemporary] using detokenise_relative p.tokens true hwf rfl rfl
    simp only [List.map_cons, upgradeAll, legacyTokenise_text p hok hmin, hd, ih']

theorem tokenise_contemporary (p : LegacyParts) (hok : p.ok = true) (rel : Bool) :
    tokenise (p.contemporary rel) rel = some p.tokens := by
  have hwf := p.tokens_WF hok
  have hcan := tokenise_canonical p.tokens true hwf (p.notAmbiguous hok true)
  rw [p.expected_tokens] at hcan
  cases rel with
  | false => simpa [LegacyParts.contemporary] using hcan
  | true =>
    have hc : canonical p.tokens true = '/' :: '/' :: renderRel p.tokens true := by
      simp [canonical, LegacyParts.tokens]
    rw [hc] at hcan
    have hns : startsSS (renderRel p.tokens true) = false := by
      obtain ⟨a, cs, hcc, ha, _⟩ := (cycleOk_iff p.cycle).mp (hwf.cycle p.cycle rfl).1
      have hne : a ≠ '/' := by intro e; subst e; revert ha; decide
      simp only [renderRel, LegacyParts.tokens, hcc, List.cons_append]
      unfold startsSS
      split
      · rename_i heq; simp at heq; exact absurd heq.1 hne
      · rfl
    simp only [LegacyParts.contemporary, if_true]
    unfold tokenise at hcan ⊢
    simpa [hns] using hcan


/-! ## formatting the tokens read back -/

theorem selSuffix_keepSel (b : Bool) (x : Option Str) : selSuffix b (keepSel b x) = selSuffix b x := by
  cases b <;> cases x <;> simp [selSuffix, keepSel]

theorem fieldP_keepSel {cls : Char → Bool} {x : Option Str} (h : FieldP cls x) (b : Bool) : FieldP cls (keepSel b x) := by
  cases b with
  | false => intro s hs; simp [keepSel] at hs
  | true => simpa [keepSel] using h

theorem keepSel_isSome {b : Bool} {x : Option Str} (h : (keepSel b x).isSome) : x.isSome := by
  cases b <;> simp_all [keepSel]

theorem WF.expected {t : Tokens} (h : WF t) (b : Bool) : WF (expected t b) where
  user := h.user
  workflow := h.workflow
  workflowSel := fieldP_keepSel h.workflowSel b
  cycle := h.cycle
  cycleSel := fieldP_keepSel h.cycleSel b
  task := h.task
  taskSel := fieldP_keepSel h.taskSel b
  job := by
    intro j hj
    simp only [Ident.expected, Option.map_eq_some_iff] at hj
    obtain ⟨j0, hj0, rfl⟩ := hj
    exact padJob_jobOk (h.job j0 hj0)
  jobSel := fieldP_keepSel h.jobSel b
  wsel_wf := fun hs => h.wsel_wf (keepSel_isSome hs)
  csel_c := fun hs => h.csel_c (keepSel_isSome hs)
  tsel_t := fun hs => h.tsel_t (keepSel_isSome hs)
  jsel_j := fun hs => by
    have := h.jsel_j (keepSel_isSome hs)
    simpa [Ident.expected] using this
  job_task := fun hs => by
    have : t.job.isSome := by simpa [Ident.expected] using hs
    exact h.job_task this
  task_cycle := h.task_cycle
  user_cycle_wf := h.user_cycle_wf
  nonempty := h.nonempty

theorem canonical_expected {t : Tokens} (h : WF t) (b : Bool) : canonical (expected t b) b = canonical t b := by
  have hj : renderJob (expected t b) b = renderJob t b := by
    simp only [renderJob, Ident.expected, selSuffix_keepSel]
    cases hj : t.job with
    | none => rfl
    | some j => simp [padJob_idem (h.job j hj)]
  have hk : renderTask (expected t b) b = renderTask t b := by
    simp only [renderTask, hj]
    simp [Ident.expected, selSuffix_keepSel]
  have hr : renderRel (expected t b) b = renderRel t b := by
    simp only [renderRel, hk]
    simp [Ident.expected, selSuffix_keepSel]
  have hw : renderWf (expected t b) b = renderWf t b := by
    simp only [renderWf, hr]
    simp only [Ident.expected, selSuffix_keepSel]
    rfl
  simp only [canonical, hw, hr]
  simp only [Ident.expected]
  rfl

theorem tokenise_relative_prefix (s : Str) (h : startsSS s = false) :
    tokenise s true = tokenise ('/' :: '/' :: s) false := by
  unfold tokenise
  simp [h]

theorem renderRel_notSS {t : Tokens} (h : WF t) (b : Bool) : startsSS (renderRel t b) = false := by
  cases hc : t.cycle with
  | none => simp [renderRel, hc, startsSS]
  | some c =>
    obtain ⟨a, cs, hcc, ha, _⟩ := (cycleOk_iff c).mp (h.cycle c hc).1
    have hne : a ≠ '/' := by intro e; subst e; revert ha; decide
    simp only [renderRel, hc, hcc, List.cons_append]
    unfold startsSS
    split
    · rename_i heq; simp at heq; exact absurd heq.1 hne
    · rfl

theorem cycleAmbiguous_taskPart (t : Tokens) (b : Bool) : cycleAmbiguous t.taskPart b = cycleAmbiguous t b := by
  simp [cycleAmbiguous, Tokens.taskPart]

theorem expected_taskPart (t : Tokens) (b : Bool) : expected t.taskPart b = (expected t b).taskPart := by
  simp [Ident.expected, Tokens.taskPart, keepSel_none]

theorem tokenise_relative (t : Tokens) (b : Bool) (h : WF t) (hc : t.cycle.isSome)
    (hamb : cycleAmbiguous t b = false) :
    tokenise (renderRel t b) true = some (expected t b).taskPart := by
  have hwf := h.taskPart hc
  have := tokenise_canonical t.taskPart b hwf (by rw [cycleAmbiguous_taskPart]; exact hamb)
  rw [expected_taskPart] at this
  have hcan : canonical t.taskPart b = '/' :: '/' :: renderRel t b := by
    simp [canonical, Tokens.taskPart, ← renderRel_taskPart t b]
  rw [hcan] at this
  rw [tokenise_relative_prefix _ (renderRel_notSS h b)]
  exact this


/-! ## the relative part is read the same way whatever precedes it -/

/-- put `~user/workflow:sel` in front of task-like tokens -/
def setHead (u w ws : Option Str) (x : Tokens) : Tokens := { x with user := u, workflow := w, workflowSel := ws }

theorem parseJob_frame (u w ws : Option Str) (t0 : Tokens) (r : Str) :
    parseJob (setHead u w ws t0) r = (parseJob t0 r).map (setHead u w ws) := by
  simp only [parseJob]
  by_cases h : (spanP jobCh r).1.isEmpty = true
  · simp [h]
  · simp only [h, Bool.false_eq_true, if_false]
    cases optSel jobSelCh (spanP jobCh r).2 with
    | none => rfl
    | some p =>
      obtain ⟨sel, rest⟩ := p
      cases rest with
      | nil => simp [setHead]
      | cons _ _ => rfl

theorem parseTask_frame (u w ws : Option Str) (t0 : Tokens) (r : Str) :
    parseTask (setHead u w ws t0) r = (parseTask t0 r).map (setHead u w ws) := by
  simp only [parseTask]
  by_cases h : (spanP taskCh r).1.isEmpty = true
  · simp [h]
  · simp only [h, Bool.false_eq_true, if_false]
    cases optSel taskSelCh (spanP taskCh r).2 with
    | none => rfl
    | some p =>
      obtain ⟨sel, rest⟩ := p
      cases rest with
      | nil => simp [setHead]
      | cons a rest' =>
        by_cases ha : a = '/'
        · subst ha
          cases rest' with
          | nil => simp [setHead]
          | cons b r'' =>
            have := parseJob_frame u w ws { t0 with task := some (spanP taskCh r).1, taskSel := sel } (b :: r'')
            simp only [setHead] at this ⊢
            exact this
        · have e1 : ∀ (f g : Tokens → Option Tokens) (k : Tokens) (h : Tokens → Str → Option Tokens),
              (match (some (sel, a :: rest') : Option (Option Str × Str)) with
                | some (s, []) => f k
                | some (s, ['/']) => g k
                | some (s, '/' :: r') => h k r'
                | _ => none) = none := by
            intro f g k h
            split <;> simp_all
          simp_all

theorem parseRel_frame (u w ws : Option Str) (t0 : Tokens) (r : Str) :
    parseRel (setHead u w ws t0) r = (parseRel t0 r).map (setHead u w ws) := by
  simp only [parseRel]
  cases cycleSeg (spanP (fun x => x != '/') r).1 with
  | none => rfl
  | some p =>
    obtain ⟨c, sel⟩ := p
    simp only
    cases (spanP (fun x => x != '/') r).2 with
    | nil => simp [setHead]
    | cons a rest =>
      cases rest with
      | nil => simp [setHead]
      | cons b r' =>
        have := parseTask_frame u w ws { t0 with cycle := some c, cycleSel := sel } (b :: r')
        simp only [setHead] at this ⊢
        exact this

theorem parseRel_head_none {r : Str} {x : Tokens} (h : parseRel {} r = some x) :
    x.user = none ∧ x.workflow = none ∧ x.workflowSel = none := by
  have := parseRel_frame none none none {} r
  rw [show setHead none none none ({} : Tokens) = {} from rfl, h] at this
  simp only [Option.map_some, Option.some.injEq] at this
  rw [this]
  simp [setHead]

theorem taskPart_dictStrip_setHead (u w ws : Option Str) (x : Tokens)
    (hx : x.user = none ∧ x.workflow = none ∧ x.workflowSel = none) :
    (dictStrip (setHead u w ws x)).taskPart = dictStrip x := by
  obtain ⟨h1, h2, h3⟩ := hx
  simp [dictStrip, setHead, Tokens.taskPart, h1, h2, h3, stripOpt]

/-- `universal` on the canonical string of tokens with a workflow and a cycle hands the relative part,
unchanged, to `parseRel` -/
theorem universal_canonical_rel (t : Tokens) (b : Bool) (h : WF t) (w c : Str) (hw : t.workflow = some w)
    (hc : t.cycle = some c) :
    universal (canonical t b) = parseRel (setHead t.user (some w) (keepSel b t.workflowSel) {}) (renderRel t b) := by
  have hws := fieldP_sel h.workflowSel
  have hshape := (h.workflow w hw).1
  have hch := chomp_of_not_mem _ (canonical_noNl h b)
  obtain ⟨a, r, hr⟩ : ∃ a r, renderRel t b = a :: r := by
    have hcne := stripped_ne_nil (h.cycle c hc).2
    cases c with
    | nil => exact absurd rfl hcne
    | cons a c' => exact ⟨a, c' ++ (selSuffix b t.cycleSel ++ renderTask t b), by simp [renderRel, hc]⟩
  have hpw : ∀ u : Option Str, parseWf { user := u } (renderWf t b)
      = parseRel (setHead u (some w) (keepSel b t.workflowSel) {}) (renderRel t b) := by
    intro u
    simp only [renderWf, hw, hc, Option.isSome_some, if_true, hr]
    rw [parseWf_rel _ w b t.workflowSel a r hshape hws]
    rfl
  obtain ⟨a0, r0, hr0, ha0⟩ := renderWf_head h b w hw
  cases hu : t.user with
  | none =>
    have hcan : canonical t b = a0 :: r0 := by simp [canonical, hu, hw, hr0]
    have hne : a0 ≠ '~' := by intro e; subst e; revert ha0; decide
    rw [universal_noUser _ a0 r0 (by rw [hch, hcan]) hne, ← hr0]
    exact hpw none
  | some u =>
    obtain ⟨hune, hua, _⟩ := h.user u hu
    unfold universal
    rw [hch]
    have hsp := spanP_append userCh u ('/' :: a0 :: r0) hua (Or.inr ⟨'/', _, rfl, by decide⟩)
    simp only [canonical, hu, hw, Option.isSome_some, if_true, hr0, List.cons_append, hsp, isEmpty_false_of_ne hune]
    rw [← hr0]
    exact hpw (some u)

theorem relativeId_canonical_none (t : Tokens) (b : Bool) (h : WF t) (hx : t.user.isSome ∨ t.workflow.isSome) :
    relativeId (canonical t b) = none := by
  have hch := chomp_of_not_mem _ (canonical_noNl h b)
  unfold relativeId
  rw [hch]
  cases hu : t.user with
  | some u => simp [canonical, hu]
  | none =>
    cases hw : t.workflow with
    | none => simp [hu, hw] at hx
    | some w =>
      obtain ⟨a0, r0, hr0, ha0⟩ := renderWf_head h b w hw
      have hne : a0 ≠ '/' := by intro e; subst e; revert ha0; decide
      simp only [canonical, hu, hw, Option.isSome_some, if_true, hr0]
      split
      · rename_i heq; simp at heq; exact absurd heq.1 hne
      · rfl

/-- Relative and absolute forms agree on the task part, for all valid tokens (also when the cycle text is
ambiguous: both forms then misread it in the same way). -/
theorem tokenise_relative_agree (t : Tokens) (b : Bool) (h : WF t) (hc : t.cycle.isSome) :
    tokenise (renderRel t b) true = (tokenise (canonical t b) false).map Tokens.taskPart := by
  obtain ⟨c, hc'⟩ := Option.isSome_iff_exists.mp hc
  -- the relative form
  have hrel : tokenise (renderRel t b) true = (parseRel {} (renderRel t b)).map dictStrip := by
    rw [tokenise_relative_prefix _ (renderRel_notSS h b)]
    have hnl : '\n' ∉ '/' :: '/' :: renderRel t b := by
      simp only [List.mem_cons, not_or]
      exact ⟨by decide, by decide, renderRel_noNl h b⟩
    have hch := chomp_of_not_mem _ hnl
    have hu : universal ('/' :: '/' :: renderRel t b) = none := by
      rw [universal_noUser _ '/' ('/' :: renderRel t b) hch (by decide)]
      have : wfCh '/' = false := by decide
      simp [parseWf, this]
    unfold tokenise
    simp only [Bool.false_and, Bool.false_eq_true, if_false, hu]
    unfold relativeId
    rw [hch]
    cases hp : parseRel {} (renderRel t b) <;> simp [hp]
  rw [hrel]
  by_cases hx : t.user.isSome ∨ t.workflow.isSome
  · have hw : ∃ w, t.workflow = some w := by
      cases hw : t.workflow with
      | some w => exact ⟨w, rfl⟩
      | none =>
        rcases hx with hx | hx
        · have := h.user_cycle_wf hx hc; simp [hw] at this
        · simp [hw] at hx
    obtain ⟨w, hw⟩ := hw
    have habs : tokenise (canonical t b) false
        = ((parseRel {} (renderRel t b)).map (setHead t.user (some w) (keepSel b t.workflowSel))).map dictStrip := by
      unfold tokenise
      simp only [Bool.false_and, Bool.false_eq_true, if_false]
      rw [universal_canonical_rel t b h w c hw hc', parseRel_frame, relativeId_canonical_none t b h hx]
      cases parseRel {} (renderRel t b) <;> rfl
    rw [habs]
    cases hp : parseRel {} (renderRel t b) with
    | none => rfl
    | some x =>
      simp only [Option.map_some]
      rw [taskPart_dictStrip_setHead _ _ _ x (parseRel_head_none hp)]
  · have hu : t.user = none := by cases hu : t.user <;> simp_all
    have hw : t.workflow = none := by cases hw : t.workflow <;> simp_all
    have hcan : canonical t b = '/' :: '/' :: renderRel t b := by simp [canonical, hu, hw]
    rw [hcan, ← tokenise_relative_prefix _ (renderRel_notSS h b), hrel]
    cases hp : parseRel {} (renderRel t b) with
    | none => rfl
    | some x =>
      simp only [Option.map_some]
      have := taskPart_dictStrip_setHead none none none x (parseRel_head_none hp)
      rw [show setHead none none none x = x by
        obtain ⟨h1, h2, h3⟩ := parseRel_head_none hp
        cases x; simp_all [setHead]] at this
      rw [this]


end CylcModel.Ident
