/-
`launched_*`: no primitive of the `Sched3Exp` model but `releaseAndSubmit` records a job launch (generated
mechanically from the `queue_*` family), hence the launches of a main loop are those of `releaseAndSubmit` at the
release point (`mainLoop_launched`) and no other op launches anything (`launched_step_of_ne_loop`).
-/
import CylcModel.Sched3ExpLemmasI

namespace CylcModel.Sched3Exp


theorem launched_spawnTask (g : Graph) (s : State) (n : String) (p : Int) :
    (spawnTask g s n p).1.launched = s.launched := by
  rw [spawnTask_state]


theorem launched_add (s : State) (x : Proxy) : (s.add x).launched = s.launched := by
  unfold State.add; split <;> rfl


theorem launched_spawnAndAdd (g : Graph) (s : State) (n : String) (p : Int) :
    (spawnAndAdd g s n p).launched = s.launched := by
  unfold spawnAndAdd
  split
  · rfl
  · split
    · rename_i h; rw [launched_add]; have := launched_spawnTask g s n p; rw [h] at this; exact this
    · rename_i h; have := launched_spawnTask g s n p; rw [h] at this; exact this


theorem launched_spawnNextParentless (g : Graph) (s : State) (x : Proxy) :
    (spawnNextParentless g s x).launched = s.launched := by
  unfold spawnNextParentless
  split
  · rfl
  · split
    · exact launched_spawnAndAdd _ _ _ _
    · rfl


theorem launched_computeRunahead (g : Graph) (s : State) (f : Bool) :
    (computeRunahead g s f).launched = s.launched := by
  unfold computeRunahead
  simp only
  split
  · rfl
  · split <;> rfl


theorem launched_releaseRunahead (g : Graph) (s : State) : (releaseRunahead g s).1.launched = s.launched := by
  unfold releaseRunahead
  split
  · rfl
  · split
    · rfl
    · simp only
      apply foldl_inv (fun st : State => st.launched = s.launched)
      · intro st x hst
        rw [launched_spawnNextParentless]
        split
        · exact hst
        · exact hst
      · rfl


theorem launched_releaseHeldActive (s : State) (x : Proxy) : (releaseHeldActive s x).launched = s.launched := by
  unfold releaseHeldActive
  simp only
  split <;> rfl


theorem launched_holdActive (s : State) (x : Proxy) : (holdActive s x).launched = s.launched := by
  unfold holdActive
  simp only
  split <;> rfl


theorem launched_remove (g : Graph) (s : State) (x : Proxy) : (remove g s x).launched = s.launched := by
  unfold remove
  simp only
  split
  · rw [launched_spawnNextParentless, launched_releaseHeldActive]
  · rw [launched_releaseHeldActive]


theorem launched_removeIfComplete (g : Graph) (s : State) (x : Proxy) :
    (removeIfComplete g s x).launched = s.launched := by
  unfold removeIfComplete
  split
  · rfl
  · simp only
    have key : ∀ s1 : State, s1.launched = s.launched →
        (match g.task? x.name with
          | none => s1
          | some t => if isComplete t x.done = true then remove g s1 x else s1).launched = s.launched := by
      intro s1 h1
      split
      · exact h1
      · split
        · rw [launched_remove]; exact h1
        · exact h1
    apply key
    split <;> rfl


theorem launched_put (s : State) (x : Proxy) : (s.put x).launched = s.launched := rfl


theorem launched_spawnChildFin (p : Int) (n out : String) (sui : List (Int × String)) (c : Child)
    (st1 : State) (ch : Option Proxy) (inPool : Bool) :
    (spawnChildFin p n out sui c st1 ch inPool).1.launched = st1.launched := by
  unfold spawnChildFin
  split
  · rfl
  · refine foldl_inv (fun a : State × List (Int × String) => a.1.launched = st1.launched) _ ?_ _ _ ?_
    · intro a k ha
      simp only
      split
      · exact ha
      · exact ha
    · simp only
      split
      · rfl
      · rw [launched_add]


theorem launched_spawnChild (g : Graph) (p : Int) (n out : String) (acc : State × List (Int × String)) (c : Child) :
    (spawnChild g p n out acc c).1.launched = acc.1.launched := by
  obtain ⟨st, sui⟩ := acc
  rw [spawnChild_eq]
  simp only
  have h0 : (if (c.isAbs && !st.absDone.contains ⟨p, n, out⟩) = true then
      { st with absDone := st.absDone ++ [⟨p, n, out⟩] } else st).launched = st.launched := by
    split <;> rfl
  generalize (if (c.isAbs && !st.absDone.contains ⟨p, n, out⟩) = true then
      { st with absDone := st.absDone ++ [⟨p, n, out⟩] } else st) = st0 at h0 ⊢
  split
  · rw [launched_spawnChildFin]; exact h0
  · rw [launched_spawnChildFin, launched_spawnTask]; exact h0


theorem launched_spawnOnOutput (g : Graph) (s : State) (p : Int) (n out : String) :
    (spawnOnOutput g s p n out).launched = s.launched := by
  unfold spawnOnOutput
  split
  · rfl
  · simp only
    have h1 : ∀ (cs : List Child) (acc : State × List (Int × String)),
        (cs.foldl (spawnChild g p n out) acc).1.launched = acc.1.launched := by
      intro cs; induction cs with
      | nil => intro acc; rfl
      | cons c cs ih => intro acc; simp only [List.foldl_cons]; rw [ih, launched_spawnChild]
    have h2 : ∀ (ks : List (Int × String)) (st : State),
        (ks.foldl (fun (st : State) k => match st.get? k.1 k.2 with
          | some z => remove g st z
          | none => st) st).launched = st.launched := by
      intro ks; induction ks with
      | nil => intro st; rfl
      | cons k ks ih =>
        intro st
        simp only [List.foldl_cons]
        rw [ih]
        split
        · rw [launched_remove]
        · rfl
    generalize hR : (List.foldl (spawnChild g p n out) (s, []) _) = R
    have hRn : R.1.launched = s.launched := by rw [← hR, h1]
    have h3 := h2 R.2 R.1
    split
    · rw [launched_removeIfComplete]; exact h3.trans hRn
    · exact h3.trans hRn


theorem launched_store (s : State) (x : Proxy) (tr : Bool) : (store s x tr).launched = s.launched := by
  unfold store; split <;> rfl


theorem launched_histOutputs (s : State) (p : Int) (n : String) : (histOutputs s p n).launched = s.launched := by
  unfold histOutputs
  split
  · split <;> rfl
  · rfl


theorem launched_spawnChildren (g : Graph) (s : State) (p : Int) (n out : String) (tr : Bool) :
    (spawnChildren g s p n out tr).launched = s.launched := by
  unfold spawnChildren; split
  · exact launched_histOutputs _ _ _
  · exact launched_spawnOnOutput _ _ _ _ _


theorem launched_pmFinal (g : Graph) (s : State) (p : Int) (n : String) (x : Proxy) (tr : Bool) (st : Status)
    (out : String) : (pmFinal g s p n x tr st out).launched = s.launched := by
  unfold pmFinal
  simp only
  rw [launched_spawnChildren, launched_store]


theorem launched_checkStalled (g : Graph) (s : State) : (checkStalled g s).launched = s.launched := by
  unfold checkStalled; split
  · rfl
  · split
    · rfl
    · split <;> rfl


theorem launched_checkAutoShutdown (g : Graph) (s : State) : (checkAutoShutdown g s).1.launched = s.launched := by
  unfold checkAutoShutdown
  split
  · rfl
  · simp only
    split
    · exact launched_checkStalled _ _
    · split
      · exact launched_checkStalled _ _
      · exact launched_checkStalled _ _


theorem launched_stopTaskDone (s : State) : (stopTaskDone s).1.launched = s.launched := by
  unfold stopTaskDone; split <;> rfl


theorem launched_queueIfReady (s : State) (x : Proxy) : (queueIfReady s x).launched = s.launched := by
  unfold queueIfReady; split <;> rfl


theorem launched_sweepQueue (s : State) : (sweepQueue s).launched = s.launched := by
  unfold sweepQueue
  refine foldl_inv (fun st : State => st.launched = s.launched) _ ?_ _ _ rfl
  intro st x hst
  split
  · split
    · rw [launched_queueIfReady]; exact hst
    · exact hst
  · exact hst


theorem launched_finishLoop (g : Graph) (s : State) : (finishLoop g s).launched = s.launched := by
  unfold finishLoop
  extract_lets hasUpd s1 s2 s3
  have h1 : s1.launched = s.launched := by simp only [s1]; split <;> rfl
  have h2 : s2.launched = s.launched := by simp only [s2]; split <;> exact h1
  have h3 : s3.launched = s.launched := h2
  split
  · rw [launched_checkStalled]; exact h3
  · exact h3




theorem launched_setHoldPoint (s : State) (p : Int) : (setHoldPoint s p).launched = s.launched := by
  unfold setHoldPoint
  simp only
  refine foldl_inv (fun st : State => st.launched = s.launched) _ ?_ _ _ rfl
  intro st x hst
  split
  · split
    · rw [launched_holdActive]; exact hst
    · exact hst
  · exact hst


theorem launched_holdTasks (s : State) (ids : List (Int × String)) : (holdTasks s ids).launched = s.launched := by
  unfold holdTasks
  refine foldl_inv (fun st : State => st.launched = s.launched) _ ?_ _ _ rfl
  intro st k hst
  split
  · rw [launched_holdActive]; exact hst
  · split
    · exact hst
    · exact hst


theorem launched_releaseTasks (s : State) (ids : List (Int × String)) : (releaseTasks s ids).launched = s.launched := by
  unfold releaseTasks
  refine foldl_inv (fun st : State => st.launched = s.launched) _ ?_ _ _ rfl
  intro st k hst
  split
  · exact hst
  · split
    · rw [launched_releaseHeldActive]; exact hst
    · exact hst


theorem launched_releaseHoldPoint (s : State) : (releaseHoldPoint s).launched = s.launched := by
  unfold releaseHoldPoint
  simp only
  refine foldl_inv (fun st : State => st.launched = s.launched) _ ?_ _ _ rfl
  intro st x hst
  split
  · rw [launched_releaseHeldActive]; exact hst
  · exact hst


theorem launched_setStopPoint (s : State) (p : Int) : (setStopPoint s p).launched = s.launched := by
  unfold setStopPoint
  split
  · rfl
  · simp only
    split
    · split <;> rfl
    · rfl



theorem launched_queueOrTrigger (s : State) (x : Proxy) : (queueOrTrigger s x).launched = s.launched := by
  unfold queueOrTrigger
  split
  · rfl
  · simp only
    split <;> rfl


theorem launched_trigger (g : Graph) (s : State) (p : Int) (n : String) : (trigger g s p n).launched = s.launched := by
  unfold trigger
  split
  · rfl
  · simp only
    rw [launched_releaseRunahead]
    split
    · rfl
    · exact launched_queueOrTrigger _ _


theorem launched_processExpired (g : Graph) (s : State) (x : Proxy) (tr : Bool) :
    (processExpired g s x tr).launched = s.launched := by
  unfold processExpired
  extract_lets y changed s0 s1
  have h1 : s1.launched = s.launched := by
    simp only [s1, s0]; rw [launched_spawnChildren, launched_store]
  split
  · exact h1
  · exact h1

theorem launched_pmDispatch (g : Graph) (s : State) (p : Int) (n : String) (flag : Flag) (msg : String)
    (c : Option Bool) (x : Proxy) (tr : Bool) : (pmDispatch g s p n flag msg c x tr).1.launched = s.launched := by
  unfold pmDispatch
  repeat' split
  all_goals first
    | rfl
    | (simp only [launched_spawnChildren, launched_store, launched_pmFinal, launched_processExpired])
    | (rw [launched_spawnChildren])

theorem launched_processMessage (g : Graph) : ∀ (fuel : Nat) (s : State) (p : Int) (n : String) (flag : Flag)
    (sn : Nat) (msg : String), (processMessage g fuel s p n flag sn msg).1.launched = s.launched := by
  intro fuel
  induction fuel with
  | zero => intro s p n flag sn msg; rfl
  | succ fuel ih =>
    intro s p n flag sn msg
    unfold processMessage
    split
    · rfl
    · rename_i x tr _
      split
      · rfl
      · simp only
        have himp : ∀ (l : List String) (st : State),
            (l.foldl (fun st m => (processMessage g fuel st p n .internal sn m).1) st).launched = st.launched := by
          intro l; induction l with
          | nil => intro st; rfl
          | cons a l ihl => intro st; simp only [List.foldl_cons]; rw [ihl, ih]
        generalize hS : (List.foldl (fun st m => (processMessage g fuel st p n Flag.internal sn m).1) _ _) = S
        have hSn : S.launched = s.launched := by rw [← hS, himp, launched_store]
        split
        · exact hSn
        · rw [launched_pmDispatch]; exact hSn

theorem launched_clockExpireOne (g : Graph) (s : State) (k : Int × String) : (clockExpireOne g s k).launched = s.launched := by
  unfold clockExpireOne
  split
  · rfl
  · split
    · exact launched_processMessage _ _ _ _ _ _ _ _
    · rfl

theorem launched_clockExpireTasks (g : Graph) (s : State) : (clockExpireTasks g s).launched = s.launched := by
  unfold clockExpireTasks
  exact foldl_inv (fun st : State => st.launched = s.launched) (clockExpireOne g)
    (fun st k h => (launched_clockExpireOne g st k).trans h) _ _ rfl


theorem launched_processQueue (g : Graph) (s : State) : (processQueue g s).launched = s.launched := by
  unfold processQueue
  refine foldl_inv (fun st : State => st.launched = s.launched) _ ?_ _ _ rfl
  intro st grp hst
  simp only
  split
  · exact hst
  · have : ∀ (l : List Msg) (acc : State × Bool),
        (l.foldl (fun (acc : State × Bool) m =>
          let (st', pl) := processMessage g 4 acc.1 grp.1.1 grp.1.2 .received m.submitNum m.text
          (st', acc.2 || pl)) acc).1.launched = acc.1.launched := by
      intro l; induction l with
      | nil => intro acc; rfl
      | cons m l ihl =>
        intro acc
        simp only [List.foldl_cons]
        rw [ihl]
        exact launched_processMessage g 4 _ _ _ _ _ _
    have h2 := this grp.2 (st, false)
    split
    · simp only; rw [h2]; exact hst
    · rw [h2]; exact hst

theorem launched_restart (g : Graph) (s : State) : (restart g s).launched = [] := by
  unfold restart
  extract_lets restore cfgStop pool wait s'
  split
  · rw [launched_setHoldPoint]
  · rfl

theorem launched_loopHead (g : Graph) (s : State) : (loopHead g s).launched = s.launched := by
  unfold loopHead loopShutdown
  have h0 : (releaseRunahead g (computeRunahead g s)).1.launched = s.launched := by
    rw [launched_releaseRunahead, launched_computeRunahead]
  split
  · simp only
    split
    · exact (launched_stopTaskDone _).trans h0
    · split
      · exact ((launched_checkAutoShutdown g _).trans (launched_stopTaskDone _)).trans h0
      · exact ((launched_checkAutoShutdown g _).trans (launched_stopTaskDone _)).trans h0
  · exact h0

theorem launched_loopExpire (g : Graph) (s : State) : (loopExpire g s).launched = s.launched := by
  unfold loopExpire
  rw [launched_clockExpireTasks, launched_sweepQueue]

/-- **the launches of a main loop** are those `releaseAndSubmit` records at the release point -/
theorem mainLoop_launched (g : Graph) (s : State) :
    (∀ r, releasePoint g s = some r → (mainLoop g s).launched = (releaseAndSubmit r).launched ∧ r.launched = s.launched) ∧
    (releasePoint g s = none → (mainLoop g s).launched = s.launched) := by
  unfold mainLoop releasePoint
  split
  · exact ⟨fun r h => by simp at h, fun _ => rfl⟩
  · simp only
    have h3 : (loopHead g s).launched = s.launched := launched_loopHead g s
    have h5 : (loopExpire g (loopHead g s)).launched = s.launched := (launched_loopExpire g _).trans h3
    split
    · exact ⟨fun r h => by simp at h, fun _ => h3⟩
    · split
      · refine ⟨?_, fun hr => by simp at hr⟩
        intro r hr
        simp only [Option.some.injEq] at hr
        subst hr
        exact ⟨by rw [launched_finishLoop, launched_processQueue], h5⟩
      · refine ⟨fun r hr => by simp at hr, fun _ => ?_⟩
        rw [launched_finishLoop, launched_processQueue]; exact h5

/-- **job launches happen only in main loops** -/
theorem launched_step_of_ne_loop (g : Graph) (s : State) (op : Op) (h : op ≠ .loop) : (step g s op).launched = [] := by
  unfold step
  have hc : (clearOp s).launched = [] := rfl
  cases op with
  | loop => exact absurd rfl h
  | subres p n ok sn => simp only; rw [launched_processMessage]; exact hc
  | msg p n sn text => exact hc
  | hold ids => simp only; rw [launched_holdTasks]; exact hc
  | release ids => simp only; rw [launched_releaseTasks]; exact hc
  | setHoldPoint p => simp only; rw [launched_setHoldPoint]; exact hc
  | releaseHoldPoint => simp only; rw [launched_releaseHoldPoint]; exact hc
  | stop mode => exact hc
  | stopPoint p => simp only; rw [launched_setStopPoint]; exact hc
  | stopTask p n => exact hc
  | pause => exact hc
  | resume => exact hc
  | restart => exact launched_restart g _
  | tick dt => exact hc
  | trig p n => simp only; rw [launched_trigger]; exact hc

/-- **expired_never_submits** for one step from a state that satisfies `Inv`: every job launch of the step belongs to
a proxy that was in the pool and not expired when the main loop handed it to job submission - after the clock
expiry of that same loop -/
theorem step_launch_not_expired (g : Graph) (s : State) (op : Op) (h : Inv s) :
    ∀ l ∈ (step g s op).launched, op = .loop ∧ ∃ r, releasePoint g (clearOp s) = some r ∧
      ∃ x ∈ r.pool, x.pt = l.1 ∧ x.name = l.2.1 ∧ x.status ≠ .expired := by
  intro l hl
  by_cases hop : op = .loop
  · subst hop
    refine ⟨rfl, ?_⟩
    have hl' : l ∈ (mainLoop g (clearOp s)).launched := hl
    obtain ⟨hsome, hnone⟩ := mainLoop_launched g (clearOp s)
    cases hrp : releasePoint g (clearOp s) with
    | none => rw [hnone hrp] at hl'; simp [clearOp] at hl'
    | some r =>
      obtain ⟨hml, hr0⟩ := hsome r hrp
      rw [hml] at hl'
      have hc : Inv (clearOp s) := inv_of_eq (s := s) (s' := clearOp s) rfl rfl h
      have hinv : Inv r := inv_releasePoint hc hrp
      rcases releaseAndSubmit_launched r l hl' with h0 | ⟨x, hx, hxk⟩
      · rw [hr0] at h0; simp [clearOp] at h0
      · have hne : x.status ≠ .expired := toSubmit_not_expired hinv x hx
        have hmem : x ∈ r.pool := by
          unfold toSubmit at hx
          exact (List.mem_filter.mp hx).1
        exact ⟨r, rfl, x, hmem, hxk.1, hxk.2, hne⟩
  · rw [launched_step_of_ne_loop g s op hop] at hl; simp at hl

end CylcModel.Sched3Exp
