/-
C04F — the unforced `compute_runahead` in reachable states: the cached sequence points are never used without a
limit being there (so the "cache for speed" branch is dead and every computation that is not skipped is the
specification limit); when the computation is skipped the limit is left alone.
-/
import CylcModel.Sched3FutFrame
import CylcModel.Sched3FutLimit

namespace CylcModel.Sched3Fut

/-- no cached sequence points without a limit -/
def CacheInv (s : State) : Prop := s.rhLimit = none → s.prevSeqPts = []

theorem cache_computeRunahead (g : Graph) (s : State) (f : Bool) (h : CacheInv s) : CacheInv (computeRunahead g s f) := by
  unfold computeRunahead
  split
  · exact h
  · simp only
    split
    · exact h
    · intro hn; simp at hn

theorem cache_touch (g : Graph) (s : State) (n : String) (p : Int) (h : CacheInv s) : CacheInv (touch g s n p) := by
  unfold touch; split
  · exact h
  · split
    · exact h
    · split <;> exact h

theorem cache_setMaxFut (g : Graph) (s : State) (h : CacheInv s) : CacheInv (setMaxFut g s) := by
  unfold setMaxFut; simp only; split
  · exact cache_computeRunahead g _ true h
  · exact h

theorem cacheFrame (g : Graph) : Frame g (fun _ => True) CacheInv where
  qupd := fun _ _ _ _ => trivial
  qspawn := fun _ _ _ _ _ _ => trivial
  qqueue := fun _ _ _ _ => trivial
  qlaunch := fun _ _ _ => trivial
  jcongr := by
    intro s s' hc h hn
    have h1 : s'.rhLimit = s.rhLimit := congrArg Core.rhLimit hc
    have h2 : s'.prevSeqPts = s.prevSeqPts := congrArg Core.prevSeqPts hc
    rw [h2]; exact h (h1 ▸ hn)
  jtouch := fun s n p h => cache_touch g s n p h
  jadd := by
    intro s x h _
    unfold State.add
    split
    · exact h
    · have h1 : CacheInv (enterPool g s x) := by
        unfold enterPool ghostTouch
        exact foldl_inv CacheInv _ (fun st k hst => cache_touch g st k.1 k.2 hst) _ _ h
      split
      · exact cache_setMaxFut g _ h1
      · exact h1
  jdrop := by
    intro s x h
    unfold dropKey
    have h1 : CacheInv (dropPool s x) := h
    split
    · exact cache_setMaxFut g _ h1
    · exact h1
  jcompute := fun s f h => cache_computeRunahead g s f h
  jlaunch := fun _ _ h _ _ => h
  jclear := fun _ h => h

theorem cache_setStopPoint (s : State) (p : Int) (h : CacheInv s) : CacheInv (setStopPoint s p) := by
  unfold setStopPoint
  split
  · exact h
  · simp only
    cases hl : s.rhLimit with
    | none =>
      simp only
      intro _
      exact h hl
    | some l =>
      simp only
      split
      · intro hn; simp at hn
      · intro hn
        simp [hl] at hn

theorem cache_step (g : Graph) (s : State) (op : Op) (h : CacheInv s) : CacheInv (step g s op) := by
  have hh : Holds (fun _ => True) CacheInv s := ⟨fun _ _ => trivial, h⟩
  by_cases h1 : op = .loop
  · subst h1
    unfold step
    exact (holds_mainLoop (cacheFrame g) _ (holds_clearOp (cacheFrame g) s hh) (fun _ _ _ _ _ => trivial)).2
  · by_cases h3 : op = .restart
    · subst h3
      unfold step
      simp only
      refine (holds_restart (cacheFrame g) _ ⟨fun _ _ => trivial, fun _ => rfl⟩ (fun _ _ => ⟨trivial, trivial⟩)).2
    · by_cases h2 : ∃ p, op = .stopPoint p
      · obtain ⟨p, rfl⟩ := h2
        unfold step
        simp only
        exact cache_setStopPoint _ p h
      · exact (holds_step_plain (cacheFrame g) s op hh h1 (fun p hp => h2 ⟨p, hp⟩) h3).2

theorem cache_run (g : Graph) (ops : List Op) : ∀ s ∈ run g ops, CacheInv s :=
  run_inv CacheInv g ((holds_init (cacheFrame g) (fun _ => rfl) (fun _ _ _ _ _ _ _ => trivial)).2)
    (fun s op h => cache_step g s op h) ops

/-- **the unforced `compute_runahead`** in a state satisfying the cache invariant (every reachable state): either the
computation is skipped (a limit exists and the base point did not move, or the limit sits at the stop point) and the
limit is left alone, or the new limit is the specification limit of the current base point, cached maximum future
offset and stop point -/
theorem computeRunahead_unforced (g : Graph) (s : State) (hwf : wfSeqs g = true) (hc : CacheInv s)
    (b : Int) (hb : basePointOf g s = some b) :
    (computeRunahead g s).rhLimit =
      if s.rhLimit.isSome && (b == s.prevBase.getD b || s.rhLimit == s.stopPoint) then s.rhLimit
      else some (specLimit g b s.maxFut s.stopPoint) := by
  have hf := computeRunahead_forced g s hwf b hb
  unfold computeRunahead at hf ⊢
  simp only [hb, Bool.not_true, Bool.false_and, Bool.false_eq_true, if_false, Bool.not_false, Bool.true_and] at hf ⊢
  by_cases hskip : (s.rhLimit.isSome && (b == s.prevBase.getD b || s.rhLimit == s.stopPoint)) = true
  · simp only [hskip, if_true]
  · simp only [hskip, Bool.false_eq_true, if_false]
    -- the cached points are used only when there are some, i.e. (cache invariant) when a limit exists: then the
    -- base point moved, so the cache condition fails
    by_cases hcache : (!s.prevSeqPts.isEmpty && b == s.prevBase.getD b) = true
    · exfalso
      simp only [Bool.and_eq_true, Bool.not_eq_eq_eq_not, Bool.not_true] at hcache
      cases hrl : s.rhLimit with
      | none =>
        have := hc hrl
        rw [this] at hcache
        simp at hcache
      | some l =>
        apply hskip
        simp [hrl, hcache.2]
    · simp only [hcache, Bool.false_eq_true, if_false]
      exact hf

end CylcModel.Sched3Fut
