/-
Component `PathClean` (property C38): `cylc clean` on the local file system.

Executable model (core Lean only) of
  * `parse_rm_dirs`, `remove_dir_and_target`, `remove_dir_or_file`, `remove_empty_parents`,
    `is_relative_to`                                                   (cylc/flow/pathutil.py),
  * `get_symlink_dirs`                                                 (cylc/flow/workflow_files.py),
  * `glob_in_run_dir` (the filtering loop), `_clean_using_glob`, `clean`, and the local part of
    `init_clean` (`_clean_check`, `parse_rm_dirs`, `clean`)            (cylc/flow/clean.py)
over the abstract file tree of `CylcModel/Fs.lean`.  Ported as it is, quirks included.

Raw glob matching (`glob.iglob(..., recursive=True)`) is an input: per pattern the list of paths
glob reports at the moment the pattern is processed (an environment relation, recorded by the
harness from the real calls; the judge uses the harness' own glob of the pristine tree instead).

`Generated/CleanCfg.lean` (regenerated from the live source on every run) supplies
`WorkflowFiles.SYMLINK_DIRS`, the `runN` / `_cylc-install` names and the probed behaviour flag
`skipsMissing`.
-/
import CylcModel.Fs
import CylcModel.PathName
import CylcModel.Generated.CleanCfg

namespace CylcModel.PathClean
open CylcModel.Fs
open CylcModel.PathName (Str normpath isAbs splitSlash joinSlash dot dotdot)

/-! ## parse_rm_dirs -/

/-- `str.split(d)` -/
def splitChar (d : Char) : Str → List Str
  | [] => [[]]
  | c :: s =>
    if c = d then [] :: splitChar d s
    else match splitChar d s with
      | [] => [[c]]
      | w :: ws => (c :: w) :: ws

/-- `str.strip()`; `sp` = Python's `str.isspace` -/
def strip (sp : Char → Bool) (s : Str) : Str :=
  ((s.dropWhile sp).reverse.dropWhile sp).reverse

inductive PartResult where
  | skip
  | ok (pat : Str)
  | errAbs
  | errAbove
  deriving DecidableEq, Repr

/-- `'../'` -/
def dotdotSlash : Str := ['.', '.', '/']

/-- one colon-separated part of a `--rm` item -/
def parsePart (sp : Char → Bool) (part0 : Str) : PartResult :=
  let part := strip sp part0
  if part = [] then .skip
  else
    let isDirPat := part.getLast? = some '/'
    let n := normpath part
    if isAbs n then .errAbs
    else if n = dot ∨ n = dotdot ∨ dotdotSlash.isPrefixOf n then .errAbove
    else .ok (if isDirPat then n ++ ['/'] else n)

/-- `parse_rm_dirs`: the accepted patterns (first occurrence order, no duplicates), or `none` =
`InputError` -/
def parseRmDirs (sp : Char → Bool) (items : List Str) : Option (List Str) :=
  let parts := items.flatMap (splitChar ':')
  let rec go (acc : List Str) : List Str → Option (List Str)
    | [] => some acc.reverse
    | p :: ps =>
      match parsePart sp p with
      | .skip => go acc ps
      | .ok pat => go (if acc.contains pat then acc else pat :: acc) ps
      | .errAbs => none
      | .errAbove => none
  go [] parts

/-! ## what a glob pattern can match, lexically (specification of `glob`, used by `rm_dirs_inside`) -/

def hasMagic (c : Str) : Bool := c.any fun x => x = '*' || x = '?' || x = '['

def starstar : Str := ['*', '*']

/-- `LexMatch isEntry fn pat names`: the pattern components `pat` (the pattern split at `/`; a
trailing `/` shows as a final empty component) match the path `names` below the directory the
glob starts in.  A component without magic characters is taken literally (this is where a `..`
would walk upwards); a magic component matches names of directory entries only (`isEntry`), as
decided by `fn` (fnmatch, left abstract); `**` matches any number of entries. -/
inductive LexMatch (isEntry : Str → Prop) (fn : Str → Str → Prop) : List Str → List Str → Prop
  | nil : LexMatch isEntry fn [] []
  | slash : LexMatch isEntry fn [[]] []
  | lit (c : Str) (ps ns : List Str) : hasMagic c = false → c ≠ [] →
      LexMatch isEntry fn ps ns → LexMatch isEntry fn (c :: ps) (c :: ns)
  | magic (c n : Str) (ps ns : List Str) : hasMagic c = true → c ≠ starstar → isEntry n → fn c n →
      LexMatch isEntry fn ps ns → LexMatch isEntry fn (c :: ps) (n :: ns)
  | deepZero (ps ns : List Str) : LexMatch isEntry fn ps ns → LexMatch isEntry fn (starstar :: ps) ns
  | deepMore (n : Str) (ps ns : List Str) : isEntry n →
      LexMatch isEntry fn (starstar :: ps) ns → LexMatch isEntry fn (starstar :: ps) (n :: ns)

/-! ## ordering of paths (`sorted` on `pathlib.Path`: component-wise, strings by code point) -/

def ltStr : Str → Str → Bool
  | [], [] => false
  | [], _ :: _ => true
  | _ :: _, [] => false
  | a :: as, b :: bs => if a.val < b.val then true else if b.val < a.val then false else ltStr as bs

def ltPath : P → P → Bool
  | [], [] => false
  | [], _ :: _ => true
  | _ :: _, [] => false
  | a :: as, b :: bs => if ltStr a b then true else if ltStr b a then false else ltPath as bs

def insertSorted (x : P) : List P → List P
  | [] => [x]
  | y :: ys => if ltPath x y then x :: y :: ys else y :: insertSorted x ys

def sortPaths (l : List P) : List P := l.foldr insertSorted []

/-! ## errors -/

inductive Err where
  | inputError
  | workflowFilesError
  | fileNotFound
  | notADirectory
  deriving DecidableEq, Repr

def Err.name : Err → String
  | .inputError => "InputError"
  | .workflowFilesError => "WorkflowFilesError"
  | .fileNotFound => "FileNotFoundError"
  | .notADirectory => "NotADirectoryError"

/-! ## remove_dir_and_target / remove_dir_or_file -/

/-- `remove_dir_and_target(path)` -/
def removeDirAndTarget (fs : Fs) (n : Nat) (p : P) : Fs × Option Err :=
  if pexists fs n p && !isDir fs n p then (fs, some .notADirectory)
  else if isLink fs n p then
    let fs1 :=
      match resolve fs n [] p with
      | some t => rmtree fs t          -- `_rmtree(os.path.realpath(path))`
      | none => fs                      -- broken link
    -- `os.remove(path)`
    match lres fs1 n p with
    | some q => if (kindAt fs1 q).isSome then (remove fs1 q, none) else (fs1, some .fileNotFound)
    | none => (fs1, some .fileNotFound)
  else
    match resolve fs n [] p with
    | none => (fs, some .fileNotFound)
    | some q => (rmtree fs q, none)

/-- `remove_dir_or_file(path)`: a symlink or a file is unlinked, a directory goes with its contents
(`islink` / `isfile` / `rmtree` all look at the same directory entry: once the path is not a link,
`isfile` does not follow anything) -/
def removeDirOrFile (fs : Fs) (n : Nat) (p : P) : Fs × Option Err :=
  match lres fs n p with
  | none => (fs, some .fileNotFound)
  | some q =>
    match kindAt fs q with
    | some .dir => (rmtree fs q, none)              -- `_rmtree(path)`
    | some _ => (remove fs q, none)                 -- `os.remove(path)`
    | none => (fs, some .fileNotFound)              -- `_rmtree(path)` of something that is not there

/-! ## get_symlink_dirs -/

open CylcModel.Generated in
def symlinkDirNames : List P := CleanCfg.symlinkDirs.map fun d => d.map String.toList

open CylcModel.Generated in
def symlinkDirPathOrder : List P := CleanCfg.symlinkDirsPathOrder.map fun d => d.map String.toList

/-- `str(Path('cylc-run', id_, _dir))` -/
def expectedEnd (idc d : P) : Str := joinSlash ("cylc-run".toList :: (idc ++ d))

/-- `str(target)` below the sandbox root -/
def pathStr (p : P) : Str := '/' :: joinSlash p

/-- `get_symlink_dirs(id_, run_dir)`: (relative dir, resolved target) for the standard symlink
dirs that are symlinks, deepest first; `none` = `WorkflowFilesError` -/
def getSymlinkDirs (fs : Fs) (n : Nat) (runDir idc : P) : Option (List (P × P)) :=
  let rec go : List P → Option (List (P × P))
    | [] => some []
    | d :: ds =>
      if isLink fs n (runDir ++ d) then
        let target := realpath fs n [] (runDir ++ d)
        if pexists fs n target && !isDir fs n target then none
        else if !(expectedEnd idc d).isSuffixOf (pathStr target) then none
        else (go ds).map fun r => (d, target) :: r
      else go ds
  go symlinkDirNames

/-! ## glob_in_run_dir -/

/-- the ancestors of a match, run dir first, parent last (all relative to the run dir) -/
def ancestors (rel : P) : List P := (List.range rel.length).map fun k => rel.take k

/-- the `for rel_ancestor in ...` loop: `true` = no `break` (the path is kept); second component:
the updated `subpath_excludes` -/
def scanAnc (fs : Fs) (n : Nat) (runDir : P) (sds mts results : List P) (path : P) :
    List P → List P → Bool × List P
  | [], ex => (true, ex)
  | a :: as, ex =>
    if ex.contains a then (false, ex)
    else if isLink fs n (runDir ++ a) && !sds.contains a then (false, a :: ex)
    else if sds.isEmpty && results.contains a then (false, a :: ex)
    else if as.isEmpty && mts.contains a && !sds.contains path then (false, ex)
    else scanAnc fs n runDir sds mts results path as ex

/-- the `for path in matches` loop; `results` is kept reversed -/
def filterLoop (fs : Fs) (n : Nat) (runDir : P) (sds mts : List P) :
    List P → List P → List P → List P
  | [], results, _ => results.reverse
  | path :: rest, results, ex =>
    let (keep, ex') := scanAnc fs n runDir sds mts results path (ancestors path) ex
    filterLoop fs n runDir sds mts rest (if keep then path :: results else results) ex'

/-- `glob_in_run_dir(run_dir, pattern, symlink_dirs)` given the raw matches of the pattern
(relative to the run dir; `[]` = the run dir itself) -/
def globInRunDir (fs : Fs) (n : Nat) (runDir : P) (sds raw : List P) : List P :=
  let mts := sortPaths raw
  match mts with
  | [m] => if !lexists fs n (runDir ++ m) then []          -- bpo-35201
           else filterLoop fs n runDir sds mts mts [] []
  | _ => filterLoop fs n runDir sds mts mts [] []

/-! ## _clean_using_glob -/

structure St where
  fs : Fs
  err : Option Err := none

/-- "First clean any matching symlink dirs": returns the file system, the remaining matches, an
error, and whether the function returned early (run dir deleted) -/
def cleanSymlinkDirs (n : Nat) (runDir : P) : List P → Fs → List P → Fs × List P × Option Err × Bool
  | [], fs, ms => (fs, ms, none, false)
  | sd :: sds, fs, ms =>
    if ms.any (fun path => path.isPrefixOf sd) && isLink fs n (runDir ++ sd) then
      match removeDirAndTarget fs n (runDir ++ sd) with
      | (fs1, some e) => (fs1, ms, some e, false)
      | (fs1, none) =>
        if sd = [] then (fs1, ms, none, true)
        else cleanSymlinkDirs n runDir sds fs1 (ms.erase sd)
    else cleanSymlinkDirs n runDir sds fs ms

/-- "Now clean the rest".  `skip` = the behaviour flag `CleanCfg.skipsMissing` (probed from the live
code): a match that has already disappeared with an earlier one is skipped -/
def cleanRest (skip : Bool) (n : Nat) (runDir : P) : List P → Fs → Fs × Option Err
  | [], fs => (fs, none)
  | m :: ms, fs =>
    if skip && !lexists fs n (runDir ++ m) then cleanRest skip n runDir ms fs
    else
      match removeDirOrFile fs n (runDir ++ m) with
      | (fs1, some e) => (fs1, some e)
      | (fs1, none) => cleanRest skip n runDir ms fs1

/-- `_clean_using_glob(run_dir, pattern, symlink_dirs)`; `sdKeys` = the relative symlink dirs,
`raw` = the raw matches of the pattern -/
def cleanUsingGlob (skip : Bool) (fs : Fs) (n : Nat) (runDir : P) (sdKeys raw : List P) : Fs × Option Err :=
  let sds := symlinkDirPathOrder.filter fun d => sdKeys.contains d
  let ms := globInRunDir fs n runDir sds raw
  if ms.isEmpty then (fs, none)
  else
    match cleanSymlinkDirs n runDir sds fs ms with
    | (fs1, _, some e, _) => (fs1, some e)
    | (fs1, _, none, true) => (fs1, none)
    | (fs1, ms1, none, false) => cleanRest skip n runDir ms1 fs1

/-! ## clean -/

/-- `remove_empty_parents(path, tail)` with `depth = len(tail.parts) - 1` -/
def removeEmptyParents (n : Nat) (path : P) : Nat → Nat → Fs → Fs
  | 0, _, fs => fs
  | k + 1, i, fs =>
    let parent := path.take (path.length - 1 - i)
    if !isDir fs n parent then removeEmptyParents n path k (i + 1) fs
    else
      match lres fs n parent with
      | some q =>
        if kindAt fs q = some .dir && q ≠ [] && isEmptyDir fs q then
          removeEmptyParents n path k (i + 1) (remove fs q)
        else fs                -- OSError: break
      | none => fs

open CylcModel.Generated in
/-- the "Tidy up if necessary" part of `clean` -/
def tidy (n : Nat) (runDir idc : P) (sdl : List (P × P)) (fs : Fs) : Fs :=
  let parent := runDir.dropLast
  let name := runDir.getLast?.getD []
  -- Remove `runN` symlink if it's now broken
  let runN := parent ++ [CleanCfg.runN.toList]
  let fs1 :=
    match lres fs n runN with
    | some q =>
      match kindAt fs q with
      | some (.link t rel) =>
        if !pexists fs n runDir && rel && t = q.dropLast ++ [name] then remove fs q else fs
      | _ => fs
    | none => fs
  -- Remove _cylc-install if it's the only thing left
  let inst := parent ++ [CleanCfg.installDirname.toList]
  let fs2 :=
    match resolve fs1 n [] parent with
    | some d =>
      if (childNames fs1 d).all (fun c => c = CleanCfg.installDirname.toList) && isDir fs1 n inst then
        (removeDirOrFile fs1 n inst).1
      else fs1
    | none => fs1
  -- Remove any empty parents of run dir up to ~/cylc-run/
  let fs3 := removeEmptyParents n runDir (idc.length - 1) 0 fs2
  -- Remove empty parents of symlink targets up to <symlink_dir>/cylc-run/
  sdl.foldl (fun f (d, target) => removeEmptyParents n target ((idc ++ d).length - 1) 0 f) fs3

/-- the deleting part of `clean(id_, run_dir, rm_dirs)`; `pats = none`: wholesale clean; otherwise
one entry per pattern, in processing order: the raw matches `glob.iglob` reports for it at its turn -/
def cleanMain (skip : Bool) (fs0 : Fs) (n : Nat) (runDir : P) (sdKeys : List P) :
    Option (List (List P)) → Fs × Option Err
  | some pats =>
    let rec go : List (List P) → Fs → Fs × Option Err
      | [], fs => (fs, none)
      | raw :: rest, fs =>
        match cleanUsingGlob skip fs n runDir sdKeys raw with
        | (fs1, some e) => (fs1, some e)
        | (fs1, none) => go rest fs1
    go pats fs0
  | none =>
    let rec whole : List P → Fs → Fs × Option Err
      | [], fs =>
        if sdKeys.contains [] then (fs, none) else removeDirAndTarget fs n runDir
      | d :: ds, fs =>
        match removeDirAndTarget fs n (runDir ++ d) with
        | (fs1, some e) => (fs1, some e)
        | (fs1, none) => whole ds fs1
    whole sdKeys fs0

/-- `clean(id_, run_dir, rm_dirs)` -/
def clean (skip : Bool) (fs0 : Fs) (n : Nat) (runDir idc : P) (pats : Option (List (List P))) :
    Fs × Option Err :=
  match getSymlinkDirs fs0 n runDir idc with
  | none => (fs0, some .workflowFilesError)
  | some sdl =>
    match cleanMain skip fs0 n runDir (sdl.map (·.1)) pats with
    | (fs1, some e) => (fs1, some e)
    | (fs1, none) => (tidy n runDir idc sdl fs1, none)

/-- the local part of `init_clean`: `_clean_check`, `parse_rm_dirs`, `clean`.
`rm = none`: no `--rm` option; `pats`: per accepted pattern (in processing order) its raw matches -/
def initClean (skip : Bool) (fs0 : Fs) (n : Nat) (runDir idc : P) (sp : Char → Bool) (rm : Option (List Str))
    (pats : List (List P)) : Fs × Option Err :=
  if !isDir fs0 n runDir && !isLink fs0 n runDir then (fs0, none)      -- "No directory to clean"
  else
    match rm with
    | none => clean skip fs0 n runDir idc none
    | some items =>
      if items.isEmpty then clean skip fs0 n runDir idc none         -- `if opts.rm_dirs else None`
      else
        match parseRmDirs sp items with
        | none => (fs0, some .inputError)
        | some _ => clean skip fs0 n runDir idc (some pats)

end CylcModel.PathClean
