/-
Lemmas about spawning in the `Sched3Set` model: `spawnTask` / `spawn_on_all_outputs` leave the pooled proxies
alone, and what they add or return carries exactly the flows they were given; `mergeFlows` gives the union.
-/
import CylcModel.Sched3XLemmas

namespace CylcModel.Sched3X

theorem holdNew_ok (s : State) (x : Proxy) :
    (holdNew s x).1.pool = s.pool ∧ (holdNew s x).2.flows = x.flows ∧
    (holdNew s x).2.pt = x.pt ∧ (holdNew s x).2.name = x.name := by
  unfold holdNew
  split
  · exact ⟨rfl, by simp, by simp, by simp⟩
  · split
    · split
      · exact ⟨rfl, by simp, by simp, by simp⟩
      · exact ⟨rfl, rfl, rfl, rfl⟩
    · exact ⟨rfl, rfl, rfl, rfl⟩

theorem finishSpawn_ok (t : TaskDefn) (s : State) (x : Proxy) (isNew : Bool) :
    (finishSpawn t s x isNew).1.pool = s.pool ∧ (finishSpawn t s x isNew).2.flows = x.flows ∧
    (finishSpawn t s x isNew).2.pt = x.pt ∧ (finishSpawn t s x isNew).2.name = x.name := by
  unfold finishSpawn
  dsimp only
  obtain ⟨h1, h2, h3, h4⟩ := holdNew_ok s x
  generalize holdNew s x = H at h1 h2 h3 h4
  have hy : (if (t.hasAbs && !H.2.prereqsSatisfied) = true then
      H.1.absDone.foldl (fun z a => z.satisfyMe a) H.2 else H.2).flows = x.flows ∧
      (if (t.hasAbs && !H.2.prereqsSatisfied) = true then
      H.1.absDone.foldl (fun z a => z.satisfyMe a) H.2 else H.2).pt = x.pt ∧
      (if (t.hasAbs && !H.2.prereqsSatisfied) = true then
      H.1.absDone.foldl (fun z a => z.satisfyMe a) H.2 else H.2).name = x.name := by
    split
    · have := foldl_satisfyMe_fields H.1.absDone H.2
      exact ⟨this.2.2.trans h2, this.1.trans h3, this.2.1.trans h4⟩
    · exact ⟨h2, h3, h4⟩
  refine ⟨?_, hy.1, hy.2.1, hy.2.2⟩
  split
  · simpa using h1
  · exact h1

theorem spawnTask_ok (g : Graph) : ∀ (fuel : Nat) (s : State) (name : String) (p : Int) (F : Flows) (fw : Bool),
    SpawnOk F name p s (spawnTask g fuel s name p F fw) := by
  intro fuel
  induction fuel with
  | zero =>
    intro s name p F fw
    unfold spawnTask
    exact ⟨Preserve.refl s, NewHave.refl _ s, by intro y h; cases h⟩
  | succ fuel ih =>
    intro s name p F fw
    unfold spawnTask
    dsimp only
    have triv : ∀ s' : State, s'.pool = s.pool → SpawnOk F name p s (s', none) := by
      intro s' h
      exact ⟨preserve_of_pool_eq h, newHave_of_pool_eq h, by intro y hy; cases hy⟩
    split
    · exact triv s rfl
    · split
      · rename_i x0 t hmk _
        have hkey := mkProxy_key hmk
        generalize hL : loadHistoricalOutputs g s
          { x0 with flows := F, status := (taskHistory s name p F).2.1.getD Status.waiting,
                    submitNum := (taskHistory s name p F).1, flowWait := fw } = L
        have hLpool : L.1.pool = s.pool := by rw [← hL]; exact pool_loadHistoricalOutputs _ _ _
        have hLf := loadHistoricalOutputs_fields g s
          { x0 with flows := F, status := (taskHistory s name p F).2.1.getD Status.waiting,
                    submitNum := (taskHistory s name p F).1, flowWait := fw }
        rw [hL] at hLf
        dsimp only at hLf
        split
        · exact triv L.1 hLpool
        · generalize hW : (if (histFinal (taskHistory s name p F).2.1 && (taskHistory s name p F).2.2) = true then
              afterFlowWait (spawnOnAllOutputsWith (fun st n q f => spawnTask g fuel st n q f false) g L.1 L.2) L.2
            else L) = W
          have hWok : Preserve s W.1 ∧ NewHave F s W.1 ∧ W.2.flows = F ∧ W.2.pt = p ∧ W.2.name = name := by
            rw [← hW]
            split
            · have hsp := spawnOnAllOutputsWith_ok (fun st n q f => spawnTask g fuel st n q f false)
                (fun st n q f => ih st n q f false) g L.1 L.2
              rw [hLf.2.2] at hsp
              unfold afterFlowWait
              refine ⟨?_, ?_, ?_, ?_, ?_⟩
              · exact (preserve_of_pool_eq hLpool).trans hsp.1
              · exact (newHave_of_pool_eq hLpool).trans hsp.2
              · exact hLf.2.2
              · exact hLf.1.trans hkey.1
              · exact hLf.2.1.trans hkey.2
            · exact ⟨preserve_of_pool_eq hLpool, newHave_of_pool_eq hLpool, hLf.2.2, hLf.1.trans hkey.1,
                hLf.2.1.trans hkey.2⟩
          obtain ⟨hWp, hWn, hWf, hWpt, hWname⟩ := hWok
          split
          · exact ⟨hWp, hWn, by intro y hy; cases hy⟩
          · have hF := finishSpawn_ok t W.1 W.2 (taskHistory s name p F).2.1.isNone
            refine ⟨hWp.trans (preserve_of_pool_eq hF.1), hWn.trans (newHave_of_pool_eq hF.1), ?_⟩
            intro y hy
            simp only [Option.some.injEq] at hy
            rw [← hy]
            exact ⟨hF.2.1.trans hWf, hF.2.2.1.trans hWpt, hF.2.2.2.trans hWname⟩
      · exact triv s rfl

theorem spawnOnAllOutputs_ok (g : Graph) (s : State) (x : Proxy) :
    Preserve s (spawnOnAllOutputs g s x) ∧ NewHave x.flows s (spawnOnAllOutputs g s x) := by
  unfold spawnOnAllOutputs
  exact spawnOnAllOutputsWith_ok _ (fun st n q f => spawnTask_ok g spawnFuel st n q f false) g s x

end CylcModel.Sched3X
