/-
Model of the point / interval plumbing of `cylc/flow/cycling/__init__.py` (`PointBase.__cmp__`,
`__eq__`, `__lt__`.., `__hash__`, `__add__`, `__sub__`), `cylc/flow/cycling/integer.py`
(`IntegerPoint`, `IntegerInterval`: `_cmp`, `add`, `sub`, `standardise`, `from_integer`) and
`cylc/flow/cycling/iso8601.py` (`ISO8601Point`: `_cmp`, `add`, `sub`, `standardise`) (C18).
Core Lean only.

Points are modelled as the code stores them: the raw value *string*.  The string is kept in
structured form (so that no decimal rendering is needed in the proofs; the harness renders it):

* integer point `IntLit`: sign as written (none, `+`, `-`), number of leading zeros, magnitude:
  `"+007"` = ⟨plus, 2, 7⟩.  Two literals are the same string iff they are equal as structures.
  `int(value)` is `IntLit.value`; `str(int)` is `IntLit.canon`.
* integer interval `IvLit`: the same after the `P` (`"-P03"` = ⟨minus, 1, 3⟩).
* datetime point `DtLit`: the instant it denotes and *which spelling* of that instant the string is
  (`0` = the canonical dump `str(point_parse(value))`, `k > 0` = another spelling: reduced or
  extended format, another time zone).  Parsing and dumping (isodatetime) are not modelled.
* datetime interval: the exact number of seconds (fixed-length durations only).

`hashKey` is what `__hash__` hashes: the value string (unpatched code), see `Generated/PointsCfg`.
-/
import CylcModel.Generated.PointsCfg
namespace CylcModel.Points

/-- `cylc.flow.cycling.cmp` -/
def cmp3 (a b : Int) : Int := if a = b then 0 else if a < b then -1 else 1

inductive Sign where
  | none | plus | minus
  deriving Repr, DecidableEq

/-- an integer written as `[+-]?0*digits` -/
structure IntLit where
  sign : Sign
  zeros : Nat
  mag : Nat
  deriving Repr, DecidableEq

/-- `int(value)` -/
def IntLit.value (l : IntLit) : Int :=
  match l.sign with
  | .minus => -(l.mag : Int)
  | _ => (l.mag : Int)

/-- `str(n)` -/
def IntLit.canon (v : Int) : IntLit :=
  if v < 0 then ⟨.minus, 0, v.natAbs⟩ else ⟨.none, 0, v.natAbs⟩

/-! ### PointBase: comparison plumbing, generic over the point type -/

/-- `PointBase.__cmp__` for two points of the same type: equal value strings compare equal without
looking at the values, otherwise `_cmp` -/
def baseCmp {α : Type} [DecidableEq α] (val : α → Int) (a b : α) : Int :=
  if a = b then 0 else cmp3 (val a) (val b)

structure CmpObs where
  lt : Bool
  le : Bool
  eq : Bool
  gt : Bool
  ge : Bool
  deriving Repr, DecidableEq

/-- `__lt__`, `__le__`, `__eq__`, `__gt__`, `__ge__` -/
def cmpObs (c : Int) : CmpObs :=
  { lt := c == -1, le := decide (c ≤ 0), eq := c == 0, gt := c == 1, ge := decide (c ≥ 0) }

/-! ### IntegerPoint / IntegerInterval -/

abbrev IntPoint := IntLit

namespace IntPoint
def cmp (a b : IntPoint) : Int := baseCmp IntLit.value a b
def eq (a b : IntPoint) : Bool := cmp a b == 0
def lt (a b : IntPoint) : Bool := cmp a b == -1
def le (a b : IntPoint) : Bool := decide (cmp a b ≤ 0)
/-- what `__hash__` hashes: the value string; with `intHashByValue` (a patched tree) the integer -/
def hashKey (a : IntPoint) : IntLit := if intHashByValue then IntLit.canon a.value else a
/-- `standardise`: `self.value = str(int(self))` -/
def standardise (a : IntPoint) : IntPoint := IntLit.canon a.value
end IntPoint

/-- `IntegerInterval`: `[+-]?P0*digits`; `int(self)` = `int(value.replace("P", ""))` -/
abbrev IntIv := IntLit

namespace IntIv
/-- `IntegerInterval.from_integer` (`"-P5"` / `"P5"`) -/
def ofInt (v : Int) : IntIv := IntLit.canon v
def cmp (a b : IntIv) : Int := baseCmp IntLit.value a b
def eq (a b : IntIv) : Bool := cmp a b == 0
end IntIv

namespace IntPoint
/-- `IntegerPoint.add` -/
def add (p : IntPoint) (i : IntIv) : IntPoint := IntLit.canon (p.value + i.value)
/-- `IntegerPoint.sub` with an interval -/
def sub (p : IntPoint) (i : IntIv) : IntPoint := IntLit.canon (p.value - i.value)
/-- `IntegerPoint.sub` with a point -/
def diff (p q : IntPoint) : IntIv := IntIv.ofInt (p.value - q.value)
end IntPoint

/-! ### ISO8601Point over the instant abstraction -/

structure DtLit where
  inst : Int      -- the instant `point_parse(value)` denotes (seconds)
  spell : Nat     -- 0: value is the canonical dump of the instant; k > 0: another spelling of it
  deriving Repr, DecidableEq

abbrev DtPoint := DtLit

/-- what `str(TimePoint)` keeps of an instant: the dump format `CCYYMMDDThhmm` + time zone has a
resolution of `dumpRes` seconds (60), the rest is dropped (time zone offsets are whole minutes) -/
def trunc (x : Int) : Int := x - x % dumpRes

namespace DtPoint
def cmp (a b : DtPoint) : Int := baseCmp DtLit.inst a b
def eq (a b : DtPoint) : Bool := cmp a b == 0
def lt (a b : DtPoint) : Bool := cmp a b == -1
def le (a b : DtPoint) : Bool := decide (cmp a b ≤ 0)
def hashKey (a : DtPoint) : DtLit := if dtHashByInstant then ⟨a.inst, 0⟩ else a
/-- `standardise`: `self.value = str(point_parse(self.value))` -/
def standardise (a : DtPoint) : DtPoint := ⟨trunc a.inst, 0⟩
/-- `add` / `sub` of a fixed-length interval of `secs` seconds: `ISO8601Point(str(point ± interval))` -/
def add (p : DtPoint) (secs : Int) : DtPoint := ⟨trunc (p.inst + secs), 0⟩
def sub (p : DtPoint) (secs : Int) : DtPoint := ⟨trunc (p.inst - secs), 0⟩
/-- `sub` of a point: the interval between them (a duration string, exact), in seconds -/
def diff (p q : DtPoint) : Int := p.inst - q.inst
end DtPoint

/-! ### the `lru_cache`d helpers of `ISO8601Point` across calendar switches

`_iso_point_add`, `_iso_point_sub_interval`, `_iso_point_sub_point`, `_iso_point_cmp` are
`functools.lru_cache`d static methods called with `(string, string, CALENDAR.mode)`: the calendar mode
is passed only to be part of the cache key, because the result computed from the two strings depends
on the calendar in force (`20000301T0000Z - P1D` is `20000229T0000Z`, `20000230T0000Z` or
`20000228T0000Z`).  One process may switch calendars (`init(cycling_mode=...)`).  The model is generic
in the cached computation `f : mode → (string × string) → β`. -/

/-- the key under which a call made under calendar `mode` is cached: with the mode (`keyed`), or the
two strings only -/
def cacheKey (keyed : Bool) (mode : Nat) (args : String × String) : (String × String) × Option Nat :=
  (args, if keyed then some mode else none)

/-- lookup in the cache (an association list, oldest entry first) -/
def cacheLook {β : Type} (k : (String × String) × Option Nat) :
    List (((String × String) × Option Nat) × β) → Option β
  | [] => none
  | (k', v) :: t => if k' = k then some v else cacheLook k t

/-- one call of an `lru_cache(cap)`d helper under calendar `mode`: a hit returns the stored result,
a miss computes `f mode args`, stores it and evicts the oldest entry beyond `cap` entries
(`cap = 0`: no caching); a hit makes the entry the most recently used one. -/
def cachedCall {β : Type} (keyed : Bool) (cap : Nat) (f : Nat → String × String → β)
    (c : List (((String × String) × Option Nat) × β)) (mode : Nat) (args : String × String) :
    List (((String × String) × Option Nat) × β) × β :=
  if cap = 0 then (c, f mode args)
  else
    match cacheLook (cacheKey keyed mode args) c with
    | some v => (c.filter (fun e => e.1 != cacheKey keyed mode args) ++ [(cacheKey keyed mode args, v)], v)
    | none =>
      let v := f mode args
      let c' := c ++ [(cacheKey keyed mode args, v)]
      (if c'.length > cap then c'.tail else c', v)

/-- the answers of a history of calls `(mode, args)` made in one process, starting with cache `c` -/
def cachedRun {β : Type} (keyed : Bool) (cap : Nat) (f : Nat → String × String → β) :
    List (((String × String) × Option Nat) × β) → List (Nat × (String × String)) → List β
  | _, [] => []
  | c, (m, a) :: rest =>
    let r := cachedCall keyed cap f c m a
    r.2 :: cachedRun keyed cap f r.1 rest

end CylcModel.Points
