/-
Component `Fs` (property C38): an abstract POSIX file tree with symbolic links.

Environment model (assumed, validated by the correspondence on real temporary trees; not cylc code):
  * a file system is a finite table  physical path ↦ kind  (`file`, `dir`, `link target`); the
    root `[]` is always a directory; symbolic links are leaves, so "physically below `p`" is "has
    `p` as a prefix" and never crosses a link;
  * `resolve`  = what the kernel does with a path when every link is followed (`stat`),
    `lres`     = the same with the last component not followed (`lstat`, `unlink`, `rmdir`, `rmtree`),
    `realpath` = `os.path.realpath(strict=False)`;
  * `rmtree p` removes `p` and everything physically below it (it never follows links),
    `remove p` removes the one entry `p`.

Link targets are absolute component lists (from the sandbox root).  The flag `rel` of a link only
records that its text on disk is written relative to the link's directory (the harness renders it
with `os.path.relpath`); it matters for `os.readlink` comparisons, not for resolution.

Resolution takes fuel (one unit per component visited); the kernel gives up on link loops with
ELOOP, the model by running out of fuel: both report "does not exist".  The semantic, fuel-free
resolution relation `Res` used in the theorems lives in `FsLemmas.lean`.
-/
namespace CylcModel.Fs

abbrev Name := List Char
/-- a path: list of components from the sandbox root -/
abbrev P := List Name

inductive Kind where
  | file
  | dir
  | link (t : P) (rel : Bool)
  deriving DecidableEq, Repr, Inhabited

abbrev Fs := List (P × Kind)

def look : Fs → P → Option Kind
  | [], _ => none
  | (q, k) :: fs, p => if q = p then some k else look fs p

/-- `lstat` of a physical path -/
def kindAt (fs : Fs) (p : P) : Option Kind :=
  if p = [] then some .dir else look fs p

def Kind.isLink : Kind → Bool
  | .link _ _ => true
  | _ => false

/-- follow a path from the physical directory `cur`; every link on the way (also the last
component) is followed -/
def resolve (fs : Fs) : Nat → P → P → Option P
  | _, cur, [] => some cur
  | 0, _, _ :: _ => none
  | n + 1, cur, c :: rest =>
    match kindAt fs (cur ++ [c]) with
    | some (.link t _) => resolve fs n [] (t ++ rest)
    | some .dir => resolve fs n (cur ++ [c]) rest
    | some .file => if rest = [] then some (cur ++ [c]) else none
    | none => none

/-- physical location of the directory entry a path names (last component not followed);
`none` = the parent does not resolve to a directory -/
def lres (fs : Fs) (n : Nat) (p : P) : Option P :=
  match p.getLast? with
  | none => some []
  | some last =>
    match resolve fs n [] p.dropLast with
    | some d => if kindAt fs d = some .dir then some (d ++ [last]) else none
    | none => none

/-- `os.path.realpath(p)` (non-strict): what cannot be resolved is appended as it is -/
def realpath (fs : Fs) : Nat → P → P → P
  | _, cur, [] => cur
  | 0, cur, rest => cur ++ rest
  | n + 1, cur, c :: rest =>
    match kindAt fs (cur ++ [c]) with
    | some (.link t _) => realpath fs n [] (t ++ rest)
    | some .dir => realpath fs n (cur ++ [c]) rest
    | _ => cur ++ c :: rest

/-! ### `os.path` predicates on absolute paths -/

def lkind (fs : Fs) (n : Nat) (p : P) : Option Kind := (lres fs n p).bind (kindAt fs)

def isLink (fs : Fs) (n : Nat) (p : P) : Bool :=
  match lkind fs n p with
  | some k => k.isLink
  | none => false

def lexists (fs : Fs) (n : Nat) (p : P) : Bool := (lkind fs n p).isSome

def pexists (fs : Fs) (n : Nat) (p : P) : Bool := (resolve fs n [] p).isSome

def isDir (fs : Fs) (n : Nat) (p : P) : Bool :=
  match resolve fs n [] p with
  | some q => kindAt fs q == some .dir
  | none => false

def isFile (fs : Fs) (n : Nat) (p : P) : Bool :=
  match resolve fs n [] p with
  | some q => kindAt fs q == some .file
  | none => false

/-! ### destructive operations on physical paths -/

/-- `shutil.rmtree` of the physical directory `q`: `q` and everything below it -/
def rmtree (fs : Fs) (q : P) : Fs := fs.filter fun e => !q.isPrefixOf e.1

/-- `os.remove` / `os.rmdir` of the physical entry `q` -/
def remove (fs : Fs) (q : P) : Fs := fs.filter fun e => e.1 != q

/-- the directory `q` has nothing below it -/
def isEmptyDir (fs : Fs) (q : P) : Bool := fs.all fun e => !(q.isPrefixOf e.1 && e.1 != q)

/-- names of the entries directly in the physical directory `q` -/
def childNames (fs : Fs) (q : P) : List Name :=
  fs.filterMap fun e =>
    if q.isPrefixOf e.1 && e.1.length == q.length + 1 then e.1.getLast? else none

/-- physical paths present in `before` and absent from `after` -/
def deleted (before after : Fs) : List P :=
  (before.filter fun e => (look after e.1).isNone).map (·.1)

end CylcModel.Fs
