/-
JSON layer of `Sched3QR`: the graph / ops / observations of `Sched3QTJson` plus the long-retry flags of the task
definitions (`exec_retry_long`, `sub_retry_long`), the op `{"op":"tick"}` and the observation key `rwait` (the proxies
waiting for a retry delay that is not over yet; only emitted for graphs that have a non-zero retry delay).
-/
import CylcModel.Sched3QTJson
import CylcModel.Sched3QR
open Lean CylcModel.Drv

namespace CylcModel.Sched3QR
open CylcModel.Sched3QT

def parseGraphR (j : Json) : Except String GraphR := do
  let g ← parseGraph j
  let tasksJ := (jField? j "tasks").getD Json.null
  let flag (k : String) : List String := (g.tasks.map (·.name)).filter fun n =>
    ((jField? tasksJ n).bind fun t => jBoolField? t k) == some true
  return { g, execLong := flag "exec_retry_long", subLong := flag "sub_retry_long" }

def parseOpR (j : Json) : Except String OpR := do
  match jStrField? j "op" with
  | some "tick" => return .tick
  | _ => return .base (← parseOp j)

def keyLt (a b : (Int × String)) : Bool := a.1 < b.1 || (a.1 == b.1 && a.2 < b.2)

def obsJsonR (gr : GraphR) (sr : StateR) : Json :=
  let o := obsJson gr.g sr.s
  if gr.execLong.isEmpty && gr.subLong.isEmpty then o
  else o.setObjVal! "rwait"
    (jOfList (fun (k : (Int × String)) => Json.arr #[jOfInt k.1, Json.str k.2]) (sortBy keyLt sr.hold))

structure CaseR where
  graph : GraphR
  ops : List OpR

def parseCaseR (i : Json) : Except String CaseR := do
  let g ← parseGraphR (← req (jField? i "graph") "graph")
  let ops ← ((jArrField? i "ops").getD []).mapM parseOpR
  return { graph := g, ops }

def modelObsR (c : CaseR) : Json := jOfList (obsJsonR c.graph) (runR c.graph c.ops)

end CylcModel.Sched3QR
