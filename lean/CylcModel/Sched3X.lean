/-
`Sched3X` — a copy of `Sched3Set` (which other checks build on and which stays as it is) extended with the dynamic
RETRY XTRIGGERS (`_cylc_retry_<p>_<name>`, `_cylc_submit_retry_<p>_<name>`; zero or long retry delays) and
`cylc set --pre=xtrigger/<label> | xtrigger/all` (`_get_xtrig_prereqs`, `_get_valid_xtrigs`,
`XtriggerManager.force_satisfy / force_satisfy_all`, the wall-clock check of `call_xtriggers_async`).  Used by C29.
Header of `Sched3Set`:

`Sched3Set` — `Sched2` extended with FLOWS and the `cylc set` command (properties C29, C08 scheduler level).
A copy of `Sched2` (which stays frozen), extended by a line-by-line port of

  cylc/flow/task_pool.py       set_prereqs_and_outputs, _set_outputs_itask, _set_prereqs_itask, _set_prereqs_tdef,
                               _standardise_prereqs, _standardise_outputs, _get_valid_prereqs, _get_active_flow_nums,
                               merge_flows, spawn_on_all_outputs, _get_task_history, _load_historical_outputs,
                               _load_db_task_proxy, spawn_task (flow intersection, flow wait), _spawn_after_flow_wait,
                               spawn_on_output (children carry the parent's flows, merge into pooled children,
                               flow-wait), remove (transient objects), get_or_spawn_task
  cylc/flow/task_events_mgr.py process_message / _process_message_* / spawn_children with forced=True
  cylc/flow/task_state.py      TaskState.reset(forced=True)
  cylc/flow/flow_mgr.py        FlowMgr.get_flow / cli_to_flow_nums / load_from_db
  cylc/flow/workflow_db_mgr.py put_insert_task_states / put_insert_task_outputs (db_add_new_flow_rows),
                               put_update_task_state, put_update_task_outputs, put_update_task_flow_wait, the
                               task_states part of put_task_pool
  cylc/flow/rundb.py           select_prev_instances, select_task_outputs (row order = primary-key index order, i.e.
                               by the serialised flow numbers; a dict keyed by the outputs string)

New state: flow numbers as sets on proxies (`flows`, sorted lists), `flowWait`, forced outputs; the `task_states` /
`task_outputs` tables as explicit rows per (point, name, flows) (`rows`, replaces the `hist` of Sched2); the flow
manager (`flowCounter`, `flowsKnown`, `flowsDb`).  Database writes to these tables are queued and applied at the
flush points of the code (`process_queued_ops`: INSERTs, then UPDATEs grouped by statement); reads see the
committed rows only.

Not modelled: xtriggers (`--pre=xtrigger/...`), `--out=skip`, several task ids / task globs in one command,
`_get_active_flow_nums` when no pooled task has a flow (falls back to time stamps in the DB; never generated).

Original header of Sched2 / Sched v1:

`Sched` — the scheduler core as one state machine (DESIGN §4 layer B), stage 1:
spawn-on-demand pool, runahead limiting, queue-if-ready / release, job messages,
completion-based removal, auto shutdown and stall detection, single original flow.

The model runs over an *instance graph*: for every task name and cycle point the
prerequisites (atoms + and/or expression), the graph children per output, the next
parentless point — i.e. what `TaskProxy.__init__` / `TaskDef` compute from the loaded
configuration (those static computations are the subject of C13–C16; here they are inputs).

Core Lean only.
-/
import CylcModel.Generated.SetFlags
namespace CylcModel.Sched3X
open CylcModel.Sched3Set (setSubmitFailedWorks dbRowPerFlowSet)

/-! ### Static instance graph -/

inductive Status where
  | waiting | expired | preparing | submitFailed | submitted | running | failed | succeeded
  deriving Repr, DecidableEq, Inhabited

/-- position in `TASK_STATUSES_ORDERED` -/
def Status.rank : Status → Nat
  | .waiting => 0 | .expired => 1 | .preparing => 2 | .submitFailed => 3
  | .submitted => 4 | .running => 5 | .failed => 6 | .succeeded => 7

def Status.str : Status → String
  | .waiting => "waiting" | .expired => "expired" | .preparing => "preparing"
  | .submitFailed => "submit-failed" | .submitted => "submitted" | .running => "running"
  | .failed => "failed" | .succeeded => "succeeded"

def Status.isFinal : Status → Bool
  | .expired | .submitFailed | .failed | .succeeded => true
  | _ => false

def Status.isActive : Status → Bool        -- TASK_STATUSES_ACTIVE
  | .submitted | .running => true
  | _ => false

structure Atom where
  pt : Int
  task : String
  out : String          -- the output *message*
  deriving Repr, DecidableEq, Inhabited

/-- and/or expression over atom indices (prerequisites) -/
inductive BE where
  | atom (i : Nat)
  | and (l r : BE)
  | or (l r : BE)
  deriving Repr, DecidableEq, Inhabited

/-- and/or expression over completion variables (trigger names with `-` → `_`) -/
inductive CE where
  | var (v : String)
  | and (l r : CE)
  | or (l r : CE)
  deriving Repr, DecidableEq, Inhabited

structure Pre where
  atoms : List (Atom × Bool)      -- satisfied flag
  expr : Option BE                -- `none`: conjunction of all atoms
  deriving Repr, DecidableEq, Inhabited

structure Child where
  name : String
  pt : Int
  isAbs : Bool
  deriving Repr, DecidableEq, Inhabited

structure InstDef where
  pre : List Pre
  sui : List Pre
  children : List (String × List Child)     -- keyed by output message
  nextParentless : Option Int
  validPre : List Atom := []                -- keys of `TaskDef.get_prereqs(point)` (what `cylc set --pre` accepts)
  deriving Repr, Inhabited

structure OutDef where
  trigger : String
  message : String
  deriving Repr, DecidableEq, Inhabited

structure TaskDefn where
  name : String
  insts : List (Int × InstDef)              -- valid points only
  firstParentless : Option Int
  completion : CE
  outputs : List OutDef
  execRetries : Nat := 0                    -- number of `execution retry delays`
  subRetries : Nat := 0                     -- number of `submission retry delays`
  hasAbs : Bool := false                    -- `TaskDef.has_abs_triggers`
  execRetryLong : Bool := false             -- the `execution retry delays` are not zero (never over within a run)
  subRetryLong : Bool := false              -- the `submission retry delays` are not zero
  required : List String := []              -- `TaskOutputs.iter_required_messages()` (messages)
  skipOut : List String := []               -- skip-mode outputs (`run_modes.skip.process_outputs`, no broadcast)
  deriving Repr, Inhabited

structure Graph where
  icp : Int
  fcp : Int
  start : Int
  runahead : Nat                            -- `Pn`
  tasks : List TaskDefn                     -- in `task_name_list` order
  seqs : List (List Int)                    -- valid points of every sequence, ascending
  stopPoint : Option Int := none            -- `TaskPool.stop_point` (the final point unless set otherwise)
  cfgStop : Option Int := none              -- `[scheduling]stop after cycle point` of flow.cylc
  deriving Repr, Inhabited

def Graph.task? (g : Graph) (name : String) : Option TaskDefn := g.tasks.find? (·.name == name)

def TaskDefn.inst? (t : TaskDefn) (p : Int) : Option InstDef := (t.insts.find? (·.1 == p)).map (·.2)

/-! ### Flow numbers (Python sets of ints: kept as ascending duplicate-free lists) -/

abbrev Flows := List Nat

def fInsert (n : Nat) : Flows → Flows
  | [] => [n]
  | a :: l => if n < a then n :: a :: l else if n == a then a :: l else a :: fInsert n l

def fUnion (a b : Flows) : Flows := b.foldl (fun acc n => fInsert n acc) a

/-- `set.intersection(a, b)` is non-empty -/
def fMeets (a b : Flows) : Bool := a.any fun n => b.contains n

/-- `serialise_set`: `json.dumps(sorted(flow_nums))` -/
def flowStr (f : Flows) : String := "[" ++ ", ".intercalate (f.map toString) ++ "]"

/-! ### Dynamic state -/

structure Proxy where
  pt : Int
  name : String
  status : Status := .waiting
  held : Bool := false
  queued : Bool := false
  runahead : Bool := true
  flows : Flows := [1]
  submitNum : Nat := 0
  done : List String := []                  -- completed output *messages*
  pre : List Pre := []
  sui : List Pre := []
  upd : Bool := false                       -- TaskState.is_updated (and `time_updated` is set)
  execTry : Nat := 0                        -- try_timers[EXECUTION_RETRY].num
  subTry : Nat := 0                         -- try_timers[SUBMISSION_RETRY].num
  xExec : Option Bool := none               -- `state.xtriggers['_cylc_retry_<p>_<name>']` (none: no such xtrigger)
  xSub : Option Bool := none                -- `state.xtriggers['_cylc_submit_retry_<p>_<name>']`
  live : Bool := false                      -- `run_mode == LIVE` (set at job preparation, lost on restart)
  timers : Bool := false                    -- `try_timers` exist (created at the first preparation, saved in the DB)
  flowWait : Bool := false                  -- `TaskProxy.flow_wait`
  forced : List String := []                -- `TaskOutputs._forced` (messages completed by `cylc set`)
  deriving Repr, Inhabited

/-- one row of `task_states` together with the `task_outputs` row of the same key (point, name, flows) -/
structure Row where
  pt : Int
  name : String
  flows : Flows
  status : Status
  submitNum : Nat
  flowWait : Bool := false
  outs : List (String × Bool) := []         -- completed outputs (message, forced) in definition order
  deriving Repr, Inhabited

/-- the UPDATE statement templates of `task_states` (distinguished by their SET columns) and `task_outputs` -/
inductive UpdKind where
  | state | stateTransient | pool | flowWait | outputs
  deriving Repr, DecidableEq, Inhabited

/-- a queued UPDATE of the row (point, name, flows) -/
structure Upd where
  kind : UpdKind
  pt : Int
  name : String
  flows : Flows
  status : Status
  submitNum : Nat
  flowWait : Bool
  outs : List (String × Bool) := []
  deriving Repr, Inhabited

structure Msg where
  pt : Int
  name : String
  submitNum : Nat
  text : String
  deriving Repr, Inhabited

structure State where
  pool : List Proxy := []
  rows : List Row := []                       -- `task_states` ⋈ `task_outputs`
  qIns : List Row := []                       -- queued INSERT OR REPLACE statements (`db_inserts_map`)
  qUpd : List Upd := []                       -- queued UPDATE statements (`db_updates_map`)
  rhLimit : Option Int := none
  prevBase : Option Int := none
  prevSeqPts : List Int := []
  stalled : Bool := false
  stop : Option String := none
  schedUpd : Bool := true                   -- Scheduler.is_updated
  queue : List Msg := []                    -- Scheduler.message_queue
  launched : List (Int × String × Nat) := []  -- launches of the current op
  polls : List (Int × String) := []           -- polls requested in the current op
  absDone : List Atom := []                   -- `abs_outputs_done`
  tasksToHold : List (String × Int) := []     -- `tasks_to_hold`
  holdPoint : Option Int := none              -- `hold_point`
  stopPoint : Option Int := none              -- `TaskPool.stop_point` (dynamic: `cylc stop <point>`)
  stopMode : Option String := none            -- `Scheduler.stop_mode` (requested), `stop` = SchedulerStop raised
  stopTask : Option (Int × String) := none    -- `stop_task_id`
  stopTaskFinished : Bool := false
  paused : Bool := false
  dbStopCp : Option Int := none               -- workflow_params `stopcp` in the DB
  restartWait : Bool := false                 -- `is_restart_timeout_wait`
  db : Option (List Proxy) := none            -- `task_pool` DB table as committed by the latest main loop
  ghosts : List Proxy := []                   -- proxies removed during the current op, and the transient proxies
                                              -- of `cylc set --out` on tasks that are not in the pool
  flowCounter : Nat := 0                      -- `FlowMgr.counter`
  flowsKnown : Flows := []                    -- keys of `FlowMgr.flows`
  flowsDb : Flows := []                       -- `workflow_flows` table
  deriving Repr, Inhabited

/-! ### Expressions -/

def BE.eval (sat : Nat → Bool) : BE → Bool
  | .atom i => sat i
  | .and l r => l.eval sat && r.eval sat
  | .or l r => l.eval sat || r.eval sat

def CE.eval (σ : String → Bool) : CE → Bool
  | .var v => σ v
  | .and l r => l.eval σ && r.eval σ
  | .or l r => l.eval σ || r.eval σ

def Pre.isSatisfied (p : Pre) : Bool :=
  match p.expr with
  | none => p.atoms.all (·.2)
  | some e => e.eval fun i => match p.atoms[i]? with | some a => a.2 | none => false

/-- `Prerequisite.satisfy_me` for one output of one upstream instance -/
def Pre.satisfy (p : Pre) (a : Atom) : Pre :=
  { p with atoms := p.atoms.map fun (b, s) => if b == a then (b, true) else (b, s) }

def Proxy.prereqsSatisfied (x : Proxy) : Bool := x.pre.all Pre.isSatisfied

def Proxy.satisfyMe (x : Proxy) (a : Atom) : Proxy :=
  { x with pre := x.pre.map (·.satisfy a), sui := x.sui.map (·.satisfy a) }

/-- `TaskProxy.force_satisfy`: the given atoms (or all) of the ordinary prerequisites -/
def Proxy.forceSatisfy (x : Proxy) (atoms : List Atom) (all : Bool) : Proxy :=
  { x with pre := x.pre.map fun p =>
      { p with atoms := p.atoms.map fun (b, s) => if all || atoms.contains b then (b, true) else (b, s) } }

/-- `trigger_to_completion_variable`: `-` → `_` (character-wise, so that the kernel can evaluate it) -/
def compVar (trigger : String) : String :=
  String.ofList (trigger.toList.map fun c => if c == '-' then '_' else c)

/-- `TaskOutputs.is_complete` -/
def isComplete (t : TaskDefn) (done : List String) : Bool :=
  t.completion.eval fun v =>
    t.outputs.any fun o => compVar o.trigger == v && done.contains o.message

def Proxy.key (x : Proxy) : Int × String := (x.pt, x.name)

/-! ### Pool primitives -/

def State.get? (s : State) (p : Int) (n : String) : Option Proxy :=
  s.pool.find? fun x => x.pt == p && x.name == n

def State.put (s : State) (x : Proxy) : State :=
  { s with pool := s.pool.map fun y => if y.pt == x.pt && y.name == x.name then x else y }

/-- `active_tasks` is a dict of cycle-point buckets (in order of first insertion of the point; a bucket that
becomes empty is deleted): a new proxy goes behind the last proxy of its point, or to the end -/
def addBucket (x : Proxy) : List Proxy → List Proxy
  | [] => [x]
  | y :: ys => if y.pt == x.pt && !(ys.any fun z => z.pt == x.pt) then y :: x :: ys else y :: addBucket x ys

/-- `add_to_pool`: no-op when the key is present -/
def State.add (s : State) (x : Proxy) : State :=
  if (s.get? x.pt x.name).isSome then s else { s with pool := addBucket x s.pool }

/-- `TaskState.reset` for the flags used here; sets `upd` when anything changed -/
def Proxy.reset (x : Proxy) (status : Option Status := none) (queued : Option Bool := none)
    (runahead : Option Bool := none) (held : Option Bool := none) : Proxy :=
  let y := { x with status := status.getD x.status, queued := queued.getD x.queued,
                    runahead := runahead.getD x.runahead, held := held.getD x.held }
  if y.status == x.status && y.queued == x.queued && y.runahead == x.runahead && y.held == x.held then x
  else { y with upd := true }

/-- `can_be_spawned` + proxy construction; `none` when out of bounds / off sequence -/
def mkProxy (g : Graph) (name : String) (p : Int) : Option Proxy :=
  match g.task? name with
  | none => none
  | some t =>
    if p < g.icp || p > g.fcp then none else
    match t.inst? p with
    | none => none
    | some d => some { pt := p, name := name, pre := d.pre, sui := d.sui }

/-- the live proxy, or the transient object of an instance that is not (or no longer) in the pool -/
def lookup (s : State) (p : Int) (n : String) : Option (Proxy × Bool) :=
  match s.get? p n with
  | some x => some (x, false)
  | none => (s.ghosts.find? fun x => x.pt == p && x.name == n).map fun x => (x, true)

def store (s : State) (x : Proxy) (transient : Bool) : State :=
  if transient then
    { s with ghosts := s.ghosts.map fun y => if y.pt == x.pt && y.name == x.name then x else y }
  else s.put x

/-! ### The flow manager -/

/-- `while self.counter in self.flows: self.counter += 1` -/
def skipKnown (known : Flows) : Nat → Nat → Nat
  | 0, c => c
  | fuel + 1, c => if known.contains c then skipKnown known fuel (c + 1) else c

/-- `get_flow(flow_num)`: a number not seen before is recorded (and written to `workflow_flows`) -/
def useFlow (s : State) (n : Nat) : State :=
  if s.flowsKnown.contains n then s
  else { s with flowsKnown := fInsert n s.flowsKnown, flowsDb := fInsert n s.flowsDb }

/-- `get_flow()`: the next unused number -/
def newFlow (s : State) : State × Nat :=
  let c := skipKnown s.flowsKnown (s.flowsKnown.length + 1) (s.flowCounter + 1)
  (useFlow { s with flowCounter := c } c, c)

/-- `--flow=` options after validation -/
inductive FlowSpec where
  | default                 -- no option: all active flows
  | new
  | none
  | nums (ns : List Nat)
  deriving Repr, DecidableEq, Inhabited

/-- `_get_active_flow_nums` (the DB fallback for a pool without flows is not modelled: flow 1) -/
def activeFlows (s : State) : Flows :=
  let u := s.pool.foldl (fun acc x => fUnion acc x.flows) []
  if u.isEmpty then [1] else u

/-- `cli_to_flow_nums` + the default of `set_prereqs_and_outputs` -/
def cliFlows (s : State) : FlowSpec → State × Flows
  | .none => (s, [])
  | .new => let (s, n) := newFlow s; (s, [n])
  | .nums ns =>
    let s := ns.foldl useFlow s
    let f := ns.foldl (fun acc n => fInsert n acc) []
    if f.isEmpty then (s, activeFlows s) else (s, f)
  | .default => (s, activeFlows s)

/-! ### The `task_states` / `task_outputs` tables -/

/-- completed outputs of a proxy as stored in `task_outputs` (definition order, forced ones marked) -/
def outsOf (g : Graph) (x : Proxy) : List (String × Bool) :=
  match g.task? x.name with
  | some t => t.outputs.filterMap fun o =>
      if x.done.contains o.message then some (o.message, x.forced.contains o.message) else none
  | none => []

def Row.isKey (r : Row) (p : Int) (n : String) (f : Flows) : Bool := r.pt == p && r.name == n && r.flows == f

/-- `db_add_new_flow_rows`: INSERT OR REPLACE of both rows of the proxy's (point, name, flows) (queued) -/
def dbInsert (s : State) (x : Proxy) : State :=
  { s with qIns := s.qIns ++
      [{ pt := x.pt, name := x.name, flows := x.flows, status := x.status, submitNum := x.submitNum,
         flowWait := x.flowWait, outs := [] }] }

def dbQueue (s : State) (kind : UpdKind) (x : Proxy) (outs : List (String × Bool) := []) : State :=
  { s with qUpd := s.qUpd ++ [{ kind := kind, pt := x.pt, name := x.name, flows := x.flows, status := x.status,
                                 submitNum := x.submitNum, flowWait := x.flowWait, outs := outs }] }

/-- `put_update_task_state` (a transient object leaves the submit number alone) -/
def dbUpdateState (s : State) (x : Proxy) (transient : Bool) : State :=
  dbQueue s (if transient then .stateTransient else .state) x

/-- `put_update_task_outputs` -/
def dbUpdateOutputs (g : Graph) (s : State) (x : Proxy) : State := dbQueue s .outputs x (outsOf g x)

/-- `put_update_task_flow_wait` -/
def dbUpdateFlowWait (s : State) (x : Proxy) : State := dbQueue s .flowWait x

/-- the `task_states` update of `put_task_pool` for one proxy whose `time_updated` is set -/
def dbUpdatePool (s : State) (x : Proxy) : State := dbQueue s .pool x

def Upd.apply (u : Upd) (r : Row) : Row :=
  if !r.isKey u.pt u.name u.flows then r else
  match u.kind with
  | .state => { r with status := u.status, flowWait := u.flowWait, submitNum := u.submitNum }
  | .stateTransient => { r with status := u.status, flowWait := u.flowWait }
  | .pool => { r with status := u.status, submitNum := u.submitNum }
  | .flowWait => { r with flowWait := u.flowWait }
  | .outputs => { r with outs := u.outs }

/-- `process_queued_ops` + `execute_queued_items`: per table all INSERTs (in order), then the UPDATEs grouped by
statement template (groups in order of first use, `task_outputs` has a single template) -/
def flushDb (s : State) : State :=
  let rows := s.qIns.foldl (fun (rows : List Row) r =>
      (rows.filter fun q => !q.isKey r.pt r.name r.flows) ++ [r]) s.rows
  let kinds : List UpdKind := s.qUpd.foldl (fun acc u => if acc.contains u.kind then acc else acc ++ [u.kind]) []
  let rows := kinds.foldl (fun (rows : List Row) k =>
      (s.qUpd.filter (·.kind == k)).foldl (fun (rows : List Row) u => rows.map u.apply) rows) rows
  { s with rows := rows, qIns := [], qUpd := [] }

def insertRow (r : Row) : List Row → List Row
  | [] => [r]
  | a :: l => if flowStr r.flows < flowStr a.flows then r :: a :: l else a :: insertRow r l

/-- the rows of one instance in the order sqlite returns them (primary-key index: by the flows *string*) -/
def rowsFor (s : State) (p : Int) (n : String) : List Row :=
  (s.rows.filter fun r => r.pt == p && r.name == n).foldl (fun acc r => insertRow r acc) []

/-- `_get_task_history`: (submit number, status, flow wait) -/
def taskHistory (s : State) (n : String) (p : Int) (flows : Flows) : Nat × Option Status × Bool :=
  let info := rowsFor s p n
  let sn := info.foldl (fun m r => max m r.submitNum) 0
  let rec go : List Row → Option Status → Bool → Option Status × Bool
    | [], st, fw => (st, fw)
    | r :: rs, st, fw =>
      if fMeets flows r.flows then
        if r.status.isFinal then (some r.status, r.flowWait) else go rs (some r.status) r.flowWait
      else go rs st fw
  let (st, fw) := go info none false
  (sn, st, fw)

/-- `select_task_outputs`: a dict {outputs string: flows} (a later row with the same outputs string replaces the flows) -/
def selectTaskOutputs (rows : List Row) : List (List (String × Bool) × Flows) :=
  rows.foldl (fun acc r =>
    if acc.any (fun e => e.1 == r.outs) then acc.map fun e => if e.1 == r.outs then (e.1, r.flows) else e
    else acc ++ [(r.outs, r.flows)]) []

def hasOutput (g : Graph) (x : Proxy) (msg : String) : Bool :=
  match g.task? x.name with
  | some t => t.outputs.any (·.message == msg)
  | none => false

/-- `_load_historical_outputs` -/
def loadHistoricalOutputs (g : Graph) (s : State) (x : Proxy) : State × Proxy :=
  let info := selectTaskOutputs (rowsFor s x.pt x.name)
  if info.isEmpty then (dbInsert s x, x)
  else
    let (y, seen) := info.foldl (fun (acc : Proxy × Bool) e =>
        if fMeets acc.1.flows e.2 then
          (e.1.foldl (fun (z : Proxy) m =>
            if hasOutput g z m.1 && !z.done.contains m.1 then { z with done := z.done ++ [m.1] } else z) acc.1, true)
        else acc) (x, false)
    -- (`dbRowPerFlowSet`, probed from the live code: the repaired behaviour also inserts the rows when the visible
    -- rows overlap the proxy's flows without any of them being exactly these flows)
    if seen && !(dbRowPerFlowSet && !(info.any fun e => e.2 == y.flows)) then (s, y) else (dbInsert s y, y)

/-! ### Spawning -/

def childrenOf (g : Graph) (x : Proxy) (out : String) : List Child :=
  match (g.task? x.name).bind (·.inst? x.pt) with
  | none => []
  | some d => match d.children.find? (·.1 == out) with
    | some (_, cs) => cs
    | none => []

/-- `spawn_on_all_outputs(itask, completed_only=True)`, given the spawner -/
def spawnOnAllOutputsWith (spawn : State → String → Int → Flows → State × Option Proxy)
    (g : Graph) (s : State) (x : Proxy) : State :=
  if x.flows.isEmpty then s else
  match g.task? x.name with
  | none => s
  | some t =>
    (t.outputs.filter fun o => x.done.contains o.message).foldl (fun (st : State) o =>
      (childrenOf g x o.message).foldl (fun (st : State) c =>
        if (st.get? c.pt c.name).isSome then st
        else match spawn st c.name c.pt x.flows with
          | (st, some y) => st.add (y.satisfyMe ⟨x.pt, x.name, o.message⟩)
          | (st, none) => st) st) s

/-- the history status is a final one -/
def histFinal : Option Status → Bool
  | some st => st.isFinal
  | none => false

/-- end of `_spawn_after_flow_wait`: the flow-wait flag is cleared (object and DB row of its flows) -/
def afterFlowWait (s : State) (x : Proxy) : State × Proxy :=
  (dbUpdateFlowWait s { x with flowWait := false }, { x with flowWait := false })

/-- a new proxy is held when a hold was requested for it earlier, or when it lies beyond the hold point (then the
hold is recorded) -/
def holdNew (s : State) (x : Proxy) : State × Proxy :=
  if s.tasksToHold.contains (x.name, x.pt) then (s, x.reset (held := some true))
  else match s.holdPoint with
    | some hp => if x.pt > hp then
        ({ s with tasksToHold := s.tasksToHold ++ [(x.name, x.pt)] }, x.reset (held := some true))
      else (s, x)
    | none => (s, x)

/-- last part of `spawn_task` for a proxy that will go into the pool: hold (requested earlier, or beyond the hold
point), absolute triggers satisfied from the record of completed absolute outputs, new DB rows when the task has
no history in these flows -/
def finishSpawn (t : TaskDefn) (s : State) (x : Proxy) (isNew : Bool) : State × Proxy :=
  let H := holdNew s x
  let y := if t.hasAbs && !H.2.prereqsSatisfied then H.1.absDone.foldl (fun z a => z.satisfyMe a) H.2 else H.2
  (if isNew then dbInsert H.1 y else H.1, y)

/-- `spawn_task`: consult the DB history of the instance in the given flows, then build the proxy;
a new proxy is held when a hold was requested for it earlier or it lies beyond the hold point.
`fuel` bounds the flow-wait recursion (spawn_task → _spawn_after_flow_wait → spawn_on_all_outputs → spawn_task). -/
def spawnTask (g : Graph) : Nat → State → String → Int → Flows → Bool → State × Option Proxy
  | 0, s, _, _, _, _ => (s, none)
  | fuel + 1, s, name, p, flows, flowWait =>
    let h := taskHistory s name p flows          -- (submit number, previous status, previous flow wait)
    -- warm start: pre-start instances count as run in flow 1
    if h.2.1.isNone && p < g.start && flows.contains 1 then (s, none)
    else match mkProxy g name p, g.task? name with
      | some x0, some t =>
        -- the proxy with the outputs of its history loaded
        let L := loadHistoricalOutputs g s
          { x0 with flows := flows, status := h.2.1.getD .waiting, submitNum := h.1, flowWait := flowWait }
        if h.2.1.isSome && L.2.done.isEmpty then (L.1, none)       -- "task was removed"
        else
          -- spawn the children of a finished task that was waiting for this flow
          let W := if histFinal h.2.1 && h.2.2 then
              afterFlowWait (spawnOnAllOutputsWith (fun st n q f => spawnTask g fuel st n q f false) g L.1 L.2) L.2
            else L
          if histFinal h.2.1 && isComplete t L.2.done then (W.1, none)   -- finished and complete: not re-run
          else
            let H := finishSpawn t W.1 W.2 h.2.1.isNone
            (H.1, some H.2)
      | _, _ => (s, none)

def spawnFuel : Nat := 8

def spawnOnAllOutputs (g : Graph) (s : State) (x : Proxy) : State :=
  spawnOnAllOutputsWith (fun st n q f => spawnTask g spawnFuel st n q f false) g s x

/-- `queue_task` -/
def queueTask (x : Proxy) : Proxy := x.reset (queued := some true)

/-- `TaskProxy.merge_flows`: the union of the flows -/
def Proxy.merged (x : Proxy) (f : Flows) : Proxy := { x with flows := fUnion x.flows f }

/-- the flow-wait flag cleared -/
def Proxy.noWait (x : Proxy) : Proxy := { x with flowWait := false }

/-- finished, but the required outputs are incomplete -/
def incompleteFinal (g : Graph) (x : Proxy) : Bool :=
  x.status.isFinal && (match g.task? x.name with | some t => !isComplete t x.done | none => false)

/-- `merge_flows` on a pooled proxy -/
def mergeFlows (g : Graph) (s : State) (x : Proxy) (f : Flows) : State :=
  if f.isEmpty || f == x.flows then s else
  let y := x.merged f
  let s1 := dbInsert (s.put y) y
  if incompleteFinal g y then
    -- re-queue an incomplete task to run again in the merged flow
    s1.put (queueTask (y.reset (status := some .waiting)))
  else if x.flows.isEmpty || y.flowWait then
    spawnOnAllOutputs g (s1.put y.noWait) y.noWait
  else s1

/-- `get_or_spawn_task` + `add_to_pool` as used by parentless spawning -/
def spawnAndAdd (g : Graph) (s : State) (name : String) (p : Int) (flows : Flows) : State :=
  match s.get? p name with
  | some y => mergeFlows g s y flows
  | none => match spawnTask g spawnFuel s name p flows false with
    | (s, some x) => s.add x
    | (s, none) => s

def nextParentless (g : Graph) (x : Proxy) : Option Int := do
  let t ← g.task? x.name
  let d ← t.inst? x.pt
  d.nextParentless

/-- `spawn_next_parentless` -/
def spawnNextParentless (g : Graph) (s : State) (x : Proxy) : State :=
  if x.flows.isEmpty || x.pt < g.start then s
  else match nextParentless g x with
    | some np => spawnAndAdd g s x.name np x.flows
    | none => s

/-! ### Runahead -/

def insertSorted (x : Int) : List Int → List Int
  | [] => [x]
  | y :: ys => if x < y then x :: y :: ys else if x == y then y :: ys else y :: insertSorted x ys

def sortDedup (l : List Int) : List Int := l.foldl (fun acc x => insertSorted x acc) []

def minOf : List Int → Option Int
  | [] => none
  | x :: xs => some (xs.foldl min x)

/-- `compute_runahead` (count-cycles limit `Pn`, no future offsets) -/
def computeRunahead (g : Graph) (s : State) (force : Bool := false) : State :=
  let base : Option Int :=
    if s.pool.isEmpty then minOf (g.seqs.filterMap fun q => q.find? (· ≥ g.start))
    else minOf (s.pool.map (·.pt))
  match base with
  | none => s
  | some b =>
    let prevBase := s.prevBase.getD b
    let s := { s with prevBase := some prevBase }
    if !force && s.rhLimit.isSome && (b == prevBase || s.rhLimit == s.stopPoint) then s
    else
      let pts : List Int :=
        if !force && !s.prevSeqPts.isEmpty && b == prevBase then s.prevSeqPts
        else sortDedup (g.seqs.flatMap fun q => (q.filter (· ≥ b)).take (g.runahead + 1))
      let limit0 : Int :=
        match (pts.take (g.runahead + 1)).getLast? with
        | none => b
        | some l => l
      let limit : Int := match s.stopPoint with
        | some sp => min sp limit0
        | none => limit0
      { s with prevSeqPts := pts, prevBase := some b, rhLimit := some limit }

/-- `release_runahead_tasks`; returns whether anything was released -/
def releaseRunahead (g : Graph) (s : State) : State × Bool :=
  match s.rhLimit with
  | none => (s, false)
  | some lim =>
    if s.pool.isEmpty then (s, false) else
    let rel := s.pool.filter fun x => x.pt ≤ lim && x.runahead
    let s' := rel.foldl (fun (st : State) x =>
        match st.get? x.pt x.name with
        | some y =>
          let y := y.reset (runahead := some false)
          spawnNextParentless g (st.put y) y
        | none => st) s
    (s', !rel.isEmpty)

def releaseRunaheadN (g : Graph) : Nat → State → State
  | 0, s => s
  | n + 1, s => let (s', r) := releaseRunahead g s; if r then releaseRunaheadN g n s' else s'

/-! ### Queueing and release -/

/-- an unsatisfied retry xtrigger (`xtriggers_all_satisfied` is false) -/
def Proxy.retryWait (x : Proxy) : Bool := x.xExec == some false || x.xSub == some false

/-- label of the retry xtrigger of `_retry_task` -/
def retryLabel (sub : Bool) (p : Int) (n : String) : String :=
  (if sub then "_cylc_submit_retry_" else "_cylc_retry_") ++ toString p ++ "_" ++ n

/-- `itask.state.xtriggers` (the dynamic retry xtriggers; graph xtriggers are not modelled) -/
def Proxy.xLabels (x : Proxy) : List (String × Bool) :=
  (match x.xSub with | some v => [(retryLabel true x.pt x.name, v)] | none => []) ++
  (match x.xExec with | some v => [(retryLabel false x.pt x.name, v)] | none => [])

/-- `XtriggerManager.force_satisfy_all` -/
def Proxy.xSatAll (x : Proxy) : Proxy :=
  { x with xExec := x.xExec.map fun _ => true, xSub := x.xSub.map fun _ => true }

/-- `XtriggerManager.force_satisfy(itask, {label: True ..})`: a single `all` stands for every xtrigger of the task,
otherwise the named xtriggers that the task carries are satisfied -/
def Proxy.forceXtrigs (x : Proxy) (labels : List String) : Proxy :=
  if labels == ["all"] then x.xSatAll else
  { x with xExec := x.xExec.map fun v => v || labels.contains (retryLabel false x.pt x.name),
           xSub := x.xSub.map fun v => v || labels.contains (retryLabel true x.pt x.name) }

/-- the wall-clock check of `call_xtriggers_async`: a retry delay of zero is over at once, a long one never is -/
def Proxy.clockXtrigs (execLong subLong : Bool) (x : Proxy) : Proxy :=
  { x with xExec := x.xExec.map fun v => v || !execLong, xSub := x.xSub.map fun v => v || !subLong }

def Proxy.isReadyToRun (x : Proxy) : Bool :=
  !x.held && x.status == .waiting && x.prereqsSatisfied && !x.retryWait

/-- `queue_if_ready` -/
def queueIfReady (s : State) (x : Proxy) : State :=
  if !x.queued && !x.runahead && x.isReadyToRun then s.put (x.reset (queued := some true)) else s

/-- `hold_active_task` on a pooled proxy -/
def holdActive (s : State) (x : Proxy) : State :=
  let s := s.put (x.reset (held := some true))
  if s.tasksToHold.contains (x.name, x.pt) then s
  else { s with tasksToHold := s.tasksToHold ++ [(x.name, x.pt)] }

/-- `release_held_active_task` on a pooled proxy -/
def releaseHeldActive (s : State) (x : Proxy) : State :=
  let s :=
    if x.held then
      let y := x.reset (held := some false)
      let y := if !y.runahead && y.isReadyToRun then y.reset (queued := some true) else y
      s.put y
    else s
  { s with tasksToHold := s.tasksToHold.filter (· != (x.name, x.pt)) }

/-- `load_from_point` -/
def loadFromPoint (g : Graph) : State :=
  let N := newFlow { stopPoint := g.stopPoint }      -- (state, the original flow)
  let s := g.tasks.foldl (fun st t =>
      match t.firstParentless with
      | some p => spawnAndAdd g st t.name p [N.2]
      | none => st) N.1
  let s := computeRunahead g s
  let s := releaseRunaheadN g 10 s
  s.pool.foldl (fun st x => match st.get? x.pt x.name with
    | some y => queueIfReady st y | none => st) s

/-- `release_queued_tasks` (unlimited queues) + `prep_submit_task_jobs` with the stub job runner:
every queued task enters `preparing` under the next submit number and is launched. -/
def releaseAndSubmit (s : State) : State :=
  let rel := s.pool.filter fun x => x.queued && !x.held
  if rel.isEmpty then s else
  let s := rel.foldl (fun (st : State) x =>
      let y := x.reset (queued := some false)
      let y := { (y.reset (status := some .preparing)) with submitNum := x.submitNum + 1, live := true, timers := true }
      { (st.put y) with launched := st.launched ++ [(x.pt, x.name, x.submitNum + 1)] }) s
  { s with schedUpd := true }

/-! ### Removal and spawning on outputs -/

/-- `remove` (also called on transient objects that are not in the pool: then only the hold record and the next
parentless instance are touched) -/
def remove (g : Graph) (s : State) (x : Proxy) : State :=
  let inPool := (s.get? x.pt x.name).isSome
  let s := releaseHeldActive s x
  let x := (s.get? x.pt x.name).getD x
  let s := if !x.flows.isEmpty && x.runahead then spawnNextParentless g s x else s
  if inPool then
    let s := { s with pool := s.pool.filter (fun y => !(y.pt == x.pt && y.name == x.name)),
                      ghosts := s.ghosts ++ [x] }
    flushDb (dbUpdateState s x true)       -- the task is written to the DB before moving on
  else s

/-- `remove_if_complete` -/
def removeIfComplete (g : Graph) (s : State) (x : Proxy) : State :=
  if !x.status.isFinal then s
  else
  let s := if s.stopTask == some (x.pt, x.name) then { s with stopTaskFinished := true } else s
  match g.task? x.name with
    | none => s
    | some t => if isComplete t x.done then remove g s x else s

def Proxy.suicideNow (x : Proxy) : Bool := !x.sui.isEmpty && x.sui.all Pre.isSatisfied

/-! one child of `spawn_on_output` (`spawnChild` below): record an absolute output, find the child (merging the
parent's flows into it) or spawn it in the parent's flows, satisfy the prerequisite (for an absolute trigger: of
every pooled instance of the child task), collect suicides -/

/-- flows of the parent of `spawn_on_output` (live proxy or transient object) -/
def parentFlows (st : State) (p : Int) (n : String) : Flows :=
  match lookup st p n with | some (x, _) => x.flows | none => []

/-- the absolute output of `spawn_on_output` is recorded and committed at once -/
def recordAbs (st : State) (atom : Atom) (isAbs : Bool) : State :=
  let st := if isAbs && !st.absDone.contains atom then { st with absDone := st.absDone ++ [atom] } else st
  if isAbs then flushDb st else st

/-- the child of `spawn_on_output`: the pooled instance with the parent's flows merged in (unless it is the parent
itself), or a new one spawned in the parent's flows -/
def findOrSpawnChild (g : Graph) (st : State) (p : Int) (n : String) (pf : Flows) (c : Child) :
    State × Option Proxy :=
  match st.get? c.pt c.name with
  | some y =>
    let st := if c.pt == p && c.name == n then st else mergeFlows g st y pf
    (st, st.get? c.pt c.name)
  | none => if pf.isEmpty then (st, none) else spawnTask g spawnFuel st c.name c.pt pf false

/-- `satisfy_me` of the targets of one child of `spawn_on_output`, collecting the suicides -/
def satisfyTargets (atom : Atom) (targets : List (Int × String)) (acc : State × List (Int × String)) :
    State × List (Int × String) :=
  targets.foldl (fun (a : State × List (Int × String)) k =>
    match a.1.get? k.1 k.2 with
    | none => a
    | some z =>
      (a.1.put (z.satisfyMe atom),
       if (z.satisfyMe atom).suicideNow && !a.2.contains k then a.2 ++ [k] else a.2)) acc

def spawnChild (g : Graph) (p : Int) (n out : String) (acc : State × List (Int × String)) (c : Child) :
    State × List (Int × String) :=
  let atom : Atom := ⟨p, n, out⟩
  let pf : Flows := parentFlows acc.1 p n
  let st0 := recordAbs acc.1 atom c.isAbs
  let inPool := (st0.get? c.pt c.name).isSome
  let R := findOrSpawnChild g st0 p n pf c
  match R.2 with
  | none => (R.1, acc.2)
  | some y =>
    let st := if inPool then R.1 else R.1.add (y.satisfyMe atom)
    let targets : List (Int × String) :=
      if c.isAbs then
        let others := (st.pool.filter fun z => z.name == c.name).map fun z => (z.pt, z.name)
        if others.contains (c.pt, c.name) then others else others ++ [(c.pt, c.name)]
      else [(c.pt, c.name)]
    satisfyTargets atom targets (st, acc.2)

/-- the graph children of an output; a task without flows spawns nothing -/
def childrenIfFlows (g : Graph) (x : Proxy) (out : String) : List Child :=
  if x.flows.isEmpty then [] else childrenOf g x out

/-- event-driven suicide: the collected tasks are removed -/
def removeSuicides (g : Graph) (s : State) (ks : List (Int × String)) : State :=
  ks.foldl (fun (st : State) k => match st.get? k.1 k.2 with
    | some z => remove g st z
    | none => st) s

/-- `spawn_on_output`: a task that has begun submission (status ≥ preparing) gets all its xtriggers force-satisfied -/
def clearXtrigs (s : State) (p : Int) (n : String) : State :=
  match lookup s p n with
  | some (x, tr) => if x.status.rank ≥ Status.preparing.rank then store s x.xSatAll tr else s
  | none => s

/-- `spawn_on_output` (the parent may be a transient object) -/
def spawnOnOutput (g : Graph) (s : State) (p : Int) (n : String) (out : String) : State :=
  match lookup s p n with
  | none => s
  | some (x, _) =>
    if x.flowWait && !(childrenIfFlows g x out).isEmpty then
      removeIfComplete g s x                                     -- not spawning: flow wait requested
    else
      -- the task has begun submission: its xtriggers are cleared (force-satisfied)
      let s := clearXtrigs s p n
      let R := (childrenIfFlows g x out).foldl (spawnChild g p n out) (s, [])
      let s3 := removeSuicides g R.1 R.2
      let s4 := if R.2.isEmpty then s3 else flushDb s3
      match lookup s4 p n with
      | some (x', _) => removeIfComplete g s4 x'
      | none => s4

/-! ### Messages -/

def Proxy.isDone (x : Proxy) (msg : String) : Bool := x.done.contains msg

/-- `set_message_complete`: `some true` newly completed, `some false` already, `none` no such output -/
def setComplete (g : Graph) (x : Proxy) (msg : String) (forced : Bool := false) : Proxy × Option Bool :=
  if !hasOutput g x msg then (x, none)
  else if x.isDone msg then (x, some false)
  else ({ x with done := x.done ++ [msg], forced := if forced then x.forced ++ [msg] else x.forced }, some true)

inductive Flag where | internal | received | polled
  deriving Repr, DecidableEq

/-- `spawn_children`: the outputs row is rewritten; transient objects do not spawn unless forced -/
def spawnChildren (g : Graph) (s : State) (p : Int) (n : String) (out : String) (transient : Bool)
    (forced : Bool := false) : State :=
  let s := match lookup s p n with | some (x, _) => dbUpdateOutputs g s x | none => s
  if transient && !forced then s else spawnOnOutput g s p n out

/-- `get_incomplete_implied`: the earlier outputs implied by a message that the proxy has not completed yet -/
def impliedOutputs (msg : String) (x : Proxy) : List String :=
  (if msg == "succeeded" || msg == "failed" then ["submitted", "started"]
   else if msg == "started" then ["submitted"] else []).filter fun m => !x.isDone m

/-- the part of `process_message` that follows the implied outputs: the status change and the spawning that the
message stands for (`completed`: what `set_message_complete` returned for it) -/
def handleMessage (g : Graph) (s : State) (p : Int) (n : String) (flag : Flag) (msg : String) (forced : Bool)
    (completed : Option Bool) : State × Bool :=
    match lookup s p n with
    | none => (s, false)
    | some (x, tr) =>
      if msg == "started" then
        if flag == .received && x.status.rank > Status.running.rank then (s, true) else
        -- submission was successful: the submission try number is reset
        -- (a forced message cannot put the task into the running state)
        let y := if forced then x else x.reset (status := some .running)
        let s := store s { y with subTry := 0 } tr
        (spawnChildren g s p n "started" tr forced, false)
      else if msg == "succeeded" then
        let s := store s (x.reset (status := some .succeeded)) tr
        (spawnChildren g s p n "succeeded" tr forced, false)
      else if msg == "expired" then
        let s := store s (x.reset (status := some .expired) (queued := some false) (runahead := some false)) tr
        (spawnChildren g s p n "expired" tr forced, false)
      else if msg == "failed" then
        if flag == .received && x.status.rank > Status.failed.rank then (s, true) else
        let maxTry := match g.task? n with | some t => t.execRetries | none => 0
        if !forced && x.timers && x.execTry < maxTry then
          -- an execution retry is lined up: back to waiting behind a retry xtrigger
          let y := { (x.reset (status := some .waiting)) with execTry := x.execTry + 1, xExec := some false }
          (store s y tr, false)
        else
        -- definitive failure
        let y := x.reset (status := some .failed)
        let y := if x.status != .failed then (setComplete g y "failed").1 else y
        let s := store s y tr
        (spawnChildren g s p n "failed" tr forced, false)
      else if msg == "submit-failed" then
        if flag == .received && x.status.rank > Status.submitFailed.rank then (s, true) else
        -- forced: the output message "submit-failed" is not the event text "submission failed", the message
        -- is unhandled: no state change, the output is not recorded, no children (findings/C29.json)
        -- (`setSubmitFailedWorks`, probed from the live code: the repaired behaviour = like a forced `failed`)
        if forced then
          if setSubmitFailedWorks then
            let y := x.reset (status := some .submitFailed)
            let y := (setComplete g y "submit-failed" true).1
            let s := store s y tr
            (spawnChildren g s p n "submit-failed" tr forced, false)
          else (s, false)
        else
        let maxTry := match g.task? n with | some t => t.subRetries | none => 0
        if x.timers && x.subTry < maxTry then
          let y := { (x.reset (status := some .waiting)) with subTry := x.subTry + 1, xSub := some false }
          (store s y tr, false)
        else
        let y := x.reset (status := some .submitFailed)
        let y := if x.status != .submitFailed then (setComplete g y "submit-failed").1 else y
        let s := store s y tr
        (spawnChildren g s p n "submit-failed" tr forced, false)
      else if msg == "submitted" then
        if flag == .received && x.status.rank ≥ Status.submitted.rank then (s, true) else
        let s := if !forced && x.status == .preparing then
            store s ((x.reset (status := some .submitted)).reset (queued := some false)) tr else s
        (spawnChildren g s p n "submitted" tr forced, false)
      else if completed == some true then
        (spawnChildren g s p n msg tr forced, false)
      else (s, false)

/-- `process_message` for one message (`forced`: from `cylc set`); returns the new state and whether a poll is
requested.  `fuel` bounds the implied-output recursion (depth ≤ 3). -/
def processMessage (g : Graph) : Nat → State → Int → String → Flag → Nat → String → Bool → State × Bool
  | 0, s, _, _, _, _, _, _ => (s, false)
  | fuel + 1, s, p, n, flag, sn, msg, forced =>
    match lookup s p n with
    | none => (s, false)
    | some (x, tr) =>
      -- _process_message_check (a transient object or a forced message skips the checks)
      if !tr && !forced && flag == .received && sn != x.submitNum then (s, false) else
      -- a waiting task with a retry lined up ignores (late) messages
      if !tr && !forced && x.status == .waiting && x.live && (x.subTry > 0 || x.execTry > 0) then (s, false) else
      -- complete the corresponding output
      let c : Proxy × Option Bool :=
        if msg == "submit-failed" || msg == "failed" then (x, some false)
        else setComplete g x msg forced
      -- implied outputs first
      let s2 := (impliedOutputs msg c.1).foldl
        (fun st m => (processMessage g fuel st p n .internal sn m forced).1) (store s c.1 tr)
      handleMessage g s2 p n flag msg forced c.2

/-- group queued messages by task id in order of first arrival (`dict.setdefault`) -/
def groupMsgs (q : List Msg) : List ((Int × String) × List Msg) :=
  q.foldl (fun acc m =>
    if acc.any (fun e => e.1 == (m.pt, m.name)) then
      acc.map fun e => if e.1 == (m.pt, m.name) then (e.1, e.2 ++ [m]) else e
    else acc ++ [((m.pt, m.name), [m])]) []

/-- one received message of a task's batch: (state, poll requested so far) -/
def processOne (g : Graph) (p : Int) (n : String) (acc : State × Bool) (m : Msg) : State × Bool :=
  ((processMessage g 4 acc.1 p n .received m.submitNum m.text false).1,
   acc.2 || (processMessage g 4 acc.1 p n .received m.submitNum m.text false).2)

/-- the queued messages of one task -/
def processGroup (g : Graph) (st : State) (grp : (Int × String) × List Msg) : State :=
  match st.get? grp.1.1 grp.1.2 with
  | none => st                                   -- no proxy: job-only processing
  | some _ =>
    let R := grp.2.foldl (processOne g grp.1.1 grp.1.2) (st, false)
    if R.2 then { R.1 with polls := R.1.polls ++ [(grp.1.1, grp.1.2)] } else R.1

/-- `process_queued_task_messages` -/
def processQueue (g : Graph) (s : State) : State :=
  (groupMsgs s.queue).foldl (processGroup g) { s with queue := [] }

/-! ### `cylc set` -/

/-- `TaskOutputs.output_sort_key` (doubled: custom outputs sort after `started`) -/
def outputSortKey (msg : String) : Nat :=
  if msg == "expired" then 0 else if msg == "submitted" then 2 else if msg == "submit-failed" then 4
  else if msg == "started" then 6 else if msg == "succeeded" then 8 else if msg == "failed" then 10
  else if msg == "finished" then 12 else 7

def insertByKey (m : String) : List String → List String
  | [] => [m]
  | a :: l => if outputSortKey m < outputSortKey a then m :: a :: l else a :: insertByKey m l

/-- `sorted(outputs, key=output_sort_key)` (stable) of a duplicate-free collection -/
def sortOutputs (l : List String) : List String := (l.eraseDups).foldl (fun acc m => insertByKey m acc) []

/-- `_standardise_outputs`: triggers → messages, unknown ones dropped -/
def standardiseOutputs (t : TaskDefn) (outs : List String) : List String :=
  outs.filterMap fun o => (t.outputs.find? (·.trigger == o)).map (·.message)

/-- one output of `_set_outputs_itask`: skipped when complete already, else a forced message -/
def forceOutput (g : Graph) (p : Int) (n : String) (acc : State × Bool) (m : String) : State × Bool :=
  match lookup acc.1 p n with
  | none => acc
  | some (x, _) =>
    if x.isDone m then acc                    -- completed already
    else ((processMessage g 4 acc.1 p n .internal x.submitNum m true).1, false)

/-- `_set_outputs_itask` on the live proxy or transient object of (p, n); `outs` = triggers as given (empty: default) -/
def setOutputsItask (g : Graph) (s : State) (p : Int) (n : String) (outs : List String) : State :=
  match g.task? n with
  | none => s
  | some t =>
    let msgs : List String :=
      if outs.isEmpty then (if !t.required.isEmpty then t.required else t.skipOut)
      else standardiseOutputs t outs
    -- (state, nothing was set)
    let R := (sortOutputs msgs).foldl (forceOutput g p n) (s, true)
    match lookup R.1 p n with
    | none => R.1
    | some (x, tr) =>
      -- a task that is no longer waiting can't be runahead limited or queued
      let y := if x.status != .waiting then x.reset (queued := some false) (runahead := some false) else x
      if R.2 then store R.1 y tr
      else flushDb (dbUpdateOutputs g (dbUpdateState (store R.1 y tr) y tr) y)

/-- prerequisites of `cylc set --pre` -/
inductive PreSpec where
  | none                                             -- no `--pre`: the command is about outputs
  | all                                              -- `--pre=all`
  | some (l : List (Int × String × String)) (xs : List String := [])
                                                     -- point / task : trigger; xtrigger labels (`xtrigger/<label>`)
  deriving Repr, Inhabited

/-- `_standardise_prereqs`: triggers → messages via the named task's outputs, unknown ones dropped -/
def standardisePrereqs (g : Graph) (l : List (Int × String × String)) : List Atom :=
  l.filterMap fun (p, n, trg) => do
    let t ← g.task? n
    let o ← t.outputs.find? (·.trigger == trg)
    pure ⟨p, n, o.message⟩

/-- `set_prereqs_and_outputs` for one task id -/
def PreSpec.isAll : PreSpec → Bool
  | .all => true
  | _ => false

/-- `--pre` was given (the command is about prerequisites) -/
def PreSpec.given : PreSpec → Bool
  | .none => false
  | _ => true

/-- the requested prerequisites in message form -/
def PreSpec.atoms (g : Graph) : PreSpec → List Atom
  | .some l _ => standardisePrereqs g l
  | _ => []

/-- `_get_xtrig_prereqs`: the requested xtrigger labels -/
def PreSpec.xlabels : PreSpec → List String
  | .some _ xs => xs
  | _ => []

/-- `_get_valid_xtrigs` for a task that is in the pool: `all`, and the xtriggers the proxy carries -/
def validXtrigs (x : Proxy) (xs : List String) : List String :=
  xs.filter fun l => l == "all" || x.xLabels.any (·.1 == l)

/-- `_get_valid_xtrigs` for a task that is not in the pool (no graph xtriggers are modelled): `all` only -/
def validXtrigsInactive (xs : List String) : List String := xs.filter (· == "all")

/-- `_get_valid_prereqs`: the requested prerequisites that the instance has -/
def validPrereqs (g : Graph) (p : Int) (n : String) (clean : List Atom) : List Atom :=
  match (g.task? n).bind (·.inst? p) with
  | some d => clean.filter (d.validPre.contains ·)
  | none => []

/-- `cylc set --pre` on the pooled proxy `x` (flows of the command resolved) -/
def setPrePooled (g : Graph) (s : State) (x : Proxy) (flows : Flows) (valid : List Atom) (setAll : Bool)
    (vx : List String := []) : State :=
  if !(setAll || !valid.isEmpty || !vx.isEmpty) then s else
  let s1 := mergeFlows g s x flows
  match s1.get? x.pt x.name with
  | some y => s1.put ((y.forceSatisfy valid setAll).forceXtrigs vx)
  | none => s1

/-- `cylc set --pre` on a task that is not in the pool: `_set_prereqs_tdef` -/
def setPreInactive (g : Graph) (s : State) (p : Int) (n : String) (flows : Flows) (wait : Bool)
    (valid : List Atom) (setAll : Bool) (vx : List String := []) : State :=
  if !(setAll || !valid.isEmpty || !vx.isEmpty) then s else
  let R := spawnTask g spawnFuel s n p flows wait
  match R.2 with
  | some y => (dbInsert R.1 y).add ((y.forceSatisfy valid setAll).forceXtrigs vx)
  | none => R.1

/-- `cylc set --out` on the pooled proxy `x` -/
def setOutPooled (g : Graph) (s : State) (x : Proxy) (flows : Flows) (outs : List String) : State :=
  setOutputsItask g (mergeFlows g s x flows) x.pt x.name outs

/-- `cylc set --out` on a task that is not in the pool: a transient proxy with the historical outputs loaded -/
def setOutInactive (g : Graph) (s : State) (p : Int) (n : String) (flows : Flows) (wait : Bool)
    (outs : List String) : State :=
  match mkProxy g n p with
  | none => s
  | some x0 =>
    let L := loadHistoricalOutputs g s { x0 with flows := flows, flowWait := wait }
    setOutputsItask g
      { L.1 with ghosts := (L.1.ghosts.filter fun y => !(y.pt == p && y.name == n)) ++ [L.2] } p n outs

def setCmd (g : Graph) (s : State) (id : Int × String) (outs : List String) (pre : PreSpec)
    (flow : FlowSpec) (wait : Bool) : State :=
  if pre.given && !(pre.isAll || !(pre.atoms g).isEmpty || !pre.xlabels.isEmpty) then s else   -- nothing to do
  let C := cliFlows s flow                                                   -- (state, flows of the command)
  let valid := validPrereqs g id.1 id.2 (pre.atoms g)
  match C.1.get? id.1 id.2 with
  | some x =>
    -- active task
    if flow == .none && !x.flows.isEmpty then C.1                 -- no-flow set of an active task is ignored
    else if pre.given then setPrePooled g C.1 x C.2 valid pre.isAll (validXtrigs x pre.xlabels)
    else setOutPooled g C.1 x C.2 outs
  | none =>
    -- inactive task (the id must be a valid instance of the graph)
    if ((g.task? id.2).bind (·.inst? id.1)).isNone then C.1
    else if pre.given then setPreInactive g C.1 id.1 id.2 C.2 wait valid pre.isAll (validXtrigsInactive pre.xlabels)
    else setOutInactive g C.1 id.1 id.2 C.2 wait outs

/-! ### Stall and shutdown -/

/-- `TaskPool.is_stalled` -/
def isStalled (g : Graph) (s : State) : Bool :=
  if s.pool.any (fun x => x.status.isActive || x.status == .preparing ||
      (x.status == .waiting && !x.runahead && x.prereqsSatisfied)) then false
  else
    let incomplete := s.pool.any fun x => x.status.isFinal &&
      (match g.task? x.name with | some t => !isComplete t x.done | none => false)
    let beyond (p : Int) : Bool := match s.stopPoint with | some sp => p > sp | none => false
    let unsatisfied := s.pool.any fun x => !beyond x.pt && x.pre.any fun pr =>
      !pr.isSatisfied && pr.atoms.any (fun a => !a.2 && !beyond a.1.pt)
    incomplete || unsatisfied

/-- `check_workflow_stalled` -/
def checkStalled (g : Graph) (s : State) : State :=
  if s.stalled then s else if s.paused then s else if isStalled g s then { s with stalled := true } else s

/-- `check_auto_shutdown` (with its stall-check side effect) -/
def checkAutoShutdown (g : Graph) (s : State) : State × Bool :=
  if s.paused || s.restartWait then (s, false) else
  let s := checkStalled g s
  if s.stalled then (s, false)
  else if s.pool.any (fun x => x.status == .preparing || x.status == .submitted ||
      x.status == .running || (x.status == .waiting && !x.runahead)) then (s, false)
  else ({ s with dbStopCp := none }, true)      -- the stop point is forgotten once reached

/-! ### Operations -/

inductive Op where
  | loop
  | subres (pt : Int) (name : String) (ok : Bool) (sn : Nat)
  | msg (pt : Int) (name : String) (sn : Nat) (text : String)
  | hold (ids : List (Int × String))
  | release (ids : List (Int × String))
  | setHoldPoint (p : Int)
  | releaseHoldPoint
  | stop (mode : String)                  -- "REQUEST(CLEAN)" | "REQUEST(NOW)" | "REQUEST(NOW-NOW)"
  | stopPoint (p : Int)
  | stopTask (pt : Int) (name : String)
  | pause
  | resume
  | restart
  | set (ids : List (Int × String)) (outs : List String) (pre : PreSpec) (flow : FlowSpec) (wait : Bool)
  deriving Repr

def clearOp (s : State) : State := { s with launched := [], polls := [], ghosts := [], db := none }

/-- `call_xtriggers_async` on the retry xtriggers of a proxy -/
def clockChecked (g : Graph) (y : Proxy) : Proxy :=
  match g.task? y.name with
  | some t => y.clockXtrigs t.execRetryLong t.subRetryLong
  | none => y.clockXtrigs false false

/-- the queue-if-ready sweep over waiting, unqueued, released proxies -/
def sweepQueue (g : Graph) (s : State) : State :=
  s.pool.foldl (fun st x => match st.get? x.pt x.name with
    | some y =>
      if y.status == .waiting && !y.queued && !y.runahead then
        -- the retry clock triggers are checked: zero delays are over by the time of the next sweep
        queueIfReady (st.put (clockChecked g y)) (clockChecked g y)
      else st
    | none => st) s

/-- the `task_states` part of `put_task_pool`: every pooled proxy whose state changed since the last call -/
def putTaskPool (s : State) : State :=
  s.pool.foldl (fun st x => if x.upd then dbUpdatePool st x else st) s

/-- end of the main loop: updated flags, DB commit of the task pool, stall check -/
def finishLoop (g : Graph) (s : State) : State :=
  let hasUpd := s.schedUpd || s.pool.any (·.upd)
  let s := if s.pool.any (·.upd) then { s with restartWait := false } else s
  let s := if hasUpd then
      let s := putTaskPool s
      { s with stalled := false, schedUpd := false, pool := s.pool.map fun x => { x with upd := false } }
    else s
  let s := flushDb { s with db := some s.pool }      -- put_task_pool + process_queued_ops
  if !hasUpd && s.stopMode.isNone then checkStalled g s else s

/-- `TaskPool.can_stop` -/
def canStop (s : State) : Bool :=
  match s.stopMode with
  | none => false
  | some m =>
    if m == "REQUEST(NOW-NOW)" then true
    else !(s.pool.any fun x => (m == "REQUEST(CLEAN)" || m == "REQUEST(KILL)") && x.status.isActive)

/-- `stop_task_done` -/
def stopTaskDone (s : State) : State × Bool :=
  if s.stopTask.isSome && s.stopTaskFinished then
    ({ s with stopTask := none, stopTaskFinished := false }, true)
  else (s, false)

/-- one iteration of `Scheduler._main_loop` -/
def mainLoop (g : Graph) (s : State) : State :=
  if s.stop.isSome then s else
  let s := computeRunahead g s
  let s := (releaseRunahead g s).1
  -- workflow_shutdown
  let s :=
    if s.stopMode.isNone then
      let (s, std) := stopTaskDone s
      if std then { s with stopMode := some "AUTOMATIC" }
      else
        let (s, auto) := checkAutoShutdown g s
        if auto then { s with stopMode := some "AUTOMATIC" } else s
    else s
  if canStop s then { s with stop := s.stopMode } else
  let s := sweepQueue g s
  let s := if s.stopMode.isNone && !s.paused then releaseAndSubmit s else s
  let s := processQueue g s
  finishLoop g s

/-- `set_stop_point` -/
def setStopPoint (s : State) (p : Int) : State :=
  if s.stopPoint == some p then s else
  let s := { s with stopPoint := some p, dbStopCp := some p }
  match s.rhLimit with
  | some l =>
    if l > p then
      { s with rhLimit := some p,
               pool := s.pool.map fun x =>
                 if x.pt > p && x.status == .waiting then x.reset (runahead := some true) else x }
    else s
  | none => s

/-- `set_hold_point` -/
def setHoldPoint (s : State) (p : Int) : State :=
  let s := { s with holdPoint := some p }
  s.pool.foldl (fun st x => if x.pt > p then
      match st.get? x.pt x.name with | some y => holdActive st y | none => st
    else st) s

/-- `hold_tasks` (ids are valid instances: pooled ones are held, future ones recorded) -/
def holdTasks (s : State) (ids : List (Int × String)) : State :=
  ids.foldl (fun st k => match st.get? k.1 k.2 with
    | some y => holdActive st y
    | none => if st.tasksToHold.contains (k.2, k.1) then st
              else { st with tasksToHold := st.tasksToHold ++ [(k.2, k.1)] }) s

/-- `release_held_tasks`: only ids currently in `tasks_to_hold` are matched -/
def releaseTasks (s : State) (ids : List (Int × String)) : State :=
  ids.foldl (fun st k =>
    if !st.tasksToHold.contains (k.2, k.1) then st else
    match st.get? k.1 k.2 with
    | some y => releaseHeldActive st y
    | none => { st with tasksToHold := st.tasksToHold.filter (· != (k.2, k.1)) }) s

/-- `release_hold_point` -/
def releaseHoldPoint (s : State) : State :=
  let s := { s with holdPoint := none }
  let s := s.pool.foldl (fun st x => match st.get? x.pt x.name with
    | some y => releaseHeldActive st y | none => st) s
  { s with tasksToHold := [] }

def maxFlow (f : Flows) : Nat := f.foldl max 0

/-- one row of `task_pool` ⋈ `task_states` ⋈ `task_outputs` loaded by `load_db_task_pool_for_restart`: the pooled
proxy `x` with the submit number, flow wait and outputs of the row of its flows (no such row: dropped by the JOIN) -/
def restoreProxy (g : Graph) (rows : List Row) (x : Proxy) : Option Proxy :=
  match rows.find? (·.isKey x.pt x.name x.flows) with
  | none => none
  | some r =>
    let status := if x.status == .preparing then Status.waiting else x.status
    let sn := if x.status == .preparing then r.submitNum - 1 else r.submitNum
    let keepOut := status == .running || status == .failed || status == .succeeded
    let final := status == .failed || status == .succeeded || status == .expired
    let hd := (r.outs.map (·.1)).filter fun m => hasOutput g x m
    some { x with status := status, submitNum := sn, done := (if keepOut then hd else []), forced := [],
                  flowWait := r.flowWait,
                  queued := false, runahead := !final, xExec := none, xSub := none, live := false,
                  upd := (x.status == .preparing) || final }

/-- the flow numbers seen in a pool (`update_flow_mgr`) -/
def flowsSeen (pool : List Proxy) : Flows := pool.foldl (fun acc x => fUnion acc x.flows) []

/-- clean restart from the database written at shutdown (`load_db_task_pool_for_restart`, `configure`):
the pool table joined with the `task_states` / `task_outputs` rows of the same flows -/
def reloaded (g : Graph) (s : State) : State :=
  -- stop point: DB `stopcp`, else flow.cylc, else the final point
  let cfgStop : Option Int := match s.dbStopCp with | some p => some p | none => g.cfgStop
  let pool := s.pool.filterMap (restoreProxy g s.rows)
  let wait := pool.isEmpty || (match cfgStop with
    | some sp => pool.all (fun x => x.pt > sp)
    | none => false)
  { pool := pool, rows := s.rows, absDone := s.absDone,
    tasksToHold := s.tasksToHold, holdPoint := s.holdPoint, stopPoint := some (cfgStop.getD g.fcp),
    dbStopCp := s.dbStopCp, restartWait := wait,
    stopTask := s.stopTask, stopTaskFinished := false, schedUpd := true,
    flowCounter := maxFlow s.flowsDb, flowsKnown := s.flowsDb.filter ((flowsSeen pool).contains ·),
    flowsDb := s.flowsDb }

def restart (g : Graph) (s0 : State) : State :=
  -- `shutdown` writes the task pool once more; the new scheduler loads the database ...
  let s' := reloaded g (flushDb (putTaskPool s0))
  -- ... and `configure` re-applies the hold point after the pool is loaded
  flushDb (match s'.holdPoint with
  | some hp => setHoldPoint s' hp
  | none => s')

def step (g : Graph) (s : State) (op : Op) : State :=
  let s := clearOp s
  match op with
  | .loop => mainLoop g s
  | .subres p n ok sn =>
      (processMessage g 4 s p n .internal sn (if ok then "submitted" else "submit-failed") false).1
  | .msg p n sn text => { s with queue := s.queue ++ [⟨p, n, sn, text⟩] }
  | .hold ids => holdTasks s ids
  | .release ids => releaseTasks s ids
  | .setHoldPoint p => setHoldPoint s p
  | .releaseHoldPoint => releaseHoldPoint s
  | .stop mode => { s with stopMode := some mode }
  | .stopPoint p => setStopPoint s p
  | .stopTask p n => { s with stopTask := some (p, n), stopTaskFinished := false }
  | .pause => { s with paused := true }
  | .resume => { s with paused := false }
  | .restart => restart g s
  | .set ids outs pre flow wait =>
      match ids with
      | [id] => setCmd g s id outs pre flow wait
      | _ => s                                  -- several ids in one command: not modelled (never generated)

def init (g : Graph) : State :=
  let s := loadFromPoint g
  flushDb s                                     -- start-up commits the queued DB operations

/-- all states of a run: after start-up, then after each op -/
def run (g : Graph) (ops : List Op) : List State :=
  (ops.foldl (fun (acc : List State × State) op =>
    let s' := step g acc.2 op
    (acc.1 ++ [s'], s')) ([init g], init g)).1

end CylcModel.Sched3X
