/-
Helper lemmas for property C40 (component `Like`).

Part 1 is about the specification (`starMatch`) only.  Part 2 is about what the *live code* does with
a pattern: it is stated over `CylcModel.Generated.LikeCfg` (operator and per-character rewrite read
off the SQL the real `workflow_state_query` executes), so it stops checking when the code's
translation changes.
-/
import CylcModel.Like
namespace CylcModel.Like
open CylcModel.Generated

/-! ## 1. `starMatch` is the relation the property describes -/

theorem anySuffix_iff (f : Str → Bool) (s : Str) :
    anySuffix f s = true ↔ ∃ a b, s = a ++ b ∧ f b = true := by
  induction s with
  | nil =>
    simp only [anySuffix]
    constructor
    · intro h; exact ⟨[], [], rfl, h⟩
    · rintro ⟨a, b, h, hb⟩
      have : b = [] := (List.nil_eq_append_iff.mp h).2
      subst this; exact hb
  | cons c s ih =>
    simp only [anySuffix, Bool.or_eq_true, ih]
    constructor
    · rintro (h | ⟨a, b, h, hb⟩)
      · exact ⟨[], c :: s, rfl, h⟩
      · exact ⟨c :: a, b, by simp [h], hb⟩
    · rintro ⟨a, b, h, hb⟩
      cases a with
      | nil => left; simp at h; subst h; exact hb
      | cons x a =>
        right
        simp at h
        exact ⟨a, b, h.2, hb⟩

theorem anySuffix_congr {f g : Str → Bool} (h : ∀ s, f s = g s) (s : Str) :
    anySuffix f s = anySuffix g s := by
  induction s with
  | nil => simp [anySuffix, h]
  | cons c s ih => simp [anySuffix, h, ih]

/-- The property's matching relation, declaratively: `*` stands for any string `a`,
every other character for itself. -/
inductive StarRel : Str → Str → Prop
  | nil : StarRel [] []
  | star (p a b s : Str) : s = a ++ b → StarRel p b → StarRel ('*' :: p) s
  | lit (c : Char) (p s : Str) : c ≠ '*' → StarRel p s → StarRel (c :: p) (c :: s)

theorem starMatch_iff_rel (p s : Str) : starMatch p s = true ↔ StarRel p s := by
  induction p generalizing s with
  | nil =>
    cases s with
    | nil => simp [starMatch]; exact .nil
    | cons c s => simp [starMatch]; intro h; cases h
  | cons c p ih =>
    by_cases hc : c = '*'
    · subst hc
      simp only [starMatch, if_true, anySuffix_iff]
      constructor
      · rintro ⟨a, b, h, hb⟩; exact .star p a b s h ((ih b).1 hb)
      · intro h
        cases h with
        | star _ a b _ h hb => exact ⟨a, b, h, (ih b).2 hb⟩
        | lit _ _ _ hne => exact absurd rfl hne
    · cases s with
      | nil =>
        simp [starMatch, hc]; intro h
        cases h with
        | star _ _ _ _ _ _ => exact hc rfl
      | cons x s =>
        simp only [starMatch, hc, if_false, Bool.and_eq_true, beq_iff_eq]
        constructor
        · rintro ⟨rfl, h⟩; exact .lit c p s hc ((ih s).1 h)
        · intro h
          cases h with
          | star _ a b _ _ hb => exact absurd rfl hc
          | lit _ _ _ _ h => exact ⟨rfl, (ih s).2 h⟩

/-- without `*` the relation is equality -/
theorem starMatch_noStar (p s : Str) (h : p.contains '*' = false) : starMatch p s = (p == s) := by
  induction p generalizing s with
  | nil => cases s <;> simp [starMatch]
  | cons c p ih =>
    simp only [List.contains_cons, Bool.or_eq_false_iff] at h
    have hc : c ≠ '*' := by
      intro e; subst e; simp at h
    cases s with
    | nil => simp [starMatch, hc]
    | cons x s => simp [starMatch, hc, ih s h.2]

/-! ## 2. The live translation (generated configuration) -/

/-- the token SQLite reads the rewritten character as -/
def tokOf (c : Char) : Tok :=
  if c = '*' then .star
  else if c = '?' then .set false [.ch '?']
  else if c = '[' then .set false [.ch '[']
  else .lit c

/-- reading the rewrite of one pattern character yields exactly one token and leaves the GLOB
scanner outside any `[...]` set -/
theorem tok_transChar (c : Char) (rest : Str) :
    tokGlobGo .out (transChar c ++ rest) = tokOf c :: tokGlobGo .out rest := by
  unfold transChar tokOf
  by_cases h1 : c = '*'
  · subst h1; simp [LikeCfg.starTo, tokGlobGo, step]
  · by_cases h2 : c = '?'
    · subst h2; simp [LikeCfg.escapes, tokGlobGo, step, loopStep]
    · by_cases h3 : c = '['
      · subst h3; simp [LikeCfg.escapes, List.lookup, tokGlobGo, step, loopStep]
      · have e2 : (c == '?') = false := by simp [h2]
        have e3 : (c == '[') = false := by simp [h3]
        simp [h1, h2, h3, e2, e3, LikeCfg.escapes, List.lookup, tokGlobGo, step]

theorem accepts_tokOf (c x : Char) (h : c ≠ '*') : (tokOf c).accepts false x = (c == x) := by
  unfold tokOf
  by_cases h2 : c = '?'
  · subst h2; simp [Tok.accepts, SetItem.has, Bool.beq_comm]
  · by_cases h3 : c = '['
    · subst h3; simp [Tok.accepts, SetItem.has, Bool.beq_comm]
    · simp [h, h2, h3, Tok.accepts, chEq]

theorem tokOf_ne_star (c : Char) (hc : c ≠ '*') : tokOf c ≠ .star := by
  unfold tokOf; simp [hc]; split <;> (try split) <;> simp

theorem glob_translation (pat s : Str) : globMatch (translate pat) s = starMatch pat s := by
  unfold globMatch tokGlob
  induction pat generalizing s with
  | nil => simp [translate, tokGlobGo, matchToks, starMatch]
  | cons c p ih =>
    have ih' : ∀ s, matchToks false (tokGlobGo .out (translate p)) s = starMatch p s := ih
    simp only [translate, List.flatMap_cons] at ih' ⊢
    rw [tok_transChar]
    by_cases hc : c = '*'
    · subst hc
      simp only [tokOf, if_true, matchToks, starMatch]
      exact anySuffix_congr ih' s
    · have ht := tokOf_ne_star c hc
      cases s with
      | nil => simp [starMatch, matchToks, hc, ht]
      | cons x s => simp [starMatch, matchToks, hc, ht, accepts_tokOf c x hc, ih']

theorem sqlMatch_translate (pat s : Str) : sqlMatch (translate pat) s = starMatch pat s := by
  simp [sqlMatch, LikeCfg.opIsGlob, glob_translation]

theorem fieldFilter_eq (pat s : Str) : fieldFilter pat s = starMatch pat s := by
  unfold fieldFilter
  cases h : pat.contains '*'
  · simp [starMatch_noStar pat s h]
  · simp [sqlMatch_translate]

theorem optFilter_eq (pat : Option Str) (s : Str) : optFilter pat s = Spec.optStar pat s := by
  unfold optFilter Spec.optStar
  split <;> simp [fieldFilter_eq]

theorem selectorInOutputs_eq (sel : String) (names : List String) :
    selectorInOutputs sel names =
      (names.contains sel || ((sel == "finished" || sel == "finish") &&
        (names.contains "succeeded" || names.contains "failed"))) := by
  simp only [selectorInOutputs, LikeCfg.finishAliases, LikeCfg.succeededName, LikeCfg.failedName,
    List.contains_cons, List.contains_nil, Bool.or_false]
  cases names.contains sel <;> cases (sel == "finished") <;> cases (sel == "finish") <;>
    cases names.contains "succeeded" <;> cases names.contains "failed" <;> rfl

theorem outputsOk_eq (q : Query) (o : Outputs) : outputsOk q o = Spec.outputsOk q o := by
  unfold outputsOk Spec.outputsOk
  cases q.selector with
  | none => rfl
  | some sel => cases q.mode <;> simp [selectorInOutputs_eq]

theorem stateRowOk_eq (q : Query) (r : StateRow) : stateRowOk q r = Spec.stateRowOk q r := by
  simp [stateRowOk, Spec.stateRowOk, optFilter_eq]

theorem outRowOk_eq (q : Query) (r : OutRow) : outRowOk q r = Spec.outRowOk q r := by
  simp [outRowOk, Spec.outRowOk, optFilter_eq, outputsOk_eq]

end CylcModel.Like
