/-
C04F / C07F — the prose runahead limit WITH future-trigger offsets as an executable definition over the instance
graph of `Sched3Fut`, shared by the theorems (`Props/C04F`, `Props/C07F`) and by the trace judges (`Drv/C04F`,
`Drv/C07F`).  Core Lean only.

Nothing here follows the code: the (n+1)-th earliest recurrence point is found by walking "the next larger point"
n times over the plain union of all recurrence points (no sorting, no per-recurrence truncation, no cache);
offsets are read off the instance graph (`InstDef.futOff` = the largest future offset among the prerequisite atoms
of an instance, extracted from the real prerequisites).
-/
import CylcModel.Sched3Fut

namespace CylcModel.Sched3Fut

/-- the smallest element of `all` that is `≥ lo` (`strict = false`) or `> lo` (`strict = true`) -/
def nextPoint (all : List Int) (lo : Int) (strict : Bool) : Option Int :=
  all.foldl (fun acc x =>
    if (if strict then decide (x > lo) else decide (x ≥ lo)) then
      (match acc with
       | none => some x
       | some a => if x < a then some x else acc)
    else acc) none

/-- advance `k` times to the next larger point; stay where the points run out -/
def walkPoints (all : List Int) : Nat → Int → Int
  | 0, cur => cur
  | k + 1, cur =>
    match nextPoint all cur true with
    | some x => walkPoints all k x
    | none => cur

/-- every point of every recurrence of the workflow -/
def allPoints (g : Graph) : List Int := g.seqs.flatMap id

/-- for the limit `Pn`: the (n+1)-th earliest recurrence point at or after the base point `b`
(the latest one if there are fewer; `b` itself if there is none) -/
def limit0At (g : Graph) (b : Int) : Int :=
  match nextPoint (allPoints g) b false with
  | none => b
  | some x0 => walkPoints (allPoints g) g.runahead x0

def optMax (a b : Option Int) : Option Int :=
  match a, b with
  | none, b => b
  | a, none => a
  | some x, some y => some (if y > x then y else x)

def maxOpt (l : List (Option Int)) : Option Int := l.foldl optMax none

/-- the largest future-trigger offset of task `n` over all its instances (what `tdef.max_future_prereq_offset`
converges to) -/
def taskMaxOff (g : Graph) (n : String) : Option Int :=
  match g.task? n with
  | some t => maxOpt (t.insts.map fun pd => pd.2.futOff)
  | none => none

/-- `RunaheadSpec`: the count limit from base point `b`, extended by the future-trigger offset `off`, capped at
the stop point `sp` -/
def specLimit (g : Graph) (b : Int) (off : Option Int) (sp : Option Int) : Int :=
  let l := limit0At g b + off.getD 0
  match sp with
  | some q => if l > q then q else l
  | none => l

/-- the earliest cycle point among pool keys -/
def baseOf : List (Int × String) → Option Int
  | [] => none
  | k :: ks => some (ks.foldl (fun m u => if u.1 < m then u.1 else m) k.1)

/-- largest future offset among the pooled INSTANCES (each pooled proxy was constructed, so the code's cached value
is at least this) -/
def lowOff (g : Graph) (keys : List (Int × String)) : Option Int := maxOpt (keys.map fun k => instOff g k.2 k.1)

/-- largest future offset among the pooled TASKS over all their instances (the code's lazily raised per-task value
never exceeds this) -/
def highOff (g : Graph) (keys : List (Int × String)) : Option Int := maxOpt (keys.map fun k => taskMaxOff g k.2)

def optLe (a b : Option Int) : Bool :=
  match a, b with
  | none, _ => true
  | some _, none => false
  | some x, some y => decide (x ≤ y)

/-! ### decidable well-formedness of instance graphs (hypotheses of the theorems, checked by the drivers) -/

/-- every recurrence is given as the strictly ascending list of its points -/
def wfSeqs (g : Graph) : Bool := g.seqs.all fun q => decide (q.Pairwise (· < ·))

/-- every future offset of the instance graph is non-negative -/
def wfOff (g : Graph) : Bool :=
  g.tasks.all fun t => t.insts.all fun pd => match pd.2.futOff with
    | some o => decide (0 ≤ o)
    | none => true

/-- the future offset of every instance is the one its prerequisite atoms give (`atomFutOff`) -/
def wfFut (g : Graph) : Bool :=
  g.tasks.all fun t => t.insts.all fun pd => pd.2.futOff == atomFutOff pd.1 (pd.2.pre ++ pd.2.sui)

end CylcModel.Sched3Fut
