/-
Lemmas about the `Sched3Rm` model used by the C30 theorems, part 1: pool look-up after `put` / `add` / filtering,
`Proxy.reset`, `Prerequisite.unset_naturally_satisfied`, flow-number sets, the pool part of a removal
(`removePooled`) and the stand-down of one downstream proxy (`standDown`).
-/
import CylcModel.Sched3Rm

namespace CylcModel.Sched3Rm

/-! ### Pool look-up -/

def keys (s : State) : List (Int × String) := s.pool.map fun x => (x.pt, x.name)

theorem keys_put (s : State) (x : Proxy) : keys (s.put x) = keys s := by
  unfold keys State.put
  simp only [List.map_map]
  apply List.map_congr_left
  intro y _
  simp only [Function.comp]
  split
  · rename_i h
    simp only [Bool.and_eq_true, beq_iff_eq] at h
    rw [h.1, h.2]
  · rfl

theorem find_map_put (l : List Proxy) (x : Proxy) (h : (l.find? fun y => y.pt == x.pt && y.name == x.name).isSome) :
    (l.map fun y => if y.pt == x.pt && y.name == x.name then x else y).find?
      (fun y => y.pt == x.pt && y.name == x.name) = some x := by
  induction l with
  | nil => simp at h
  | cons a l ih =>
    simp only [List.map_cons]
    by_cases ha : (a.pt == x.pt && a.name == x.name) = true
    · simp [ha]
    · have ha' : (a.pt == x.pt && a.name == x.name) = false := by simpa using ha
      rw [List.find?_cons] at h
      simp only [ha'] at h
      simp only [ha', Bool.false_eq_true, if_false]
      rw [List.find?_cons]
      simp only [ha']
      exact ih h

/-- after `put x` the proxy found under `x`'s key is `x` (if the key was in the pool) -/
theorem get?_put_self (s : State) (x : Proxy) (h : (s.get? x.pt x.name).isSome) :
    (s.put x).get? x.pt x.name = some x := by
  unfold State.get? State.put at *
  exact find_map_put s.pool x h

/-- `put` leaves the other keys alone -/
theorem get?_put_other (s : State) (x : Proxy) (p : Int) (n : String) (h : ¬ (p = x.pt ∧ n = x.name)) :
    (s.put x).get? p n = s.get? p n := by
  unfold State.get? State.put
  simp only
  induction s.pool with
  | nil => rfl
  | cons a l ih =>
    simp only [List.map_cons]
    by_cases ha : (a.pt == x.pt && a.name == x.name) = true
    · simp only [ha, if_true]
      have hk : a.pt = x.pt ∧ a.name = x.name := by simpa using ha
      have h1 : (x.pt == p && x.name == n) = false := by
        apply Bool.eq_false_iff.mpr
        intro hc
        simp only [Bool.and_eq_true, beq_iff_eq] at hc
        exact h ⟨hc.1.symm, hc.2.symm⟩
      have h2 : (a.pt == p && a.name == n) = false := by rw [hk.1, hk.2]; exact h1
      rw [List.find?_cons, List.find?_cons]
      simp only [h1, h2]
      exact ih
    · have ha' : (a.pt == x.pt && a.name == x.name) = false := by simpa using ha
      simp only [ha', Bool.false_eq_true, if_false]
      rw [List.find?_cons, List.find?_cons]
      cases (a.pt == p && a.name == n) with
      | true => rfl
      | false => exact ih

theorem get?_some_key (s : State) (p : Int) (n : String) (x : Proxy) (h : s.get? p n = some x) :
    x.pt = p ∧ x.name = n := by
  unfold State.get? at h
  have := List.find?_some h
  simpa using this

theorem get?_some_mem (s : State) (p : Int) (n : String) (x : Proxy) (h : s.get? p n = some x) : x ∈ s.pool := by
  unfold State.get? at h
  exact List.mem_of_find?_eq_some h

theorem get?_isSome_of_mem (s : State) (x : Proxy) (h : x ∈ s.pool) : (s.get? x.pt x.name).isSome := by
  unfold State.get?
  rw [List.find?_isSome]
  exact ⟨x, h, by simp⟩

/-! ### `Proxy.reset` keeps the identity -/

theorem reset_pt (x : Proxy) (a : Option Status) (b c d : Option Bool) : (x.reset a b c d).pt = x.pt := by
  unfold Proxy.reset; simp only; split <;> rfl

theorem reset_name (x : Proxy) (a : Option Status) (b c d : Option Bool) : (x.reset a b c d).name = x.name := by
  unfold Proxy.reset; simp only; split <;> rfl

theorem reset_submitNum (x : Proxy) (a : Option Status) (b c d : Option Bool) :
    (x.reset a b c d).submitNum = x.submitNum := by
  unfold Proxy.reset; simp only; split <;> rfl

theorem reset_status_some (x : Proxy) (st : Status) (b c d : Option Bool) :
    (x.reset (some st) b c d).status = st := by
  unfold Proxy.reset; simp only [Option.getD_some]
  split
  · rename_i h
    simp only [Bool.and_eq_true, beq_iff_eq] at h
    exact h.1.1.1.symm
  · rfl

theorem reset_queued_some (x : Proxy) (q : Bool) (a : Option Status) (c d : Option Bool) :
    (x.reset a (some q) c d).queued = q := by
  unfold Proxy.reset; simp only [Option.getD_some]
  split
  · rename_i h
    simp only [Bool.and_eq_true, beq_iff_eq] at h
    exact h.1.1.2.symm
  · rfl

theorem reset_status_none (x : Proxy) (b c d : Option Bool) : (x.reset none b c d).status = x.status := by
  unfold Proxy.reset; simp only [Option.getD_none]; split <;> rfl

theorem reset_manual (x : Proxy) (a : Option Status) (b c d : Option Bool) : (x.reset a b c d).manual = x.manual := by
  unfold Proxy.reset; simp only; split <;> rfl


theorem reset_flows (x : Proxy) (a : Option Status) (b c d : Option Bool) : (x.reset a b c d).flows = x.flows := by
  unfold Proxy.reset; simp only; split <;> rfl

theorem reset_done (x : Proxy) (a : Option Status) (b c d : Option Bool) : (x.reset a b c d).done = x.done := by
  unfold Proxy.reset; simp only; split <;> rfl

theorem reset_pre (x : Proxy) (a : Option Status) (b c d : Option Bool) : (x.reset a b c d).pre = x.pre := by
  unfold Proxy.reset; simp only; split <;> rfl

theorem reset_sui (x : Proxy) (a : Option Status) (b c d : Option Bool) : (x.reset a b c d).sui = x.sui := by
  unfold Proxy.reset; simp only; split <;> rfl

/-! ### `Prerequisite.unset_naturally_satisfied` -/

/-- an atom is *on* the task instance `pt/name` -/
def Atom.on (a : Atom) (pt : Int) (name : String) : Prop := a.pt = pt ∧ a.task = name

instance (a : Atom) (pt : Int) (name : String) : Decidable (a.on pt name) := by unfold Atom.on; exact inferInstance

/-- satisfied by the upstream task itself: 'satisfied naturally' or 'satisfied from database' (not forced) -/
def Sat.natural (s : Sat) : Prop := s = .nat ∨ s = .db

instance (s : Sat) : Decidable s.natural := by unfold Sat.natural; exact inferInstance

/-- what `unset_naturally_satisfied(pt/name)` is to do with one atom -/
def unsetAtom (pt : Int) (name : String) (e : Atom × Sat) : Atom × Sat :=
  if e.1.on pt name ∧ e.2.natural then (e.1, .no) else e

theorem unsetNatural_atoms (p : Pre) (pt : Int) (name : String) :
    (p.unsetNatural pt name).1.atoms = p.atoms.map (unsetAtom pt name) := by
  unfold Pre.unsetNatural
  simp only
  apply List.map_congr_left
  intro e _
  obtain ⟨b, s⟩ := e
  unfold unsetAtom Atom.on Sat.natural
  by_cases h1 : b.pt = pt <;> by_cases h2 : b.task = name <;> cases s <;> simp [h1, h2, Sat.ok]

theorem unsetNatural_expr (p : Pre) (pt : Int) (name : String) : (p.unsetNatural pt name).1.expr = p.expr := rfl

theorem unsetNatural_changed (p : Pre) (pt : Int) (name : String) :
    (p.unsetNatural pt name).2 = true ↔ ∃ e ∈ p.atoms, e.1.on pt name ∧ e.2.natural := by
  unfold Pre.unsetNatural
  simp only [List.any_eq_true]
  constructor
  · rintro ⟨⟨b, s⟩, he, h⟩
    refine ⟨(b, s), he, ?_⟩
    unfold Atom.on Sat.natural
    cases s <;> simp_all [Sat.ok]
  · rintro ⟨⟨b, s⟩, he, h1, h2⟩
    refine ⟨(b, s), he, ?_⟩
    unfold Atom.on at h1
    unfold Sat.natural at h2
    rcases h2 with h2 | h2 <;> simp_all [Sat.ok]

/-! ### Flow-number sets -/

theorem mem_interF (a b : List Nat) (n : Nat) : n ∈ interF a b ↔ n ∈ a ∧ n ∈ b := by
  unfold interF; simp [List.mem_filter]

theorem mem_diffF (a b : List Nat) (n : Nat) : n ∈ diffF a b ↔ n ∈ a ∧ n ∉ b := by
  unfold diffF; simp [List.mem_filter]

/-- `match_flows`: the flows of the proxy that the removal concerns -- all of them for an empty argument -/
theorem mem_matchFlows (x : Proxy) (F : List Nat) (n : Nat) :
    n ∈ x.matchFlows F ↔ n ∈ x.flows ∧ (F = [] ∨ n ∈ F) := by
  unfold Proxy.matchFlows
  by_cases h : (F.isEmpty || x.flows.isEmpty) = true
  · rw [if_pos h]
    simp only [Bool.or_eq_true, List.isEmpty_iff] at h
    rcases h with h | h
    · simp [h]
    · simp [h]
  · rw [if_neg h]
    simp only [Bool.or_eq_true, List.isEmpty_iff, not_or] at h
    rw [mem_interF]
    simp [h.1]

end CylcModel.Sched3Rm
