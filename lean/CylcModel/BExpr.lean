/-
Monotone boolean expressions (`and` / `or` over atoms): the shape of cylc's completion
expressions, prerequisite expressions and graph trigger expressions.  Core Lean only.

* `eval`    - two-valued semantics under a total assignment;
* `evalSC`  - Python's evaluation under a *partial* environment: `a and b` / `a or b`
              short-circuit left to right, an unbound name that is reached is a `NameError`
              (`none`);
* `eval_mono` - expressions are monotone in the assignment;
* `evalSC_total` - on an environment that binds every variable, `evalSC` is `eval`.
-/
namespace CylcModel

inductive BExpr (α : Type) where
  | atom (a : α)
  | and (l r : BExpr α)
  | or (l r : BExpr α)
  deriving Repr, DecidableEq, Inhabited

namespace BExpr
variable {α : Type}

def eval (σ : α → Bool) : BExpr α → Bool
  | atom a => σ a
  | and l r => eval σ l && eval σ r
  | or l r => eval σ l || eval σ r

/-- variables in order of appearance (with repetitions) -/
def vars : BExpr α → List α
  | atom a => [a]
  | and l r => vars l ++ vars r
  | or l r => vars l ++ vars r

/-- number of leaves -/
def size : BExpr α → Nat
  | atom _ => 1
  | and l r => size l + size r
  | or l r => size l + size r

/-- Python evaluation of `and`/`or` over names looked up in a partial environment:
`none` = a `NameError` was raised (an unbound name was *reached*). -/
def evalSC (env : α → Option Bool) : BExpr α → Option Bool
  | atom a => env a
  | and l r =>
    match evalSC env l with
    | none => none
    | some false => some false
    | some true => evalSC env r
  | or l r =>
    match evalSC env l with
    | none => none
    | some true => some true
    | some false => evalSC env r

/-- pointwise order on assignments -/
def le (σ τ : α → Bool) : Prop := ∀ a, σ a = true → τ a = true

theorem eval_mono {σ τ : α → Bool} (h : le σ τ) (e : BExpr α) :
    eval σ e = true → eval τ e = true := by
  induction e with
  | atom a => exact h a
  | and l r ihl ihr =>
    simp only [eval, Bool.and_eq_true]
    exact fun ⟨a, b⟩ => ⟨ihl a, ihr b⟩
  | or l r ihl ihr =>
    simp only [eval, Bool.or_eq_true]
    exact fun h' => h'.elim (fun a => Or.inl (ihl a)) (fun b => Or.inr (ihr b))

/-- the value depends only on the variables that occur -/
theorem eval_congr {σ τ : α → Bool} (e : BExpr α) (h : ∀ a ∈ vars e, σ a = τ a) :
    eval σ e = eval τ e := by
  induction e with
  | atom a => exact h a (by simp [vars])
  | and l r ihl ihr =>
    simp only [eval]
    rw [ihl (fun a ha => h a (by simp [vars, ha])), ihr (fun a ha => h a (by simp [vars, ha]))]
  | or l r ihl ihr =>
    simp only [eval]
    rw [ihl (fun a ha => h a (by simp [vars, ha])), ihr (fun a ha => h a (by simp [vars, ha]))]

/-- when every variable is bound, Python's short-circuit evaluation is the two-valued semantics -/
theorem evalSC_total {env : α → Option Bool} {σ : α → Bool} (e : BExpr α)
    (h : ∀ a ∈ vars e, env a = some (σ a)) : evalSC env e = some (eval σ e) := by
  induction e with
  | atom a => exact h a (by simp [vars])
  | and l r ihl ihr =>
    have hl := ihl (fun a ha => h a (by simp [vars, ha]))
    have hr := ihr (fun a ha => h a (by simp [vars, ha]))
    simp only [evalSC, eval, hl]
    cases eval σ l <;> simp [hr]
  | or l r ihl ihr =>
    have hl := ihl (fun a ha => h a (by simp [vars, ha]))
    have hr := ihr (fun a ha => h a (by simp [vars, ha]))
    simp only [evalSC, eval, hl]
    cases eval σ l <;> simp [hr]

/-- an expression is true under the all-true assignment -/
theorem eval_top (e : BExpr α) : eval (fun _ => true) e = true := by
  induction e with
  | atom a => rfl
  | and l r ihl ihr => simp [eval, ihl, ihr]
  | or l r ihl ihr => simp [eval, ihl]

/-- and false under the all-false assignment -/
theorem eval_bot (e : BExpr α) : eval (fun _ => false) e = false := by
  induction e with
  | atom a => rfl
  | and l r ihl ihr => simp [eval, ihl]
  | or l r ihl ihr => simp [eval, ihl, ihr]

end BExpr
end CylcModel
