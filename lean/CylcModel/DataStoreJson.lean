/-
JSON codec for the DataStore model (C25 driver).

element  E : {"s": {path: text}, "r": {path: [text..]}, "m": {path: [[key, text]..]}}
store    S : {"edges": [[id, E]..], "families": .., "family_proxies": .., "jobs": .., "tasks": ..,
              "task_proxies": .., "workflow": E}
delta    D : {"key": "task_proxies" | .. | "workflow", "reloaded": bool, "added": [E..] | E, "updated": [E..] | E,
              "pruned": [id..] | bool, "checksum": n | null}
-/
import CylcModel.Util.Drv
import CylcModel.DataStore
open Lean CylcModel.Drv

namespace CylcModel.DataStore

def need {α} (o : Option α) (what : String) : Except String α :=
  match o with | some v => .ok v | none => .error s!"missing/invalid {what}"

def objPairs (j : Json) : List (String × Json) :=
  match j with
  | .obj kvs => (kvs.foldl (fun acc k v => (k, v) :: acc) []).reverse
  | _ => []

/-! sorting association lists by key (canonical form for comparison / rendering) -/

def insertByKey {β : Type} (p : String × β) : AL β → AL β
  | [] => [p]
  | q :: t => if p.1 ≤ q.1 then p :: q :: t else q :: insertByKey p t

def sortByKey {β : Type} (l : AL β) : AL β := l.foldr insertByKey []

def Elem.norm (e : Elem) : Elem :=
  { s := sortByKey e.s, r := sortByKey e.r, m := sortByKey (e.m.map fun p => (p.1, sortByKey p.2)) }

def normList (l : AL Elem) : AL Elem := sortByKey (l.map fun p => (p.1, p.2.norm))

/-- a store with all dictionaries sorted: equality of normal forms = equality as data -/
def Store.norm (s : Store) : Store :=
  { edges := normList s.edges, families := normList s.families, familyProxies := normList s.familyProxies,
    jobs := normList s.jobs, tasks := normList s.tasks, taskProxies := normList s.taskProxies,
    workflow := s.workflow.norm }

def parseElem (j : Json) : Except String Elem := do
  let sJ ← need (jField? j "s") "elem.s"
  let rJ ← need (jField? j "r") "elem.r"
  let mJ ← need (jField? j "m") "elem.m"
  let s ← (objPairs sJ).mapM fun (k, v) => do pure (k, ← need (jStr? v) "scalar text")
  let r ← (objPairs rJ).mapM fun (k, v) => do
    let items ← need (jArr? v) "repeated"
    pure (k, ← items.mapM fun x => need (jStr? x) "repeated text")
  let m ← (objPairs mJ).mapM fun (k, v) => do
    let items ← need (jArr? v) "map"
    let kvs ← items.mapM fun x => do
      match jArr? x with
      | some [a, b] => pure ((← need (jStr? a) "map key"), (← need (jStr? b) "map value"))
      | _ => .error "bad map entry"
    pure (k, kvs)
  return { s, r, m }

def parseElemList (j : Json) : Except String (AL Elem) := do
  let items ← need (jArr? j) "element list"
  items.mapM fun x => do
    match jArr? x with
    | some [a, b] => pure ((← need (jStr? a) "element id"), (← parseElem b))
    | _ => .error "bad element entry"

def parseStore (j : Json) : Except String Store := do
  return {
    edges := ← parseElemList (← need (jField? j "edges") "edges")
    families := ← parseElemList (← need (jField? j "families") "families")
    familyProxies := ← parseElemList (← need (jField? j "family_proxies") "family_proxies")
    jobs := ← parseElemList (← need (jField? j "jobs") "jobs")
    tasks := ← parseElemList (← need (jField? j "tasks") "tasks")
    taskProxies := ← parseElemList (← need (jField? j "task_proxies") "task_proxies")
    workflow := ← parseElem (← need (jField? j "workflow") "workflow") }

/-- a published per-type delta with its checksum -/
structure PubDelta where
  delta : AnyDelta
  checksum : Option Nat := none

def parseDelta (j : Json) : Except String PubDelta := do
  let key ← need (jStrField? j "key") "delta.key"
  let reloaded ← need (jBoolField? j "reloaded") "delta.reloaded"
  let checksum := (jOptField j "checksum").bind jNat?
  if key == "workflow" then
    let added ← parseElem (← need (jField? j "added") "added")
    let updated ← parseElem (← need (jField? j "updated") "updated")
    let pruned ← need (jBoolField? j "pruned") "pruned"
    return { delta := .wf { reloaded, added, updated, pruned }, checksum }
  else
    let k ← need (Key.ofName? key) s!"delta key {key}"
    let added ← (← need (jArrField? j "added") "added").mapM parseElem
    let updated ← (← need (jArrField? j "updated") "updated").mapM parseElem
    let pruned ← (← need (jArrField? j "pruned") "pruned").mapM fun x => need (jStr? x) "pruned id"
    return { delta := .el { key := k, reloaded, added, updated, pruned }, checksum }

/-! rendering -/

def Elem.toJson (e : Elem) : Json :=
  let e := e.norm
  Json.mkObj [
    ("s", Json.mkObj (e.s.map fun p => (p.1, Json.str p.2))),
    ("r", Json.mkObj (e.r.map fun p => (p.1, Json.arr (p.2.map Json.str).toArray))),
    ("m", Json.mkObj (e.m.map fun p =>
      (p.1, Json.arr (p.2.map fun q => Json.arr #[Json.str q.1, Json.str q.2]).toArray)))]

def listToJson (l : AL Elem) : Json :=
  Json.arr (l.map fun p => Json.arr #[Json.str p.1, p.2.toJson]).toArray

def Store.toJson (s : Store) : Json :=
  Json.mkObj [("edges", listToJson s.edges), ("families", listToJson s.families),
    ("family_proxies", listToJson s.familyProxies), ("jobs", listToJson s.jobs), ("tasks", listToJson s.tasks),
    ("task_proxies", listToJson s.taskProxies), ("workflow", s.workflow.toJson)]

def AnyDelta.toJson (d : AnyDelta) : Json :=
  match d with
  | .el d => Json.mkObj [("key", Json.str d.key.name), ("reloaded", Json.bool d.reloaded),
      ("added", Json.arr (d.added.map Elem.toJson).toArray), ("updated", Json.arr (d.updated.map Elem.toJson).toArray),
      ("pruned", Json.arr (d.pruned.map Json.str).toArray)]
  | .wf d => Json.mkObj [("key", Json.str "workflow"), ("reloaded", Json.bool d.reloaded),
      ("added", d.added.toJson), ("updated", d.updated.toJson), ("pruned", Json.bool d.pruned)]

/-- first difference between two stores as data (dictionary order ignored), for the judge's report -/
def elemDiff (a b : Elem) : Option String :=
  let a := a.norm
  let b := b.norm
  if a == b then none
  else
    let ks := (a.s.map (·.1)) ++ (b.s.map (·.1))
    match ks.find? (fun k => a.s.get? k != b.s.get? k) with
    | some k => some s!"field {k}: {(a.s.get? k).getD "<unset>"} vs {(b.s.get? k).getD "<unset>"}"
    | none =>
      let kr := (a.r.map (·.1)) ++ (b.r.map (·.1))
      match kr.find? (fun k => a.r.get? k != b.r.get? k) with
      | some k => some s!"repeated field {k}: {(a.r.get? k).getD []} vs {(b.r.get? k).getD []}"
      | none =>
        let km := (a.m.map (·.1)) ++ (b.m.map (·.1))
        match km.find? (fun k => a.m.get? k != b.m.get? k) with
        | some k => some s!"map field {k}"
        | none => some "?"

def listDiff (what : String) (a b : AL Elem) : Option String :=
  let ids := (a.map (·.1)) ++ (b.map (·.1))
  ids.findSome? fun i =>
    match a.get? i, b.get? i with
    | some x, some y => (elemDiff x y).map fun d => s!"{what} {i}: {d}"
    | some _, none => some s!"{what} {i}: only in the first"
    | none, some _ => some s!"{what} {i}: only in the second"
    | none, none => none

/-- `none` when the two stores hold the same data -/
def storeDiff (a b : Store) : Option String :=
  (Key.all.findSome? fun k => listDiff k.name (a.get k) (b.get k)).orElse fun _ =>
    (elemDiff a.workflow b.workflow).map fun d => s!"workflow: {d}"

end CylcModel.DataStore
