/-
Helper lemmas for C10: stale messages, backward messages, convergence of the per-task message
step function `Msg.step` (and their transport to `Sched.processMessage` through `pm_sim`).
-/
import CylcModel.SchedLemmasC09

namespace CylcModel.Msg
open CylcModel.Sched

/-! ### stale messages -/

/-- a received message carrying another submit number changes nothing (live proxies) -/
theorem stale_step (ot : Option TaskDefn) (fuel : Nat) (ps : PS) (sn : Nat) (msg : String)
    (htr : ps.tr = false) (hsn : sn ≠ ps.x.submitNum) : step ot fuel ps .received sn msg = (ps, false) := by
  apply step_dropped
  unfold dropped
  simp [htr, hsn]

/-! ### backward messages -/

/-- position of a status in the lifecycle of the property text -/
def phase : Status → Nat
  | .waiting => 0 | .expired => 0 | .preparing => 1 | .submitted => 2 | .submitFailed => 2 | .running => 3
  | .succeeded => 4 | .failed => 4

/-- position of the status a job message announces -/
def msgPhase? : String → Option Nat
  | "submitted" => some 2 | "started" => some 3 | "succeeded" => some 4 | "failed" => some 4
  | "submit-failed" => some 2 | _ => none

theorem msgPhase_cases {msg : String} {k : Nat} (h : msgPhase? msg = some k) :
    (msg = "submitted" ∧ k = 2) ∨ (msg = "started" ∧ k = 3) ∨ (msg = "succeeded" ∧ k = 4) ∨
    (msg = "failed" ∧ k = 4) ∨ (msg = "submit-failed" ∧ k = 2) := by
  unfold msgPhase? at h
  split at h <;> simp_all

/-- **a received message of the current job that announces a status behind the current one requests a
poll and leaves the status unchanged** -/
theorem backward_step (ot : Option TaskDefn) (hs : StdOut ot) (f : Nat) (q : PS) (sn : Nat) (msg : String) (k : Nat)
    (hd : dropped q .received sn = false) (hm : msgPhase? msg = some k) (hlt : k < phase q.x.status) :
    (step ot (f + 3) q .received sn msg).2 = true ∧ (step ot (f + 3) q .received sn msg).1.x.status = q.x.status := by
  rcases msgPhase_cases hm with ⟨rfl, rfl⟩ | ⟨rfl, rfl⟩ | ⟨rfl, rfl⟩ | ⟨rfl, rfl⟩ | ⟨rfl, rfl⟩
  · obtain ⟨_, hb, _⟩ := sum_submitted ot hs (f + 2) q .received sn hd
    cases hq : q.x.status <;> simp_all [phase, Status.rank]
  · obtain ⟨_, ⟨s2, hs2, hb⟩, _⟩ := sum_started ot hs (f + 1) q .received sn hd
    cases hq : q.x.status <;> simp_all [phase, Status.rank] <;> grind
  · cases hq : q.x.status <;> simp_all [phase]
  · cases hq : q.x.status <;> simp_all [phase]
  · obtain ⟨hb, _⟩ := sum_subfailed ot (f + 2) q .received sn hd
    cases hq : q.x.status <;> simp_all [phase, Status.rank]

end CylcModel.Msg

namespace CylcModel.Sched
open CylcModel.Msg

/-- `Sched.processMessage`: a received message of another submit number leaves the whole state unchanged -/
theorem pm_stale (g : Graph) (fuel : Nat) (s : State) (p : Int) (n : String) (x : Proxy) (sn : Nat) (msg : String)
    (h : s.get? p n = some x) (hsn : sn ≠ x.submitNum) :
    processMessage g fuel s p n .received sn msg = (s, false) := by
  cases fuel with
  | zero => unfold processMessage; rfl
  | succ fuel =>
    unfold processMessage
    have hl : lookup s p n = some (x, false) := by unfold lookup; rw [h]
    simp only [hl]
    simp [hsn]

end CylcModel.Sched

namespace CylcModel.Msg
open CylcModel.Sched

/-! ### convergence -/

/-- the delivery is a received message of another job (stale) -/
def Dlv.stale (m : Dlv) (ps : PS) : Prop := m.flag = .received ∧ m.sn ≠ ps.x.submitNum ∧ ps.tr = false

theorem dropped_of_not_waiting (q : PS) (flag : Flag) (sn : Nat) (h : q.x.status ≠ .waiting)
    (hf : flag ≠ .received) : dropped q flag sn = false := by
  unfold dropped
  cases flag <;> simp_all

/-- a message that is not a failure event never takes a job that exists back to waiting -/
theorem not_waiting_step (ot : Option TaskDefn) (hs : StdOut ot) (f : Nat) (q : PS) (flag : Flag) (sn : Nat) (msg : String)
    (hw : q.x.status ≠ .waiting) (h1 : msg ≠ "failed") (h2 : msg ≠ "submit-failed") :
    (step ot (f + 3) q flag sn msg).1.x.status ≠ .waiting := by
  by_cases hd : dropped q flag sn = true
  · rw [step_dropped ot _ q flag sn msg hd]; exact hw
  · simp only [Bool.not_eq_true] at hd
    rcases msg_cases msg with rfl | rfl | rfl | rfl | rfl | ⟨a1, a2, a3, a4, a5⟩
    · obtain ⟨_, ⟨s2, hs2, hb⟩, _⟩ := sum_started ot hs (f + 1) q flag sn hd
      grind
    · obtain ⟨_, _, hst, _⟩ := sum_succeeded ot hs f q flag sn hd
      rw [hst]; decide
    · exact absurd rfl h1
    · exact absurd rfl h2
    · obtain ⟨_, hb, _⟩ := sum_submitted ot hs (f + 2) q flag sn hd
      grind
    · obtain ⟨_, _, hst, _⟩ := sum_other ot (f + 2) q flag sn msg hd a1 a2 a3 a4 a5
      rw [hst]; exact hw

/-- **convergence, outcome succeeded**: after any sequence of deliveries none of which is a failure event,
the poll result `succeeded` ends in status succeeded with submitted, started (and succeeded) complete -/
theorem converge_succeeded (ot : Option TaskDefn) (hs : StdOut ot) (ps : PS) (ms : List Dlv) (sn : Nat)
    (hw : ps.x.status ≠ .waiting) (hms : ∀ m ∈ ms, m.text ≠ "failed" ∧ m.text ≠ "submit-failed") :
    let r := step ot 4 (deliver ot ps ms) .polled sn "succeeded"
    r.2 = false ∧ r.1.x.status = .succeeded ∧ "submitted" ∈ r.1.x.done ∧ "started" ∈ r.1.x.done ∧
    (hasOut ot "succeeded" = true → "succeeded" ∈ r.1.x.done) ∧
    (∀ a, a ∈ ps.x.done → a ∈ r.1.x.done) := by
  intro r
  have hinv : ∀ (ms : List Dlv) (q : PS), q.x.status ≠ .waiting → (∀ m ∈ ms, m.text ≠ "failed" ∧ m.text ≠ "submit-failed") →
      (deliver ot q ms).x.status ≠ .waiting ∧ Frame q (deliver ot q ms) := by
    intro ms; induction ms with
    | nil => intro q hq _; exact ⟨hq, Frame.refl _⟩
    | cons m ms ih =>
      intro q hq hm
      have h1 := hm m List.mem_cons_self
      have := ih (step ot 4 q m.flag m.sn m.text).1
        (not_waiting_step ot hs 1 q m.flag m.sn m.text hq h1.1 h1.2)
        (fun m' hm' => hm m' (List.mem_cons_of_mem _ hm'))
      exact ⟨this.1, Frame.trans (step_frame ot 4 q m.flag m.sn m.text) this.2⟩
  obtain ⟨hnw, hfr⟩ := hinv ms ps hw hms
  have hd : dropped (deliver ot ps ms) .polled sn = false := dropped_of_not_waiting _ _ _ hnw (by decide)
  obtain ⟨e, h2, hst, _⟩ := sum_succeeded ot hs 1 (deliver ot ps ms) .polled sn hd
  refine ⟨h2, hst, ?_, ?_, ?_, ?_⟩
  · exact (e "submitted").mpr (by simp)
  · exact (e "started").mpr (by simp)
  · intro ho; exact (e "succeeded").mpr (by simp [ho])
  · intro a ha; exact (e a).mpr (Or.inl (hfr.done a ha))
end CylcModel.Msg

namespace CylcModel.Msg
open CylcModel.Sched

/-- state of a proxy while the messages of a job that fails are delivered: removed from the pool, or the
failure not yet registered / registered as definitive (`execTry` unchanged), or registered as a retry -/
def FailInv (ot : Option TaskDefn) (ps q : PS) : Prop :=
  q.tr = true ∨
  (q.x.submitNum = ps.x.submitNum ∧
    ((q.x.status ≠ .waiting ∧ q.x.execTry = ps.x.execTry ∧
        (q.x.status = .failed → ¬ (ps.x.submitNum > 0 ∧ ps.x.execTry < execMax ot))) ∨
     (q.x.status = .waiting ∧ q.x.execTry = ps.x.execTry + 1 ∧ (ps.x.submitNum > 0 ∧ ps.x.execTry < execMax ot))))

theorem failInv_step (ot : Option TaskDefn) (hs : StdOut ot) (ps q : PS) (flag : Flag) (sn : Nat) (msg : String)
    (hq : FailInv ot ps q) (hm : msg ≠ "submit-failed") : FailInv ot ps (step ot 4 q flag sn msg).1 := by
  have hfr := step_frame ot 4 q flag sn msg
  rcases hq with htr | ⟨hsn, hA | hB⟩
  · exact Or.inl (hfr.tr htr)
  · by_cases htr : q.tr = true
    · exact Or.inl (hfr.tr htr)
    by_cases hd : dropped q flag sn = true
    · rw [step_dropped ot _ q flag sn msg hd]; exact Or.inr ⟨hsn, Or.inl hA⟩
    · simp only [Bool.not_eq_true] at hd
      right
      refine ⟨by rw [hfr.sn]; exact hsn, ?_⟩
      obtain ⟨hw, he, hf⟩ := hA
      rcases msg_cases msg with rfl | rfl | rfl | rfl | rfl | ⟨a1, a2, a3, a4, a5⟩
      · obtain ⟨_, ⟨s2, hs2, hb⟩, he2⟩ := sum_started ot hs 2 q flag sn hd
        left; grind
      · obtain ⟨_, _, hst, he2⟩ := sum_succeeded ot hs 1 q flag sn hd
        left; rw [hst, he2]; simp [he]
      · obtain ⟨s2, hs2, hb⟩ := sum_failed ot hs 1 q flag sn hd
        rcases hb with ⟨_, _, _, hst, he2, _⟩ | ⟨_, _, hre, hst, he2, _⟩ | ⟨_, _, hre, hst, he2, _⟩
        · left; grind
        · right; rw [hsn, he] at hre; exact ⟨hst, by rw [he2, he], hre⟩
        · left; rw [hsn, he] at hre; exact ⟨by rw [hst]; decide, by rw [he2, he], fun _ => hre⟩
      · exact absurd rfl hm
      · obtain ⟨_, hb, he2, _⟩ := sum_submitted ot hs 3 q flag sn hd
        left; grind
      · obtain ⟨_, _, hst, he2, _⟩ := sum_other ot 3 q flag sn msg hd a1 a2 a3 a4 a5
        left; rw [hst, he2]; exact ⟨hw, he, hf⟩
  · by_cases htr : q.tr = true
    · exact Or.inl (hfr.tr htr)
    have hd : dropped q flag sn = true := by
      unfold dropped
      obtain ⟨h1, h2, h3⟩ := hB
      simp only [Bool.not_eq_true] at htr
      have : q.x.submitNum > 0 := by rw [hsn]; exact h3.1
      simp [htr, h1, this, h2]
    rw [step_dropped ot _ q flag sn msg hd]; exact Or.inr ⟨hsn, Or.inr hB⟩

/-- **convergence, outcome failed**: whatever is delivered before (anything but a submission failure:
duplicates of `failed`, late `started`, stale messages, poll results), the poll result `failed` leaves the
task failed when no retry was left, or waiting with exactly one more execution try when one was — the
failure is registered exactly once (or the proxy has already left the pool, finished and complete) -/
theorem converge_failed (ot : Option TaskDefn) (hs : StdOut ot) (ps : PS) (ms : List Dlv) (sn : Nat)
    (hw : ps.x.status ≠ .waiting)
    (hf : ps.x.status = .failed → ¬ (ps.x.submitNum > 0 ∧ ps.x.execTry < execMax ot))
    (hms : ∀ m ∈ ms, m.text ≠ "submit-failed") :
    let r := (step ot 4 (deliver ot ps ms) .polled sn "failed").1
    r.tr = true ∨
    (r.x.status = .failed ∧ r.x.execTry = ps.x.execTry ∧ ¬ (ps.x.submitNum > 0 ∧ ps.x.execTry < execMax ot)) ∨
    (r.x.status = .waiting ∧ r.x.execTry = ps.x.execTry + 1 ∧ (ps.x.submitNum > 0 ∧ ps.x.execTry < execMax ot)) := by
  intro r
  have hinv : ∀ (ms : List Dlv) (q : PS), FailInv ot ps q → (∀ m ∈ ms, m.text ≠ "submit-failed") →
      FailInv ot ps (deliver ot q ms) := by
    intro ms; induction ms with
    | nil => intro q hq _; exact hq
    | cons m ms ih =>
      intro q hq hm
      exact ih _ (failInv_step ot hs ps q m.flag m.sn m.text hq (hm m List.mem_cons_self))
        (fun m' hm' => hm m' (List.mem_cons_of_mem _ hm'))
  have h0 : FailInv ot ps ps := Or.inr ⟨rfl, Or.inl ⟨hw, rfl, hf⟩⟩
  have hq := hinv ms ps h0 hms
  have hfr := step_frame ot 4 (deliver ot ps ms) .polled sn "failed"
  rcases hq with h1 | ⟨hsn, hA | hB⟩
  · exact Or.inl (hfr.tr h1)
  · obtain ⟨hw', he, hf'⟩ := hA
    have hd : dropped (deliver ot ps ms) .polled sn = false := dropped_of_not_waiting _ _ _ hw' (by decide)
    obtain ⟨s2, hs2, hb⟩ := sum_failed ot hs 1 (deliver ot ps ms) .polled sn hd
    rcases hb with ⟨_, hfl, _⟩ | ⟨_, _, hre, hst, he2, _⟩ | ⟨_, _, hre, hst, he2, _⟩
    · exact absurd hfl (by decide)
    · right; right; rw [hsn, he] at hre; exact ⟨hst, by rw [he2, he], hre⟩
    · right; left; rw [hsn, he] at hre; exact ⟨hst, by rw [he2, he], hre⟩
  · by_cases htr' : (deliver ot ps ms).tr = true
    · exact Or.inl (hfr.tr htr')
    have hd : dropped (deliver ot ps ms) .polled sn = true := by
      unfold dropped
      obtain ⟨h1, h2, h3⟩ := hB
      simp only [Bool.not_eq_true] at htr'
      have : (deliver ot ps ms).x.submitNum > 0 := by rw [hsn]; exact h3.1
      simp [htr', h1, this, h2]
    have : r = deliver ot ps ms := by
      show (step ot 4 (deliver ot ps ms) .polled sn "failed").1 = _
      rw [step_dropped ot _ _ _ _ _ hd]
    rw [this]
    right; right; exact hB
end CylcModel.Msg


namespace CylcModel.Msg
open CylcModel.Sched

/-- as `FailInv`, for a job whose submission failed (submission try counter) -/
def SubFailInv (ot : Option TaskDefn) (ps q : PS) : Prop :=
  q.tr = true ∨
  (q.x.submitNum = ps.x.submitNum ∧
    ((q.x.status ≠ .waiting ∧ q.x.subTry = ps.x.subTry ∧
        (q.x.status = .submitFailed → ¬ (ps.x.submitNum > 0 ∧ ps.x.subTry < subMax ot))) ∨
     (q.x.status = .waiting ∧ q.x.subTry = ps.x.subTry + 1 ∧ (ps.x.submitNum > 0 ∧ ps.x.subTry < subMax ot))))

theorem subFailInv_step (ot : Option TaskDefn) (hs : StdOut ot) (ps q : PS) (flag : Flag) (sn : Nat) (msg : String)
    (hq : SubFailInv ot ps q) (h1 : msg ≠ "failed") (h2 : msg ≠ "started") (h3 : msg ≠ "succeeded") :
    SubFailInv ot ps (step ot 4 q flag sn msg).1 := by
  have hfr := step_frame ot 4 q flag sn msg
  rcases hq with htr | ⟨hsn, hA | hB⟩
  · exact Or.inl (hfr.tr htr)
  · by_cases htr : q.tr = true
    · exact Or.inl (hfr.tr htr)
    by_cases hd : dropped q flag sn = true
    · rw [step_dropped ot _ q flag sn msg hd]; exact Or.inr ⟨hsn, Or.inl hA⟩
    · simp only [Bool.not_eq_true] at hd
      right
      refine ⟨by rw [hfr.sn]; exact hsn, ?_⟩
      obtain ⟨hw, he, hf⟩ := hA
      rcases msg_cases msg with rfl | rfl | rfl | rfl | rfl | ⟨a1, a2, a3, a4, a5⟩
      · exact absurd rfl h2
      · exact absurd rfl h3
      · exact absurd rfl h1
      · obtain ⟨hb, _⟩ := sum_subfailed ot 3 q flag sn hd
        rcases hb with ⟨_, _, _, hst, he2, _⟩ | ⟨_, _, hre, hst, he2, _⟩ | ⟨_, _, hre, hst, he2, _⟩
        · left; rw [hst, he2]; exact ⟨hw, he, hf⟩
        · right; rw [hsn, he] at hre; exact ⟨hst, by rw [he2, he], hre⟩
        · left; rw [hsn, he] at hre; exact ⟨by rw [hst]; decide, by rw [he2, he], fun _ => hre⟩
      · obtain ⟨_, hb, _, he2⟩ := sum_submitted ot hs 3 q flag sn hd
        left; grind
      · obtain ⟨_, _, hst, _, he2⟩ := sum_other ot 3 q flag sn msg hd a1 a2 a3 a4 a5
        left; rw [hst, he2]; exact ⟨hw, he, hf⟩
  · by_cases htr : q.tr = true
    · exact Or.inl (hfr.tr htr)
    have hd : dropped q flag sn = true := by
      unfold dropped
      obtain ⟨h1, h2, h3⟩ := hB
      simp only [Bool.not_eq_true] at htr
      have : q.x.submitNum > 0 := by rw [hsn]; exact h3.1
      simp [htr, h1, this, h2]
    rw [step_dropped ot _ q flag sn msg hd]; exact Or.inr ⟨hsn, Or.inr hB⟩

/-- **convergence, outcome submission failed**: duplicates of the submit result, stale messages and poll
results before it, the poll result `submit-failed` leaves the task submit-failed when no submission retry
was left, or waiting with exactly one more submission try when one was -/
theorem converge_subfailed (ot : Option TaskDefn) (hs : StdOut ot) (ps : PS) (ms : List Dlv) (sn : Nat)
    (hw : ps.x.status ≠ .waiting)
    (hf : ps.x.status = .submitFailed → ¬ (ps.x.submitNum > 0 ∧ ps.x.subTry < subMax ot))
    (hms : ∀ m ∈ ms, m.text ≠ "failed" ∧ m.text ≠ "started" ∧ m.text ≠ "succeeded") :
    let r := (step ot 4 (deliver ot ps ms) .polled sn "submit-failed").1
    r.tr = true ∨
    (r.x.status = .submitFailed ∧ r.x.subTry = ps.x.subTry ∧ ¬ (ps.x.submitNum > 0 ∧ ps.x.subTry < subMax ot)) ∨
    (r.x.status = .waiting ∧ r.x.subTry = ps.x.subTry + 1 ∧ (ps.x.submitNum > 0 ∧ ps.x.subTry < subMax ot)) := by
  intro r
  have hinv : ∀ (ms : List Dlv) (q : PS), SubFailInv ot ps q →
      (∀ m ∈ ms, m.text ≠ "failed" ∧ m.text ≠ "started" ∧ m.text ≠ "succeeded") →
      SubFailInv ot ps (deliver ot q ms) := by
    intro ms; induction ms with
    | nil => intro q hq _; exact hq
    | cons m ms ih =>
      intro q hq hm
      have h1 := hm m List.mem_cons_self
      exact ih _ (subFailInv_step ot hs ps q m.flag m.sn m.text hq h1.1 h1.2.1 h1.2.2)
        (fun m' hm' => hm m' (List.mem_cons_of_mem _ hm'))
  have h0 : SubFailInv ot ps ps := Or.inr ⟨rfl, Or.inl ⟨hw, rfl, hf⟩⟩
  have hq := hinv ms ps h0 hms
  have hfr := step_frame ot 4 (deliver ot ps ms) .polled sn "submit-failed"
  rcases hq with h1 | ⟨hsn, hA | hB⟩
  · exact Or.inl (hfr.tr h1)
  · obtain ⟨hw', he, hf'⟩ := hA
    have hd : dropped (deliver ot ps ms) .polled sn = false := dropped_of_not_waiting _ _ _ hw' (by decide)
    obtain ⟨hb, _⟩ := sum_subfailed ot 3 (deliver ot ps ms) .polled sn hd
    rcases hb with ⟨_, hfl, _⟩ | ⟨_, _, hre, hst, he2, _⟩ | ⟨_, _, hre, hst, he2, _⟩
    · exact absurd hfl (by decide)
    · right; right; rw [hsn, he] at hre; exact ⟨hst, by rw [he2, he], hre⟩
    · right; left; rw [hsn, he] at hre; exact ⟨hst, by rw [he2, he], hre⟩
  · by_cases htr' : (deliver ot ps ms).tr = true
    · exact Or.inl (hfr.tr htr')
    have hd : dropped (deliver ot ps ms) .polled sn = true := by
      unfold dropped
      obtain ⟨h1, h2, h3⟩ := hB
      simp only [Bool.not_eq_true] at htr'
      have : (deliver ot ps ms).x.submitNum > 0 := by rw [hsn]; exact h3.1
      simp [htr', h1, this, h2]
    have : r = deliver ot ps ms := by
      show (step ot 4 (deliver ot ps ms) .polled sn "submit-failed").1 = _
      rw [step_dropped ot _ _ _ _ _ hd]
    rw [this]
    right; right; exact hB
end CylcModel.Msg
