/-
Helper lemmas for C05 (`Queue` model).

Part A: membership — `_expand_families` and `_make_indep` put every task name into exactly the
        queue `Spec.expectedQueue` names (when "default" is iterated first).
Part B: `LimitedTaskQueue.release` — limit, held tasks, order.
Part C: the judge `Spec.judge` accepts every run of the model (refinement), for the `keep`
        policy on all histories, for both policies on histories in which no queued task is held.
-/
import CylcModel.Queue

namespace CylcModel.Queue

/-! ## Part A: membership -/

theorem mem_dedup (l : List Name) (a : Name) : a ∈ dedup l ↔ a ∈ l := by
  induction l with
  | nil => simp [dedup]
  | cons b l ih =>
    simp only [dedup]
    split
    · rename_i h
      have hb : b ∈ dedup l := by simpa using h
      constructor
      · intro ha; exact List.mem_cons_of_mem _ (ih.1 ha)
      · intro ha
        rcases List.mem_cons.1 ha with rfl | ha
        · exact hb
        · exact ih.2 ha
    · simp [ih]

theorem nodup_dedup (l : List Name) : (dedup l).Nodup := by
  induction l with
  | nil => simp [dedup]
  | cons b l ih =>
    simp only [dedup]
    split
    · exact ih
    · rename_i h
      have hb : b ∉ dedup l := by simpa using h
      exact List.nodup_cons.2 ⟨hb, ih⟩

theorem isFam_iff (desc : Desc) (n : Name) : isFam desc n = true ↔ ∃ e ∈ desc, e.1 = n := by
  simp [isFam, List.any_eq_true]

theorem mem_expandOne (all : List Name) (desc : Desc) (m n : Name) :
    n ∈ expandOne all desc m ↔
      n ∈ all ∧ (if isFam desc m then isFam desc n = false ∧ n ∈ descOf desc m else m = n) := by
  unfold expandOne
  by_cases hm : isFam desc m = true
  · simp only [hm, if_true, List.mem_filter, Bool.and_eq_true, Bool.not_eq_true', List.contains_iff_mem]
    constructor
    · rintro ⟨h1, h2, h3⟩; exact ⟨h3, h2, h1⟩
    · rintro ⟨h1, h2, h3⟩; exact ⟨h3, h2, h1⟩
  · have hm' : isFam desc m = false := by simpa using hm
    simp only [hm', Bool.false_eq_true, if_false]
    by_cases ha : all.contains m = true
    · simp only [ha, if_true, List.mem_singleton]
      have ha' : m ∈ all := by simpa using ha
      constructor
      · rintro rfl; exact ⟨ha', rfl⟩
      · rintro ⟨_, h⟩; exact h.symm
    · simp only [ha]
      have ha' : m ∉ all := by simpa using ha
      constructor
      · intro h; cases h
      · rintro ⟨h1, h2⟩; subst h2; exact absurd h1 ha'

theorem mem_expandMembers (all : List Name) (desc : Desc) (raw : List Name) (n : Name) :
    n ∈ expandMembers all desc raw ↔ ∃ m ∈ raw, n ∈ expandOne all desc m := by
  simp [expandMembers, mem_dedup, List.mem_flatMap]

theorem nodup_expandMembers (all : List Name) (desc : Desc) (raw : List Name) :
    (expandMembers all desc raw).Nodup := nodup_dedup _

/-- the judge's `lists` is membership in the expanded member set -/
theorem lists_iff (all : List Name) (desc : Desc) (q : QCfg) (n : Name) :
    Spec.lists all desc q n = true ↔ n ∈ expandMembers all desc q.members := by
  rw [mem_expandMembers]
  simp only [Spec.lists, Bool.and_eq_true, List.contains_iff_mem, List.any_eq_true]
  constructor
  · rintro ⟨hn, m, hm, hcond⟩
    refine ⟨m, hm, (mem_expandOne all desc m n).2 ⟨hn, ?_⟩⟩
    by_cases hf : isFam desc m = true
    · simp only [hf, if_true] at hcond ⊢
      simpa [Bool.and_eq_true] using hcond
    · simp only [hf] at hcond ⊢
      simpa using hcond
  · rintro ⟨m, hm, hmem⟩
    have := (mem_expandOne all desc m n).1 hmem
    refine ⟨this.1, m, hm, ?_⟩
    by_cases hf : isFam desc m = true
    · simp only [hf, if_true] at this ⊢
      simpa [Bool.and_eq_true] using this.2
    · simp only [hf] at this ⊢
      simpa using this.2

/-- `x` is a member of the queue named `qn` -/
def InQ (qs : List LQ) (qn x : Name) : Prop := ∃ q ∈ qs, q.name = qn ∧ x ∈ q.members

theorem inQ_rmMem (qs : List LQ) (qn' m qn x : Name) :
    InQ (rmMem qs qn' m) qn x ↔ InQ qs qn x ∧ ¬ (qn = qn' ∧ x = m) := by
  unfold InQ rmMem
  constructor
  · rintro ⟨q', hq', hname, hx⟩
    rcases List.mem_map.1 hq' with ⟨q, hq, rfl⟩
    by_cases hqn : (q.name == qn') = true
    · simp only [hqn, if_true] at hname hx
      have hx' := List.mem_filter.1 hx
      refine ⟨⟨q, hq, hname, hx'.1⟩, ?_⟩
      rintro ⟨_, rfl⟩
      simp at hx'
    · simp only [hqn] at hname hx
      refine ⟨⟨q, hq, hname, hx⟩, ?_⟩
      rintro ⟨rfl, _⟩
      subst hname
      simp at hqn
  · rintro ⟨⟨q, hq, hname, hx⟩, hne⟩
    refine ⟨_, List.mem_map.2 ⟨q, hq, rfl⟩, ?_⟩
    by_cases hqn : (q.name == qn') = true
    · simp only [hqn, if_true]
      refine ⟨hname, List.mem_filter.2 ⟨hx, ?_⟩⟩
      have : q.name = qn' := by simpa using hqn
      have hxm : x ≠ m := fun e => hne ⟨hname.symm.trans this, e⟩
      simpa using hxm
    · simp only [hqn]
      exact ⟨hname, hx⟩

theorem rmMem_names (qs : List LQ) (qn m : Name) : (rmMem qs qn m).map (·.name) = qs.map (·.name) := by
  unfold rmMem
  rw [List.map_map]
  apply List.map_congr_left
  intro q _
  simp only [Function.comp]
  split <;> rfl

theorem rmMem_limits (qs : List LQ) (qn m : Name) :
    (rmMem qs qn m).map (fun q => (q.name, q.limit, q.deque)) = qs.map (fun q => (q.name, q.limit, q.deque)) := by
  unfold rmMem
  rw [List.map_map]
  apply List.map_congr_left
  intro q _
  simp only [Function.comp]
  split <;> rfl

theorem seenGet_cons (s : Seen) (m qn x : Name) :
    seenGet ((m, qn) :: s) x = if m = x then some qn else seenGet s x := by
  unfold seenGet
  simp only [List.find?_cons]
  by_cases h : m = x
  · simp [h]
  · have : (m == x) = false := by simpa using h
    simp [this, h]

theorem inQ_indepMem (qn0 : Name) (qs : List LQ) (seen : Seen) (m qn x : Name) :
    InQ (indepMem qn0 (qs, seen) m).1 qn x ↔
      InQ qs qn x ∧ ¬ (x = m ∧ (qn = qDefault ∨ seenGet seen m = some qn)) := by
  unfold indepMem
  simp only
  cases hs : seenGet seen m with
  | none =>
    simp only [inQ_rmMem]
    constructor
    · rintro ⟨h1, h2⟩
      refine ⟨h1, ?_⟩
      rintro ⟨rfl, h3 | h3⟩
      · exact h2 ⟨h3, rfl⟩
      · cases h3
    · rintro ⟨h1, h2⟩
      exact ⟨h1, fun ⟨a, b⟩ => h2 ⟨b, Or.inl a⟩⟩
  | some oldq =>
    simp only [inQ_rmMem]
    constructor
    · rintro ⟨⟨h1, h2⟩, h3⟩
      refine ⟨h1, ?_⟩
      rintro ⟨rfl, h4 | h4⟩
      · exact h2 ⟨h4, rfl⟩
      · injection h4 with h4; exact h3 ⟨h4.symm, rfl⟩
    · rintro ⟨h1, h2⟩
      exact ⟨⟨h1, fun ⟨a, b⟩ => h2 ⟨b, Or.inl a⟩⟩, fun ⟨a, b⟩ => h2 ⟨b, Or.inr (by rw [a])⟩⟩

theorem indepMem_names (qn0 : Name) (st : List LQ × Seen) (m : Name) :
    (indepMem qn0 st m).1.map (fun q => (q.name, q.limit, q.deque)) = st.1.map (fun q => (q.name, q.limit, q.deque)) := by
  unfold indepMem
  simp only
  split <;> simp [rmMem_limits]

theorem seenGet_indepMem (qn0 : Name) (st : List LQ × Seen) (m x : Name) :
    seenGet (indepMem qn0 st m).2 x = if m = x then some qn0 else seenGet st.2 x := by
  unfold indepMem
  simp only [seenGet_cons]

/-- the inner loop of `_make_indep` over a duplicate-free member list -/
theorem fold_indepMem (qn0 : Name) (ms : List Name) (hnd : ms.Nodup) :
    ∀ (qs : List LQ) (seen : Seen),
      (∀ qn x, InQ (ms.foldl (indepMem qn0) (qs, seen)).1 qn x ↔
        InQ qs qn x ∧ ¬ (x ∈ ms ∧ (qn = qDefault ∨ seenGet seen x = some qn))) ∧
      (∀ x, seenGet (ms.foldl (indepMem qn0) (qs, seen)).2 x = if x ∈ ms then some qn0 else seenGet seen x) ∧
      ((ms.foldl (indepMem qn0) (qs, seen)).1.map (fun q => (q.name, q.limit, q.deque))
        = qs.map (fun q => (q.name, q.limit, q.deque))) := by
  induction ms with
  | nil => intro qs seen; simp
  | cons m ms ih =>
    intro qs seen
    have hm : m ∉ ms := (List.nodup_cons.1 hnd).1
    have hnd' : ms.Nodup := (List.nodup_cons.1 hnd).2
    simp only [List.foldl_cons]
    have hstep : indepMem qn0 (qs, seen) m = ((indepMem qn0 (qs, seen) m).1, (indepMem qn0 (qs, seen) m).2) := rfl
    rw [hstep]
    have ⟨ih1, ih2, ih3⟩ := ih hnd' (indepMem qn0 (qs, seen) m).1 (indepMem qn0 (qs, seen) m).2
    refine ⟨?_, ?_, ?_⟩
    · intro qn x
      rw [ih1, inQ_indepMem, seenGet_indepMem]
      simp only [List.mem_cons]
      constructor
      · rintro ⟨⟨h1, h2⟩, h3⟩
        refine ⟨h1, ?_⟩
        rintro ⟨rfl | hx, h4⟩
        · exact h2 ⟨rfl, h4⟩
        · apply h3
          refine ⟨hx, ?_⟩
          have : m ≠ x := fun e => hm (e ▸ hx)
          simpa [this] using h4
      · rintro ⟨h1, h2⟩
        refine ⟨⟨h1, fun ⟨a, b⟩ => h2 ⟨Or.inl a, a ▸ b⟩⟩, ?_⟩
        rintro ⟨hx, h4⟩
        have : m ≠ x := fun e => hm (e ▸ hx)
        apply h2
        refine ⟨Or.inr hx, ?_⟩
        simpa [this] using h4
    · intro x
      rw [ih2, seenGet_indepMem]
      simp only [List.mem_cons]
      by_cases hx : x ∈ ms
      · simp [hx]
      · by_cases hxm : m = x
        · simp [hxm]
        · have : ¬ x = m := fun e => hxm e.symm
          simp [hx, hxm, this]
    · rw [ih3, indepMem_names]

/-- name of the last queue of `pre` that lists `x` -/
def lastND (pre : List QCfg) (x : Name) : Option Name :=
  ((pre.filter fun q => q.members.contains x).getLast?).map (·.name)

theorem lastND_concat (pre : List QCfg) (q : QCfg) (x : Name) :
    lastND (pre ++ [q]) x = if x ∈ q.members then some q.name else lastND pre x := by
  unfold lastND
  rw [List.filter_append]
  by_cases hx : x ∈ q.members
  · have : q.members.contains x = true := by simpa using hx
    simp [hx, List.getLast?_append]
  · have : q.members.contains x = false := by simpa using hx
    simp [hx]

theorem lastND_mem (pre : List QCfg) (x qn : Name) (h : lastND pre x = some qn) :
    ∃ q ∈ pre, q.name = qn ∧ x ∈ q.members := by
  unfold lastND at h
  cases hl : (pre.filter fun q => q.members.contains x).getLast? with
  | none => rw [hl] at h; cases h
  | some q =>
    rw [hl] at h
    have h : q.name = qn := by simpa using h
    have hq := List.mem_of_getLast? hl
    have := List.mem_filter.1 hq
    exact ⟨q, this.1, h, by simpa using this.2⟩

theorem lastND_none (pre : List QCfg) (x : Name) :
    lastND pre x = none ↔ ∀ q ∈ pre, x ∉ q.members := by
  unfold lastND
  simp only [Option.map_eq_none_iff, List.getLast?_eq_none_iff, List.filter_eq_nil_iff]
  constructor
  · intro h q hq hx; exact h q hq (by simpa using hx)
  · intro h q hq hx; exact h q hq (by simpa using hx)

def toLQ (q : QCfg) : LQ := { name := q.name, limit := q.limit, members := q.members, deque := [] }

/-- invariant of the outer loop of `_make_indep` once "default" (`d`) has been iterated -/
structure IndepInv (d : QCfg) (pre : List QCfg) (qs : List LQ) (seen : Seen) : Prop where
  seen_eq : ∀ x, seenGet seen x = lastND pre x
  nondefault : ∀ qn x, qn ≠ qDefault → (InQ qs qn x ↔ lastND pre x = some qn)
  dflt : ∀ x, InQ qs qDefault x ↔ x ∈ d.members ∧ lastND pre x = none
  shape : qs.map (fun q => (q.name, q.limit, q.deque)) = (d :: pre).map (fun q => (q.name, q.limit, ([] : List Nat)))

theorem inQ_append_single (qs : List LQ) (q : LQ) (qn x : Name) :
    InQ (qs ++ [q]) qn x ↔ InQ qs qn x ∨ (q.name = qn ∧ x ∈ q.members) := by
  unfold InQ
  constructor
  · rintro ⟨q', hq', h1, h2⟩
    rcases List.mem_append.1 hq' with hq' | hq'
    · exact Or.inl ⟨q', hq', h1, h2⟩
    · have : q' = q := by simpa using hq'
      subst this
      exact Or.inr ⟨h1, h2⟩
  · rintro (⟨q', hq', h1, h2⟩ | ⟨h1, h2⟩)
    · exact ⟨q', List.mem_append_left _ hq', h1, h2⟩
    · exact ⟨q, by simp, h1, h2⟩

theorem indepInv_step (d : QCfg) (pre : List QCfg) (qs : List LQ) (seen : Seen) (q : QCfg)
    (hq : q.name ≠ qDefault) (hfresh : q.name ∉ pre.map (·.name)) (hnd : q.members.Nodup)
    (h : IndepInv d pre qs seen) :
    IndepInv d (pre ++ [q]) (indepQueue (qs, seen) q).1 (indepQueue (qs, seen) q).2 := by
  have hne : (q.name == qDefault) = false := by simpa using hq
  unfold indepQueue
  simp only [hne, Bool.false_eq_true, if_false]
  have ⟨f1, f2, f3⟩ := fold_indepMem q.name q.members hnd
    (qs ++ [{ name := q.name, limit := q.limit, members := q.members, deque := [] }]) seen
  have notLast : ∀ x, lastND pre x ≠ some q.name := by
    intro x hx
    rcases lastND_mem pre x q.name hx with ⟨q', hq', hn, _⟩
    exact hfresh (List.mem_map.2 ⟨q', hq', hn⟩)
  constructor
  · intro x
    rw [f2, lastND_concat, h.seen_eq]
  · intro qn x hqn
    rw [f1, inQ_append_single, lastND_concat, h.nondefault qn x hqn, h.seen_eq]
    by_cases hx : x ∈ q.members
    · simp only [hx, if_true, true_and]
      constructor
      · rintro ⟨h1 | ⟨h1, _⟩, h2⟩
        · exact absurd (Or.inr h1) h2
        · simp [h1]
      · intro h1
        injection h1 with h1
        refine ⟨Or.inr ⟨h1, trivial⟩, ?_⟩
        rintro (h2 | h2)
        · exact hqn h2
        · exact notLast x (h1 ▸ h2)
    · simp [hx]
  · intro x
    rw [f1, inQ_append_single, lastND_concat, h.dflt x]
    by_cases hx : x ∈ q.members
    · simp [hx]
    · simp only [hx, if_false, false_and, not_false_eq_true, and_true]
      constructor
      · rintro (h1 | ⟨h1, _⟩)
        · exact h1
        · exact absurd h1 hq
      · intro h1; exact Or.inl h1
  · rw [f3]
    simp [h.shape]

theorem indepInv_fold (d : QCfg) :
    ∀ (rem pre : List QCfg) (qs : List LQ) (seen : Seen),
      (∀ q ∈ rem, q.name ≠ qDefault) → ((pre ++ rem).map (·.name)).Nodup → (∀ q ∈ rem, q.members.Nodup) →
      IndepInv d pre qs seen →
      IndepInv d (pre ++ rem) (rem.foldl indepQueue (qs, seen)).1 (rem.foldl indepQueue (qs, seen)).2 := by
  intro rem
  induction rem with
  | nil => intro pre qs seen _ _ _ h; simpa using h
  | cons q rem ih =>
    intro pre qs seen hnd hnames hmem h
    simp only [List.foldl_cons]
    have hq : q.name ≠ qDefault := hnd q (by simp)
    have hfresh : q.name ∉ pre.map (·.name) := by
      intro hc
      rw [List.map_append, List.nodup_append] at hnames
      exact hnames.2.2 _ hc _ (by simp) rfl
    have hstep := indepInv_step d pre qs seen q hq hfresh (hmem q (by simp)) h
    have := ih (pre ++ [q]) (indepQueue (qs, seen) q).1 (indepQueue (qs, seen) q).2
      (fun q' hq' => hnd q' (by simp [hq'])) (by simpa using hnames)
      (fun q' hq' => hmem q' (by simp [hq'])) hstep
    simpa using this

/-- `_make_indep` on a config whose first entry is "default" -/
theorem makeIndep_spec (d : QCfg) (rest : List QCfg) (hd : d.name = qDefault)
    (hrest : ∀ q ∈ rest, q.name ≠ qDefault) (hnames : (rest.map (·.name)).Nodup)
    (hmem : ∀ q ∈ rest, q.members.Nodup) :
    IndepInv d rest (makeIndep (d :: rest)) (rest.foldl indepQueue ([toLQ d], [])).2 := by
  unfold makeIndep
  simp only [List.foldl_cons]
  have h0 : indepQueue ([], []) d = ([toLQ d], []) := by
    unfold indepQueue
    simp [hd, toLQ]
  rw [h0]
  have base : IndepInv d [] [toLQ d] [] := by
    constructor
    · intro x; simp [seenGet, lastND]
    · intro qn x hqn
      simp only [lastND, List.filter_nil, List.getLast?_nil, Option.map_none, reduceCtorEq, iff_false]
      rintro ⟨q, hq, h1, _⟩
      have : q = toLQ d := by simpa using hq
      subst this
      exact hqn (h1 ▸ hd)
    · intro x
      simp only [lastND, List.filter_nil, List.getLast?_nil, Option.map_none, and_true]
      constructor
      · rintro ⟨q, hq, _, h2⟩
        have : q = toLQ d := by simpa using hq
        subst this
        exact h2
      · intro h; exact ⟨toLQ d, by simp, hd, h⟩
    · simp [toLQ]
  have := indepInv_fold d rest [] [toLQ d] [] hrest (by simpa using hnames) hmem base
  simpa using this


/-! ### from `_make_indep` to `mk` and the judge's `expectedQueue` -/

theorem eq_of_name_eq {qs : List LQ} (hnd : (qs.map (·.name)).Nodup) {q q' : LQ}
    (hq : q ∈ qs) (hq' : q' ∈ qs) (h : q.name = q'.name) : q = q' := by
  induction qs with
  | nil => cases hq
  | cons a l ih =>
    simp only [List.map_cons, List.nodup_cons] at hnd
    rcases List.mem_cons.1 hq with h1 | h1
    · rcases List.mem_cons.1 hq' with h2 | h2
      · rw [h1, h2]
      · subst h1
        exact absurd (List.mem_map.2 ⟨q', h2, h.symm⟩) hnd.1
    · rcases List.mem_cons.1 hq' with h2 | h2
      · subst h2
        exact absurd (List.mem_map.2 ⟨q, h1, h⟩) hnd.1
      · exact ih hnd.2 h1 h2

theorem inQ_iff_of_nodup {qs : List LQ} (hnd : (qs.map (·.name)).Nodup) {q : LQ} (hq : q ∈ qs) (x : Name) :
    InQ qs q.name x ↔ x ∈ q.members := by
  constructor
  · rintro ⟨q', hq', h1, h2⟩
    have := eq_of_name_eq hnd hq' hq h1
    subst this
    exact h2
  · intro h; exact ⟨q, hq, rfl, h⟩

/-- every queue's member list stays duplicate-free through `_make_indep` -/
def AllNodup (qs : List LQ) : Prop := ∀ q ∈ qs, q.members.Nodup

theorem allNodup_rmMem {qs : List LQ} (h : AllNodup qs) (qn m : Name) : AllNodup (rmMem qs qn m) := by
  intro q' hq'
  unfold rmMem at hq'
  rcases List.mem_map.1 hq' with ⟨q, hq, rfl⟩
  split
  · exact List.Nodup.sublist List.filter_sublist (h q hq)
  · exact h q hq

theorem allNodup_indepMem {st : List LQ × Seen} (h : AllNodup st.1) (qn m : Name) :
    AllNodup (indepMem qn st m).1 := by
  unfold indepMem
  simp only
  split
  · exact allNodup_rmMem (allNodup_rmMem h _ _) _ _
  · exact allNodup_rmMem h _ _

theorem allNodup_foldMem (qn : Name) (ms : List Name) :
    ∀ st : List LQ × Seen, AllNodup st.1 → AllNodup (ms.foldl (indepMem qn) st).1 := by
  induction ms with
  | nil => intro st h; exact h
  | cons m ms ih => intro st h; simp only [List.foldl_cons]; exact ih _ (allNodup_indepMem h qn m)

theorem allNodup_indepQueue {st : List LQ × Seen} (h : AllNodup st.1) (q : QCfg) (hq : q.members.Nodup) :
    AllNodup (indepQueue st q).1 := by
  have h1 : AllNodup (st.1 ++ [{ name := q.name, limit := q.limit, members := q.members, deque := [] }]) := by
    intro q' hq'
    rcases List.mem_append.1 hq' with hq' | hq'
    · exact h q' hq'
    · have := List.mem_singleton.1 hq'
      subst this
      exact hq
  unfold indepQueue
  simp only
  split
  · exact h1
  · exact allNodup_foldMem q.name q.members (_, st.2) h1

theorem allNodup_makeIndep (cfg : List QCfg) (h : ∀ q ∈ cfg, q.members.Nodup) : AllNodup (makeIndep cfg) := by
  unfold makeIndep
  have : ∀ (cfg : List QCfg) (st : List LQ × Seen), (∀ q ∈ cfg, q.members.Nodup) → AllNodup st.1 →
      AllNodup (cfg.foldl indepQueue st).1 := by
    intro cfg
    induction cfg with
    | nil => intro st _ h; exact h
    | cons q cfg ih =>
      intro st hq h
      simp only [List.foldl_cons]
      exact ih _ (fun q' hq' => hq q' (by simp [hq'])) (allNodup_indepQueue h q (hq q (by simp)))
  exact this cfg ([], []) h (by intro q hq; cases hq)

/-- Configurations the component is specified for: "default" is iterated first (parsec always
yields it first), queue names are distinct (dict keys), task names are not family names. -/
structure WfCfg (cfg : List QCfg) (all : List Name) (desc : Desc) : Prop where
  head : (cfg.head?.map (·.name)) = some qDefault
  names : (cfg.map (·.name)).Nodup
  tasks : ∀ n ∈ all, isFam desc n = false

theorem expandMembers_all (all : List Name) (desc : Desc) (htasks : ∀ n ∈ all, isFam desc n = false) (x : Name) :
    x ∈ expandMembers all desc all ↔ x ∈ all := by
  rw [mem_expandMembers]
  constructor
  · rintro ⟨m, _, hx⟩
    exact ((mem_expandOne all desc m x).1 hx).1
  · intro hx
    refine ⟨x, hx, (mem_expandOne all desc x x).2 ⟨hx, ?_⟩⟩
    simp [htasks x hx]

/-- the expanded configuration handed to `_make_indep` -/
def expandCfg (all : List Name) (desc : Desc) (q : QCfg) : QCfg :=
  { q with members := expandMembers all desc q.members }

theorem lastND_expand (all : List Name) (desc : Desc) (rest : List QCfg) (x : Name) :
    lastND (rest.map (expandCfg all desc)) x
      = ((rest.filter fun q => Spec.lists all desc q x).getLast?).map (·.name) := by
  unfold lastND
  rw [List.filter_map, List.getLast?_map, Option.map_map]
  have : (rest.filter ((fun q : QCfg => q.members.contains x) ∘ expandCfg all desc))
      = rest.filter fun q => Spec.lists all desc q x := by
    apply List.filter_congr
    intro q _
    simp only [Function.comp, expandCfg]
    rw [Bool.eq_iff_iff, lists_iff]
    simp
  rw [this]
  rfl

theorem expectedQueue_cons (d : QCfg) (rest : List QCfg) (all : List Name) (desc : Desc) (x : Name)
    (hd : d.name = qDefault) (hrest : ∀ q ∈ rest, q.name ≠ qDefault) :
    Spec.expectedQueue (d :: rest) all desc x
      = (lastND (rest.map (expandCfg all desc)) x).getD qDefault := by
  unfold Spec.expectedQueue
  rw [lastND_expand]
  have h1 : (List.filter (fun q => q.name != qDefault && Spec.lists all desc q x) (d :: rest))
      = rest.filter fun q => Spec.lists all desc q x := by
    rw [List.filter_cons]
    have : (d.name != qDefault && Spec.lists all desc d x) = false := by simp [hd]
    simp only [this, Bool.false_eq_true, if_false]
    apply List.filter_congr
    intro q hq
    have : (q.name != qDefault) = true := by simpa using hrest q hq
    simp [this]
  rw [h1]
  cases (rest.filter fun q => Spec.lists all desc q x).getLast? <;> rfl

/-- **what `IndepQueueManager.__init__` builds** on a well-formed configuration: the queues of the
configuration in order, with their limits and empty deques, duplicate-free member sets, and
`x` is a member of a queue iff `x` is a task name and the queue is `expectedQueue x`. -/
theorem mk_spec (cfg : List QCfg) (all : List Name) (desc : Desc) (qs : List LQ)
    (wf : WfCfg cfg all desc) (hmk : mk cfg all desc = some qs) :
    qs.map (fun q => (q.name, q.limit, q.deque)) = cfg.map (fun q => (q.name, q.limit, ([] : List Nat))) ∧
    AllNodup qs ∧
    ∀ q ∈ qs, ∀ x, x ∈ q.members ↔ (x ∈ all ∧ q.name = Spec.expectedQueue cfg all desc x) := by
  cases cfg with
  | nil => exact absurd wf.head (by simp)
  | cons d rest =>
    have hd : d.name = qDefault := by simpa using wf.head
    have hnames := wf.names
    simp only [List.map_cons, List.nodup_cons] at hnames
    have hrest : ∀ q ∈ rest, q.name ≠ qDefault := by
      intro q hq e
      exact hnames.1 (List.mem_map.2 ⟨q, hq, e.trans hd.symm⟩)
    -- unfold mk
    unfold mk at hmk
    have hany : (d :: rest).any (·.name == qDefault) = true := by simp [hd]
    simp only [hany, if_true] at hmk
    injection hmk with hmk
    -- the expanded config
    have hcfg1 : ((d :: rest).map fun q => if q.name == qDefault then { q with members := all } else q)
        = { d with members := all } :: rest := by
      simp only [List.map_cons, hd, beq_self_eq_true, if_true]
      congr 1
      have : ∀ l : List QCfg, (∀ q ∈ l, q.name ≠ qDefault) →
          l.map (fun q => if q.name == qDefault then { q with members := all } else q) = l := by
        intro l hl
        induction l with
        | nil => rfl
        | cons a l ih =>
          have ha : (a.name == qDefault) = false := by simpa using hl a (by simp)
          simp only [List.map_cons, ha, Bool.false_eq_true, if_false]
          rw [ih (fun q hq => hl q (by simp [hq]))]
      exact this rest hrest
    rw [hcfg1] at hmk
    simp only [List.map_cons] at hmk
    let dE : QCfg := { d with members := expandMembers all desc all }
    let restE := rest.map (expandCfg all desc)
    have hmk' : qs = makeIndep (dE :: restE) := by
      rw [← hmk]
      rfl
    have hrestE : ∀ q ∈ restE, q.name ≠ qDefault := by
      intro q hq
      rcases List.mem_map.1 hq with ⟨q0, hq0, rfl⟩
      exact hrest q0 hq0
    have hnamesE : (restE.map (·.name)).Nodup := by
      have : restE.map (·.name) = rest.map (·.name) := by
        simp [restE, List.map_map, Function.comp, expandCfg]
      rw [this]; exact hnames.2
    have hmemE : ∀ q ∈ restE, q.members.Nodup := by
      intro q hq
      rcases List.mem_map.1 hq with ⟨q0, _, rfl⟩
      exact nodup_expandMembers _ _ _
    have inv := makeIndep_spec dE restE hd hrestE hnamesE hmemE
    rw [← hmk'] at inv
    have shape : qs.map (fun q => (q.name, q.limit, q.deque))
        = (d :: rest).map (fun q => (q.name, q.limit, ([] : List Nat))) := by
      rw [inv.shape]
      simp [dE, restE, List.map_map, Function.comp, expandCfg]
    have qnames : qs.map (·.name) = (d :: rest).map (·.name) := by
      have := congrArg (List.map (fun t : Name × Nat × List Nat => t.1)) shape
      simpa [List.map_map, Function.comp_def] using this
    have qnodup : (qs.map (·.name)).Nodup := by rw [qnames]; exact wf.names
    have hall : AllNodup qs := by
      rw [hmk']
      apply allNodup_makeIndep
      intro q hq
      rcases List.mem_cons.1 hq with rfl | hq
      · exact nodup_expandMembers _ _ _
      · exact hmemE q hq
    refine ⟨shape, hall, ?_⟩
    intro q hq x
    rw [← inQ_iff_of_nodup qnodup hq x, expectedQueue_cons d rest all desc x hd hrest]
    by_cases hqd : q.name = qDefault
    · rw [hqd, inv.dflt x]
      have hxall : x ∈ dE.members ↔ x ∈ all := expandMembers_all all desc wf.tasks x
      rw [hxall]
      constructor
      · rintro ⟨h1, h2⟩
        exact ⟨h1, by rw [h2]; rfl⟩
      · rintro ⟨h1, h2⟩
        refine ⟨h1, ?_⟩
        cases hl : lastND restE x with
        | none => rfl
        | some qn =>
          rw [hl] at h2
          simp only [Option.getD_some] at h2
          rcases lastND_mem restE x qn hl with ⟨q', hq', hn, _⟩
          exact absurd (hn.trans h2.symm) (hrestE q' hq')
    · rw [inv.nondefault q.name x hqd]
      constructor
      · intro h
        rcases lastND_mem restE x q.name h with ⟨q', hq', _, hx⟩
        rcases List.mem_map.1 hq' with ⟨q0, _, rfl⟩
        have hxall : x ∈ all := by
          rcases (mem_expandMembers all desc q0.members x).1 hx with ⟨m, _, hm⟩
          exact ((mem_expandOne all desc m x).1 hm).1
        exact ⟨hxall, by rw [h]; rfl⟩
      · rintro ⟨_, h2⟩
        cases hl : lastND restE x with
        | none => rw [hl] at h2; exact absurd h2 hqd
        | some qn => rw [hl] at h2; simp only [Option.getD_some] at h2; rw [h2]

/-! ## Part B: `LimitedTaskQueue.release` -/

theorem aGet_aIncr (a : Active) (n m : Name) :
    aGet (aIncr a n) m = if n = m then aGet a n + 1 else aGet a m := by
  unfold aIncr
  by_cases h : n = m
  · subst h; simp [aGet]
  · have : (n == m) = false := by simpa using h
    simp only [h, if_false]
    conv => lhs; unfold aGet
    simp only [List.find?_cons, this]
    rfl

theorem nActive_congr (a a' : Active) (ms : List Name) (h : ∀ m ∈ ms, aGet a m = aGet a' m) :
    nActive a ms = nActive a' ms := by
  unfold nActive
  congr 1
  exact List.map_congr_left h

theorem releaseLoop_split (L : Nat) (isHeld : Nat → Bool) (nameOf : Nat → Name) :
    ∀ (dq : List Nat) (n : Nat) (a : Active), ∃ P S, dq = P ++ S ∧
      (releaseLoop L isHeld nameOf dq n a).released = P.filter (fun t => !isHeld t) ∧
      (releaseLoop L isHeld nameOf dq n a).held = P.filter isHeld ∧
      (releaseLoop L isHeld nameOf dq n a).rest = S := by
  intro dq
  induction dq with
  | nil => intro n a; exact ⟨[], [], rfl, rfl, rfl, rfl⟩
  | cons t ts ih =>
    intro n a
    simp only [releaseLoop]
    split
    · split
      · rename_i hh
        rcases ih n a with ⟨P, S, h1, h2, h3, h4⟩
        refine ⟨t :: P, S, by rw [h1]; rfl, ?_, ?_, h4⟩
        · simp [List.filter_cons, hh, h2]
        · simp [List.filter_cons, hh, h3]
      · rename_i hh
        rcases ih (n + 1) (aIncr a (nameOf t)) with ⟨P, S, h1, h2, h3, h4⟩
        refine ⟨t :: P, S, by rw [h1]; rfl, ?_, ?_, h4⟩
        · simp [List.filter_cons, hh, h2]
        · simp [List.filter_cons, hh, h3]
    · exact ⟨[], t :: ts, rfl, rfl, rfl, rfl⟩

theorem releaseLoop_limit (L : Nat) (hL : L ≠ 0) (isHeld : Nat → Bool) (nameOf : Nat → Name) :
    ∀ (dq : List Nat) (n : Nat) (a : Active),
      n + (releaseLoop L isHeld nameOf dq n a).released.length ≤ max L n := by
  intro dq
  induction dq with
  | nil => intro n a; simp [releaseLoop]; omega
  | cons t ts ih =>
    intro n a
    simp only [releaseLoop]
    split
    · rename_i hc
      have hn : n < L := by
        simp only [Bool.or_eq_true, beq_iff_eq, decide_eq_true_eq] at hc
        rcases hc with hc | hc
        · exact absurd hc hL
        · exact hc
      split
      · exact ih n a
      · have := ih (n + 1) (aIncr a (nameOf t))
        simp only [List.length_cons]
        omega
    · simp; omega

/-- the counter handed in only travels through the loop: what is released does not depend on it -/
theorem releaseLoop_active_irrel (L : Nat) (isHeld : Nat → Bool) (nameOf : Nat → Name) :
    ∀ (dq : List Nat) (n : Nat) (a a' : Active),
      (releaseLoop L isHeld nameOf dq n a).released = (releaseLoop L isHeld nameOf dq n a').released ∧
      (releaseLoop L isHeld nameOf dq n a).held = (releaseLoop L isHeld nameOf dq n a').held ∧
      (releaseLoop L isHeld nameOf dq n a).rest = (releaseLoop L isHeld nameOf dq n a').rest := by
  intro dq
  induction dq with
  | nil => intro n a a'; simp [releaseLoop]
  | cons t ts ih =>
    intro n a a'
    simp only [releaseLoop]
    split
    · split
      · have := ih n a a'
        exact ⟨this.1, by simp [this.2.1], this.2.2⟩
      · have := ih (n + 1) (aIncr a (nameOf t)) (aIncr a' (nameOf t))
        exact ⟨by simp [this.1], this.2.1, this.2.2⟩
    · simp

/-- the counter after the loop differs from the one before only at names of tasks in the deque -/
theorem releaseLoop_active (L : Nat) (isHeld : Nat → Bool) (nameOf : Nat → Name) (m : Name) :
    ∀ (dq : List Nat) (n : Nat) (a : Active), (∀ t ∈ dq, nameOf t ≠ m) →
      aGet (releaseLoop L isHeld nameOf dq n a).active m = aGet a m := by
  intro dq
  induction dq with
  | nil => intro n a _; rfl
  | cons t ts ih =>
    intro n a h
    simp only [releaseLoop]
    have ht : nameOf t ≠ m := h t (by simp)
    have hts : ∀ t ∈ ts, nameOf t ≠ m := fun t' h' => h t' (by simp [h'])
    split
    · split
      · exact ih n a hts
      · have := ih (n + 1) (aIncr a (nameOf t)) hts
        simp only at this ⊢
        rw [this, aGet_aIncr]
        simp [ht]
    · rfl

/-! ## Part C: the judge accepts the runs of the model -/

/-- model state `s` and judge state `sp` describe the same queues -/
structure Sim (i : Spec.Input) (s : State) (sp : Spec.St) : Prop where
  shape : s.queues.map (fun q => (q.name, q.limit)) = i.cfg.map (fun q => (q.name, q.limit))
  members : ∀ q ∈ s.queues, ∀ x, x ∈ q.members ↔ Spec.queueOf i sp.adopted x = some q.name
  mem_nodup : AllNodup s.queues
  deque : ∀ q ∈ s.queues, q.deque = sp.queued.filter (fun t => Spec.taskQueue i sp t == some q.name)
  held : s.held = sp.held
  queued_nodup : sp.queued.Nodup
  queued_some : ∀ t ∈ sp.queued, (Spec.taskQueue i sp t).isSome = true

theorem Sim.names_nodup {i : Spec.Input} {s : State} {sp : Spec.St} (h : Sim i s sp)
    (hn : (i.cfg.map (·.name)).Nodup) : (s.queues.map (·.name)).Nodup := by
  have := congrArg (List.map (fun t : Name × Nat => t.1)) h.shape
  simp only [List.map_map, Function.comp_def] at this
  rw [this]; exact hn

theorem taskQueue_congr (i : Spec.Input) (sp sp' : Spec.St) (e : sp'.adopted = sp.adopted) (u : Nat) :
    Spec.taskQueue i sp' u = Spec.taskQueue i sp u := by
  simp [Spec.taskQueue, e]

/-- `q'` differs from `q` at most in its deque -/
structure FrameEq (q q' : LQ) : Prop where
  name : q'.name = q.name
  limit : q'.limit = q.limit
  members : q'.members = q.members

/-- operations that only touch deques: the frame part of `Sim` carries over -/
theorem sim_map_deque {i : Spec.Input} {s : State} {sp : Spec.St} (h : Sim i s sp)
    (g : LQ → LQ) (hg : ∀ q, FrameEq q (g q)) (held' : List Nat) (sp' : Spec.St)
    (had : sp'.adopted = sp.adopted) (hheld : held' = sp'.held)
    (hdq : ∀ q ∈ s.queues, (g q).deque = sp'.queued.filter (fun t => Spec.taskQueue i sp t == some q.name))
    (hnd : sp'.queued.Nodup) (hsome : ∀ t ∈ sp'.queued, (Spec.taskQueue i sp t).isSome = true) :
    Sim i { queues := s.queues.map g, held := held' } sp' := by
  constructor
  · show (s.queues.map g).map _ = _
    rw [← h.shape, List.map_map]
    apply List.map_congr_left
    intro q _
    simp [Function.comp, (hg q).name, (hg q).limit]
  · intro q' hq' x
    rcases List.mem_map.1 hq' with ⟨q, hq, rfl⟩
    rw [(hg q).members, (hg q).name, had]
    exact h.members q hq x
  · intro q' hq'
    rcases List.mem_map.1 hq' with ⟨q, hq, rfl⟩
    rw [(hg q).members]
    exact h.mem_nodup q hq
  · intro q' hq'
    rcases List.mem_map.1 hq' with ⟨q, hq, rfl⟩
    rw [hdq q hq, (hg q).name]
    apply List.filter_congr
    intro u _
    rw [taskQueue_congr i sp sp' had]
  · exact hheld
  · exact hnd
  · intro t ht
    rw [taskQueue_congr i sp sp' had]
    exact hsome t ht

theorem filter_append_single {α} (p : α → Bool) (l : List α) (t : α) :
    (l ++ [t]).filter p = l.filter p ++ (if p t then [t] else []) := by
  rw [List.filter_append]
  by_cases h : p t = true <;> simp [h]

/-! ### push -/

def pushG (name : Name) (t : Nat) (q : LQ) : LQ :=
  if q.members.contains name then { q with deque := q.deque ++ [t] } else q

theorem pushG_frame (name : Name) (t : Nat) (q : LQ) : FrameEq q (pushG name t q) := by
  unfold pushG; split <;> exact ⟨rfl, rfl, rfl⟩

theorem pushG_deque (name : Name) (t : Nat) (q : LQ) :
    (pushG name t q).deque = q.deque ++ (if q.members.contains name then [t] else []) := by
  unfold pushG; split <;> simp

theorem sim_push (i : Spec.Input) (s : State) (sp : Spec.St) (t : Nat) (h : Sim i s sp)
    (hfresh : t ∉ sp.queued) :
    Sim i { s with queues := pushAll (nameOf i.names t) t s.queues }
      (if (Spec.taskQueue i sp t).isSome then { sp with queued := sp.queued ++ [t] } else sp) := by
  have hpush : pushAll (nameOf i.names t) t s.queues = s.queues.map (pushG (nameOf i.names t) t) := rfl
  rw [hpush]
  by_cases hs : (Spec.taskQueue i sp t).isSome = true
  · simp only [hs, if_true]
    refine sim_map_deque h _ (pushG_frame _ t) s.held { sp with queued := sp.queued ++ [t] } rfl h.held ?_ ?_ ?_
    · intro q hq
      rw [pushG_deque, h.deque q hq]
      show _ = (sp.queued ++ [t]).filter _
      rw [filter_append_single]
      congr 1
      have hm := h.members q hq (nameOf i.names t)
      by_cases hc : nameOf i.names t ∈ q.members
      · have : Spec.taskQueue i sp t = some q.name := hm.1 hc
        simp [hc, this]
      · have : ¬ Spec.taskQueue i sp t = some q.name := fun e => hc (hm.2 e)
        simp [hc, this]
    · show (sp.queued ++ [t]).Nodup
      rw [List.nodup_append]
      refine ⟨h.queued_nodup, by simp, ?_⟩
      intro a ha b hb
      have : b = t := by simpa using hb
      subst this
      intro e; subst e; exact hfresh ha
    · intro u hu
      rcases List.mem_append.1 hu with hu | hu
      · exact h.queued_some u hu
      · have : u = t := by simpa using hu
        subst this; exact hs
  · simp only [hs]
    have hnone : Spec.taskQueue i sp t = none := by
      cases hq : Spec.taskQueue i sp t with
      | none => rfl
      | some v => simp [hq] at hs
    apply sim_map_deque h _ (pushG_frame _ t) s.held _ rfl h.held
    · intro q hq
      rw [pushG_deque, h.deque q hq]
      have hm := h.members q hq (nameOf i.names t)
      have hc : nameOf i.names t ∉ q.members := by
        intro hc
        have := hm.1 hc
        simp only [Spec.taskQueue] at hnone
        rw [hnone] at this
        cases this
      simp [hc]
    · exact h.queued_nodup
    · exact h.queued_some

/-! ### push_task_if_limited -/

def pilCond (name : Name) (a : Active) (q : LQ) : Bool :=
  q.limit != 0 && decide (nActive a q.members ≥ q.limit) && q.members.contains name

def pilG (name : Name) (t : Nat) (a : Active) (q : LQ) : LQ :=
  if pilCond name a q then { q with deque := q.deque ++ [t] } else q

theorem pilG_frame (name : Name) (t : Nat) (a : Active) (q : LQ) : FrameEq q (pilG name t a q) := by
  unfold pilG; split <;> exact ⟨rfl, rfl, rfl⟩

theorem pilG_deque (name : Name) (t : Nat) (a : Active) (q : LQ) :
    (pilG name t a q).deque = q.deque ++ (if pilCond name a q then [t] else []) := by
  unfold pilG; split <;> simp

/-- when at most the queue named `N` can take the task, `any(...)` behaves like a map -/
theorem pushIfLimited_eq_map (name : Name) (t : Nat) (a : Active) (N : Name) :
    ∀ qs : List LQ, (qs.map (·.name)).Nodup → (∀ q ∈ qs, pilCond name a q = true → q.name = N) →
      pushIfLimited name t a qs = (qs.map (pilG name t a), qs.any (pilCond name a)) := by
  intro qs
  induction qs with
  | nil => intro _ _; rfl
  | cons q qs ih =>
    intro hnd hN
    simp only [List.map_cons, List.nodup_cons] at hnd
    simp only [pushIfLimited]
    by_cases hc : pilCond name a q = true
    · have hc' : (q.limit != 0 && decide (nActive a q.members ≥ q.limit) && q.members.contains name) = true := hc
      simp only [hc', if_true]
      have hq : q.name = N := hN q (by simp) hc
      have htail : ∀ q' ∈ qs, pilCond name a q' = false := by
        intro q' hq'
        cases hcq : pilCond name a q' with
        | false => rfl
        | true =>
          have := hN q' (by simp [hq']) hcq
          exact absurd (List.mem_map.2 ⟨q', hq', this.trans hq.symm⟩) hnd.1
      have hmap : qs.map (pilG name t a) = qs := by
        have : ∀ q' ∈ qs, pilG name t a q' = q' := by
          intro q' hq'
          unfold pilG
          simp [htail q' hq']
        rw [List.map_congr_left this]; simp
      simp [List.map_cons, List.any_cons, hc, hmap, pilG]
    · have hc0 : pilCond name a q = false := by simpa using hc
      have hc' : (q.limit != 0 && decide (nActive a q.members ≥ q.limit) && q.members.contains name) = false := hc0
      simp only [hc', Bool.false_eq_true, if_false]
      rw [ih hnd.2 (fun q' hq' => hN q' (by simp [hq']))]
      simp [List.map_cons, List.any_cons, hc0, pilG]

theorem sim_pil (i : Spec.Input) (s : State) (sp : Spec.St) (t : Nat) (a : Active) (h : Sim i s sp)
    (hnames : (i.cfg.map (·.name)).Nodup) (hfresh : t ∉ sp.queued) :
    let r := pushIfLimited (nameOf i.names t) t a s.queues
    Sim i { s with queues := r.1 } (if r.2 then { sp with queued := sp.queued ++ [t] } else sp) := by
  intro r
  -- the only queue that can take the task
  let N : Name := (Spec.taskQueue i sp t).getD ""
  have hN : ∀ q ∈ s.queues, pilCond (nameOf i.names t) a q = true → q.name = N := by
    intro q hq hc
    have : nameOf i.names t ∈ q.members := by
      simp only [pilCond, Bool.and_eq_true] at hc
      simpa using hc.2
    have := (h.members q hq _).1 this
    simp [N, Spec.taskQueue, this]
  have hr : r = (s.queues.map (pilG (nameOf i.names t) t a), s.queues.any (pilCond (nameOf i.names t) a)) :=
    pushIfLimited_eq_map _ t a N s.queues (h.names_nodup hnames) hN
  rw [hr]
  simp only
  by_cases hb : s.queues.any (pilCond (nameOf i.names t) a) = true
  · simp only [hb, if_true]
    rcases List.any_eq_true.1 hb with ⟨q0, hq0, hc0⟩
    have hmem0 : nameOf i.names t ∈ q0.members := by
      simp only [pilCond, Bool.and_eq_true] at hc0
      simpa using hc0.2
    have htq : Spec.taskQueue i sp t = some q0.name := (h.members q0 hq0 _).1 hmem0
    refine sim_map_deque h _ (pilG_frame _ t a) s.held { sp with queued := sp.queued ++ [t] } rfl h.held ?_ ?_ ?_
    · intro q hq
      rw [pilG_deque, h.deque q hq]
      show _ = (sp.queued ++ [t]).filter _
      rw [filter_append_single]
      congr 1
      by_cases hc : pilCond (nameOf i.names t) a q = true
      · have : q.name = q0.name := (hN q hq hc).trans (hN q0 hq0 hc0).symm
        simp [hc, htq, this]
      · have hne : q.name ≠ q0.name := by
          intro e
          have := eq_of_name_eq (h.names_nodup hnames) hq hq0 e
          subst this
          exact hc hc0
        have : ¬ (q0.name = q.name) := fun e => hne e.symm
        simp [hc, htq, this]
    · show (sp.queued ++ [t]).Nodup
      rw [List.nodup_append]
      refine ⟨h.queued_nodup, by simp, ?_⟩
      intro x hx b hb'
      have : b = t := by simpa using hb'
      subst this
      intro e; subst e; exact hfresh hx
    · intro u hu
      rcases List.mem_append.1 hu with hu | hu
      · exact h.queued_some u hu
      · have : u = t := by simpa using hu
        subst this; simp [htq]
  · simp only [hb]
    have hall : ∀ q ∈ s.queues, pilCond (nameOf i.names t) a q = false := by
      intro q hq
      cases hc : pilCond (nameOf i.names t) a q with
      | false => rfl
      | true => exact absurd (List.any_eq_true.2 ⟨q, hq, hc⟩) hb
    apply sim_map_deque h _ (pilG_frame _ t a) s.held _ rfl h.held
    · intro q hq
      rw [pilG_deque, h.deque q hq]
      simp [hall q hq]
    · exact h.queued_nodup
    · exact h.queued_some

/-! ### remove_task -/

theorem removeNewest_eq_filter (l : List Nat) (t : Nat) (h : l.Nodup) :
    removeNewest l t = l.filter (· != t) := by
  unfold removeNewest
  have hr : l.reverse.Nodup := ((List.reverse_perm l).nodup_iff).2 h
  rw [List.Nodup.erase_eq_filter hr, List.filter_reverse, List.reverse_reverse]

def rmG (t : Nat) (q : LQ) : LQ := { q with deque := q.deque.filter (· != t) }

theorem rmG_frame (t : Nat) (q : LQ) : FrameEq q (rmG t q) := ⟨rfl, rfl, rfl⟩

theorem filter_ne_self (l : List Nat) (t : Nat) (h : t ∉ l) : l.filter (· != t) = l := by
  rw [List.filter_eq_self]
  intro a ha
  have : a ≠ t := fun e => h (e ▸ ha)
  simpa using this

/-- when only the queue named `N` can hold the task, `any(...)` behaves like a map -/
theorem removeTask_eq_map (t : Nat) (N : Name) :
    ∀ qs : List LQ, (qs.map (·.name)).Nodup → (∀ q ∈ qs, q.deque.Nodup) →
      (∀ q ∈ qs, t ∈ q.deque → q.name = N) →
      removeTask t qs = (qs.map (rmG t), qs.any (·.deque.contains t)) := by
  intro qs
  induction qs with
  | nil => intro _ _ _; rfl
  | cons q qs ih =>
    intro hnd hdq hN
    simp only [List.map_cons, List.nodup_cons] at hnd
    simp only [removeTask]
    by_cases hc : q.deque.contains t = true
    · simp only [hc, if_true]
      have hmem : t ∈ q.deque := by simpa using hc
      have hq : q.name = N := hN q (by simp) hmem
      have htail : ∀ q' ∈ qs, t ∉ q'.deque := by
        intro q' hq' hm
        have := hN q' (by simp [hq']) hm
        exact hnd.1 (List.mem_map.2 ⟨q', hq', this.trans hq.symm⟩)
      have hmap : qs.map (rmG t) = qs := by
        have : ∀ q' ∈ qs, rmG t q' = q' := by
          intro q' hq'
          unfold rmG
          rw [filter_ne_self _ _ (htail q' hq')]
        rw [List.map_congr_left this]; simp
      simp [List.map_cons, List.any_cons, hmem, hmap, rmG, removeNewest_eq_filter _ _ (hdq q (by simp))]
    · have hc0 : q.deque.contains t = false := by simpa using hc
      simp only [hc0, Bool.false_eq_true, if_false]
      rw [ih hnd.2 (fun q' hq' => hdq q' (by simp [hq'])) (fun q' hq' => hN q' (by simp [hq']))]
      have hmem : t ∉ q.deque := by simpa using hc0
      simp [List.map_cons, List.any_cons, hmem, rmG, filter_ne_self _ _ hmem]

theorem filter_comm {α} (p q : α → Bool) (l : List α) : (l.filter p).filter q = (l.filter q).filter p := by
  rw [List.filter_filter, List.filter_filter]
  apply List.filter_congr
  intro a _
  exact Bool.and_comm _ _

theorem Sim.deque_nodup {i : Spec.Input} {s : State} {sp : Spec.St} (h : Sim i s sp) :
    ∀ q ∈ s.queues, q.deque.Nodup := by
  intro q hq
  rw [h.deque q hq]
  exact List.Nodup.sublist List.filter_sublist h.queued_nodup

theorem sim_remove (i : Spec.Input) (s : State) (sp : Spec.St) (t : Nat) (skipped' : List Nat) (h : Sim i s sp)
    (hnames : (i.cfg.map (·.name)).Nodup) :
    Sim i { s with queues := (removeTask t s.queues).1 }
      { sp with queued := sp.queued.filter (· != t), skipped := skipped' } := by
  let N : Name := (Spec.taskQueue i sp t).getD ""
  have hN : ∀ q ∈ s.queues, t ∈ q.deque → q.name = N := by
    intro q hq hm
    rw [h.deque q hq] at hm
    have := (List.mem_filter.1 hm).2
    have : Spec.taskQueue i sp t = some q.name := by simpa using this
    simp [N, this]
  rw [removeTask_eq_map t N s.queues (h.names_nodup hnames) h.deque_nodup hN]
  refine sim_map_deque h _ (rmG_frame t) s.held _ rfl h.held ?_ ?_ ?_
  · intro q hq
    show q.deque.filter (· != t) = (sp.queued.filter (· != t)).filter _
    rw [h.deque q hq, filter_comm]
  · exact List.Nodup.sublist List.filter_sublist h.queued_nodup
  · intro u hu
    exact h.queued_some u (List.mem_filter.1 hu).1

/-! ### hold / unhold / adopt -/

theorem sim_held (i : Spec.Input) (s : State) (sp : Spec.St) (f : List Nat → List Nat) (h : Sim i s sp) :
    Sim i { s with held := f s.held } { sp with held := f sp.held } := by
  have := sim_map_deque h id (fun q => ⟨rfl, rfl, rfl⟩) (f s.held) { sp with held := f sp.held } rfl
    (by rw [h.held]) (fun q hq => h.deque q hq) h.queued_nodup h.queued_some
  simpa using this

theorem queueOf_adopt (i : Spec.Input) (adopted os : List Name) (x : Name)
    (hos : ∀ o ∈ os, o ∉ i.allTasks) :
    Spec.queueOf i (adopted ++ os) x =
      if x ∈ os ∧ Spec.queueOf i adopted x = none then some qDefault else Spec.queueOf i adopted x := by
  unfold Spec.queueOf
  by_cases hx : x ∈ i.allTasks
  · simp [hx]
  · by_cases ha : x ∈ adopted
    · simp [hx, ha]
    · by_cases ho : x ∈ os <;> simp [hx, ha, ho]

theorem queueOf_none_or (i : Spec.Input) (adopted : List Name) (x : Name) (hx : x ∉ i.allTasks) :
    Spec.queueOf i adopted x = none ∨ Spec.queueOf i adopted x = some qDefault := by
  unfold Spec.queueOf
  have : i.allTasks.contains x = false := by simpa using hx
  simp only [this, Bool.false_eq_true, if_false]
  split
  · exact Or.inr rfl
  · exact Or.inl rfl

theorem sim_adopt (i : Spec.Input) (s : State) (sp : Spec.St) (os : List Name) (h : Sim i s sp)
    (hos : ∀ o ∈ os, o ∉ i.allTasks) :
    Sim i { s with queues := adopt os s.queues } { sp with adopted := sp.adopted ++ os } := by
  have tqEq : ∀ u ∈ sp.queued, Spec.taskQueue i { sp with adopted := sp.adopted ++ os } u = Spec.taskQueue i sp u := by
    intro u hu
    have hs := h.queued_some u hu
    simp only [Spec.taskQueue] at hs ⊢
    rw [queueOf_adopt i sp.adopted os _ hos]
    cases hq : Spec.queueOf i sp.adopted (nameOf i.names u) with
    | none => rw [hq] at hs; cases hs
    | some v => simp
  have mem_adopt : ∀ q' ∈ adopt os s.queues, ∃ q ∈ s.queues, q'.name = q.name ∧ q'.limit = q.limit ∧
      q'.deque = q.deque ∧
      q'.members = if q.name == qDefault then q.members ++ (dedup os).filter (fun o => !q.members.contains o) else q.members := by
    intro q' hq'
    unfold adopt at hq'
    rcases List.mem_map.1 hq' with ⟨q, hq, rfl⟩
    refine ⟨q, hq, ?_⟩
    split <;> simp_all
  constructor
  · show (adopt os s.queues).map _ = _
    rw [← h.shape]
    unfold adopt
    rw [List.map_map]
    apply List.map_congr_left
    intro q _
    simp only [Function.comp]
    split <;> rfl
  · intro q' hq' x
    rcases mem_adopt q' hq' with ⟨q, hq, hn, _, _, hm⟩
    rw [hn, hm]
    show _ ↔ Spec.queueOf i (sp.adopted ++ os) x = some q.name
    rw [queueOf_adopt i sp.adopted os x hos]
    have hmem := h.members q hq x
    by_cases hqd : q.name = qDefault
    · have : (q.name == qDefault) = true := by simpa using hqd
      simp only [this, if_true, List.mem_append, List.mem_filter, mem_dedup]
      by_cases hx : x ∈ os ∧ Spec.queueOf i sp.adopted x = none
      · rw [if_pos hx]
        constructor
        · intro _; rw [hqd]
        · intro _
          right
          refine ⟨hx.1, ?_⟩
          have : x ∉ q.members := fun hc => by
            have := hmem.1 hc
            rw [hx.2] at this
            cases this
          simpa using this
      · rw [if_neg hx]
        constructor
        · rintro (h1 | ⟨h1, h2⟩)
          · exact hmem.1 h1
          · -- x ∈ os, not yet a member: then queueOf was `none`, contradiction with hx unless adopted before
            have hxall : x ∉ i.allTasks := hos x h1
            rcases queueOf_none_or i sp.adopted x hxall with h3 | h3
            · exact absurd ⟨h1, h3⟩ hx
            · rw [h3, hqd]
        · intro h1
          exact Or.inl (hmem.2 h1)
    · have : (q.name == qDefault) = false := by simpa using hqd
      simp only [this, Bool.false_eq_true, if_false]
      by_cases hx : x ∈ os ∧ Spec.queueOf i sp.adopted x = none
      · rw [if_pos hx]
        constructor
        · intro hc
          have := hmem.1 hc
          rw [hx.2] at this
          cases this
        · intro hc
          injection hc with hc
          exact absurd hc.symm hqd
      · rw [if_neg hx]
        exact hmem
  · intro q' hq'
    rcases mem_adopt q' hq' with ⟨q, hq, _, _, _, hm⟩
    rw [hm]
    split
    · rw [List.nodup_append]
      refine ⟨h.mem_nodup q hq, List.Nodup.sublist List.filter_sublist (nodup_dedup os), ?_⟩
      intro a ha b hb
      have := (List.mem_filter.1 hb).2
      have hb' : b ∉ q.members := by simpa using this
      intro e; subst e; exact hb' ha
    · exact h.mem_nodup q hq
  · intro q' hq'
    rcases mem_adopt q' hq' with ⟨q, hq, hn, _, hd, _⟩
    rw [hd, hn, h.deque q hq]
    apply List.filter_congr
    intro u hu
    rw [tqEq u hu]
  · exact h.held
  · exact h.queued_nodup
  · intro u hu
    rw [tqEq u hu]
    exact h.queued_some u hu

/-! ### release_tasks -/

/-- what one queue releases, given the counter `a0` -/
def relOf (isHeld : Nat → Bool) (nameOf : Nat → Name) (a0 : Active) (q : LQ) : List Nat :=
  (releaseLoop q.limit isHeld nameOf q.deque (nActive a0 q.members) a0).released

def relG (pol : HeldPolicy) (isHeld : Nat → Bool) (nameOf : Nat → Name) (a0 : Active) (q : LQ) : LQ :=
  (releaseQ pol isHeld nameOf q a0).1

theorem relG_frame (pol : HeldPolicy) (isHeld : Nat → Bool) (nameOf : Nat → Name) (a0 : Active) (q : LQ) :
    FrameEq q (relG pol isHeld nameOf a0 q) := ⟨rfl, rfl, rfl⟩

/-- queues with disjoint member sets do not see each other's updates of the shared counter -/
theorem releaseAll_eq_map (pol : HeldPolicy) (isHeld : Nat → Bool) (nameOf : Nat → Name)
    (Q : Name → Option Name) (a0 : Active) :
    ∀ (qs : List LQ) (a : Active), (qs.map (·.name)).Nodup →
      (∀ q ∈ qs, ∀ x, x ∈ q.members ↔ Q x = some q.name) →
      (∀ q ∈ qs, ∀ t ∈ q.deque, Q (nameOf t) = some q.name) →
      (∀ q ∈ qs, nActive a q.members = nActive a0 q.members) →
      releaseAll pol isHeld nameOf qs a =
        (qs.map (relG pol isHeld nameOf a0), qs.flatMap (relOf isHeld nameOf a0)) := by
  intro qs
  induction qs with
  | nil => intro _ _ _ _ _; rfl
  | cons q qs ih =>
    intro a hnd hmem hdq hact
    simp only [List.map_cons, List.nodup_cons] at hnd
    simp only [releaseAll, List.map_cons, List.flatMap_cons]
    have hn : nActive a q.members = nActive a0 q.members := hact q (by simp)
    have hirr := releaseLoop_active_irrel q.limit isHeld nameOf q.deque (nActive a0 q.members) a a0
    -- the head queue
    have h1 : (releaseQ pol isHeld nameOf q a).1 = relG pol isHeld nameOf a0 q := by
      simp only [releaseQ, relG, hn, hirr.2.1, hirr.2.2]
    have h2 : (releaseQ pol isHeld nameOf q a).2.1 = relOf isHeld nameOf a0 q := by
      simp only [releaseQ, relOf, hn, hirr.1]
    -- the counter handed on
    have h3 : ∀ q' ∈ qs, nActive (releaseQ pol isHeld nameOf q a).2.2 q'.members = nActive a0 q'.members := by
      intro q' hq'
      rw [← hact q' (by simp [hq'])]
      apply nActive_congr
      intro m hm
      simp only [releaseQ]
      apply releaseLoop_active
      intro t ht e
      have e1 := hdq q (by simp) t ht
      have e2 := (hmem q' (by simp [hq']) m).1 hm
      rw [e] at e1
      rw [e1] at e2
      injection e2 with e2
      exact hnd.1 (List.mem_map.2 ⟨q', hq', e2.symm⟩)
    rw [ih _ hnd.2 (fun q' hq' => hmem q' (by simp [hq'])) (fun q' hq' => hdq q' (by simp [hq'])) h3, h1, h2]

theorem relOf_split (isHeld : Nat → Bool) (nameOf : Nat → Name) (a0 : Active) (pol : HeldPolicy) (q : LQ) :
    ∃ P S, q.deque = P ++ S ∧ relOf isHeld nameOf a0 q = P.filter (fun t => !isHeld t) ∧
      (relG pol isHeld nameOf a0 q).deque = requeue pol (P.filter isHeld) S := by
  rcases releaseLoop_split q.limit isHeld nameOf q.deque (nActive a0 q.members) a0 with ⟨P, S, h1, h2, h3, h4⟩
  exact ⟨P, S, h1, h2, by simp [relG, releaseQ, h3, h4]⟩

theorem isPrefix_append (l r : List Nat) : Spec.isPrefix l (l ++ r) = true := by
  induction l with
  | nil => cases r <;> rfl
  | cons a l ih => simp [Spec.isPrefix, ih]

theorem firstDup_none_of_nodup (l : List Nat) (h : l.Nodup) : Spec.firstDup? l = none := by
  induction l with
  | nil => rfl
  | cons a l ih =>
    have := List.nodup_cons.1 h
    have ha : l.contains a = false := by simpa using this.1
    simp [Spec.firstDup?, this.1, ih this.2]

theorem flatMap_single {β} (f : LQ → List β) (q : LQ) :
    ∀ qs : List LQ, (qs.map (·.name)).Nodup → q ∈ qs → (∀ q' ∈ qs, q'.name ≠ q.name → f q' = []) →
      qs.flatMap f = f q := by
  intro qs
  induction qs with
  | nil => intro _ h _; cases h
  | cons a qs ih =>
    intro hnd hq hf
    simp only [List.map_cons, List.nodup_cons] at hnd
    simp only [List.flatMap_cons]
    rcases List.mem_cons.1 hq with e | hq'
    · subst e
      have : qs.flatMap f = [] := by
        rw [List.flatMap_eq_nil_iff]
        intro q' hq'
        apply hf q' (by simp [hq'])
        intro e
        exact hnd.1 (List.mem_map.2 ⟨q', hq', e⟩)
      rw [this]; simp
    · have hne : a.name ≠ q.name := by
        intro e
        exact hnd.1 (List.mem_map.2 ⟨q, hq', e.symm⟩)
      rw [hf a (by simp) hne, ih hnd.2 hq' (fun q' h' => hf q' (by simp [h']))]
      simp

theorem exists_of_map_eq {α β γ} (f : α → γ) (g : β → γ) :
    ∀ (l : List α) (l' : List β), l.map f = l'.map g → ∀ c ∈ l', ∃ q ∈ l, f q = g c := by
  intro l
  induction l with
  | nil => intro l' h c hc; cases l' with
    | nil => cases hc
    | cons b l' => simp at h
  | cons a l ih =>
    intro l' h c hc
    cases l' with
    | nil => cases hc
    | cons b l' =>
      simp only [List.map_cons, List.cons.injEq] at h
      rcases List.mem_cons.1 hc with e | hc
      · subst e; exact ⟨a, by simp, h.1⟩
      · rcases ih l' h.2 c hc with ⟨q, hq, e⟩
        exact ⟨q, by simp [hq], e⟩

theorem activeIn_eq (i : Spec.Input) (s : State) (sp : Spec.St) (h : Sim i s sp) (q : LQ) (hq : q ∈ s.queues)
    (a : Active) : Spec.activeIn i sp q.name a = nActive a q.members := by
  unfold Spec.activeIn nActive
  apply List.Perm.sum_nat
  apply List.Perm.map
  rw [List.perm_ext_iff_of_nodup (List.Nodup.sublist List.filter_sublist (nodup_dedup _)) (h.mem_nodup q hq)]
  intro x
  rw [List.mem_filter, mem_dedup, h.members q hq x]
  constructor
  · rintro ⟨_, h2⟩; simpa using h2
  · intro h2
    refine ⟨?_, by simpa using h2⟩
    unfold Spec.queueOf at h2
    by_cases hx : x ∈ i.allTasks
    · exact List.mem_append_left _ hx
    · have h1 : i.allTasks.contains x = false := by simpa using hx
      simp only [h1, Bool.false_eq_true, if_false] at h2
      by_cases ha : x ∈ sp.adopted
      · exact List.mem_append_right _ ha
      · have h3 : sp.adopted.contains x = false := by simpa using ha
        simp [h3] at h2
        exact absurd h2.1 ha

/-- filtering `P ++ S` (duplicate-free) by "not released" keeps the held part of `P` and all of `S` -/
theorem filter_not_released (isHeld : Nat → Bool) (P S : List Nat) (hnd : (P ++ S).Nodup) :
    (P ++ S).filter (fun t => !(P.filter fun t => !isHeld t).contains t) = P.filter isHeld ++ S := by
  rw [List.filter_append]
  rw [List.nodup_append] at hnd
  congr 1
  · apply List.filter_congr
    intro t ht
    by_cases hh : isHeld t = true
    · have : t ∉ P.filter fun t => !isHeld t := by
        intro hm; have := (List.mem_filter.1 hm).2; simp [hh] at this
      simp [hh, this]
    · have hh' : isHeld t = false := by simpa using hh
      have : t ∈ P.filter fun t => !isHeld t := List.mem_filter.2 ⟨ht, by simp [hh']⟩
      simp [hh', this]
  · rw [List.filter_eq_self]
    intro t ht
    have : t ∉ P.filter fun t => !isHeld t := by
      intro hm
      exact hnd.2.2 t (List.mem_filter.1 hm).1 t ht rfl
    have : (P.filter fun t => !isHeld t).contains t = false := by
      cases hc : (P.filter fun t => !isHeld t).contains t with
      | false => rfl
      | true => exact absurd (List.contains_iff_mem.1 hc) this
    show (!(List.filter (fun t => !isHeld t) P).contains t) = true
    rw [this]; rfl

theorem nodup_flatMap_of {β} (f : LQ → List β) (T : β → Option Name) :
    ∀ qs : List LQ, (qs.map (·.name)).Nodup → (∀ q ∈ qs, (f q).Nodup) →
      (∀ q ∈ qs, ∀ t ∈ f q, T t = some q.name) → (qs.flatMap f).Nodup := by
  intro qs
  induction qs with
  | nil => intro _ _ _; simp
  | cons a qs ih =>
    intro hnd hf hT
    simp only [List.map_cons, List.nodup_cons] at hnd
    simp only [List.flatMap_cons]
    rw [List.nodup_append]
    refine ⟨hf a (by simp), ih hnd.2 (fun q hq => hf q (by simp [hq])) (fun q hq => hT q (by simp [hq])), ?_⟩
    intro x hx y hy e
    subst e
    rcases List.mem_flatMap.1 hy with ⟨q', hq', hxq'⟩
    have e1 := hT a (by simp) x hx
    have e2 := hT q' (by simp [hq']) x hxq'
    rw [e1] at e2
    injection e2 with e2
    exact hnd.1 (List.mem_map.2 ⟨q', hq', e2.symm⟩)

theorem step_release (pol : HeldPolicy) (i : Spec.Input) (s : State) (sp : Spec.St) (k : Nat) (a : Active)
    (h : Sim i s sp) (hnames : (i.cfg.map (·.name)).Nodup) (hpol : pol = .keep ∨ s.held = []) :
    ∃ sp', Spec.stepJudge i sp k (.release a) (step pol i.names s (.release a)).2 = .ok sp' ∧
      Sim i (step pol i.names s (.release a)).1 sp' ∧ (∀ t ∈ sp'.queued, t ∈ sp.queued) := by
  let isHeld : Nat → Bool := fun t => s.held.contains t
  let nm : Nat → Name := nameOf i.names
  have qnodup := h.names_nodup hnames
  -- B: tasks in a deque belong to that queue
  have hB : ∀ q ∈ s.queues, ∀ t ∈ q.deque, Spec.taskQueue i sp t = some q.name := by
    intro q hq t ht
    rw [h.deque q hq] at ht
    simpa using (List.mem_filter.1 ht).2
  have hrel : releaseAll pol isHeld nm s.queues a =
      (s.queues.map (relG pol isHeld nm a), s.queues.flatMap (relOf isHeld nm a)) :=
    releaseAll_eq_map pol isHeld nm (fun x => Spec.queueOf i sp.adopted x) a s.queues a qnodup
      h.members (fun q hq t ht => hB q hq t ht) (fun _ _ => rfl)
  let rel := s.queues.flatMap (relOf isHeld nm a)
  -- A: released tasks come from the deque and are not held
  have hA : ∀ q ∈ s.queues, ∀ t ∈ relOf isHeld nm a q, t ∈ q.deque ∧ isHeld t = false := by
    intro q _ t ht
    rcases relOf_split isHeld nm a pol q with ⟨P, S, h1, h2, _⟩
    rw [h2] at ht
    have := List.mem_filter.1 ht
    exact ⟨by rw [h1]; exact List.mem_append_left _ this.1, by simpa using this.2⟩
  have hAnd : ∀ q ∈ s.queues, (relOf isHeld nm a q).Nodup := by
    intro q hq
    rcases relOf_split isHeld nm a pol q with ⟨P, S, h1, h2, _⟩
    rw [h2]
    have hd := h.deque_nodup q hq
    rw [h1, List.nodup_append] at hd
    exact List.Nodup.sublist List.filter_sublist hd.1
  have hC : ∀ t ∈ rel, ∃ q ∈ s.queues, t ∈ relOf isHeld nm a q := fun t ht => List.mem_flatMap.1 ht
  have hD : rel.Nodup :=
    nodup_flatMap_of _ (fun t => Spec.taskQueue i sp t) s.queues qnodup hAnd
      (fun q hq t ht => hB q hq t (hA q hq t ht).1)
  have hE : ∀ q ∈ s.queues, Spec.releasedOf i sp rel q.name = relOf isHeld nm a q := by
    intro q hq
    unfold Spec.releasedOf
    show (s.queues.flatMap (relOf isHeld nm a)).filter _ = _
    rw [List.filter_flatMap]
    rw [flatMap_single (fun q' => (relOf isHeld nm a q').filter fun t => Spec.taskQueue i sp t == some q.name)
      q s.queues qnodup hq]
    · rw [List.filter_eq_self]
      intro t ht
      simp [hB q hq t (hA q hq t ht).1]
    · intro q' hq' hne
      rw [List.filter_eq_nil_iff]
      intro t ht
      rw [hB q' hq' t (hA q' hq' t ht).1]
      simpa using hne
  -- the four checks of the judge
  have c1 : rel.find? (fun t => !sp.queued.contains t) = none := by
    rw [List.find?_eq_none]
    intro t ht
    rcases hC t ht with ⟨q, hq, htq⟩
    have := (hA q hq t htq).1
    rw [h.deque q hq] at this
    have := (List.mem_filter.1 this).1
    simpa using this
  have c2 : rel.find? (fun t => sp.held.contains t) = none := by
    rw [List.find?_eq_none]
    intro t ht
    rcases hC t ht with ⟨q, hq, htq⟩
    have := (hA q hq t htq).2
    rw [← h.held]
    simpa [isHeld] using this
  have c3 : Spec.firstDup? rel = none := firstDup_none_of_nodup rel hD
  have c4 : i.cfg.findSome? (Spec.checkQueueRelease i sp k a rel) = none := by
    rw [List.findSome?_eq_none_iff]
    intro c hc
    rcases exists_of_map_eq (fun q : LQ => (q.name, q.limit)) (fun q : QCfg => (q.name, q.limit))
      s.queues i.cfg h.shape c hc with ⟨q, hq, e⟩
    simp only [Prod.mk.injEq] at e
    unfold Spec.checkQueueRelease
    simp only
    rw [← e.1, ← e.2, hE q hq, activeIn_eq i s sp h q hq a]
    rcases relOf_split isHeld nm a pol q with ⟨P, S, h1, h2, _⟩
    have hlim : Spec.limitOk q.limit (nActive a q.members) (relOf isHeld nm a q).length = true := by
      unfold Spec.limitOk
      by_cases hL : q.limit = 0
      · simp [hL]
      · have := releaseLoop_limit q.limit hL isHeld nm q.deque (nActive a q.members) a
        have hlen : (relOf isHeld nm a q).length =
            (releaseLoop q.limit isHeld nm q.deque (nActive a q.members) a).released.length := rfl
        rw [← hlen] at this
        by_cases h0 : (relOf isHeld nm a q).length = 0
        · simp [h0]
        · have : nActive a q.members + (relOf isHeld nm a q).length ≤ q.limit := by omega
          simp [this]
    have hpre : Spec.isPrefix (relOf isHeld nm a q) (Spec.releasable i sp q.name) = true := by
      have hcand : Spec.releasable i sp q.name = q.deque.filter (fun t => !isHeld t) := by
        unfold Spec.releasable
        rw [h.deque q hq, List.filter_filter]
        apply List.filter_congr
        intro t _
        rw [Bool.and_comm]
        simp [isHeld, h.held]
      rw [hcand, h2, h1, List.filter_append]
      exact isPrefix_append _ _
    simp [hlim, hpre]
  -- the new judge state
  let sp' : Spec.St := { sp with
    queued := sp.queued.filter fun t => !rel.contains t
    skipped := (sp.skipped.filter fun t => !rel.contains t) ++
      (sp.queued.filter fun t => !rel.contains t).filter fun t =>
        sp.held.contains t && !sp.skipped.contains t && Spec.passedOver i sp a t }
  refine ⟨sp', ?_, ?_, ?_⟩
  · show Spec.stepJudge i sp k (.release a) (.ids (releaseAll pol isHeld nm s.queues a).2) = _
    rw [hrel]
    simp only [Spec.stepJudge]
    show (match rel.find? (fun t => !sp.queued.contains t) with
      | some t => _ | none => _) = _
    rw [c1]
    simp only
    rw [c2]
    simp only
    rw [c3]
    simp only
    rw [c4]
  · show Sim i { s with queues := (releaseAll pol isHeld nm s.queues a).1 } sp'
    rw [hrel]
    refine sim_map_deque h _ (relG_frame pol isHeld nm a) s.held sp' rfl h.held ?_ ?_ ?_
    · intro q hq
      rcases relOf_split isHeld nm a pol q with ⟨P, S, h1, h2, h3⟩
      show _ = (sp.queued.filter fun t => !rel.contains t).filter _
      rw [filter_comm, ← h.deque q hq]
      -- inside the deque of `q`, "released" means "released by `q`"
      have hloc : q.deque.filter (fun t => !rel.contains t)
          = q.deque.filter (fun t => !(relOf isHeld nm a q).contains t) := by
        apply List.filter_congr
        intro t ht
        congr 1
        rw [Bool.eq_iff_iff]
        simp only [List.contains_iff_mem]
        constructor
        · intro hm
          rcases hC t hm with ⟨q', hq', htq'⟩
          have e1 := hB q' hq' t (hA q' hq' t htq').1
          have e2 := hB q hq t ht
          rw [e1] at e2
          injection e2 with e2
          have := eq_of_name_eq qnodup hq' hq e2
          subst this
          exact htq'
        · intro hm
          exact List.mem_flatMap.2 ⟨q, hq, hm⟩
      rw [hloc, h3, h2]
      have hd := h.deque_nodup q hq
      rw [h1] at hd ⊢
      rw [filter_not_released isHeld P S hd]
      rcases hpol with hp | hp
      · subst hp; rfl
      · have : P.filter isHeld = [] := by
          rw [List.filter_eq_nil_iff]
          intro t _
          simp [isHeld, hp]
        rw [this]
        cases pol <;> simp [requeue]
    · exact List.Nodup.sublist List.filter_sublist h.queued_nodup
    · intro u hu
      exact h.queued_some u (List.mem_filter.1 hu).1
  · intro t ht
    exact (List.mem_filter.1 ht).1

/-! ### all operations, whole histories -/

def isHoldOp : Op → Bool
  | .hold _ => true
  | _ => false

/-- histories in which no task is ever held -/
def noHold (ops : List Op) : Bool := ops.all fun op => !isHoldOp op

theorem step_accepted (pol : HeldPolicy) (i : Spec.Input) (hnames : (i.cfg.map (·.name)).Nodup)
    (s : State) (sp : Spec.St) (k : Nat) (op : Op) (w w' : List Nat × List Name)
    (h : Sim i s sp) (hmq : ∀ t ∈ sp.queued, t ∈ w.1) (hwf : Spec.wfStep i.allTasks i.names w op = some w')
    (hpol : pol = .keep ∨ (s.held = [] ∧ isHoldOp op = false)) :
    ∃ sp', Spec.stepJudge i sp k op (step pol i.names s op).2 = .ok sp' ∧
      Sim i (step pol i.names s op).1 sp' ∧ (∀ t ∈ sp'.queued, t ∈ w'.1) ∧
      (s.held = [] → isHoldOp op = false → (step pol i.names s op).1.held = []) := by
  cases op with
  | push t =>
    simp only [Spec.wfStep] at hwf
    split at hwf
    · cases hwf
    · rename_i hc
      injection hwf with hwf
      subst hwf
      have hc1 : ¬ w.1.contains t = true := fun e => hc (by rw [e]; rfl)
      have hfresh : t ∉ sp.queued := fun hm => hc1 (by simpa using hmq t hm)
      refine ⟨_, rfl, sim_push i s sp t h hfresh, ?_, fun h0 _ => h0⟩
      intro u hu
      split at hu
      · rcases List.mem_append.1 hu with hu | hu
        · exact List.mem_cons_of_mem _ (hmq u hu)
        · have : u = t := by simpa using hu
          simp [this]
      · exact List.mem_cons_of_mem _ (hmq u hu)
  | pushIfLimited t a =>
    simp only [Spec.wfStep] at hwf
    split at hwf
    · cases hwf
    · rename_i hc
      injection hwf with hwf
      subst hwf
      have hc1 : ¬ w.1.contains t = true := fun e => hc (by rw [e]; rfl)
      have hfresh : t ∉ sp.queued := fun hm => hc1 (by simpa using hmq t hm)
      refine ⟨_, rfl, sim_pil i s sp t a h hnames hfresh, ?_, fun h0 _ => h0⟩
      intro u hu
      split at hu
      · rcases List.mem_append.1 hu with hu | hu
        · exact List.mem_cons_of_mem _ (hmq u hu)
        · have : u = t := by simpa using hu
          simp [this]
      · exact List.mem_cons_of_mem _ (hmq u hu)
  | release a =>
    simp only [Spec.wfStep] at hwf
    injection hwf with hwf
    subst hwf
    have hp : pol = .keep ∨ s.held = [] := by
      rcases hpol with hp | hp
      · exact Or.inl hp
      · exact Or.inr hp.1
    rcases step_release pol i s sp k a h hnames hp with ⟨sp', h1, h2, h3⟩
    exact ⟨sp', h1, h2, fun t ht => hmq t (h3 t ht), fun h0 _ => h0⟩
  | remove t =>
    simp only [Spec.wfStep] at hwf
    injection hwf with hwf
    subst hwf
    refine ⟨_, rfl, sim_remove i s sp t _ h hnames, ?_, fun h0 _ => h0⟩
    intro u hu
    have := List.mem_filter.1 hu
    exact List.mem_filter.2 ⟨hmq u this.1, this.2⟩
  | hold t =>
    simp only [Spec.wfStep] at hwf
    injection hwf with hwf
    subst hwf
    refine ⟨_, rfl, ?_, hmq, ?_⟩
    · have := sim_held i s sp (fun l => if l.contains t then l else t :: l) h
      simpa [step] using this
    · intro _ hh; simp [isHoldOp] at hh
  | unhold t =>
    simp only [Spec.wfStep] at hwf
    injection hwf with hwf
    subst hwf
    refine ⟨_, rfl, ?_, hmq, ?_⟩
    · have := sim_held i s sp (fun l => l.filter (· != t)) h
      simpa [step] using this
    · intro h0 _; simp [step, h0]
  | adopt os =>
    simp only [Spec.wfStep] at hwf
    split at hwf
    · rename_i hc
      injection hwf with hwf
      subst hwf
      have hos : ∀ o ∈ os, o ∉ i.allTasks := by
        intro o ho
        have := (List.all_eq_true.1 hc) o ho
        simpa using this
      exact ⟨_, rfl, sim_adopt i s sp os h hos, hmq, fun h0 _ => h0⟩
    · cases hwf

theorem run_accepted (pol : HeldPolicy) (i : Spec.Input) (hnames : (i.cfg.map (·.name)).Nodup) :
    ∀ (ops : List Op) (s : State) (sp : Spec.St) (k : Nat) (w : List Nat × List Name),
      Sim i s sp → (∀ t ∈ sp.queued, t ∈ w.1) → Spec.wfOps i.allTasks i.names w ops = true →
      (pol = .keep ∨ (s.held = [] ∧ noHold ops = true)) →
      Spec.runJudge i sp k ops (run pol i.names s ops) = .ok () := by
  intro ops
  induction ops with
  | nil => intro s sp k w _ _ _ _; simp [run, Spec.runJudge]
  | cons op ops ih =>
    intro s sp k w h hmq hwf hpol
    simp only [Spec.wfOps] at hwf
    cases hw : Spec.wfStep i.allTasks i.names w op with
    | none => rw [hw] at hwf; cases hwf
    | some w' =>
      rw [hw] at hwf
      simp only at hwf
      have hpol1 : pol = .keep ∨ (s.held = [] ∧ isHoldOp op = false) := by
        rcases hpol with hp | ⟨h0, hn⟩
        · exact Or.inl hp
        · right
          refine ⟨h0, ?_⟩
          simp only [noHold, List.all_cons, Bool.and_eq_true] at hn
          simpa using hn.1
      rcases step_accepted pol i hnames s sp k op w w' h hmq hw hpol1 with ⟨sp', h1, h2, h3, h4⟩
      simp only [run, Spec.runJudge]
      rw [h1]
      apply ih _ _ _ w' h2 h3 hwf
      rcases hpol with hp | ⟨h0, hn⟩
      · exact Or.inl hp
      · right
        simp only [noHold, List.all_cons, Bool.and_eq_true] at hn
        exact ⟨h4 h0 (by simpa using hn.1), hn.2⟩

/-! ### from construction to the whole judge -/

theorem expectedQueue_mem (cfg : List QCfg) (all : List Name) (desc : Desc) (x : Name)
    (hd : (cfg.head?.map (·.name)) = some qDefault) :
    Spec.expectedQueue cfg all desc x ∈ cfg.map (·.name) := by
  unfold Spec.expectedQueue
  cases hl : (cfg.filter fun q => q.name != qDefault && Spec.lists all desc q x).getLast? with
  | some q =>
    have := List.mem_of_getLast? hl
    exact List.mem_map.2 ⟨q, (List.mem_filter.1 this).1, rfl⟩
  | none =>
    cases cfg with
    | nil => simp at hd
    | cons d rest =>
      have : d.name = qDefault := by simpa using hd
      simp [this]

theorem filter_name_eq (qs : List LQ) (N : Name) (p : LQ → Bool) (hnd : (qs.map (·.name)).Nodup)
    (hN : N ∈ qs.map (·.name)) (hp : ∀ q ∈ qs, p q = true ↔ q.name = N) :
    (qs.filter p).map (·.name) = [N] := by
  induction qs with
  | nil => cases hN
  | cons a qs ih =>
    simp only [List.map_cons, List.nodup_cons] at hnd
    rw [List.filter_cons]
    by_cases ha : a.name = N
    · have : p a = true := (hp a (by simp)).2 ha
      simp only [this, if_true, List.map_cons, ha]
      congr 1
      have : qs.filter p = [] := by
        rw [List.filter_eq_nil_iff]
        intro q hq hpq
        have := (hp q (by simp [hq])).1 hpq
        exact hnd.1 (List.mem_map.2 ⟨q, hq, this.trans ha.symm⟩)
      rw [this]; rfl
    · have : ¬ p a = true := fun hc => ha ((hp a (by simp)).1 hc)
      simp only [this, if_false]
      apply ih hnd.2
      · simp only [List.map_cons, List.mem_cons] at hN
        rcases hN with hN | hN
        · exact absurd hN.symm ha
        · exact hN
      · intro q hq; exact hp q (by simp [hq])

/-- observation of the freshly constructed manager -/
def obsQueues (qs : List LQ) : Spec.ObsQueues := qs.map fun q => (q.name, q.members)

theorem membership_accepted (cfg : List QCfg) (all : List Name) (desc : Desc) (qs : List LQ)
    (wf : WfCfg cfg all desc) (hmk : mk cfg all desc = some qs) :
    Spec.checkMembership cfg all desc (obsQueues qs) = none := by
  rcases mk_spec cfg all desc qs wf hmk with ⟨shape, _, hmem⟩
  have qnames : qs.map (·.name) = cfg.map (·.name) := by
    have := congrArg (List.map (fun t : Name × Nat × List Nat => t.1)) shape
    simpa [List.map_map, Function.comp_def] using this
  unfold Spec.checkMembership
  rw [List.findSome?_eq_none_iff]
  intro n hn
  have hflt : ((obsQueues qs).filter fun q => q.2.contains n).map (·.1)
      = (qs.filter fun q => q.members.contains n).map (·.name) := by
    unfold obsQueues
    rw [List.filter_map, List.map_map]
    rfl
  have := filter_name_eq qs (Spec.expectedQueue cfg all desc n) (fun q => q.members.contains n)
    (by rw [qnames]; exact wf.names) (by rw [qnames]; exact expectedQueue_mem cfg all desc n wf.head)
    (by
      intro q hq
      rw [List.contains_iff_mem, hmem q hq n]
      constructor
      · intro h; exact h.2
      · intro h; exact ⟨hn, h⟩)
  simp only [hflt, this]
  simp

theorem sim_init (i : Spec.Input) (qs : List LQ) (wf : WfCfg i.cfg i.allTasks i.desc)
    (hmk : mk i.cfg i.allTasks i.desc = some qs) : Sim i { queues := qs, held := [] } {} := by
  rcases mk_spec i.cfg i.allTasks i.desc qs wf hmk with ⟨shape, hnd, hmem⟩
  constructor
  · have := congrArg (List.map (fun t : Name × Nat × List Nat => (t.1, t.2.1))) shape
    simpa [List.map_map, Function.comp_def] using this
  · intro q hq x
    rw [hmem q hq x]
    unfold Spec.queueOf
    by_cases hx : x ∈ i.allTasks
    · simp [hx]
      constructor <;> intro h <;> exact h.symm
    · simp [hx]
  · exact hnd
  · intro q hq
    have := exists_of_map_eq (fun q : QCfg => (q.name, q.limit, ([] : List Nat)))
      (fun q : LQ => (q.name, q.limit, q.deque)) i.cfg qs shape.symm q hq
    rcases this with ⟨c, _, e⟩
    simp only [Prod.mk.injEq] at e
    rw [← e.2.2]
    rfl
  · rfl
  · exact List.nodup_nil
  · intro t ht; cases ht

/-- **Refinement.** On every well-formed configuration and every well-formed history, the judge
accepts what the model answers — for the `keep` policy always, for any policy when no task is held. -/
theorem judge_accepts (pol : HeldPolicy) (i : Spec.Input) (qs : List LQ)
    (wf : WfCfg i.cfg i.allTasks i.desc) (hmk : mk i.cfg i.allTasks i.desc = some qs)
    (hops : Spec.wfOps i.allTasks i.names ([], []) i.ops = true) (hpol : pol = .keep ∨ noHold i.ops = true) :
    Spec.judge i (obsQueues qs) (run pol i.names { queues := qs, held := [] } i.ops) = .ok () := by
  unfold Spec.judge
  rw [membership_accepted i.cfg i.allTasks i.desc qs wf hmk]
  simp only
  apply run_accepted pol i wf.names i.ops _ _ 0 ([], []) (sim_init i qs wf hmk) (by intro t ht; cases ht) hops
  rcases hpol with hp | hp
  · exact Or.inl hp
  · exact Or.inr ⟨rfl, hp⟩

end CylcModel.Queue
