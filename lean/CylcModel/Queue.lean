/-
Model of cylc-flow's internal task queues (property C05; also used by C06/C28):

  cylc/flow/task_queues/__init__.py     TaskQueueManagerBase._expand_families
  cylc/flow/task_queues/independent.py  IndepQueueManager.__init__/_make_indep/push_task/
                                        push_task_if_limited/release_tasks/remove_task/adopt_tasks,
                                        LimitedTaskQueue.push_task/push_task_if_limited/release/remove/adopt

Representation
* Python `set`s of names are duplicate-free lists (iteration order of a set never reaches an
  output of this component: sums, membership tests and per-element independent updates only).
* Python `dict`s (the queue config, `self.queues`, `seen`) are association lists in insertion order.
* A `collections.deque` is a `List Nat` of task ids, **head = right end of the Python deque**
  (the oldest element, the next one `pop()` returns); `appendleft` is `++ [t]`.
* A task proxy is an id (`Nat`); `tdef.name` is looked up in a table, `state.is_held` in the
  held-set of the state (the flag lives in the task, not in the queue).
* `Counter` of active tasks = association list, absent key = 0.

Second part of the file (`namespace Spec`): the property C05 as an executable judge over
*observations* (written from the property text, uses no model function).

Core Lean only (linked into the driver executable).
-/
import CylcModel.Generated.QueueConsts

namespace CylcModel.Queue

abbrev Name := String

/-- `descendants` of the runtime family tree: family name ↦ all namespaces below it. -/
abbrev Desc := List (Name × List Name)

/-- One entry of `[scheduling][queues]`, in the iteration order of the config dict. -/
structure QCfg where
  name : Name
  limit : Nat
  members : List Name
deriving Repr, DecidableEq, Inhabited

def isFam (desc : Desc) (n : Name) : Bool := desc.any fun e => e.1 == n

def descOf (desc : Desc) (n : Name) : List Name :=
  match desc.find? fun e => e.1 == n with
  | some e => e.2
  | none => []

/-- a Python set built by successive `add`s, as a duplicate-free list -/
def dedup : List Name → List Name
  | [] => []
  | a :: l => let r := dedup l; if r.contains a then r else a :: r

/-- the names one entry of a `members` list contributes (`_expand_families`, loop body) -/
def expandOne (allTasks : List Name) (desc : Desc) (mem : Name) : List Name :=
  if isFam desc mem then
    (descOf desc mem).filter fun f => !isFam desc f && allTasks.contains f
  else if allTasks.contains mem then [mem] else []

/-- `_expand_families` for one queue: the member set -/
def expandMembers (allTasks : List Name) (desc : Desc) (raw : List Name) : List Name :=
  dedup (raw.flatMap (expandOne allTasks desc))

/-- One limited queue (`LimitedTaskQueue`) together with its name in `IndepQueueManager.queues`. -/
structure LQ where
  name : Name
  limit : Nat
  members : List Name
  deque : List Nat
deriving Repr, DecidableEq, Inhabited

/-- `queues[qn]["members"].remove(m)` (KeyError suppressed / impossible) -/
def rmMem (qs : List LQ) (qn m : Name) : List LQ :=
  qs.map fun q => if q.name == qn then { q with members := q.members.filter (· != m) } else q

abbrev Seen := List (Name × Name)

def seenGet (s : Seen) (m : Name) : Option Name := (s.find? fun e => e.1 == m).map (·.2)

/-- body of the inner loop of `_make_indep` for member `m` of the non-default queue `qname`.
`queues[qname]["members"].add(m)` in the `else` branch is a no-op (`m` comes from that very set). -/
def indepMem (qname : Name) (st : List LQ × Seen) (m : Name) : List LQ × Seen :=
  let qs := rmMem st.1 qDefault m        -- no effect when "default" has not been iterated yet
  let qs := match seenGet st.2 m with
    | some oldq => rmMem qs oldq m
    | none => qs
  (qs, (m, qname) :: st.2)

/-- body of the outer loop of `_make_indep` -/
def indepQueue (st : List LQ × Seen) (q : QCfg) : List LQ × Seen :=
  let qs := st.1 ++ [{ name := q.name, limit := q.limit, members := q.members, deque := [] }]
  if q.name == qDefault then (qs, st.2) else q.members.foldl (indepMem q.name) (qs, st.2)

def makeIndep (expanded : List QCfg) : List LQ := (expanded.foldl indepQueue ([], [])).1

/-- `IndepQueueManager.__init__`; `none` = `KeyError` (no "default" entry in the config). -/
def mk (cfg : List QCfg) (allTasks : List Name) (desc : Desc) : Option (List LQ) :=
  if cfg.any (·.name == qDefault) then
    let cfg1 := cfg.map fun q => if q.name == qDefault then { q with members := allTasks } else q
    some (makeIndep (cfg1.map fun q => { q with members := expandMembers allTasks desc q.members }))
  else none

/-! ### active-task counter -/

abbrev Active := List (Name × Nat)

def aGet (a : Active) (n : Name) : Nat :=
  match a.find? fun e => e.1 == n with
  | some e => e.2
  | none => 0

/-- `active.update({name: 1})` -/
def aIncr (a : Active) (n : Name) : Active := (n, aGet a n + 1) :: a

def nActive (a : Active) (members : List Name) : Nat := (members.map (aGet a)).sum

/-! ### LimitedTaskQueue.release -/

/-- what `release` does with the held tasks it popped: the code re-queues them at the *left*
(newest) end (`rotate`); `keep` leaves them where they were. The policy of the code under
test is determined by `Generated/QueueConsts.lean`. -/
inductive HeldPolicy | rotate | keep
deriving Repr, DecidableEq, Inhabited

/-- the policy of the code under test (probed by `translate()` on the real `release`) -/
def codePolicy : HeldPolicy := if heldRotates then .rotate else .keep

structure Popped where
  released : List Nat
  held : List Nat
  rest : List Nat
  active : Active
deriving Repr

/-- the `while` loop of `release`: pops from the head while below the limit -/
def releaseLoop (limit : Nat) (isHeld : Nat → Bool) (nameOf : Nat → Name) :
    List Nat → Nat → Active → Popped
  | [], _, a => ⟨[], [], [], a⟩
  | t :: ts, n, a =>
    if limit == 0 || n < limit then
      if isHeld t then
        let r := releaseLoop limit isHeld nameOf ts n a
        { r with held := t :: r.held }
      else
        let r := releaseLoop limit isHeld nameOf ts (n + 1) (aIncr a (nameOf t))
        { r with released := t :: r.released }
    else ⟨[], [], t :: ts, a⟩

def requeue (pol : HeldPolicy) (held rest : List Nat) : List Nat :=
  match pol with
  | .rotate => rest ++ held     -- `for itask in held: self.deque.appendleft(itask)`
  | .keep => held ++ rest

/-- `LimitedTaskQueue.release(active)` → (queue, released, active) -/
def releaseQ (pol : HeldPolicy) (isHeld : Nat → Bool) (nameOf : Nat → Name) (q : LQ) (a : Active) :
    LQ × List Nat × Active :=
  let r := releaseLoop q.limit isHeld nameOf q.deque (nActive a q.members) a
  ({ q with deque := requeue pol r.held r.rest }, r.released, r.active)

/-- `IndepQueueManager.release_tasks(active)`: the counter is shared between the queues -/
def releaseAll (pol : HeldPolicy) (isHeld : Nat → Bool) (nameOf : Nat → Name) :
    List LQ → Active → List LQ × List Nat
  | [], _ => ([], [])
  | q :: qs, a =>
    let r := releaseQ pol isHeld nameOf q a
    let rs := releaseAll pol isHeld nameOf qs r.2.2
    (r.1 :: rs.1, r.2.1 ++ rs.2)

/-! ### the other operations -/

/-- `push_task`: every queue that lists the name gets the task -/
def pushAll (name : Name) (t : Nat) (qs : List LQ) : List LQ :=
  qs.map fun q => if q.members.contains name then { q with deque := q.deque ++ [t] } else q

/-- `push_task_if_limited`: `any(...)` stops at the first queue that took the task -/
def pushIfLimited (name : Name) (t : Nat) (a : Active) : List LQ → List LQ × Bool
  | [] => ([], false)
  | q :: qs =>
    if q.limit != 0 && decide (nActive a q.members ≥ q.limit) && q.members.contains name then
      ({ q with deque := q.deque ++ [t] } :: qs, true)
    else
      let r := pushIfLimited name t a qs
      (q :: r.1, r.2)

/-- `deque.remove(x)` removes the first occurrence from the left = the newest one -/
def removeNewest (l : List Nat) (t : Nat) : List Nat := (l.reverse.erase t).reverse

/-- `remove_task`: `any(...)` stops at the first queue that held the task -/
def removeTask (t : Nat) : List LQ → List LQ × Bool
  | [] => ([], false)
  | q :: qs =>
    if q.deque.contains t then ({ q with deque := removeNewest q.deque t } :: qs, true)
    else
      let r := removeTask t qs
      (q :: r.1, r.2)

/-- `adopt_tasks`: `self.queues["default"].members.update(orphans)` -/
def adopt (orphans : List Name) (qs : List LQ) : List LQ :=
  qs.map fun q =>
    if q.name == qDefault then
      { q with members := q.members ++ (dedup orphans).filter fun o => !q.members.contains o }
    else q

/-! ### the component as a state machine -/

structure State where
  queues : List LQ
  held : List Nat
deriving Repr

inductive Op
  | push (t : Nat)
  | pushIfLimited (t : Nat) (active : Active)
  | release (active : Active)
  | remove (t : Nat)
  | hold (t : Nat)
  | unhold (t : Nat)
  | adopt (orphans : List Name)
deriving Repr, DecidableEq, Inhabited

inductive Out
  | unit
  | bool (b : Bool)
  | ids (l : List Nat)
deriving Repr, DecidableEq, Inhabited

def nameOf (names : List Name) (t : Nat) : Name := names.getD t ""

def step (pol : HeldPolicy) (names : List Name) (s : State) : Op → State × Out
  | .push t => ({ s with queues := pushAll (nameOf names t) t s.queues }, .unit)
  | .pushIfLimited t a =>
    let r := pushIfLimited (nameOf names t) t a s.queues
    ({ s with queues := r.1 }, .bool r.2)
  | .release a =>
    let r := releaseAll pol (fun t => s.held.contains t) (nameOf names) s.queues a
    ({ s with queues := r.1 }, .ids r.2)
  | .remove t =>
    let r := removeTask t s.queues
    ({ s with queues := r.1 }, .bool r.2)
  | .hold t => ({ s with held := if s.held.contains t then s.held else t :: s.held }, .unit)
  | .unhold t => ({ s with held := s.held.filter (· != t) }, .unit)
  | .adopt os => ({ s with queues := adopt os s.queues }, .unit)

def run (pol : HeldPolicy) (names : List Name) : State → List Op → List Out
  | _, [] => []
  | s, op :: ops => let r := step pol names s op; r.2 :: run pol names r.1 ops

/-! ## Specification: property C05 as a judge over observations

"Each task name belongs to exactly one internal queue (the last queue that lists it, else the
default queue), and a queue never releases a task while the number of its [active] members is at
its limit. Queued tasks are released in the order they were queued, skipping held ones."

The judge sees the configuration, the operation history and what the implementation answered;
it keeps its own picture of what is queued (ids in the order they were queued) and never
calls a model function above.
-/
namespace Spec

/-- queue `q` lists task `n`: by name, or through a family that `n` is a (task) descendant of -/
def lists (allTasks : List Name) (desc : Desc) (q : QCfg) (n : Name) : Bool :=
  allTasks.contains n && q.members.any fun m =>
    if isFam desc m then !isFam desc n && (descOf desc m).contains n else m == n

/-- the queue a task name must belong to: the last non-default queue that lists it, else default -/
def expectedQueue (cfg : List QCfg) (allTasks : List Name) (desc : Desc) (n : Name) : Name :=
  match (cfg.filter fun q => q.name != qDefault && lists allTasks desc q n).getLast? with
  | some q => q.name
  | none => qDefault

structure Input where
  cfg : List QCfg
  allTasks : List Name
  desc : Desc
  names : List Name          -- task id ↦ task name
  ops : List Op
deriving Repr

/-- what is observed of the manager after construction: per queue its name and member set -/
abbrev ObsQueues := List (Name × List Name)

inductive Fail
  | membership (n : Name) (got : List Name) (want : Name)
  | shape (k : Nat)                               -- k-th answer has the wrong kind
  | notQueued (k : Nat) (t : Nat)                 -- released a task that is not queued
  | releasedHeld (k : Nat) (t : Nat)
  | releasedTwice (k : Nat) (t : Nat)
  | overLimit (k : Nat) (q : Name) (active released limit : Nat)
  | order (k : Nat) (q : Name) (released releasable : List Nat) (known : Bool)
deriving Repr, DecidableEq

/-- membership part: every task name is in exactly one queue, the expected one -/
def checkMembership (cfg : List QCfg) (allTasks : List Name) (desc : Desc) (obs : ObsQueues) :
    Option Fail :=
  allTasks.findSome? fun n =>
    let got := (obs.filter fun q => q.2.contains n).map (·.1)
    let want := expectedQueue cfg allTasks desc n
    if got == [want] then none else some (.membership n got want)

structure St where
  queued : List Nat := []       -- ids of queued tasks, in the order they were queued (all queues)
  held : List Nat := []
  adopted : List Name := []
  skipped : List Nat := []      -- queued tasks that were held during an earlier release of their queue
deriving Repr

/-- the queue a name belongs to (adopted orphans belong to the default queue) -/
def queueOf (i : Input) (adopted : List Name) (n : Name) : Option Name :=
  if i.allTasks.contains n then some (expectedQueue i.cfg i.allTasks i.desc n)
  else if adopted.contains n then some qDefault
  else none

def taskQueue (i : Input) (s : St) (t : Nat) : Option Name := queueOf i s.adopted (nameOf i.names t)

/-- number of active members of queue `q` according to the counter handed to the call -/
def activeIn (i : Input) (s : St) (q : Name) (a : Active) : Nat :=
  (((dedup (i.allTasks ++ s.adopted)).filter fun n => queueOf i s.adopted n == some q).map (aGet a)).sum

/-- an element that occurs twice -/
def firstDup? : List Nat → Option Nat
  | [] => none
  | a :: l => if l.contains a then some a else firstDup? l

/-- `l` starts with `p` -/
def isPrefix : List Nat → List Nat → Bool
  | [], _ => true
  | _ :: _, [] => false
  | a :: p, b :: l => a == b && isPrefix p l

/-- the tasks of queue `qn` among the released ones -/
def releasedOf (i : Input) (s : St) (rel : List Nat) (qn : Name) : List Nat :=
  rel.filter fun t => taskQueue i s t == some qn

/-- the queued tasks of queue `qn` that are not held, in the order they were queued -/
def releasable (i : Input) (s : St) (qn : Name) : List Nat :=
  s.queued.filter fun t => taskQueue i s t == some qn && !s.held.contains t

/-- a queue with `act` active members may release `n` tasks: unlimited, or nothing released, or
still within the limit afterwards -/
def limitOk (limit act n : Nat) : Bool := limit == 0 || n == 0 || decide (act + n ≤ limit)

/-- checks of one `release` answer for one configured queue -/
def checkQueueRelease (i : Input) (s : St) (k : Nat) (a : Active) (rel : List Nat) (q : QCfg) :
    Option Fail :=
  let relQ := releasedOf i s rel q.name
  let act := activeIn i s q.name a
  if !limitOk q.limit act relQ.length then
    some (.overLimit k q.name act relQ.length q.limit)
  else if isPrefix relQ (releasable i s q.name) then none
  else
    -- label for the recorded finding: the order is right once the tasks that an earlier release
    -- passed over while they were held are left out
    let cand := releasable i s q.name
    let fresh := fun t => !s.skipped.contains t
    let known := relQ.all (cand.contains ·) && isPrefix (relQ.filter fresh) (cand.filter fresh)
    some (.order k q.name relQ cand known)

/-- (only used to label a failure as the recorded finding) the release loop of the queue of the
held task `t` ran in this call, i.e. the queue was below its limit when the call started -/
def passedOver (i : Input) (s : St) (a : Active) (t : Nat) : Bool :=
  match taskQueue i s t with
  | none => false
  | some qn =>
    let limit : Nat := ((i.cfg.find? (·.name == qn)).map (·.limit)).getD 0
    limit == 0 || decide (activeIn i s qn a < limit)

/-- one step of the judge: operation, the implementation's answer, position in the history -/
def stepJudge (i : Input) (s : St) (k : Nat) : Op → Out → Except Fail St
  | .push t, .unit =>
    .ok (if (taskQueue i s t).isSome then { s with queued := s.queued ++ [t] } else s)
  | .pushIfLimited t _, .bool b =>
    .ok (if b then { s with queued := s.queued ++ [t] } else s)
  | .remove t, .bool _ =>
    .ok { s with queued := s.queued.filter (· != t), skipped := s.skipped.filter (· != t) }
  | .hold t, .unit => .ok { s with held := if s.held.contains t then s.held else t :: s.held }
  | .unhold t, .unit => .ok { s with held := s.held.filter (· != t) }
  | .adopt os, .unit => .ok { s with adopted := s.adopted ++ os }
  | .release a, .ids rel =>
    match rel.find? (fun t => !s.queued.contains t) with
    | some t => .error (.notQueued k t)
    | none =>
    match rel.find? (fun t => s.held.contains t) with
    | some t => .error (.releasedHeld k t)
    | none =>
    match firstDup? rel with
    | some t => .error (.releasedTwice k t)
    | none =>
    match i.cfg.findSome? (checkQueueRelease i s k a rel) with
    | some f => .error f
    | none =>
      let rest := s.queued.filter fun t => !rel.contains t
      .ok { s with
        queued := rest
        skipped := (s.skipped.filter fun t => !rel.contains t) ++
          rest.filter fun t => s.held.contains t && !s.skipped.contains t && passedOver i s a t }
  | _, _ => .error (.shape k)

def runJudge (i : Input) : St → Nat → List Op → List Out → Except Fail Unit
  | _, _, [], [] => .ok ()
  | s, k, op :: ops, o :: outs =>
    match stepJudge i s k op o with
    | .ok s' => runJudge i s' (k + 1) ops outs
    | .error f => .error f
  | _, k, _, _ => .error (.shape k)

/-- the whole judge -/
def judge (i : Input) (obsQueues : ObsQueues) (outs : List Out) : Except Fail Unit :=
  match checkMembership i.cfg i.allTasks i.desc obsQueues with
  | some f => .error f
  | none => runJudge i {} 0 i.ops outs

/-- Histories the property speaks about (what `TaskPool` guarantees): a task is only queued when
it is certainly not in a queue (never queued before, or removed since: `is_queued`), queued
proxies are instances of task names or of adopted orphans, and adopted orphans are not task
names. State: ids that may be queued, names adopted so far. -/
def wfStep (allTasks names : List Name) (w : List Nat × List Name) : Op → Option (List Nat × List Name)
  | .push t =>
    if w.1.contains t || !(allTasks.contains (nameOf names t) || w.2.contains (nameOf names t)) then none
    else some (t :: w.1, w.2)
  | .pushIfLimited t _ =>
    if w.1.contains t || !(allTasks.contains (nameOf names t) || w.2.contains (nameOf names t)) then none
    else some (t :: w.1, w.2)
  | .remove t => some (w.1.filter (· != t), w.2)
  | .adopt os => if os.all (fun o => !allTasks.contains o) then some (w.1, w.2 ++ os) else none
  | _ => some w

def wfOps (allTasks names : List Name) : List Nat × List Name → List Op → Bool
  | _, [] => true
  | w, op :: ops =>
    match wfStep allTasks names w op with
    | some w' => wfOps allTasks names w' ops
    | none => false

end Spec

end CylcModel.Queue
