/-
Refinement of the `Sched` model to a small system of *atomic actions* (`Act`), and the inductive
invariants behind C01 (graph-faithful execution), C02 (no double submission, retries) and C31
(sequential tasks).

Every primitive of the model (`spawnAndAdd`, `releaseRunahead`, `queueIfReady`, `releaseAndSubmit`,
`spawnOnOutput`, `processMessage`, `mainLoop`, `step`, `init` …) is shown to be a finite sequence of
atomic actions (`Steps`).  The invariants are then proved once, by cases on the atomic action, and
transported to all states of all runs.
-/
import CylcModel.SchedLemmas
import CylcModel.SchedHypC01

namespace CylcModel.Sched

/-! ### Pool look-up basics -/

theorem get?_some_spec {s : State} {p : Int} {n : String} {x : Proxy} (h : s.get? p n = some x) :
    x ∈ s.pool ∧ x.pt = p ∧ x.name = n := by
  unfold State.get? at h
  have hm := List.mem_of_find?_eq_some h
  have hp := List.find?_some h
  simp only [Bool.and_eq_true, beq_iff_eq] at hp
  exact ⟨hm, hp.1, hp.2⟩

theorem get?_isSome_of_mem {s : State} {x : Proxy} (h : x ∈ s.pool) : (s.get? x.pt x.name).isSome := by
  unfold State.get?
  rw [List.find?_isSome]
  exact ⟨x, h, by simp⟩

theorem get?_none_of {s : State} {p : Int} {n : String} (h : s.get? p n = none) :
    ∀ x ∈ s.pool, ¬ (x.pt = p ∧ x.name = n) := by
  intro x hx hk
  unfold State.get? at h
  have := List.find?_eq_none.mp h x hx
  simp [hk.1, hk.2] at this

/-- with distinct keys, membership determines the look-up -/
theorem get?_of_mem_nodup {s : State} (hn : NoDup s) {x : Proxy} (h : x ∈ s.pool) :
    s.get? x.pt x.name = some x := by
  unfold NoDup keys at hn
  unfold State.get?
  generalize s.pool = l at hn h
  induction l with
  | nil => cases h
  | cons a l ih =>
    simp only [List.map_cons, List.nodup_cons] at hn
    rcases List.mem_cons.mp h with rfl | h'
    · simp
    · have hne : ¬ (a.pt = x.pt ∧ a.name = x.name) := by
        intro hk
        apply hn.1
        rw [hk.1, hk.2]
        exact List.mem_map.mpr ⟨x, h', rfl⟩
      have : (a.pt == x.pt && a.name == x.name) = false := by
        cases hb : (a.pt == x.pt && a.name == x.name)
        · rfl
        · simp only [Bool.and_eq_true, beq_iff_eq] at hb; exact absurd hb hne
      rw [List.find?_cons, this]
      exact ih hn.2 h'

theorem mem_put {s : State} {y z : Proxy} (h : z ∈ (s.put y).pool) : z = y ∨ z ∈ s.pool := by
  unfold State.put at h
  simp only at h
  obtain ⟨w, hw, rfl⟩ := List.mem_map.mp h
  split
  · exact Or.inl rfl
  · exact Or.inr hw

theorem get?_put_same {s : State} {x y : Proxy} (h : s.get? y.pt y.name = some x) :
    (s.put y).get? y.pt y.name = some y := by
  unfold State.get? State.put at *
  simp only
  generalize s.pool = l at h
  induction l with
  | nil => simp at h
  | cons a l ih =>
    simp only [List.map_cons, List.find?_cons] at h ⊢
    by_cases hk : (a.pt == y.pt && a.name == y.name) = true
    · simp [hk]
    · simp only [hk, Bool.false_eq_true, if_false]
      simp only [Bool.not_eq_true] at hk
      rw [hk] at h
      exact ih h

theorem get?_put_other {s : State} {y : Proxy} {p : Int} {n : String} (hk : ¬ (y.pt = p ∧ y.name = n)) :
    (s.put y).get? p n = s.get? p n := by
  unfold State.get? State.put
  simp only
  generalize s.pool = l
  induction l with
  | nil => rfl
  | cons a l ih =>
    simp only [List.map_cons, List.find?_cons]
    by_cases ha : (a.pt == y.pt && a.name == y.name) = true
    · simp only [ha, if_true]
      have hay := ha
      simp only [Bool.and_eq_true, beq_iff_eq] at hay
      have h1 : (y.pt == p && y.name == n) = false := by
        cases hb : (y.pt == p && y.name == n)
        · rfl
        · simp only [Bool.and_eq_true, beq_iff_eq] at hb; exact absurd hb hk
      have h2 : (a.pt == p && a.name == n) = false := by rw [hay.1, hay.2]; exact h1
      rw [h1, h2]; exact ih
    · simp only [ha, Bool.false_eq_true, if_false]
      cases hb : (a.pt == p && a.name == n)
      · exact ih
      · rfl

theorem put_pool_of_get? {s : State} {x : Proxy} (hn : NoDup s) (h : s.get? x.pt x.name = some x) :
    (s.put x).pool = s.pool := by
  unfold State.put
  simp only
  have : ∀ y ∈ s.pool, (if (y.pt == x.pt && y.name == x.name) = true then x else y) = y := by
    intro y hy
    split
    · rename_i hk
      simp only [Bool.and_eq_true, beq_iff_eq] at hk
      have h1 := get?_of_mem_nodup hn hy
      rw [hk.1, hk.2, h] at h1
      exact (Option.some.inj h1)
    · rfl
  calc s.pool.map _ = s.pool.map id := List.map_congr_left this
    _ = s.pool := List.map_id _

theorem get?_append_of_some {s : State} {p : Int} {n : String} {x : Proxy} (l : List Proxy)
    (h : s.get? p n = some x) : ({ s with pool := s.pool ++ l } : State).get? p n = some x := by
  unfold State.get? at *
  simp only
  rw [List.find?_append, h]; rfl

theorem get?_append_of_none {s : State} {p : Int} {n : String} (y : Proxy)
    (h : s.get? p n = none) :
    ({ s with pool := s.pool ++ [y] } : State).get? p n = if y.pt == p && y.name == n then some y else none := by
  unfold State.get? at *
  simp only
  rw [List.find?_append, h]
  cases hb : (y.pt == p && y.name == n) <;> simp [List.find?_cons, hb]

/-! ### Atomic actions -/

def maxExec (g : Graph) (n : String) : Nat := match g.task? n with | some t => t.execRetries | none => 0
def maxSub (g : Graph) (n : String) : Nat := match g.task? n with | some t => t.subRetries | none => 0

/-- output `a.out` of instance `(a.pt, a.task)` is recorded complete: on the pooled proxy or in the history
of removed instances -/
def completedB (s : State) (a : Atom) : Bool :=
  s.pool.any (fun x => x.pt == a.pt && x.name == a.task && x.done.contains a.out) ||
  s.hist.any (fun h => h.pt == a.pt && h.name == a.task && h.done.contains a.out)

/-- justification of a satisfied prerequisite atom -/
def justB (s : State) (a : Atom) : Bool := s.absDone.contains a || completedB s a

def nextPl (g : Graph) (n : String) (q : Int) : Option Int := do
  let t ← g.task? n
  let d ← t.inst? q
  d.nextParentless

theorem nextParentless_eq (g : Graph) (x : Proxy) : nextParentless g x = nextPl g x.name x.pt := rfl

/-- graph children of output `out` of instance `(q, u)` -/
def childrenAt (g : Graph) (u : String) (q : Int) (out : String) : List Child :=
  match (g.task? u).bind (·.inst? q) with
  | none => []
  | some d => match d.children.find? (·.1 == out) with
    | some (_, cs) => cs
    | none => []

theorem childrenOf_eq (g : Graph) (x : Proxy) (out : String) : childrenOf g x out = childrenAt g x.name x.pt out := rfl

/-- the proxy as it leaves `releaseAndSubmit` -/
def launchOf (x : Proxy) : Proxy :=
  { ((x.reset (queued := some false)).reset (status := some .preparing)) with submitNum := x.submitNum + 1 }

/-- why an instance may be spawned: a parentless point of its task, or a graph child of a completed output -/
def SpawnWhy (g : Graph) (s : State) (n : String) (p : Int) : Prop :=
  (∃ t ∈ g.tasks, t.name = n ∧ t.firstParentless = some p) ∨
  (∃ q, nextPl g n q = some p) ∨
  (∃ (q : Int) (u out : String) (c : Child), c ∈ childrenAt g u q out ∧ c.name = n ∧ c.pt = p ∧
      completedB s ⟨q, u, out⟩ = true)

/-- which atomic actions are admitted: `allow` guards the handling of a submission failure (the environment
assumption "the job-submit callback reports failure only for a job that is still preparing" is
`allow x = (x.status == .preparing)`); `msg` the updates driven by a job message, per proxy; `sched` the updates
made by the scheduler's own sweep (runahead release, queueing, retry wake-up) and launches -/
structure Kinds where
  allow : Proxy → Bool
  msg : Proxy → Bool
  sched : Bool
  /-- status-changing message updates (started, succeeded, failed) permitted on this proxy -/
  live : Proxy → Bool := fun _ => true
  /-- retries (back to waiting) permitted -/
  retry : Bool := true
  /-- removal of an instance that is not finished-and-complete (suicide trigger) permitted -/
  sui : Bool := true

/-- everything admitted -/
def Kinds.all : Kinds := ⟨fun _ => true, fun _ => true, true, fun _ => true, true, true⟩

/-- `K` admits at least what `K'` admits -/
def Kinds.le (K' K : Kinds) : Prop :=
  (∀ x, K'.allow x = true → K.allow x = true) ∧ (∀ x, K'.msg x = true → K.msg x = true) ∧
  (K'.sched = true → K.sched = true) ∧ (∀ x, K'.live x = true → K.live x = true) ∧ (K'.retry = true → K.retry = true) ∧
  (K'.sui = true → K.sui = true)

/-- atomic updates of one pooled proxy -/
inductive Upd (g : Graph) (K : Kinds) (s : State) : Proxy → Proxy → Prop
  | refl (x : Proxy) : Upd g K s x x
  | setc (x : Proxy) (msg : String) (h1 : msg ≠ "failed") (h2 : msg ≠ "submit-failed") (hm : K.msg x = true) :
      Upd g K s x (setComplete g x msg).1
  | running (x : Proxy) (hm : K.msg x = true) (hl : K.live x = true) : Upd g K s x { (x.reset (status := some .running)) with subTry := 0 }
  | succeeded (x : Proxy) (hm : K.msg x = true) (hl : K.live x = true) : Upd g K s x (x.reset (status := some .succeeded))
  | execRetry (x : Proxy) (h : x.submitNum > 0 ∧ x.execTry < maxExec g x.name) (hm : K.msg x = true)
      (hl : K.live x = true) (hr : K.retry = true) :
      Upd g K s x { (x.reset (status := some .waiting)) with execTry := x.execTry + 1, retryWait := true }
  | failedFinal (x : Proxy) (h : ¬ (x.submitNum > 0 ∧ x.execTry < maxExec g x.name)) (hm : K.msg x = true)
      (hl : K.live x = true) :
      Upd g K s x
        (if (x.status != .failed) = true then setComplete g (x.reset (status := some .failed)) "failed"
         else (x.reset (status := some .failed), none)).1
  | subRetry (x : Proxy) (ha : K.allow x = true) (h : x.submitNum > 0 ∧ x.subTry < maxSub g x.name)
      (hm : K.msg x = true) (hr : K.retry = true) :
      Upd g K s x { (x.reset (status := some .waiting)) with subTry := x.subTry + 1, retryWait := true }
  | subFailedFinal (x : Proxy) (ha : K.allow x = true) (h : ¬ (x.submitNum > 0 ∧ x.subTry < maxSub g x.name))
      (hm : K.msg x = true) :
      Upd g K s x
        (if (x.status != .submitFailed) = true then setComplete g (x.reset (status := some .submitFailed)) "submit-failed"
         else (x.reset (status := some .submitFailed), none)).1
  | submitted (x : Proxy) (h : x.status = .preparing) (hm : K.msg x = true) :
      Upd g K s x ((x.reset (status := some .submitted)).reset (queued := some false))
  | satisfy (x : Proxy) (a : Atom) (h : justB s a = true) : Upd g K s x (x.satisfyMe a)
  | release (x : Proxy) (hs : K.sched = true) : Upd g K s x (x.reset (runahead := some false))
  | queue (x : Proxy) (h : (!x.queued && !x.runahead && x.isReadyToRun) = true) (hs : K.sched = true) :
      Upd g K s x (x.reset (queued := some true))
  | unwait (x : Proxy) (h : (x.status == .waiting && !x.queued && !x.runahead) = true) (hs : K.sched = true) :
      Upd g K s x { x with retryWait := false }

/-- the tracked components other than the pool are unchanged -/
def Same (s s' : State) : Prop := s'.hist = s.hist ∧ s'.absDone = s.absDone ∧ s'.launched = s.launched

theorem Same.rfl' (s : State) : Same s s := ⟨rfl, rfl, rfl⟩

inductive Act (g : Graph) (K : Kinds) : State → State → Prop
  | frame {s s' : State} (hp : s'.pool = s.pool) (hs : Same s s') : Act g K s s'
  | upd {s s' : State} (x y : Proxy) (hg : s.get? y.pt y.name = some x) (hu : Upd g K s x y)
      (hp : s'.pool = (s.put y).pool) (hs : Same s s') : Act g K s s'
  | launch {s s' : State} (x : Proxy) (hg : s.get? x.pt x.name = some x) (hq : x.queued = true)
      (hp : s'.pool = (s.put (launchOf x)).pool) (hh : s'.hist = s.hist) (ha : s'.absDone = s.absDone)
      (hl : s'.launched = s.launched ++ [(x.pt, x.name, x.submitNum + 1)]) (hs : K.sched = true) : Act g K s s'
  | spawn {s s' : State} (y0 y : Proxy) (hg : s.get? y.pt y.name = none)
      (hsp : spawnTask g s y.name y.pt = some y0)
      (hy : y = y0 ∨ ∃ a, justB s a = true ∧ y = y0.satisfyMe a)
      (hw : SpawnWhy g s y.name y.pt)
      (hp : s'.pool = s.pool ++ [y]) (hs : Same s s') : Act g K s s'
  | remove {s s' : State} (x : Proxy) (hg : s.get? x.pt x.name = some x)
      (hp : s'.pool = s.pool.filter (fun y => !(y.pt == x.pt && y.name == x.name)))
      (hh : s'.hist = s.hist ++ [⟨x.pt, x.name, x.status, x.submitNum, x.done⟩])
      (ha : s'.absDone = s.absDone) (hl : s'.launched = s.launched)
      (hr : histFinal g ⟨x.pt, x.name, x.status, x.submitNum, x.done⟩ = true ∨ K.sui = true) : Act g K s s'
  | absAdd {s s' : State} (a : Atom) (hc : completedB s a = true) (hp : s'.pool = s.pool)
      (hh : s'.hist = s.hist) (ha : s'.absDone = s.absDone ++ [a]) (hl : s'.launched = s.launched) :
      Act g K s s'
  | clearUpd {s s' : State} (hp : s'.pool = s.pool.map fun x => { x with upd := false }) (hs : Same s s') :
      Act g K s s'

inductive Steps (g : Graph) (K : Kinds) : State → State → Prop
  | refl (s : State) : Steps g K s s
  | tail {s s' s'' : State} : Steps g K s s' → Act g K s' s'' → Steps g K s s''

theorem Steps.trans {g : Graph} {K : Kinds} {a b c : State}
    (h1 : Steps g K a b) (h2 : Steps g K b c) : Steps g K a c := by
  induction h2 with
  | refl => exact h1
  | tail _ hact ih => exact Steps.tail ih hact

theorem Steps.single {g : Graph} {K : Kinds} {a b : State} (h : Act g K a b) :
    Steps g K a b := Steps.tail (Steps.refl a) h

/-- a property preserved by every action is preserved by every sequence of actions -/
theorem Steps.inv {g : Graph} {K : Kinds} (P : State → Prop)
    (hact : ∀ s s', P s → Act g K s s' → P s') {a b : State} (h : Steps g K a b) (ha : P a) : P b := by
  induction h with
  | refl => exact ha
  | tail _ hact' ih => exact hact _ _ ih hact'

theorem steps_foldl {g : Graph} {K : Kinds} {α : Type} (P : State → Prop)
    (hP : ∀ s s', P s → Act g K s s' → P s')
    (f : State → α → State) (hf : ∀ s a, P s → Steps g K s (f s a)) :
    ∀ (l : List α) (s : State), P s → Steps g K s (l.foldl f s) := by
  intro l; induction l with
  | nil => intro s _; exact Steps.refl s
  | cons a l ih =>
    intro s hs
    have h1 := hf s a hs
    exact h1.trans (ih _ (Steps.inv P hP h1 hs))


/-! ### Specifications of the proxy constructors -/

theorem mkProxy_spec {g : Graph} {n : String} {p : Int} {x : Proxy} (h : mkProxy g n p = some x) :
    ∃ t d, g.task? n = some t ∧ t.inst? p = some d ∧ g.icp ≤ p ∧ p ≤ g.fcp ∧
      x = { pt := p, name := n, pre := d.pre, sui := d.sui } := by
  unfold mkProxy at h
  cases ht : g.task? n with
  | none => simp [ht] at h
  | some t =>
    simp only [ht, Option.bind_eq_bind, Option.bind_some] at h
    by_cases hb : (decide (p < g.icp) || decide (p > g.fcp)) = true
    · simp [hb] at h
    · simp only [hb, Bool.false_eq_true, if_false] at h
      cases hd : t.inst? p with
      | none => simp [hd] at h
      | some d =>
        simp only [hd, Option.bind_some, Option.pure_def, Option.some.injEq] at h
        simp only [Bool.or_eq_true, decide_eq_true_eq, not_or, Int.not_lt] at hb
        refine ⟨t, d, rfl, hd, ?_, ?_, h.symm⟩ <;> omega

/-- the fields of a proxy other than its prerequisites -/
def Proxy.core (x : Proxy) : Int × String × Status × Bool × Bool × Bool × List Nat × Nat × List String × Nat × Nat × Bool :=
  (x.pt, x.name, x.status, x.held, x.queued, x.runahead, x.flows, x.submitNum, x.done, x.execTry, x.subTry, x.retryWait)

theorem core_satisfyMe (x : Proxy) (a : Atom) : (x.satisfyMe a).core = x.core := rfl

theorem core_foldl_satisfyMe (l : List Atom) : ∀ x : Proxy, (l.foldl (fun z a => z.satisfyMe a) x).core = x.core := by
  induction l with
  | nil => intro x; rfl
  | cons a l ih => intro x; simp only [List.foldl_cons]; rw [ih]; rfl

def lastHist (s : State) (n : String) (p : Int) : Option Hist :=
  (s.hist.filter fun h => h.pt == p && h.name == n).getLast?

theorem lastHist_mem {s : State} {n : String} {p : Int} {h : Hist} (hl : lastHist s n p = some h) :
    h ∈ s.hist ∧ h.pt = p ∧ h.name = n := by
  unfold lastHist at hl
  have hm := List.mem_of_getLast? hl
  have := List.mem_filter.mp hm
  simp only [Bool.and_eq_true, beq_iff_eq] at this
  exact ⟨this.1, this.2.1, this.2.2⟩

/-- what `spawnTask` returns: a fresh proxy of a valid instance, or the revival of the latest history
record of the instance (not finished-and-complete, not output-less), with prerequisites satisfied only by
recorded absolute outputs -/
theorem spawnTask_spec {g : Graph} {s : State} {n : String} {p : Int} {y : Proxy} (h : spawnTask g s n p = some y) :
    ∃ x0 y1, mkProxy g n p = some x0 ∧
      ((lastHist s n p = none ∧ g.start ≤ p ∧ y1 = x0) ∨
       (∃ hr, lastHist s n p = some hr ∧ hr.done ≠ [] ∧
          y1 = { x0 with status := hr.status, submitNum := hr.submitNum, done := hr.done })) ∧
      (y = y1 ∨ y = s.absDone.foldl (fun z a => z.satisfyMe a) y1) := by
  unfold spawnTask at h
  simp only at h
  change (if ((lastHist s n p).isNone && decide (p < g.start)) = true then none else _) = some y at h
  split at h
  · cases h
  · rename_i hcond
    cases hm : mkProxy g n p with
    | none => simp [hm] at h
    | some x0 =>
      simp only [hm] at h
      cases hl : lastHist s n p with
      | none =>
        change (lastHist s n p) = none at hl
        have hl' : (List.filter (fun h => h.pt == p && h.name == n) s.hist).getLast? = none := hl
        simp only [hl', Option.map_some, Option.some.injEq] at h
        refine ⟨x0, x0, rfl, Or.inl ⟨rfl, ?_, rfl⟩, ?_⟩
        · simp [hl] at hcond; omega
        · split at h
          · split at h
            · exact Or.inr h.symm
            · exact Or.inl h.symm
          · exact Or.inl h.symm
      | some hr =>
        have hl' : (List.filter (fun h => h.pt == p && h.name == n) s.hist).getLast? = some hr := hl
        simp only [hl'] at h
        by_cases he : hr.done.isEmpty = true
        · simp [he] at h
        · simp only [he, Bool.false_eq_true, if_false] at h
          have hne : hr.done ≠ [] := by intro hh; simp [hh] at he
          -- whichever branch revives, the revived proxy is the same record
          have key : ∀ (r : Option Proxy),
              (r = none ∨ r = some { x0 with status := hr.status, submitNum := hr.submitNum, done := hr.done }) →
              (r.map fun y =>
                match g.task? n with
                | some t => if (t.hasAbs && !y.prereqsSatisfied) = true then s.absDone.foldl (fun z a => z.satisfyMe a) y else y
                | none => y) = some y →
              ∃ y1, y1 = { x0 with status := hr.status, submitNum := hr.submitNum, done := hr.done } ∧
                (y = y1 ∨ y = s.absDone.foldl (fun z a => z.satisfyMe a) y1) := by
            intro r hr' hmap
            rcases hr' with rfl | rfl
            · simp at hmap
            · simp only [Option.map_some, Option.some.injEq] at hmap
              refine ⟨_, rfl, ?_⟩
              split at hmap
              · split at hmap
                · exact Or.inr hmap.symm
                · exact Or.inl hmap.symm
              · exact Or.inl hmap.symm
          have : ∃ y1, y1 = { x0 with status := hr.status, submitNum := hr.submitNum, done := hr.done } ∧
                (y = y1 ∨ y = s.absDone.foldl (fun z a => z.satisfyMe a) y1) := by
            apply key _ _ h
            split
            · split
              · split
                · exact Or.inl rfl
                · exact Or.inr rfl
              · exact Or.inl rfl
            · exact Or.inr rfl
          obtain ⟨y1, hy1, hy⟩ := this
          exact ⟨x0, y1, rfl, Or.inr ⟨hr, rfl, hne, hy1⟩, hy⟩


/-! ### Field lemmas -/

section reset
variable (x : Proxy) (st : Option Status) (q r : Option Bool)

@[simp] theorem reset_pt : (x.reset st q r).pt = x.pt := by unfold Proxy.reset; simp only; split <;> rfl
@[simp] theorem reset_name : (x.reset st q r).name = x.name := by unfold Proxy.reset; simp only; split <;> rfl
@[simp] theorem reset_held : (x.reset st q r).held = x.held := by unfold Proxy.reset; simp only; split <;> rfl
@[simp] theorem reset_flows : (x.reset st q r).flows = x.flows := by unfold Proxy.reset; simp only; split <;> rfl
@[simp] theorem reset_submitNum : (x.reset st q r).submitNum = x.submitNum := by unfold Proxy.reset; simp only; split <;> rfl
@[simp] theorem reset_done : (x.reset st q r).done = x.done := by unfold Proxy.reset; simp only; split <;> rfl
@[simp] theorem reset_pre : (x.reset st q r).pre = x.pre := by unfold Proxy.reset; simp only; split <;> rfl
@[simp] theorem reset_sui : (x.reset st q r).sui = x.sui := by unfold Proxy.reset; simp only; split <;> rfl
@[simp] theorem reset_execTry : (x.reset st q r).execTry = x.execTry := by unfold Proxy.reset; simp only; split <;> rfl
@[simp] theorem reset_subTry : (x.reset st q r).subTry = x.subTry := by unfold Proxy.reset; simp only; split <;> rfl
@[simp] theorem reset_retryWait : (x.reset st q r).retryWait = x.retryWait := by unfold Proxy.reset; simp only; split <;> rfl
@[simp] theorem reset_status : (x.reset st q r).status = st.getD x.status := by
  unfold Proxy.reset; simp only; split
  · rename_i h; simp only [Bool.and_eq_true, beq_iff_eq] at h; exact h.1.1.symm
  · rfl
@[simp] theorem reset_queued : (x.reset st q r).queued = q.getD x.queued := by
  unfold Proxy.reset; simp only; split
  · rename_i h; simp only [Bool.and_eq_true, beq_iff_eq] at h; exact h.1.2.symm
  · rfl
@[simp] theorem reset_runahead : (x.reset st q r).runahead = r.getD x.runahead := by
  unfold Proxy.reset; simp only; split
  · rename_i h; simp only [Bool.and_eq_true, beq_iff_eq] at h; exact h.2.symm
  · rfl
end reset

theorem setComplete_spec (g : Graph) (x : Proxy) (msg : String) :
    ((setComplete g x msg).1 = x ∧ (hasOutput g x msg = true → msg ∈ x.done)) ∨
    (hasOutput g x msg = true ∧ msg ∉ x.done ∧ (setComplete g x msg).1 = { x with done := x.done ++ [msg] } ∧
      (setComplete g x msg).2 = some true) := by
  unfold setComplete
  by_cases h1 : hasOutput g x msg = true
  · by_cases h2 : x.isDone msg = true
    · left
      simp only [h1, h2, Bool.not_true, Bool.false_eq_true, if_false, if_true, true_and]
      intro _
      unfold Proxy.isDone at h2
      simpa using h2
    · right
      simp only [h1, h2, Bool.not_true, Bool.false_eq_true, if_false, true_and, and_true]
      unfold Proxy.isDone at h2
      simpa using h2
  · left
    simp [h1]

theorem task?_mem {g : Graph} {n : String} {t : TaskDefn} (h : g.task? n = some t) : t ∈ g.tasks ∧ t.name = n := by
  unfold Graph.task? at h
  refine ⟨List.mem_of_find?_eq_some h, ?_⟩
  have := List.find?_some h
  simpa using this

theorem hasOutput_std {g : Graph} (hwf : g.wf = true) {x : Proxy} (ht : (g.task? x.name).isSome)
    {m : String} (hm : m ∈ ["submitted", "started", "succeeded", "failed", "submit-failed"]) :
    hasOutput g x m = true := by
  unfold hasOutput
  cases h : g.task? x.name with
  | none => simp [h] at ht
  | some t =>
    simp only
    unfold Graph.wf at hwf
    have := List.all_eq_true.mp hwf t (task?_mem h).1
    exact List.all_eq_true.mp this m hm


/-! ### Facts about atomic updates -/

theorem setComplete_key (g : Graph) (x : Proxy) (m : String) :
    (setComplete g x m).1.pt = x.pt ∧ (setComplete g x m).1.name = x.name := by
  rcases setComplete_spec g x m with h | h
  · rw [h.1]; exact ⟨rfl, rfl⟩
  · rw [h.2.2.1]; exact ⟨rfl, rfl⟩

theorem setComplete_done_sub (g : Graph) (x : Proxy) (m : String) :
    ∀ o ∈ x.done, o ∈ (setComplete g x m).1.done := by
  intro o ho
  rcases setComplete_spec g x m with h | h
  · rw [h.1]; exact ho
  · rw [h.2.2.1]; exact List.mem_append_left _ ho

theorem setComplete_status (g : Graph) (x : Proxy) (m : String) : (setComplete g x m).1.status = x.status := by
  rcases setComplete_spec g x m with h | h
  · rw [h.1]
  · rw [h.2.2.1]

theorem setComplete_mem (g : Graph) (x : Proxy) (m : String) (h : hasOutput g x m = true) :
    m ∈ (setComplete g x m).1.done := by
  rcases setComplete_spec g x m with h' | h'
  · rw [h'.1]; exact h'.2 h
  · rw [h'.2.2.1]; simp

theorem upd_key {g : Graph} {K : Kinds} {s : State} {x y : Proxy} (h : Upd g K s x y) :
    y.pt = x.pt ∧ y.name = x.name := by
  cases h with
  | refl => exact ⟨rfl, rfl⟩
  | setc msg => exact setComplete_key g x msg
  | failedFinal =>
    split
    · have := setComplete_key g (x.reset (status := some .failed)) "failed"; simpa using this
    · simp
  | subFailedFinal =>
    split
    · have := setComplete_key g (x.reset (status := some .submitFailed)) "submit-failed"; simpa using this
    · simp
  | satisfy => exact ⟨rfl, rfl⟩
  | _ => simp

theorem upd_done {g : Graph} {K : Kinds} {s : State} {x y : Proxy} (h : Upd g K s x y) :
    ∀ o ∈ x.done, o ∈ y.done := by
  intro o ho
  cases h with
  | refl => exact ho
  | setc msg => exact setComplete_done_sub g x msg o ho
  | failedFinal =>
    split
    · exact setComplete_done_sub g _ "failed" o (by simpa using ho)
    · simpa using ho
  | subFailedFinal =>
    split
    · exact setComplete_done_sub g _ "submit-failed" o (by simpa using ho)
    · simpa using ho
  | satisfy => exact ho
  | _ => simpa using ho

/-- a failed / submit-failed status comes with its output -/
def sdOK (g : Graph) (st : Status) (n : String) (done : List String) : Prop :=
  (g.task? n).isSome → (st = .failed → "failed" ∈ done) ∧ (st = .submitFailed → "submit-failed" ∈ done)

theorem upd_sd {g : Graph} (hwf : g.wf = true) {K : Kinds} {s : State} {x y : Proxy}
    (h : Upd g K s x y) (hx : sdOK g x.status x.name x.done) : sdOK g y.status y.name y.done := by
  have hk := upd_key h
  have hd := upd_done h
  intro ht
  rw [hk.2] at ht
  have hx' := hx ht
  cases h with
  | refl => exact hx'
  | setc msg =>
    rw [setComplete_status]
    exact ⟨fun e => hd _ (hx'.1 e), fun e => hd _ (hx'.2 e)⟩
  | failedFinal =>
    split
    · rename_i hne
      rw [setComplete_status]
      simp only [reset_status, Option.getD_some]
      refine ⟨fun _ => ?_, fun e => by cases e⟩
      apply setComplete_mem
      apply hasOutput_std hwf (by simpa using ht) (by simp)
    · rename_i hne
      have hst : x.status = .failed := by simpa using hne
      simp only [reset_status, Option.getD_some, reset_done]
      exact ⟨fun _ => hx'.1 hst, fun e => by cases e⟩
  | subFailedFinal =>
    split
    · rename_i hne
      rw [setComplete_status]
      simp only [reset_status, Option.getD_some]
      refine ⟨(fun e => by cases e), fun _ => ?_⟩
      apply setComplete_mem
      apply hasOutput_std hwf (by simpa using ht) (by simp)
    · rename_i hne
      have hst : x.status = .submitFailed := by simpa using hne
      simp only [reset_status, Option.getD_some, reset_done]
      exact ⟨(fun e => by cases e), fun _ => hx'.2 hst⟩
  | satisfy => exact hx'
  | running => simp
  | succeeded => simp
  | execRetry => simp
  | subRetry => simp
  | submitted => simp
  | release => simpa using hx'
  | queue => simpa using hx'
  | unwait => exact hx'


/-! ### The invariant needed by the refinement itself -/

structure RInv (g : Graph) (s : State) : Prop where
  nodup : NoDup s
  sdPool : ∀ x ∈ s.pool, sdOK g x.status x.name x.done
  sdHist : ∀ h ∈ s.hist, sdOK g h.status h.name h.done
  nosui : g.noSui = true → ∀ x ∈ s.pool, x.sui = []

theorem nodup_of_pool_keys {s s' : State} (h : keys s' = keys s) (hn : NoDup s) : NoDup s' := by
  unfold NoDup; rw [h]; exact hn

theorem keys_of_pool {s s' : State} (h : s'.pool = s.pool) : keys s' = keys s := by unfold keys; rw [h]

@[simp] theorem launchOf_pt (x : Proxy) : (launchOf x).pt = x.pt := by simp [launchOf]
@[simp] theorem launchOf_name (x : Proxy) : (launchOf x).name = x.name := by simp [launchOf]
@[simp] theorem launchOf_status (x : Proxy) : (launchOf x).status = .preparing := by simp [launchOf]
@[simp] theorem launchOf_done (x : Proxy) : (launchOf x).done = x.done := by simp [launchOf]
@[simp] theorem launchOf_submitNum (x : Proxy) : (launchOf x).submitNum = x.submitNum + 1 := by simp [launchOf]
@[simp] theorem launchOf_pre (x : Proxy) : (launchOf x).pre = x.pre := by simp [launchOf]
@[simp] theorem launchOf_sui (x : Proxy) : (launchOf x).sui = x.sui := by simp [launchOf]
@[simp] theorem launchOf_queued (x : Proxy) : (launchOf x).queued = false := by simp [launchOf]
@[simp] theorem launchOf_runahead (x : Proxy) : (launchOf x).runahead = x.runahead := by simp [launchOf]
@[simp] theorem launchOf_execTry (x : Proxy) : (launchOf x).execTry = x.execTry := by simp [launchOf]
@[simp] theorem launchOf_subTry (x : Proxy) : (launchOf x).subTry = x.subTry := by simp [launchOf]

/-- what the `spawn` action adds -/
theorem spawned_spec {g : Graph} {s : State} {y0 y : Proxy}
    (hsp : spawnTask g s y.name y.pt = some y0)
    (hy : y = y0 ∨ ∃ a, justB s a = true ∧ y = y0.satisfyMe a) :
    ∃ x0, mkProxy g y.name y.pt = some x0 ∧
      ((lastHist s y.name y.pt = none ∧ g.start ≤ y.pt ∧ y.core = x0.core) ∨
       (∃ hr, lastHist s y.name y.pt = some hr ∧ hr.done ≠ [] ∧
          y.core = ({ x0 with status := hr.status, submitNum := hr.submitNum, done := hr.done } : Proxy).core)) := by
  obtain ⟨x0, y1, hm, hrev, hy0⟩ := spawnTask_spec hsp
  have h0 : y0.core = y1.core := by
    rcases hy0 with rfl | rfl
    · rfl
    · exact core_foldl_satisfyMe _ _
  have h1 : y.core = y1.core := by
    rcases hy with rfl | ⟨a, _, rfl⟩
    · exact h0
    · rw [core_satisfyMe]; exact h0
  refine ⟨x0, hm, ?_⟩
  rcases hrev with ⟨hl, hst, rfl⟩ | ⟨hr, hl, hne, rfl⟩
  · exact Or.inl ⟨hl, hst, h1⟩
  · exact Or.inr ⟨hr, hl, hne, h1⟩

theorem rinv3_act {g : Graph} (hwf : g.wf = true) {K : Kinds} {s s' : State}
    (hi : RInv g s) (ha : Act g K s s') :
    NoDup s' ∧ (∀ x ∈ s'.pool, sdOK g x.status x.name x.done) ∧ (∀ h ∈ s'.hist, sdOK g h.status h.name h.done) := by
  cases ha with
  | frame hp hs =>
    exact ⟨nodup_of_pool_keys (keys_of_pool hp) hi.nodup, by rw [hp]; exact hi.sdPool, by rw [hs.1]; exact hi.sdHist⟩
  | upd x y hg hu hp hs =>
    refine ⟨nodup_of_pool_keys (by rw [keys_of_pool hp, keys_put]) hi.nodup, ?_, by rw [hs.1]; exact hi.sdHist⟩
    intro z hz
    rw [hp] at hz
    rcases mem_put hz with rfl | hz
    · exact upd_sd hwf hu (hi.sdPool x (get?_some_spec hg).1)
    · exact hi.sdPool z hz
  | launch x hg hq hp hh ha hl =>
    refine ⟨nodup_of_pool_keys (by rw [keys_of_pool hp, keys_put]) hi.nodup, ?_, by rw [hh]; exact hi.sdHist⟩
    intro z hz
    rw [hp] at hz
    rcases mem_put hz with rfl | hz
    · intro _; simp
    · exact hi.sdPool z hz
  | spawn y0 y hg hsp hy hw hp hs =>
    refine ⟨?_, ?_, by rw [hs.1]; exact hi.sdHist⟩
    · have := nodup_add s y hi.nodup
      unfold State.add at this
      simp only [hg, Option.isSome_none, Bool.false_eq_true, if_false] at this
      exact nodup_of_pool_keys (by unfold keys; rw [hp]) this
    · intro z hz
      rw [hp] at hz
      rcases List.mem_append.mp hz with hz | hz
      · exact hi.sdPool z hz
      · simp only [List.mem_singleton] at hz
        subst hz
        obtain ⟨x0, hm, hc⟩ := spawned_spec hsp hy
        obtain ⟨t, d, _, _, _, _, hx0⟩ := mkProxy_spec hm
        rcases hc with ⟨_, _, hc⟩ | ⟨hr, hl, _, hc⟩
        · simp only [Proxy.core, Prod.mk.injEq] at hc
          intro _
          rw [hc.2.2.1, hx0]
          exact ⟨(fun e => by cases e), (fun e => by cases e)⟩
        · simp only [Proxy.core, Prod.mk.injEq] at hc
          have hm' := lastHist_mem hl
          have := hi.sdHist hr hm'.1
          rw [hc.2.2.1, hc.2.2.2.2.2.2.2.2.1]
          rw [hm'.2.2] at this
          exact this
  | remove x hg hp hh ha hl =>
    refine ⟨?_, ?_, ?_⟩
    · have := nodup_filter s (fun y => !(y.pt == x.pt && y.name == x.name)) hi.nodup
      exact nodup_of_pool_keys (by unfold keys; rw [hp]) this
    · intro z hz
      rw [hp] at hz
      exact hi.sdPool z (List.mem_filter.mp hz).1
    · intro h hm
      rw [hh] at hm
      rcases List.mem_append.mp hm with hm | hm
      · exact hi.sdHist h hm
      · simp only [List.mem_singleton] at hm
        subst hm
        exact hi.sdPool x (get?_some_spec hg).1
  | absAdd a hc hp hh ha hl =>
    exact ⟨nodup_of_pool_keys (keys_of_pool hp) hi.nodup, by rw [hp]; exact hi.sdPool, by rw [hh]; exact hi.sdHist⟩
  | clearUpd hp hs =>
    refine ⟨nodup_of_pool_keys (by unfold keys; rw [hp]; simp [List.map_map, Function.comp_def]) hi.nodup, ?_,
      by rw [hs.1]; exact hi.sdHist⟩
    intro z hz
    rw [hp] at hz
    obtain ⟨w, hw, rfl⟩ := List.mem_map.mp hz
    exact hi.sdPool w hw

theorem inst?_mem' {t : TaskDefn} {p : Int} {d : InstDef} (h : t.inst? p = some d) : (p, d) ∈ t.insts := by
  unfold TaskDefn.inst? at h
  simp only [Option.map_eq_some_iff] at h
  obtain ⟨pd, hf, hd⟩ := h
  have hm := List.mem_of_find?_eq_some hf
  have hp := List.find?_some hf
  simp only [beq_iff_eq] at hp
  have : pd = (p, d) := by rw [← hp, ← hd]
  rw [← this]; exact hm

theorem upd_sui {g : Graph} {K : Kinds} {s : State} {x y : Proxy} (h : Upd g K s x y) (hx : x.sui = []) :
    y.sui = [] := by
  cases h with
  | refl => exact hx
  | setc msg =>
    rcases setComplete_spec g x msg with h | h
    · rw [h.1]; exact hx
    · rw [h.2.2.1]; exact hx
  | failedFinal =>
    split
    · rcases setComplete_spec g (x.reset (status := some .failed)) "failed" with h | h
      · rw [h.1]; simpa using hx
      · rw [h.2.2.1]; simpa using hx
    · simpa using hx
  | subFailedFinal =>
    split
    · rcases setComplete_spec g (x.reset (status := some .submitFailed)) "submit-failed" with h | h
      · rw [h.1]; simpa using hx
      · rw [h.2.2.1]; simpa using hx
    · simpa using hx
  | satisfy a => show x.sui.map (·.satisfy a) = []; rw [hx]; rfl
  | unwait => exact hx
  | _ => simpa using hx

theorem sui_foldl_satisfyMe (l : List Atom) : ∀ x : Proxy, x.sui = [] →
    (l.foldl (fun z a => z.satisfyMe a) x).sui = [] := by
  induction l with
  | nil => intro x h; exact h
  | cons a l ih =>
    intro x h
    simp only [List.foldl_cons]
    apply ih
    show x.sui.map (·.satisfy a) = []
    rw [h]; rfl

theorem nosui_act {g : Graph} {K : Kinds} {s s' : State} (hg : g.noSui = true)
    (hi : ∀ x ∈ s.pool, x.sui = []) (ha : Act g K s s') : ∀ x ∈ s'.pool, x.sui = [] := by
  cases ha with
  | frame hp hs => rw [hp]; exact hi
  | absAdd a hc hp hh ha' hl => rw [hp]; exact hi
  | clearUpd hp hs =>
    intro z hz
    rw [hp] at hz
    obtain ⟨w, hw, rfl⟩ := List.mem_map.mp hz
    exact hi w hw
  | upd x y hgt hu hp hs =>
    intro z hz
    rw [hp] at hz
    rcases mem_put hz with rfl | hz
    · exact upd_sui hu (hi x (get?_some_spec hgt).1)
    · exact hi z hz
  | launch x hgt hq hp hh ha' hl hs =>
    intro z hz
    rw [hp] at hz
    rcases mem_put hz with rfl | hz
    · simpa using hi x (get?_some_spec hgt).1
    · exact hi z hz
  | remove x hgt hp hh ha' hl hr => intro z hz; rw [hp] at hz; exact hi z (List.mem_filter.mp hz).1
  | spawn y0 y hgt hsp hy hw hp hs =>
    intro z hz
    rw [hp] at hz
    rcases List.mem_append.mp hz with hz | hz
    · exact hi z hz
    · simp only [List.mem_singleton] at hz
      subst hz
      obtain ⟨x0, y1, hm, hrev, hy0⟩ := spawnTask_spec hsp
      obtain ⟨t, d, h1, h2, _, _, hx0⟩ := mkProxy_spec hm
      have hd : d.sui = [] := by
        unfold Graph.noSui at hg
        have := List.all_eq_true.mp (List.all_eq_true.mp hg t (task?_mem h1).1) _ (inst?_mem' h2)
        simpa using this
      have hy1 : y1.sui = [] := by
        rcases hrev with ⟨_, _, rfl⟩ | ⟨hr, _, _, rfl⟩ <;> (subst hx0; exact hd)
      have hy0' : y0.sui = [] := by
        rcases hy0 with rfl | rfl
        · exact hy1
        · exact sui_foldl_satisfyMe _ _ hy1
      rcases hy with rfl | ⟨a, _, rfl⟩
      · exact hy0'
      · show y0.sui.map (·.satisfy a) = []
        rw [hy0']; rfl

theorem rinv_act {g : Graph} (hwf : g.wf = true) {K : Kinds} {s s' : State}
    (hi : RInv g s) (ha : Act g K s s') : RInv g s' :=
  have h := rinv3_act hwf hi ha
  ⟨h.1, h.2.1, h.2.2, fun hg => nosui_act hg (hi.nosui hg) ha⟩

theorem rinv_steps {g : Graph} (hwf : g.wf = true) {K : Kinds} {s s' : State}
    (h : Steps g K s s') (hi : RInv g s) : RInv g s' :=
  Steps.inv (RInv g) (fun _ _ hi ha => rinv_act hwf hi ha) h hi


/-! ### Completed outputs are never forgotten -/

theorem completedB_iff (s : State) (a : Atom) :
    completedB s a = true ↔
      (∃ z ∈ s.pool, z.pt = a.pt ∧ z.name = a.task ∧ a.out ∈ z.done) ∨
      (∃ h ∈ s.hist, h.pt = a.pt ∧ h.name = a.task ∧ a.out ∈ h.done) := by
  unfold completedB
  simp only [Bool.or_eq_true, List.any_eq_true, Bool.and_eq_true, beq_iff_eq, List.contains_iff_mem,
    and_assoc]

theorem completedB_act {g : Graph} {K : Kinds} {s s' : State} (hn : NoDup s)
    (ha : Act g K s s') {a : Atom} (hc : completedB s a = true) : completedB s' a = true := by
  rw [completedB_iff] at hc ⊢
  -- an update of the proxy under one key by a proxy with at least the same outputs
  have hput : ∀ (x y : Proxy), s.get? y.pt y.name = some x → (∀ o ∈ x.done, o ∈ y.done) →
      (∃ z ∈ s.pool, z.pt = a.pt ∧ z.name = a.task ∧ a.out ∈ z.done) →
      ∃ z ∈ (s.put y).pool, z.pt = a.pt ∧ z.name = a.task ∧ a.out ∈ z.done := by
    intro x y hg hd ⟨z, hz, hzp, hzn, hzo⟩
    by_cases hk : z.pt = y.pt ∧ z.name = y.name
    · have h1 := get?_of_mem_nodup hn hz
      rw [hk.1, hk.2, hg] at h1
      have hzx : x = z := Option.some.inj h1
      subst hzx
      refine ⟨y, ?_, by rw [← hk.1]; exact hzp, by rw [← hk.2]; exact hzn, hd _ hzo⟩
      unfold State.put
      simp only
      exact List.mem_map.mpr ⟨x, hz, by simp [hk.1, hk.2]⟩
    · refine ⟨z, ?_, hzp, hzn, hzo⟩
      unfold State.put
      simp only
      refine List.mem_map.mpr ⟨z, hz, ?_⟩
      split
      · rename_i hb
        simp only [Bool.and_eq_true, beq_iff_eq] at hb
        exact absurd hb hk
      · rfl
  cases ha with
  | frame hp hs => rw [hp, hs.1]; exact hc
  | upd x y hg hu hp hs =>
    rw [hp, hs.1]
    rcases hc with hc | hc
    · exact Or.inl (hput x y hg (upd_done hu) hc)
    · exact Or.inr hc
  | launch x hg hq hp hh ha hl =>
    rw [hp, hh]
    rcases hc with hc | hc
    · exact Or.inl (hput x (launchOf x) (by simpa using hg) (by intro o ho; simpa using ho) hc)
    · exact Or.inr hc
  | spawn y0 y hg hsp hy hw hp hs =>
    rw [hp, hs.1]
    rcases hc with ⟨z, hz, h⟩ | hc
    · exact Or.inl ⟨z, List.mem_append_left _ hz, h⟩
    · exact Or.inr hc
  | remove x hg hp hh ha hl =>
    rw [hp, hh]
    rcases hc with ⟨z, hz, hzp, hzn, hzo⟩ | ⟨h, hm, hh'⟩
    · by_cases hk : z.pt = x.pt ∧ z.name = x.name
      · have h1 := get?_of_mem_nodup hn hz
        rw [hk.1, hk.2, hg] at h1
        have hzx : x = z := Option.some.inj h1
        subst hzx
        exact Or.inr ⟨_, List.mem_append_right _ (List.mem_singleton.mpr rfl), hzp, hzn, hzo⟩
      · refine Or.inl ⟨z, List.mem_filter.mpr ⟨hz, ?_⟩, hzp, hzn, hzo⟩
        simp only [Bool.not_eq_true', Bool.and_eq_false_iff, beq_eq_false_iff_ne, ne_eq]
        by_cases h1 : z.pt = x.pt
        · exact Or.inr (fun h2 => hk ⟨h1, h2⟩)
        · exact Or.inl h1
    · exact Or.inr ⟨h, List.mem_append_left _ hm, hh'⟩
  | absAdd a' hc' hp hh ha hl => rw [hp, hh]; exact hc
  | clearUpd hp hs =>
    rw [hp, hs.1]
    rcases hc with ⟨z, hz, h⟩ | hc
    · exact Or.inl ⟨{ z with upd := false }, List.mem_map.mpr ⟨z, hz, rfl⟩, h⟩
    · exact Or.inr hc

theorem completedB_steps {g : Graph} (hwf : g.wf = true) {K : Kinds} {s s' : State}
    (h : Steps g K s s') (hi : RInv g s) {a : Atom} (hc : completedB s a = true) : completedB s' a = true := by
  have := Steps.inv (fun st => RInv g st ∧ completedB st a = true)
    (fun _ _ hi ha => ⟨rinv_act hwf hi.1 ha, completedB_act hi.1.nodup ha hi.2⟩) h ⟨hi, hc⟩
  exact this.2


theorem absDone_act {g : Graph} {K : Kinds} {s s' : State} (ha : Act g K s s') {a : Atom}
    (h : a ∈ s.absDone) : a ∈ s'.absDone := by
  cases ha with
  | frame hp hs => rw [hs.2.1]; exact h
  | upd x y hg hu hp hs => rw [hs.2.1]; exact h
  | launch x hg hq hp hh ha hl => rw [ha]; exact h
  | spawn y0 y hg hsp hy hw hp hs => rw [hs.2.1]; exact h
  | remove x hg hp hh ha hl => rw [ha]; exact h
  | absAdd a' hc' hp hh ha hl => rw [ha]; exact List.mem_append_left _ h
  | clearUpd hp hs => rw [hs.2.1]; exact h

theorem justB_act {g : Graph} {K : Kinds} {s s' : State} (hn : NoDup s)
    (ha : Act g K s s') {a : Atom} (hj : justB s a = true) : justB s' a = true := by
  unfold justB at *
  simp only [Bool.or_eq_true, List.contains_iff_mem] at *
  rcases hj with hj | hj
  · exact Or.inl (absDone_act ha hj)
  · exact Or.inr (completedB_act hn ha hj)

theorem justB_steps {g : Graph} (hwf : g.wf = true) {K : Kinds} {s s' : State}
    (h : Steps g K s s') (hi : RInv g s) {a : Atom} (hc : justB s a = true) : justB s' a = true := by
  have := Steps.inv (fun st => RInv g st ∧ justB st a = true)
    (fun _ _ hi ha => ⟨rinv_act hwf hi.1 ha, justB_act hi.1.nodup ha hi.2⟩) h ⟨hi, hc⟩
  exact this.2


/-! ### Monotonicity in the admitted kinds -/

theorem Upd.mono {g : Graph} {K' K : Kinds} (hle : K'.le K) {s : State} {x y : Proxy} (h : Upd g K' s x y) :
    Upd g K s x y := by
  obtain ⟨h1, h2, h3, h4, h5, _⟩ := hle
  cases h with
  | refl => exact Upd.refl x
  | setc msg a b hm => exact Upd.setc x msg a b (h2 _ hm)
  | running hm hl => exact Upd.running x (h2 _ hm) (h4 _ hl)
  | succeeded hm hl => exact Upd.succeeded x (h2 _ hm) (h4 _ hl)
  | execRetry h hm hl hr => exact Upd.execRetry x h (h2 _ hm) (h4 _ hl) (h5 hr)
  | failedFinal h hm hl => exact Upd.failedFinal x h (h2 _ hm) (h4 _ hl)
  | subRetry ha h hm hr => exact Upd.subRetry x (h1 _ ha) h (h2 _ hm) (h5 hr)
  | subFailedFinal ha h hm => exact Upd.subFailedFinal x (h1 _ ha) h (h2 _ hm)
  | submitted h hm => exact Upd.submitted x h (h2 _ hm)
  | satisfy a h => exact Upd.satisfy x a h
  | release hs => exact Upd.release x (h3 hs)
  | queue h hs => exact Upd.queue x h (h3 hs)
  | unwait h hs => exact Upd.unwait x h (h3 hs)

theorem Act.mono {g : Graph} {K' K : Kinds} (hle : K'.le K) {s s' : State} (h : Act g K' s s') : Act g K s s' := by
  cases h with
  | frame hp hs => exact Act.frame hp hs
  | upd x y hg hu hp hs => exact Act.upd x y hg (hu.mono hle) hp hs
  | launch x hg hq hp hh ha hl hs => exact Act.launch x hg hq hp hh ha hl (hle.2.2.1 hs)
  | spawn y0 y hg hsp hy hw hp hs => exact Act.spawn y0 y hg hsp hy hw hp hs
  | remove x hg hp hh ha hl hr =>
    exact Act.remove x hg hp hh ha hl (hr.elim Or.inl (fun h => Or.inr (hle.2.2.2.2.2 h)))
  | absAdd a hc hp hh ha hl => exact Act.absAdd a hc hp hh ha hl
  | clearUpd hp hs => exact Act.clearUpd hp hs

theorem Steps.mono {g : Graph} {K' K : Kinds} (hle : K'.le K) {s s' : State} (h : Steps g K' s s') :
    Steps g K s s' := by
  induction h with
  | refl => exact Steps.refl _
  | tail _ hact ih => exact Steps.tail ih (hact.mono hle)


/-! ### Look-ups after a removal -/

theorem get?_filter_self {s t : State} {p : Int} {n : String}
    (h : t.pool = s.pool.filter (fun y => !(y.pt == p && y.name == n))) : t.get? p n = none := by
  unfold State.get?
  rw [h, List.find?_filter]
  apply List.find?_eq_none.mpr
  intro x _
  simp only [Bool.not_eq_true', Bool.and_eq_true, beq_iff_eq, decide_eq_true_eq, not_and,
    Bool.and_eq_false_iff, beq_eq_false_iff_ne, ne_eq]
  intro h1 h2 h3
  rcases h1 with h1 | h1
  · exact h1 h2
  · exact h1 h3

theorem get?_filter_other {s t : State} {p q : Int} {n m : String}
    (ht : t.pool = s.pool.filter (fun y => !(y.pt == p && y.name == n))) (h : ¬ (q = p ∧ m = n)) :
    t.get? q m = s.get? q m := by
  unfold State.get?
  rw [ht, List.find?_filter]
  congr 1
  funext x
  by_cases hx : (x.pt == q && x.name == m) = true
  · have hx' := hx
    simp only [Bool.and_eq_true, beq_iff_eq] at hx'
    have : ¬ (x.pt = p ∧ x.name = n) := by rw [hx'.1, hx'.2]; exact h
    simp only [hx, and_true]
    simp only [Bool.not_eq_true', Bool.and_eq_false_iff, beq_eq_false_iff_ne, ne_eq, decide_eq_true_eq]
    by_cases h1 : x.pt = p
    · exact Or.inr (fun h2 => this ⟨h1, h2⟩)
    · exact Or.inl h1
  · simp only [Bool.not_eq_true] at hx
    simp [hx]

theorem lastHist_append_self {s t : State} {h : Hist} (ht : t.hist = s.hist ++ [h]) :
    lastHist t h.name h.pt = some h := by
  unfold lastHist
  rw [ht]
  simp only [List.filter_append]
  have : List.filter (fun h' => h'.pt == h.pt && h'.name == h.name) [h] = [h] := by simp
  rw [this, List.getLast?_concat]

theorem lastHist_append_other {s t : State} {h : Hist} (ht : t.hist = s.hist ++ [h]) {p : Int} {n : String}
    (hk : ¬ (h.pt = p ∧ h.name = n)) : lastHist t n p = lastHist s n p := by
  unfold lastHist
  rw [ht]
  simp only [List.filter_append]
  have : List.filter (fun h' => h'.pt == p && h'.name == n) [h] = [] := by
    simp only [List.filter_cons, List.filter_nil]
    split
    · rename_i hb
      simp only [Bool.and_eq_true, beq_iff_eq] at hb
      exact absurd hb hk
    · rfl
  rw [this, List.append_nil]


theorem get?_of_pool_eq' {s s' : State} (h : s'.pool = s.pool) (p : Int) (n : String) : s'.get? p n = s.get? p n := by
  unfold State.get?; rw [h]

theorem lastHist_of_hist_eq {s s' : State} (h : s'.hist = s.hist) (n : String) (p : Int) :
    lastHist s' n p = lastHist s n p := by
  unfold lastHist; rw [h]

/-! ### An instance that is not waiting stays so unless it is retried -/

/-- the pooled proxy of `(p, n)` is not waiting; if the instance is not pooled, its latest history record is
not waiting (so a revival is not waiting either) -/
def NWk (p : Int) (n : String) (s : State) : Prop :=
  match s.get? p n with
  | some x => x.status ≠ .waiting
  | none => ∃ hr, lastHist s n p = some hr ∧ hr.status ≠ .waiting

theorem upd_status_nw {g : Graph} {K : Kinds} (hK : K.retry = false) {s : State} {x y : Proxy}
    (h : Upd g K s x y) (hx : x.status ≠ .waiting) : y.status ≠ .waiting := by
  cases h with
  | refl => exact hx
  | setc msg => rw [setComplete_status]; exact hx
  | running => simp
  | succeeded => simp
  | execRetry _ _ _ hr => rw [hK] at hr; cases hr
  | failedFinal =>
    split
    · rw [setComplete_status]; simp
    · simp
  | subRetry _ _ _ hr => rw [hK] at hr; cases hr
  | subFailedFinal =>
    split
    · rw [setComplete_status]; simp
    · simp
  | submitted => simp
  | satisfy => exact hx
  | release => simpa using hx
  | queue => simpa using hx
  | unwait => exact hx

theorem nwk_act {g : Graph} {K : Kinds} (hK : K.retry = false) {p : Int} {n : String} {s s' : State}
    (h : NWk p n s) (ha : Act g K s s') : NWk p n s' := by
  unfold NWk at *
  cases ha with
  | frame hp hs => rw [get?_of_pool_eq' hp, lastHist_of_hist_eq hs.1]; exact h
  | absAdd a hc hp hh ha' hl => rw [get?_of_pool_eq' hp, lastHist_of_hist_eq hh]; exact h
  | clearUpd hp hs =>
    rw [lastHist_of_hist_eq hs.1]
    have : s'.get? p n = (s.get? p n).map fun x => { x with upd := false } := by
      unfold State.get?
      rw [hp, List.find?_map]
      rfl
    rw [this]
    cases hg : s.get? p n with
    | none => rw [hg] at h; exact h
    | some x => rw [hg] at h; exact h
  | upd x y hg hu hp hs =>
    rw [get?_of_pool_eq' (s := s.put y) hp, lastHist_of_hist_eq hs.1]
    by_cases hk : y.pt = p ∧ y.name = n
    · rw [← hk.1, ← hk.2, get?_put_same hg]
      rw [← hk.1, ← hk.2, hg] at h
      exact upd_status_nw hK hu h
    · rw [get?_put_other hk]; exact h
  | launch x hg hq hp hh ha' hl hs =>
    rw [get?_of_pool_eq' (s := s.put (launchOf x)) hp, lastHist_of_hist_eq hh]
    by_cases hk : (launchOf x).pt = p ∧ (launchOf x).name = n
    · rw [← hk.1, ← hk.2, get?_put_same (x := x) (by simpa using hg)]
      simp
    · rw [get?_put_other hk]; exact h
  | spawn y0 y hg hsp hy hw hp hs =>
    rw [get?_of_pool_eq' (s := { s with pool := s.pool ++ [y] }) hp, lastHist_of_hist_eq hs.1]
    cases hgp : s.get? p n with
    | some z => rw [get?_append_of_some _ hgp]; rw [hgp] at h; exact h
    | none =>
      rw [hgp] at h
      rw [get?_append_of_none y hgp]
      by_cases hk : (y.pt == p && y.name == n) = true
      · simp only [hk, if_true]
        simp only [Bool.and_eq_true, beq_iff_eq] at hk
        obtain ⟨x0, hm, hc⟩ := spawned_spec hsp hy
        rw [hk.1, hk.2] at hc
        obtain ⟨hr, hl, hne⟩ := h
        rcases hc with ⟨hl', _, _⟩ | ⟨hr', hl', _, hc⟩
        · rw [hl] at hl'; cases hl'
        · rw [hl] at hl'
          simp only [Proxy.core, Prod.mk.injEq] at hc
          rw [hc.2.2.1, ← Option.some.inj hl']
          exact hne
      · simp only [hk, Bool.false_eq_true, if_false]; exact h
  | remove x hg hp hh ha' hl =>
    by_cases hk : p = x.pt ∧ n = x.name
    · rw [hk.1, hk.2, get?_filter_self hp]
      have h2 := lastHist_append_self (h := ⟨x.pt, x.name, x.status, x.submitNum, x.done⟩) hh
      simp only at h2
      refine ⟨_, h2, ?_⟩
      rw [hk.1, hk.2, hg] at h
      exact h
    · have h2 := lastHist_append_other (h := ⟨x.pt, x.name, x.status, x.submitNum, x.done⟩) hh (p := p) (n := n)
        (by intro h'; exact hk ⟨h'.1.symm, h'.2.symm⟩)
      rw [get?_filter_other hp hk, h2]
      exact h

theorem nwk_steps {g : Graph} {K : Kinds} (hK : K.retry = false) {p : Int} {n : String} {s s' : State}
    (hs : Steps g K s s') (h : NWk p n s) : NWk p n s' :=
  Steps.inv (NWk p n) (fun _ _ h ha => nwk_act hK h ha) hs h

end CylcModel.Sched
