/-
C04 (ii) — lemmas about the `Runahead` component model (count and duration limits, future-trigger
offsets, stop point, cached base point / sequence points, early returns).  Core Lean only; reuses
the ascending-list lemmas of `SchedLemmasC04`.
-/
import CylcModel.SchedLemmasC04
import CylcModel.Runahead
namespace CylcModel.Runahead
open CylcModel.Sched (sortDedup minOf sorted_sortDedup mem_sortDedup sorted_ext lastTake lastTake_eq_get
  lastTake_filter_mono lastTake_ge minOf_spec)

/-! ### list facts -/

theorem mem_takeWhile_sorted (B : Int) : ∀ (l : List Int), l.Pairwise (· < ·) →
    ∀ x, x ∈ l.takeWhile (· ≤ B) ↔ x ∈ l ∧ x ≤ B := by
  intro l
  induction l with
  | nil => intro _ x; simp
  | cons a l ih =>
    intro h x
    have ha := List.pairwise_cons.mp h
    rw [List.takeWhile_cons]
    by_cases hab : a ≤ B
    · simp only [hab, decide_true, if_true, List.mem_cons]
      rw [ih ha.2 x]
      constructor
      · rintro (rfl | ⟨h1, h2⟩)
        · exact ⟨Or.inl rfl, hab⟩
        · exact ⟨Or.inr h1, h2⟩
      · rintro ⟨rfl | h1, h2⟩
        · exact Or.inl rfl
        · exact Or.inr ⟨h1, h2⟩
    · simp only [hab, decide_false, Bool.false_eq_true, if_false, List.not_mem_nil, false_iff, List.mem_cons]
      rintro ⟨rfl | h1, h2⟩
      · exact hab h2
      · have := ha.1 x h1; omega

theorem le_getLast_of_sorted : ∀ (l : List Int), l.Pairwise (· < ·) → ∀ x ∈ l, ∀ v, l.getLast? = some v → x ≤ v := by
  intro l
  induction l with
  | nil => intro _ x hx; simp at hx
  | cons a l ih =>
    intro h x hx v hv
    have ha := List.pairwise_cons.mp h
    rw [List.getLast?_cons] at hv
    simp only [Option.some.injEq] at hv
    cases hl : l.getLast? with
    | none =>
      have : l = [] := by simpa using hl
      subst this
      simp at hx; subst hx
      rw [hl] at hv; simp at hv; omega
    | some w =>
      rw [hl] at hv
      simp at hv
      subst hv
      rcases List.mem_cons.mp hx with rfl | hx
      · have hw : w ∈ l := List.mem_of_getLast? hl
        have := ha.1 w hw
        omega
      · exact ih ha.2 x hx w hl

/-! ### the specification limit -/

theorem sorted_allFrom (c : Cfg) (b : Int) : (allFrom c b).Pairwise (· < ·) := sorted_sortDedup _

theorem mem_allFrom (c : Cfg) (b x : Int) : x ∈ allFrom c b ↔ (∃ q ∈ c.seqs, x ∈ q) ∧ b ≤ x := by
  unfold allFrom
  rw [mem_sortDedup, List.mem_flatMap]
  constructor
  · rintro ⟨q, hq, hx⟩
    have := List.mem_filter.mp hx
    exact ⟨⟨q, hq, this.1⟩, by simpa using this.2⟩
  · rintro ⟨⟨q, hq, hx⟩, hb⟩
    exact ⟨q, hq, List.mem_filter.mpr ⟨hx, by simpa using hb⟩⟩

theorem allFrom_filter (c : Cfg) (b' b : Int) (h : b' ≤ b) : allFrom c b = (allFrom c b').filter (· ≥ b) := by
  apply sorted_ext _ _ (sorted_allFrom c b) ((sorted_allFrom c b').filter _)
  intro x
  rw [List.mem_filter, mem_allFrom, mem_allFrom]
  constructor
  · rintro ⟨hq, hb⟩; exact ⟨⟨hq, by omega⟩, by simpa using hb⟩
  · rintro ⟨⟨hq, _⟩, hb⟩; exact ⟨hq, by simpa using hb⟩

theorem spec0_ge (c : Cfg) (b : Int) : b ≤ spec0 c b := by
  unfold spec0
  split
  · exact lastTake_ge _ _ _ (fun x hx => ((mem_allFrom c b x).mp hx).2)
  · rename_i d _
    cases hl : ((allFrom c b).filter (· ≤ b + d)).getLast? with
    | none => simp
    | some v =>
      simp only [Option.getD_some]
      have := List.mem_of_getLast? hl
      exact ((mem_allFrom c b v).mp (List.mem_filter.mp this).1).2

/-- moving the base point forward never lowers the limit (count and duration limits alike) -/
theorem spec0_mono (c : Cfg) (b' b : Int) (h : b' ≤ b) : spec0 c b' ≤ spec0 c b := by
  have hge := spec0_ge c b
  unfold spec0 at hge ⊢
  split
  · rename_i n _
    rw [allFrom_filter c b' b h]
    exact lastTake_filter_mono n b _ b' (sorted_allFrom c b')
      (fun x hx => ((mem_allFrom c b' x).mp hx).2) h
  · rename_i d hd
    simp only [hd] at hge
    cases hl : ((allFrom c b').filter (· ≤ b' + d)).getLast? with
    | none => simp only [Option.getD_none]; omega
    | some m =>
      simp only [Option.getD_some]
      have hm := List.mem_filter.mp (List.mem_of_getLast? hl)
      have hm1 := (mem_allFrom c b' m).mp hm.1
      have hm2 : m ≤ b' + d := by simpa using hm.2
      by_cases hmb : b ≤ m
      · -- `m` is still in the window of the new base point
        have hin : m ∈ (allFrom c b).filter (· ≤ b + d) := by
          apply List.mem_filter.mpr
          refine ⟨(mem_allFrom c b m).mpr ⟨hm1.1, hmb⟩, ?_⟩
          simp; omega
        cases hl2 : ((allFrom c b).filter (· ≤ b + d)).getLast? with
        | none =>
          have : (allFrom c b).filter (· ≤ b + d) = [] := by simpa using hl2
          rw [this] at hin; simp at hin
        | some v =>
          simp only [Option.getD_some]
          exact le_getLast_of_sorted _ ((sorted_allFrom c b).filter _) m hin v hl2
      · omega

theorem specLimit_mono (c : Cfg) (o : Option Int) (b' b : Int) (h : b' ≤ b) :
    specLimit c o b' ≤ specLimit c o b := by
  have := spec0_mono c b' b h
  unfold specLimit
  simp only
  split <;> omega

end CylcModel.Runahead

namespace CylcModel.Runahead
open CylcModel.Sched (sortDedup minOf sorted_sortDedup mem_sortDedup sorted_ext lastTake lastTake_eq_get
  lastTake_filter_mono lastTake_ge minOf_spec)

theorem wf_sorted (c : Cfg) (h : wf c = true) : ∀ q ∈ c.seqs, q.Pairwise (· < ·) := by
  intro q hq
  unfold wf at h
  simp only [Bool.and_eq_true] at h
  have := List.all_eq_true.mp h.1 q hq
  simpa using this

theorem minOf_isSome (l : List Int) (h : l ≠ []) : ∃ b, minOf l = some b := by
  cases l with
  | nil => exact absurd rfl h
  | cons x xs => exact ⟨_, rfl⟩

theorem wf_base (c : Cfg) (h : wf c = true) (s : St) : ∃ b, basePoint c s = some b := by
  unfold basePoint
  split
  · apply minOf_isSome
    unfold wf at h
    simp only [Bool.and_eq_true, Bool.not_eq_true', List.isEmpty_eq_false_iff] at h
    exact h.2
  · rename_i hne
    apply minOf_isSome
    intro hmap
    have : s.pool = [] := by simpa using hmap
    simp [this] at hne

/-- what the per-recurrence loops collect is enough: picking from it gives the specification limit -/
theorem collect_pick (c : Cfg) (b : Int) (h : wf c = true) : pick c b (collect c b) = spec0 c b := by
  have hs := wf_sorted c h
  unfold pick spec0 collect
  cases hl : c.limit with
  | count n =>
    simp only
    have hc : contribution c b = fun q => (q.filter (· ≥ b)).take (n + 1) := by
      funext q; simp [contribution, hl]
    rw [hc]
    have hu := Sched.nth_of_union (n + 1) (c.seqs.map fun q => q.filter (· ≥ b)) (by
      intro q hq
      obtain ⟨q0, hq0, rfl⟩ := List.mem_map.mp hq
      exact (hs q0 hq0).filter _)
    simp only [List.flatMap_map] at hu
    unfold allFrom
    rw [hu]
  | dur d =>
    simp only
    have hc : contribution c b = fun q => (q.filter (· ≥ b)).takeWhile (· ≤ b + d) := by
      funext q; simp [contribution, hl]
    rw [hc]
    have : sortDedup (c.seqs.flatMap fun q => (q.filter (· ≥ b)).takeWhile (· ≤ b + d)) =
        (allFrom c b).filter (· ≤ b + d) := by
      apply sorted_ext _ _ (sorted_sortDedup _) ((sorted_allFrom c b).filter _)
      intro x
      rw [mem_sortDedup, List.mem_flatMap, List.mem_filter, mem_allFrom]
      constructor
      · rintro ⟨q, hq, hx⟩
        have := (mem_takeWhile_sorted (b + d) _ ((hs q hq).filter _) x).mp hx
        have h1 := List.mem_filter.mp this.1
        exact ⟨⟨⟨q, hq, h1.1⟩, by simpa using h1.2⟩, by simpa using this.2⟩
      · rintro ⟨⟨⟨q, hq, hx⟩, hb⟩, hd⟩
        refine ⟨q, hq, (mem_takeWhile_sorted (b + d) _ ((hs q hq).filter _) x).mpr ⟨?_, by simpa using hd⟩⟩
        exact List.mem_filter.mpr ⟨hx, by simpa using hb⟩
    rw [this]

theorem capStop_addOff (c : Cfg) (o : Option Int) (b : Int) :
    capStop c (addOff o (spec0 c b)) = specLimit c o b := by
  unfold capStop addOff specLimit
  cases o with
  | none =>
    simp only [Option.getD_none, Int.add_zero]
    split
    · split <;> omega
    · rfl
  | some v =>
    simp only [Option.getD_some]
    split
    · split <;> omega
    · rfl

/-- the three ways `compute` can go -/
theorem compute_shape (c : Cfg) (s : St) (f : Bool) :
    (basePoint c s = none ∧ compute c s f = (s, false)) ∨
    (∃ b, basePoint c s = some b ∧
      (!f && s.limit.isSome && (b == s.prevBase.getD b ||
        (s.limit == c.stop && (!c.guarded || s.pool.isEmpty || decide (b > s.prevBase.getD b))))) = true ∧
      compute c s f = ({ s with prevBase := some (s.prevBase.getD b) }, false)) ∨
    (∃ b, basePoint c s = some b ∧
      ¬ (!f && s.limit.isSome && (b == s.prevBase.getD b ||
        (s.limit == c.stop && (!c.guarded || s.pool.isEmpty || decide (b > s.prevBase.getD b))))) = true ∧
      compute c s f =
        (let pts := if (!f && !s.prevPts.isEmpty && b == s.prevBase.getD b) = true then s.prevPts else collect c b
         ({ s with prevPts := pts, prevBase := some b,
                   limit := some (capStop c (addOff s.maxOff (pick c b pts))) }, true))) := by
  unfold compute
  cases hb : basePoint c s with
  | none => exact Or.inl ⟨rfl, rfl⟩
  | some b =>
    simp only
    split
    · rename_i h
      exact Or.inr (Or.inl ⟨b, rfl, h, rfl⟩)
    · rename_i h
      exact Or.inr (Or.inr ⟨b, rfl, h, rfl⟩)

/-- the stored limit is the specification limit of the cached base point and the current
`max_future_offset`; the cached sequence points are those collected from the cached base point -/
def DInv (c : Cfg) (s : St) : Prop :=
  (∀ l, s.limit = some l → ∃ pb, s.prevBase = some pb ∧ l = specLimit c s.maxOff pb) ∧
  (s.prevPts ≠ [] → ∃ pb, s.prevBase = some pb ∧ s.prevPts = collect c pb)

/-- the unforced call may return early with a limit that is not the specification limit of the
base point only in this situation: the limit sits at the stop point, the base point moved
*backward* past the cached one, and the code has the unguarded early return (or the pool is empty,
where the base point comes from the recurrences and nothing can be released) -/
def Stale (c : Cfg) (s : St) (b : Int) : Prop :=
  s.limit.isSome ∧ s.limit = c.stop ∧ (∃ pb, s.prevBase = some pb ∧ b < pb) ∧
  (c.guarded = false ∨ s.pool.isEmpty = true)

theorem compute_spec (c : Cfg) (s : St) (f : Bool) (hwf : wf c = true) (hinv : DInv c s) :
    DInv c (compute c s f).1 ∧ (compute c s f).1.maxOff = s.maxOff ∧ (compute c s f).1.pool = s.pool ∧
    ∀ b, basePoint c s = some b → ¬ Stale c s b ∨ f = true →
      (compute c s f).1.limit = some (specLimit c s.maxOff b) := by
  obtain ⟨hc1, hc2⟩ := hinv
  rcases compute_shape c s f with ⟨hb, he⟩ | ⟨b, hb, hearly, he⟩ | ⟨b, hb, hnot, he⟩
  · rw [he]
    refine ⟨⟨hc1, hc2⟩, rfl, rfl, ?_⟩
    intro b hbp
    rw [hbp] at hb; exact absurd hb (by simp)
  · have hsome : s.limit.isSome = true := by
      simp only [Bool.and_eq_true] at hearly
      exact hearly.1.2
    obtain ⟨l, hl⟩ := Option.isSome_iff_exists.mp hsome
    obtain ⟨b0, hpb, hlim⟩ := hc1 l hl
    have hsame : (compute c s f).1 = s := by
      have : some (s.prevBase.getD b) = s.prevBase := by rw [hpb]; rfl
      rw [he]; simp only; rw [this]
    rw [hsame]
    refine ⟨⟨hc1, hc2⟩, rfl, rfl, ?_⟩
    intro b1 hbp hns
    rw [hb] at hbp
    simp only [Option.some.injEq] at hbp
    subst hbp
    have hf : f = false := by
      simp only [Bool.and_eq_true, Bool.not_eq_true'] at hearly
      exact hearly.1.1
    rw [hl, hlim]
    congr 1
    simp only [Bool.and_eq_true, Bool.or_eq_true, beq_iff_eq, hpb, Option.getD_some, Bool.not_eq_true',
      decide_eq_true_eq] at hearly
    rcases hearly.2 with h | ⟨hstop, hg⟩
    · rw [h]
    · -- the limit sits at the stop point
      have hb0b : b0 ≤ b := by
        by_cases hlt : b < b0
        · have hst : s.limit = c.stop := by
            rw [hl] at hstop ⊢
            cases hsp : c.stop with
            | none => rw [hsp] at hstop; simp at hstop
            | some sp => rw [hsp] at hstop; simp at hstop; rw [hstop]
          rcases hns with hns | hns
          · rcases hg with (hg | hg) | hg
            · exact absurd ⟨hsome, hst, ⟨b0, hpb, hlt⟩, Or.inl hg⟩ hns
            · exact absurd ⟨hsome, hst, ⟨b0, hpb, hlt⟩, Or.inr hg⟩ hns
            · omega
          · rw [hf] at hns; exact absurd hns (by simp)
        · omega
      rw [hl] at hstop
      have hstop' : c.stop = some l := by
        cases hsp : c.stop with
        | none => rw [hsp] at hstop; simp at hstop
        | some sp => rw [hsp] at hstop; simp at hstop; rw [hstop]
      have hm := spec0_mono c b0 b hb0b
      have h0 : specLimit c s.maxOff b0 = min l (spec0 c b0 + s.maxOff.getD 0) := by
        unfold specLimit; rw [hstop']
      have h1 : specLimit c s.maxOff b = min l (spec0 c b + s.maxOff.getD 0) := by
        unfold specLimit; rw [hstop']
      rw [h0, h1]
      rw [h0] at hlim
      omega
  · have hpts : (if (!f && !s.prevPts.isEmpty && b == s.prevBase.getD b) = true then s.prevPts else collect c b)
        = collect c b := by
      split
      · rename_i hc
        simp only [Bool.and_eq_true, Bool.not_eq_true', beq_iff_eq] at hc
        have hne : s.prevPts ≠ [] := by
          intro h; rw [h] at hc; simp at hc
        obtain ⟨b0, hpb, hsp⟩ := hc2 hne
        rw [hpb] at hc
        simp only [Option.getD_some] at hc
        rw [hsp, hc.2]
      · rfl
    simp only [hpts] at he
    rw [collect_pick c b hwf, capStop_addOff] at he
    rw [he]
    refine ⟨⟨?_, ?_⟩, rfl, rfl, ?_⟩
    · intro l hl
      simp only [Option.some.injEq] at hl
      exact ⟨b, rfl, hl.symm⟩
    · intro _
      exact ⟨b, rfl, rfl⟩
    · intro b1 hbp _
      rw [hb] at hbp
      simp only [Option.some.injEq] at hbp
      subst hbp
      rfl

end CylcModel.Runahead

namespace CylcModel.Runahead
open CylcModel.Sched (sortDedup minOf sorted_sortDedup mem_sortDedup sorted_ext lastTake lastTake_eq_get
  lastTake_filter_mono lastTake_ge minOf_spec)

/-- a forced `compute_runahead` needs no invariant: it always leaves the specification limit -/
theorem compute_forced (c : Cfg) (s : St) (hwf : wf c = true) :
    DInv c (compute c s true).1 ∧ (compute c s true).1.maxOff = s.maxOff ∧ (compute c s true).1.pool = s.pool ∧
    ∀ b, basePoint c s = some b → (compute c s true).1.limit = some (specLimit c s.maxOff b) := by
  obtain ⟨b0, hb0⟩ := wf_base c hwf s
  rcases compute_shape c s true with ⟨hb, _⟩ | ⟨b, _, hearly, _⟩ | ⟨b, hb, _, he⟩
  · rw [hb0] at hb; exact absurd hb (by simp)
  · simp at hearly
  · simp only [Bool.not_true, Bool.false_and, Bool.false_eq_true, if_false] at he
    rw [collect_pick c b hwf, capStop_addOff] at he
    rw [he]
    refine ⟨⟨?_, ?_⟩, rfl, rfl, ?_⟩
    · intro l hl
      simp only [Option.some.injEq] at hl
      exact ⟨b, rfl, hl.symm⟩
    · intro _
      exact ⟨b, rfl, rfl⟩
    · intro b1 hbp
      rw [hb] at hbp
      simp only [Option.some.injEq] at hbp
      subst hbp
      rfl

/-- `set_max_future_offset`: the stored offset becomes the largest offset in the pool, and the
invariant survives (a changed offset forces a recomputation) -/
theorem setMaxOff_spec (c : Cfg) (s : St) (hwf : wf c = true) (hinv : DInv c s) :
    DInv c (setMaxOff c s) ∧ (setMaxOff c s).maxOff = maxOffOf s.pool ∧ (setMaxOff c s).pool = s.pool := by
  unfold setMaxOff
  simp only
  split
  · have h := compute_forced c { s with maxOff := maxOffOf s.pool } hwf
    exact ⟨h.1, h.2.1, h.2.2.1⟩
  · rename_i hne
    have heq : maxOffOf s.pool = s.maxOff := by simpa using hne
    have : ({ s with maxOff := maxOffOf s.pool } : St) = s := by rw [heq]
    rw [this]
    exact ⟨hinv, heq.symm, rfl⟩

theorem release_fields (s : St) :
    (release s).1.limit = s.limit ∧ (release s).1.prevBase = s.prevBase ∧ (release s).1.prevPts = s.prevPts ∧
    (release s).1.maxOff = s.maxOff ∧ (release s).1.pool.map (·.pt) = s.pool.map (·.pt) ∧
    (release s).1.pool.map (·.off) = s.pool.map (·.off) := by
  unfold release
  split
  · exact ⟨rfl, rfl, rfl, rfl, rfl, rfl⟩
  · split
    · exact ⟨rfl, rfl, rfl, rfl, rfl, rfl⟩
    · refine ⟨rfl, rfl, rfl, rfl, ?_, ?_⟩
      · simp only [List.map_map]
        apply List.map_congr_left
        intro t _
        simp only [Function.comp]
        split <;> rfl
      · simp only [List.map_map]
        apply List.map_congr_left
        intro t _
        simp only [Function.comp]
        split <;> rfl

theorem release_inv (c : Cfg) (s : St) (hinv : DInv c s) : DInv c (release s).1 := by
  obtain ⟨h1, h2, h3, h4, _, _⟩ := release_fields s
  unfold DInv
  rw [h1, h2, h3, h4]
  exact hinv

/-- `release_runahead_tasks` releases only at or before the stored limit, and everything
runahead-limited at or before it -/
theorem release_spec (s : St) :
    (∀ p ∈ (release s).2, ∃ l, s.limit = some l ∧ p ≤ l) ∧
    (∀ l, s.limit = some l → ∀ t ∈ s.pool, t.rh = true → t.pt ≤ l → t.pt ∈ (release s).2) := by
  unfold release
  split
  · rename_i hn
    exact ⟨by intro p hp; simp at hp, by intro l hl; rw [hn] at hl; simp at hl⟩
  · rename_i l hl
    split
    · rename_i hemp
      refine ⟨by intro p hp; simp at hp, ?_⟩
      intro _ _ t ht
      have : s.pool = [] := by simpa using hemp
      rw [this] at ht; simp at ht
    · constructor
      · intro p hp
        simp only [List.mem_map, List.mem_filter, Bool.and_eq_true, decide_eq_true_eq] at hp
        obtain ⟨t, ⟨_, hle, _⟩, rfl⟩ := hp
        exact ⟨l, hl, hle⟩
      · intro l' hl' t ht hrh hle
        rw [hl] at hl'
        simp only [Option.some.injEq] at hl'
        subst hl'
        simp only [List.mem_map, List.mem_filter, Bool.and_eq_true, decide_eq_true_eq]
        exact ⟨t, ⟨ht, hle, hrh⟩, rfl⟩

/-! ### op sequences -/

def runSt (c : Cfg) (ops : List Op) : St := ops.foldl (fun s op => (step c s op).1) {}

theorem dinv_step (c : Cfg) (hwf : wf c = true) (s : St) (op : Op) (h : DInv c s) : DInv c (step c s op).1 := by
  cases op with
  | pool ts => exact h
  | offset => exact (setMaxOff_spec c s hwf h).1
  | compute f => exact (compute_spec c s f hwf h).1
  | release => exact release_inv c s h

theorem dinv_empty (c : Cfg) : DInv c ({} : St) := by
  refine ⟨?_, ?_⟩
  · intro l h; simp at h
  · intro h; simp at h

theorem dinv_run (c : Cfg) (hwf : wf c = true) (ops : List Op) : DInv c (runSt c ops) := by
  unfold runSt
  exact Sched.foldl_inv (DInv c) _ (fun s op h => dinv_step c hwf s op h) ops _ (dinv_empty c)

/-- the main-loop pattern: the pool becomes `ts`, then `set_max_future_offset` -/
theorem runSt_pool_offset (c : Cfg) (ops : List Op) (ts : List Task) :
    runSt c (ops ++ [.pool ts, .offset]) = setMaxOff c { (runSt c ops) with pool := ts } := by
  unfold runSt
  simp only [List.foldl_append, List.foldl_cons, List.foldl_nil, step]

theorem pool_offset_spec (c : Cfg) (hwf : wf c = true) (ops : List Op) (ts : List Task) :
    DInv c (runSt c (ops ++ [.pool ts, .offset])) ∧
    (runSt c (ops ++ [.pool ts, .offset])).maxOff = maxOffOf ts ∧
    (runSt c (ops ++ [.pool ts, .offset])).pool = ts := by
  rw [runSt_pool_offset]
  have hinv : DInv c { (runSt c ops) with pool := ts } := dinv_run c hwf ops
  exact setMaxOff_spec c _ hwf hinv

/-- the specification limit is at or after the base point (within the stop point, offsets not negative) -/
theorem specLimit_ge (c : Cfg) (o : Option Int) (b : Int) (ho : ∀ v, o = some v → 0 ≤ v)
    (hsp : ∀ sp, c.stop = some sp → b ≤ sp) : b ≤ specLimit c o b := by
  have h0 := spec0_ge c b
  have ho' : 0 ≤ o.getD 0 := by
    cases o with
    | none => simp
    | some v => simpa using ho v rfl
  unfold specLimit
  simp only
  split
  · rename_i sp hs
    have := hsp sp hs
    omega
  · omega

end CylcModel.Runahead

