/-
C04F — the limit `compute_runahead` computes, in closed form and against the specification `Sched3FutSpec.specLimit`
(which finds the (n+1)-th earliest recurrence point by walking "the next larger point", without sorting):

* ascending-list facts for `insertSorted` / `sortDedup` and the key lemma `nth_of_union` (as for C04, restated for
  the copies of these functions in `Sched3Fut`);
* `limit0At_eq_lastTake`: the specification's walk = the (n+1)-th element of the sorted distinct points;
* `computeRunahead_forced`: a forced `compute_runahead` sets the limit to `specLimit` of the current base point,
  cached maximum future offset and stop point, in ANY state (under `wfSeqs`: every recurrence an ascending list).
-/
import CylcModel.Sched3FutLemmas
import CylcModel.Sched3FutSpec

namespace CylcModel.Sched3Fut

theorem mem_insertSorted (x y : Int) : ∀ l : List Int, y ∈ insertSorted x l ↔ y = x ∨ y ∈ l := by
  intro l
  induction l with
  | nil => simp [insertSorted]
  | cons a l ih =>
    unfold insertSorted
    split
    · simp
    · split
      · rename_i h1 h2
        have : x = a := by simpa using h2
        subst this
        simp
      · simp [ih]
        constructor
        · rintro (h | h | h) <;> simp [h]
        · rintro (h | h | h) <;> simp [h]

theorem sorted_insertSorted (x : Int) : ∀ l : List Int, l.Pairwise (· < ·) → (insertSorted x l).Pairwise (· < ·) := by
  intro l
  induction l with
  | nil => intro _; simp [insertSorted]
  | cons a l ih =>
    intro h
    unfold insertSorted
    have ha := List.pairwise_cons.mp h
    split
    · rename_i hlt
      refine List.pairwise_cons.mpr ⟨?_, h⟩
      intro y hy
      rcases List.mem_cons.mp hy with rfl | hy
      · exact hlt
      · exact Int.lt_trans hlt (ha.1 y hy)
    · split
      · exact h
      · rename_i h1 h2
        have hne : x ≠ a := by simpa using h2
        have hgt : a < x := by omega
        refine List.pairwise_cons.mpr ⟨?_, ih ha.2⟩
        intro y hy
        rcases (mem_insertSorted x y l).mp hy with rfl | hy
        · exact hgt
        · exact ha.1 y hy

theorem sortDedup_aux (l : List Int) : ∀ acc : List Int, acc.Pairwise (· < ·) →
    (l.foldl (fun acc x => insertSorted x acc) acc).Pairwise (· < ·) ∧
    ∀ y, y ∈ l.foldl (fun acc x => insertSorted x acc) acc ↔ y ∈ l ∨ y ∈ acc := by
  induction l with
  | nil => intro acc h; simp [h]
  | cons a l ih =>
    intro acc h
    simp only [List.foldl_cons]
    obtain ⟨h1, h2⟩ := ih (insertSorted a acc) (sorted_insertSorted a acc h)
    refine ⟨h1, ?_⟩
    intro y
    rw [h2, mem_insertSorted]
    simp only [List.mem_cons]
    constructor
    · rintro (h | h | h) <;> simp [h]
    · rintro ((h | h) | h) <;> simp [h]

theorem sorted_sortDedup (l : List Int) : (sortDedup l).Pairwise (· < ·) :=
  (sortDedup_aux l [] List.Pairwise.nil).1

theorem mem_sortDedup (l : List Int) (y : Int) : y ∈ sortDedup l ↔ y ∈ l := by
  have := (sortDedup_aux l [] List.Pairwise.nil).2 y
  simpa [sortDedup] using this

/-- a strictly ascending list is determined by its members -/
theorem sorted_ext : ∀ (l₁ l₂ : List Int), l₁.Pairwise (· < ·) → l₂.Pairwise (· < ·) →
    (∀ x, x ∈ l₁ ↔ x ∈ l₂) → l₁ = l₂ := by
  intro l₁
  induction l₁ with
  | nil =>
    intro l₂ _ _ h
    cases l₂ with
    | nil => rfl
    | cons b l₂ => exact absurd ((h b).mpr (by simp)) (by simp)
  | cons a l₁ ih =>
    intro l₂ h1 h2 h
    cases l₂ with
    | nil => exact absurd ((h a).mp (by simp)) (by simp)
    | cons b l₂ =>
      have ha := List.pairwise_cons.mp h1
      have hb := List.pairwise_cons.mp h2
      have hab : a = b := by
        have h3 : a ∈ b :: l₂ := (h a).mp (by simp)
        have h4 : b ∈ a :: l₁ := (h b).mpr (by simp)
        rcases List.mem_cons.mp h3 with h3 | h3
        · exact h3
        · rcases List.mem_cons.mp h4 with h4 | h4
          · exact h4.symm
          · have := hb.1 a h3; have := ha.1 b h4; omega
      subst hab
      congr 1
      apply ih l₂ ha.2 hb.2
      intro x
      constructor
      · intro hx
        have : x ∈ a :: l₂ := (h x).mp (by simp [hx])
        rcases List.mem_cons.mp this with rfl | h5
        · have := ha.1 x hx; omega
        · exact h5
      · intro hx
        have : x ∈ a :: l₁ := (h x).mpr (by simp [hx])
        rcases List.mem_cons.mp this with rfl | h5
        · have := hb.1 x hx; omega
        · exact h5



/-- a point among the first `k` of an ascending list `A` is among the first `k` of every ascending
sub-collection `q` of `A` that contains it -/
theorem mem_take_of_sorted : ∀ (k : Nat) (A q : List Int), A.Pairwise (· < ·) → q.Pairwise (· < ·) →
    (∀ z ∈ q, z ∈ A) → ∀ x, x ∈ q → x ∈ A.take k → x ∈ q.take k := by
  intro k
  induction k with
  | zero => intro A q _ _ _ x _ h; simp at h
  | succ k ih =>
    intro A q hA hq hsub x hxq hxA
    cases A with
    | nil => simp at hxA
    | cons a A' =>
      cases q with
      | nil => simp at hxq
      | cons y q' =>
        have ha := List.pairwise_cons.mp hA
        have hy := List.pairwise_cons.mp hq
        simp only [List.take_succ_cons, List.mem_cons] at hxA ⊢
        rcases List.mem_cons.mp hxq with rfl | hxq'
        · exact Or.inl rfl
        · right
          have hyx : y < x := hy.1 x hxq'
          have hay : a ≤ y := by
            rcases List.mem_cons.mp (hsub y (by simp)) with h | h
            · omega
            · have := ha.1 y h; omega
          have hsub' : ∀ z ∈ q', z ∈ A' := by
            intro z hz
            have hz1 := hy.1 z hz
            rcases List.mem_cons.mp (hsub z (by simp [hz])) with h | h
            · omega
            · exact h
          rcases hxA with h | h
          · omega
          · exact ih A' q' ha.2 hy.2 hsub' x hxq' h

/-- two ascending lists, one contained in the other and containing the other's first `k`, share their first `k` -/
theorem take_eq_of_subset : ∀ (k : Nat) (A B : List Int), A.Pairwise (· < ·) → B.Pairwise (· < ·) →
    (∀ x ∈ B, x ∈ A) → (∀ x ∈ A.take k, x ∈ B) → B.take k = A.take k := by
  intro k
  induction k with
  | zero => intros; simp
  | succ k ih =>
    intro A B hA hB hBA hAB
    cases A with
    | nil =>
      cases B with
      | nil => rfl
      | cons b B' => exact absurd (hBA b (by simp)) (by simp)
    | cons a A' =>
      have ha := List.pairwise_cons.mp hA
      cases B with
      | nil => exact absurd (hAB a (by simp)) (by simp)
      | cons b B' =>
        have hb := List.pairwise_cons.mp hB
        have hab : b = a := by
          have h1 : a ∈ b :: B' := hAB a (by simp)
          have h2 : b ∈ a :: A' := hBA b (by simp)
          rcases List.mem_cons.mp h1 with h1 | h1
          · exact h1.symm
          · rcases List.mem_cons.mp h2 with h2 | h2
            · exact h2
            · have := hb.1 a h1; have := ha.1 b h2; omega
        subst hab
        simp only [List.take_succ_cons]
        congr 1
        apply ih A' B' ha.2 hb.2
        · intro x hx
          have := hb.1 x hx
          rcases List.mem_cons.mp (hBA x (by simp [hx])) with h | h
          · omega
          · exact h
        · intro x hx
          have h1 : x ∈ A' := List.mem_of_mem_take hx
          have := ha.1 x h1
          rcases List.mem_cons.mp (hAB x (by simp [hx])) with h | h
          · omega
          · exact h

/-- **the (n+1) smallest of a union of sorted lists are the (n+1) smallest of the union of each
list's first (n+1)** — which is all `compute_runahead` looks at per recurrence -/
theorem nth_of_union (k : Nat) (ls : List (List Int)) (h : ∀ q ∈ ls, q.Pairwise (· < ·)) :
    (sortDedup (ls.flatMap fun q => q.take k)).take k = (sortDedup (ls.flatMap fun q => q)).take k := by
  apply take_eq_of_subset k _ _ (sorted_sortDedup _) (sorted_sortDedup _)
  · intro x hx
    rw [mem_sortDedup] at hx ⊢
    obtain ⟨q, hq, hxq⟩ := List.mem_flatMap.mp hx
    exact List.mem_flatMap.mpr ⟨q, hq, List.mem_of_mem_take hxq⟩
  · intro x hx
    have hxA : x ∈ sortDedup (ls.flatMap fun q => q) := List.mem_of_mem_take hx
    rw [mem_sortDedup] at hxA ⊢
    obtain ⟨q, hq, hxq⟩ := List.mem_flatMap.mp hxA
    refine List.mem_flatMap.mpr ⟨q, hq, ?_⟩
    apply mem_take_of_sorted k _ q (sorted_sortDedup _) (h q hq) _ x hxq hx
    intro z hz
    rw [mem_sortDedup]
    exact List.mem_flatMap.mpr ⟨q, hq, hz⟩

/-- the last of the first `k`, or `d` -/
def lastTake (k : Nat) (L : List Int) (d : Int) : Int := ((L.take k).getLast?).getD d

theorem lastTake_nil (k : Nat) (d : Int) : lastTake k [] d = d := by simp [lastTake]

theorem lastTake_zero (L : List Int) (d : Int) : lastTake 0 L d = d := by simp [lastTake]

theorem lastTake_cons (k : Nat) (a : Int) (L : List Int) (d : Int) :
    lastTake (k + 1) (a :: L) d = lastTake k L a := by
  simp [lastTake, List.getLast?_cons]

theorem lastTake_succ_mono : ∀ (L : List Int) (m : Nat) (d : Int), L.Pairwise (· < ·) → (∀ x ∈ L, d ≤ x) →
    lastTake m L d ≤ lastTake (m + 1) L d := by
  intro L
  induction L with
  | nil => intro m d _ _; simp [lastTake_nil]
  | cons a L ih =>
    intro m d h hd
    have ha := List.pairwise_cons.mp h
    cases m with
    | zero =>
      rw [lastTake_zero, lastTake_cons, lastTake_zero]
      exact hd a (by simp)
    | succ m =>
      rw [lastTake_cons, lastTake_cons]
      exact ih m a ha.2 (fun x hx => Int.le_of_lt (ha.1 x hx))

theorem lastTake_ge : ∀ (L : List Int) (k : Nat) (d : Int), (∀ x ∈ L, d ≤ x) → d ≤ lastTake k L d := by
  intro L k d h
  unfold lastTake
  cases hl : (L.take k).getLast? with
  | none => simp
  | some v =>
    simp only [Option.getD_some]
    exact h v (List.mem_of_mem_take (List.mem_of_getLast? hl))

/-- raising the base point never lowers the limit -/
theorem lastTake_filter_mono (k : Nat) (b : Int) : ∀ (T : List Int) (b' : Int), T.Pairwise (· < ·) →
    (∀ x ∈ T, b' ≤ x) → b' ≤ b →
    lastTake (k + 1) T b' ≤ lastTake (k + 1) (T.filter (· ≥ b)) b := by
  intro T
  induction T with
  | nil => intro b' _ _ h; simpa [lastTake_nil] using h
  | cons t T ih =>
    intro b' hT hb' hle
    have ht := List.pairwise_cons.mp hT
    by_cases htb : b ≤ t
    · -- nothing is filtered out
      have hall : (t :: T).filter (· ≥ b) = t :: T := by
        apply List.filter_eq_self.mpr
        intro x hx
        rcases List.mem_cons.mp hx with rfl | hx
        · simpa using htb
        · have := ht.1 x hx; simp; omega
      rw [hall, lastTake_cons, lastTake_cons]
      exact Int.le_refl _
    · have hdrop : (t :: T).filter (· ≥ b) = T.filter (· ≥ b) := by
        rw [List.filter_cons]
        simp [htb]
      rw [hdrop, lastTake_cons]
      have h1 : lastTake k T t ≤ lastTake (k + 1) T t :=
        lastTake_succ_mono T k t ht.2 (fun x hx => Int.le_of_lt (ht.1 x hx))
      have h2 := ih t ht.2 (fun x hx => Int.le_of_lt (ht.1 x hx)) (by omega)
      omega

theorem foldl_min_spec : ∀ (xs : List Int) (x : Int),
    (xs.foldl min x ∈ x :: xs) ∧ ∀ y ∈ x :: xs, xs.foldl min x ≤ y := by
  intro xs
  induction xs with
  | nil => intro x; simp
  | cons a xs ih =>
    intro x
    simp only [List.foldl_cons]
    obtain ⟨h1, h2⟩ := ih (min x a)
    constructor
    · rcases List.mem_cons.mp h1 with h | h
      · rw [h]
        by_cases hxa : x ≤ a
        · simp [Int.min_def, hxa]
        · simp [Int.min_def, hxa]
      · simp [h]
    · intro y hy
      have hm := h2 (min x a) (by simp)
      rcases List.mem_cons.mp hy with rfl | hy
      · have : min y a ≤ y := Int.min_le_left _ _
        omega
      · rcases List.mem_cons.mp hy with rfl | hy
        · have : min x y ≤ y := Int.min_le_right _ _
          omega
        · exact h2 y (by simp [hy])

theorem minOf_spec (l : List Int) (b : Int) (h : minOf l = some b) : b ∈ l ∧ ∀ y ∈ l, b ≤ y := by
  cases l with
  | nil => simp [minOf] at h
  | cons x xs =>
    simp only [minOf, Option.some.injEq] at h
    subst h
    exact foldl_min_spec xs x

/-! ### the specification's walk over the plain union of points -/

def npStep (lo : Int) (strict : Bool) (acc : Option Int) (x : Int) : Option Int :=
  if (if strict then decide (x > lo) else decide (x ≥ lo)) then
    (match acc with
     | none => some x
     | some a => if x < a then some x else acc)
  else acc

def npCond (lo : Int) (strict : Bool) (x : Int) : Prop := if strict then x > lo else x ≥ lo

theorem npCond_iff (lo : Int) (strict : Bool) (x : Int) :
    (if strict then decide (x > lo) else decide (x ≥ lo)) = true ↔ npCond lo strict x := by
  unfold npCond; cases strict <;> simp

theorem nextPoint_eq (all : List Int) (lo : Int) (strict : Bool) :
    nextPoint all lo strict = all.foldl (npStep lo strict) none := rfl

theorem foldl_npStep (lo : Int) (strict : Bool) : ∀ (l : List Int) (acc : Option Int),
    (∀ a, acc = some a → npCond lo strict a) →
    (l.foldl (npStep lo strict) acc = none → acc = none ∧ ∀ x ∈ l, ¬ npCond lo strict x) ∧
    (∀ m, l.foldl (npStep lo strict) acc = some m →
      (m ∈ l ∨ acc = some m) ∧ npCond lo strict m ∧ (∀ y ∈ l, npCond lo strict y → m ≤ y) ∧
      (∀ a, acc = some a → m ≤ a)) := by
  intro l
  induction l with
  | nil =>
    intro acc hacc
    refine ⟨fun h => ⟨h, fun x hx => by simp at hx⟩, ?_⟩
    intro m hm
    exact ⟨Or.inr hm, hacc m hm, fun y hy => by simp at hy, fun a ha => by
      have : acc = some m := hm
      rw [this] at ha; simp only [Option.some.injEq] at ha; omega⟩
  | cons x l ih =>
    intro acc hacc
    simp only [List.foldl_cons]
    by_cases hc : npCond lo strict x
    · have hstep : ∃ a', npStep lo strict acc x = some a' ∧ npCond lo strict a' ∧ a' ≤ x ∧
          (∀ a, acc = some a → a' ≤ a) ∧ (a' = x ∨ acc = some a') := by
        unfold npStep
        rw [(npCond_iff lo strict x).mpr hc]
        simp only [if_true]
        cases acc with
        | none => exact ⟨x, rfl, hc, Int.le_refl _, fun a ha => by simp at ha, Or.inl rfl⟩
        | some a =>
          simp only
          by_cases hlt : x < a
          · simp only [hlt, if_true]
            exact ⟨x, rfl, hc, Int.le_refl _, fun a' ha' => by simp only [Option.some.injEq] at ha'; omega, Or.inl rfl⟩
          · simp only [hlt, if_false]
            exact ⟨a, rfl, hacc a rfl, by omega, fun a' ha' => by simp only [Option.some.injEq] at ha'; omega, Or.inr rfl⟩
      obtain ⟨a', ha', hca', hle, hmin, hor⟩ := hstep
      rw [ha']
      obtain ⟨ih1, ih2⟩ := ih (some a') (fun a ha => by simp only [Option.some.injEq] at ha; subst ha; exact hca')
      refine ⟨fun h => by have := (ih1 h).1; simp at this, ?_⟩
      intro m hm
      obtain ⟨h1, h2, h3, h4⟩ := ih2 m hm
      have hma' : m ≤ a' := h4 a' rfl
      refine ⟨?_, h2, ?_, ?_⟩
      · rcases h1 with h1 | h1
        · exact Or.inl (List.mem_cons_of_mem _ h1)
        · simp only [Option.some.injEq] at h1
          subst h1
          rcases hor with hor | hor
          · exact Or.inl (hor ▸ List.mem_cons_self)
          · exact Or.inr hor
      · intro y hy hcy
        rcases List.mem_cons.mp hy with rfl | hy
        · omega
        · exact h3 y hy hcy
      · intro a ha
        have := hmin a ha
        omega
    · have hstep : npStep lo strict acc x = acc := by
        unfold npStep
        have : ¬ (if strict then decide (x > lo) else decide (x ≥ lo)) = true := fun h => hc ((npCond_iff lo strict x).mp h)
        simp [this]
      rw [hstep]
      obtain ⟨ih1, ih2⟩ := ih acc hacc
      refine ⟨?_, ?_⟩
      · intro h
        obtain ⟨h1, h2⟩ := ih1 h
        refine ⟨h1, ?_⟩
        intro y hy
        rcases List.mem_cons.mp hy with rfl | hy
        · exact hc
        · exact h2 y hy
      · intro m hm
        obtain ⟨h1, h2, h3, h4⟩ := ih2 m hm
        refine ⟨?_, h2, ?_, h4⟩
        · rcases h1 with h1 | h1
          · exact Or.inl (List.mem_cons_of_mem _ h1)
          · exact Or.inr h1
        · intro y hy hcy
          rcases List.mem_cons.mp hy with rfl | hy
          · exact absurd hcy hc
          · exact h3 y hy hcy

theorem nextPoint_none {all : List Int} {lo : Int} {strict : Bool} (h : nextPoint all lo strict = none) :
    ∀ x ∈ all, ¬ npCond lo strict x :=
  ((foldl_npStep lo strict all none (fun a ha => by simp at ha)).1 h).2

theorem nextPoint_some {all : List Int} {lo : Int} {strict : Bool} {m : Int} (h : nextPoint all lo strict = some m) :
    m ∈ all ∧ npCond lo strict m ∧ ∀ y ∈ all, npCond lo strict y → m ≤ y := by
  obtain ⟨h1, h2, h3, _⟩ := (foldl_npStep lo strict all none (fun a ha => by simp at ha)).2 m h
  rcases h1 with h1 | h1
  · exact ⟨h1, h2, h3⟩
  · simp at h1

/-- the smallest element satisfying the condition, when there is one -/
theorem nextPoint_of_min {all : List Int} {lo : Int} {strict : Bool} {m : Int} (hm : m ∈ all) (hc : npCond lo strict m)
    (hmin : ∀ y ∈ all, npCond lo strict y → m ≤ y) : nextPoint all lo strict = some m := by
  cases h : nextPoint all lo strict with
  | none => exact absurd hc (nextPoint_none h m hm)
  | some m' =>
    obtain ⟨h1, h2, h3⟩ := nextPoint_some h
    have := hmin m' h1 h2
    have := h3 m hm hc
    congr 1; omega

theorem nextPoint_of_none {all : List Int} {lo : Int} {strict : Bool} (h : ∀ x ∈ all, ¬ npCond lo strict x) :
    nextPoint all lo strict = none := by
  cases h' : nextPoint all lo strict with
  | none => rfl
  | some m => exact absurd (nextPoint_some h').2.1 (h m (nextPoint_some h').1)

/-- walking from the head of an ascending suffix of the points above it -/
theorem walkPoints_sorted (all : List Int) : ∀ (rest : List Int) (k : Nat) (a : Int),
    (a :: rest).Pairwise (· < ·) → (∀ x, (x ∈ all ∧ x > a) ↔ x ∈ rest) →
    walkPoints all k a = lastTake k rest a := by
  intro rest
  induction rest with
  | nil =>
    intro k a _ hmem
    cases k with
    | zero => simp [walkPoints, lastTake_zero]
    | succ k =>
      unfold walkPoints
      rw [nextPoint_of_none (strict := true) (lo := a) (fun x hx hc => by
        have := (hmem x).mp ⟨hx, by simpa [npCond] using hc⟩
        simp at this)]
      simp [lastTake_nil]
  | cons a' rest ih =>
    intro k a hs hmem
    cases k with
    | zero => simp [walkPoints, lastTake_zero]
    | succ k =>
      have hp := List.pairwise_cons.mp hs
      have ha' : a' ∈ all ∧ a' > a := (hmem a').mpr List.mem_cons_self
      unfold walkPoints
      rw [nextPoint_of_min (m := a') ha'.1 (by simpa [npCond] using ha'.2) (by
        intro y hy hc
        have hy' := (hmem y).mp ⟨hy, by simpa [npCond] using hc⟩
        rcases List.mem_cons.mp hy' with rfl | hy'
        · exact Int.le_refl _
        · exact Int.le_of_lt ((List.pairwise_cons.mp hp.2).1 y hy'))]
      simp only
      rw [lastTake_cons]
      apply ih k a' hp.2
      intro x
      constructor
      · rintro ⟨hx, hgt⟩
        have := (hmem x).mp ⟨hx, by omega⟩
        rcases List.mem_cons.mp this with rfl | h
        · omega
        · exact h
      · intro hx
        have h1 := (hmem x).mpr (List.mem_cons_of_mem _ hx)
        exact ⟨h1.1, (List.pairwise_cons.mp hp.2).1 x hx⟩

/-- all points of all recurrences at or after `b`: distinct, ascending -/
def pointsFrom (g : Graph) (b : Int) : List Int := sortDedup ((allPoints g).filter (· ≥ b))

theorem mem_pointsFrom (g : Graph) (b x : Int) : x ∈ pointsFrom g b ↔ x ∈ allPoints g ∧ b ≤ x := by
  unfold pointsFrom
  rw [mem_sortDedup, List.mem_filter]
  simp

/-- **the specification's walk finds the (n+1)-th earliest point** -/
theorem limit0At_eq_lastTake (g : Graph) (b : Int) :
    limit0At g b = lastTake (g.runahead + 1) (pointsFrom g b) b := by
  unfold limit0At
  have hs : (pointsFrom g b).Pairwise (· < ·) := sorted_sortDedup _
  cases hL : pointsFrom g b with
  | nil =>
    rw [nextPoint_of_none (strict := false) (lo := b) (fun x hx hc => by
      have : x ∈ pointsFrom g b := (mem_pointsFrom g b x).mpr ⟨hx, by simpa [npCond] using hc⟩
      rw [hL] at this; simp at this)]
    simp [lastTake_nil]
  | cons a rest =>
    rw [hL] at hs
    have hp := List.pairwise_cons.mp hs
    have ha : a ∈ allPoints g ∧ b ≤ a := (mem_pointsFrom g b a).mp (hL ▸ List.mem_cons_self)
    rw [nextPoint_of_min (m := a) ha.1 (by simpa [npCond] using ha.2) (by
      intro y hy hc
      have : y ∈ pointsFrom g b := (mem_pointsFrom g b y).mpr ⟨hy, by simpa [npCond] using hc⟩
      rw [hL] at this
      rcases List.mem_cons.mp this with rfl | h
      · exact Int.le_refl _
      · exact Int.le_of_lt (hp.1 y h))]
    simp only
    rw [lastTake_cons]
    apply walkPoints_sorted (allPoints g) rest g.runahead a hs
    intro x
    constructor
    · rintro ⟨hx, hgt⟩
      have : x ∈ pointsFrom g b := (mem_pointsFrom g b x).mpr ⟨hx, by omega⟩
      rw [hL] at this
      rcases List.mem_cons.mp this with rfl | h
      · omega
      · exact h
    · intro hx
      have : x ∈ pointsFrom g b := hL ▸ List.mem_cons_of_mem _ hx
      exact ⟨((mem_pointsFrom g b x).mp this).1, hp.1 x hx⟩

/-! ### what `compute_runahead` computes -/

theorem seqPoints_take (g : Graph) (b : Int) (hwf : wfSeqs g = true) :
    (seqPoints g b).take (g.runahead + 1) = (pointsFrom g b).take (g.runahead + 1) := by
  have h := nth_of_union (g.runahead + 1) (g.seqs.map fun q => q.filter (· ≥ b)) (by
    intro q hq
    obtain ⟨q0, hq0, rfl⟩ := List.mem_map.mp hq
    have : q0.Pairwise (· < ·) := by
      have := List.all_eq_true.mp hwf q0 hq0
      simpa using this
    exact this.filter _)
  have e1 : (List.flatMap (fun q => List.take (g.runahead + 1) q) (List.map (fun q => List.filter (fun x => decide (x ≥ b)) q) g.seqs))
      = g.seqs.flatMap fun q => (q.filter (· ≥ b)).take (g.runahead + 1) := by
    simp [List.flatMap_map]
  have e2 : sortDedup (List.flatMap (fun q => q) (List.map (fun q => List.filter (fun x => decide (x ≥ b)) q) g.seqs))
      = pointsFrom g b := by
    apply sorted_ext _ _ (sorted_sortDedup _) (sorted_sortDedup _)
    intro x
    unfold allPoints
    rw [mem_sortDedup, mem_sortDedup]
    simp only [List.mem_flatMap, List.mem_map, List.mem_filter, id]
    constructor
    · rintro ⟨q, ⟨q0, hq0, rfl⟩, hx⟩
      have := List.mem_filter.mp hx
      exact ⟨⟨q0, hq0, this.1⟩, this.2⟩
    · rintro ⟨⟨q0, hq0, hx⟩, hge⟩
      exact ⟨_, ⟨q0, hq0, rfl⟩, List.mem_filter.mpr ⟨hx, hge⟩⟩
  unfold seqPoints
  rw [← e1, h, e2]

/-- **a forced `compute_runahead` sets the limit to the specification limit** of the current base point, the
cached maximum future offset and the stop point — in any state -/
theorem computeRunahead_forced (g : Graph) (s : State) (hwf : wfSeqs g = true) (b : Int) (hb : basePointOf g s = some b) :
    (computeRunahead g s true).rhLimit = some (specLimit g b s.maxFut s.stopPoint) := by
  unfold computeRunahead
  simp only [hb, Bool.not_true, Bool.false_and, Bool.false_eq_true, if_false]
  congr 1
  have hl : lastOr ((seqPoints g b).take (g.runahead + 1)) b = limit0At g b := by
    rw [limit0At_eq_lastTake, seqPoints_take g b hwf]
    unfold lastTake lastOr
    cases ((pointsFrom g b).take (g.runahead + 1)).getLast? <;> rfl
  rw [hl]
  unfold specLimit capAt applyOffset
  cases s.maxFut with
  | none =>
    simp only [Option.getD_none, Int.add_zero]
    cases s.stopPoint <;> rfl
  | some k =>
    simp only [Option.getD_some]
    cases s.stopPoint <;> rfl

/-- the limit never exceeds the stop point after a computation that did compute -/
theorem computeRunahead_forced_le_stop (g : Graph) (s : State) (sp l : Int) (hsp : s.stopPoint = some sp)
    (h : (computeRunahead g s true).rhLimit = some l) (hb : (basePointOf g s).isSome) : l ≤ sp := by
  unfold computeRunahead at h
  cases hbase : basePointOf g s with
  | none => rw [hbase] at hb; simp at hb
  | some b =>
    simp only [hbase, Bool.not_true, Bool.false_and, Bool.false_eq_true, if_false, hsp, Option.some.injEq] at h
    subst h
    unfold capAt
    simp only
    split <;> omega

/-! ### the specification limit grows with the offset -/

theorem specLimit_mono_off (g : Graph) (b : Int) (o1 o2 : Option Int) (sp : Option Int)
    (h : o1.getD 0 ≤ o2.getD 0) : specLimit g b o1 sp ≤ specLimit g b o2 sp := by
  unfold specLimit
  simp only
  cases sp with
  | none => simp only; omega
  | some q => simp only; split <;> split <;> omega

theorem optMax_nonneg {a b : Option Int} (ha : ∀ v, a = some v → 0 ≤ v) (hb : ∀ v, b = some v → 0 ≤ v) :
    ∀ v, optMax a b = some v → 0 ≤ v := by
  intro v hv
  cases a with
  | none => exact hb v (by simpa [optMax] using hv)
  | some x =>
    cases b with
    | none => exact ha v (by simpa [optMax] using hv)
    | some y =>
      simp only [optMax, Option.some.injEq] at hv
      have := ha x rfl
      have := hb y rfl
      split at hv <;> omega

theorem maxOpt_nonneg {l : List (Option Int)} (h : ∀ e ∈ l, ∀ v, e = some v → 0 ≤ v) : ∀ v, maxOpt l = some v → 0 ≤ v := by
  unfold maxOpt
  have : ∀ (l : List (Option Int)) (acc : Option Int), (∀ v, acc = some v → 0 ≤ v) →
      (∀ e ∈ l, ∀ v, e = some v → 0 ≤ v) → ∀ v, l.foldl optMax acc = some v → 0 ≤ v := by
    intro l
    induction l with
    | nil => intro acc ha _ v hv; exact ha v hv
    | cons x l ih =>
      intro acc ha hl v hv
      simp only [List.foldl_cons] at hv
      exact ih _ (optMax_nonneg ha (hl x List.mem_cons_self)) (fun e he => hl e (List.mem_cons_of_mem _ he)) v hv
  exact this l none (fun v hv => by simp at hv) h

theorem taskMaxOff_nonneg (g : Graph) (hwf : wfOff g = true) (n : String) : ∀ v, taskMaxOff g n = some v → 0 ≤ v := by
  unfold taskMaxOff
  cases ht : g.task? n with
  | none => intro v hv; simp at hv
  | some t =>
    simp only
    apply maxOpt_nonneg
    intro e he v hev
    obtain ⟨pd, hpd, rfl⟩ := List.mem_map.mp he
    have htm : t ∈ g.tasks := List.mem_of_find?_eq_some ht
    have h1 := List.all_eq_true.mp (List.all_eq_true.mp hwf t htm) pd hpd
    rw [hev] at h1
    simpa using h1

theorem highOff_nonneg (g : Graph) (hwf : wfOff g = true) (ks : List (Int × String)) :
    ∀ v, highOff g ks = some v → 0 ≤ v := by
  unfold highOff
  apply maxOpt_nonneg
  intro e he v hev
  obtain ⟨k, _, rfl⟩ := List.mem_map.mp he
  exact taskMaxOff_nonneg g hwf k.2 v hev

/-- an offset below the bracket's upper end gives a limit below the one the judge computes -/
theorem getD_le_of_optLe {a b : Option Int} (h : optLe a b = true) (hb : ∀ v, b = some v → 0 ≤ v) :
    a.getD 0 ≤ b.getD 0 := by
  cases a with
  | none =>
    cases b with
    | none => simp
    | some y => simp only [Option.getD_none, Option.getD_some]; exact hb y rfl
  | some x =>
    cases b with
    | none => simp [optLe] at h
    | some y => simpa [optLe] using h

/-! ### the future offset of an instance, from its prerequisite atoms -/

def offStep (p : Int) (acc : Option Int) (q : Int) : Option Int :=
  if q > p then
    (match acc with
     | none => some (q - p)
     | some o => if q - p > o then some (q - p) else acc)
  else acc

theorem atomFutOff_eq (p : Int) (pres : List Pre) :
    atomFutOff p pres = (pres.flatMap fun pr => pr.atoms.map fun a => a.1.pt).foldl (offStep p) none := rfl

theorem foldl_offStep (p : Int) : ∀ (l : List Int) (acc : Option Int),
    (∀ o, acc = some o → 0 < o) →
    (l.foldl (offStep p) acc = none → acc = none ∧ ∀ q ∈ l, q ≤ p) ∧
    (∀ o, l.foldl (offStep p) acc = some o →
      0 < o ∧ (acc = some o ∨ (p + o) ∈ l) ∧ (∀ q ∈ l, q ≤ p + o) ∧ (∀ a, acc = some a → a ≤ o)) := by
  intro l
  induction l with
  | nil =>
    intro acc hacc
    refine ⟨fun h => ⟨h, fun q hq => by simp at hq⟩, ?_⟩
    intro o ho
    exact ⟨hacc o ho, Or.inl ho, fun q hq => by simp at hq, fun a ha => by
      have : acc = some o := ho
      rw [this] at ha; simp only [Option.some.injEq] at ha; omega⟩
  | cons x l ih =>
    intro acc hacc
    simp only [List.foldl_cons]
    by_cases hx : x > p
    · have hstep : ∃ a', offStep p acc x = some a' ∧ 0 < a' ∧ x - p ≤ a' ∧ (∀ a, acc = some a → a ≤ a') ∧
          (a' = x - p ∨ acc = some a') := by
        unfold offStep
        simp only [hx, if_true]
        cases acc with
        | none => exact ⟨x - p, rfl, by omega, Int.le_refl _, fun a ha => by simp at ha, Or.inl rfl⟩
        | some a =>
          simp only
          have := hacc a rfl
          by_cases hgt : x - p > a
          · simp only [hgt, if_true]
            exact ⟨x - p, rfl, by omega, Int.le_refl _, fun a' ha' => by simp only [Option.some.injEq] at ha'; omega, Or.inl rfl⟩
          · simp only [hgt, if_false]
            exact ⟨a, rfl, this, by omega, fun a' ha' => by simp only [Option.some.injEq] at ha'; omega, Or.inr rfl⟩
      obtain ⟨a', ha', hpos, hle, hmin, hor⟩ := hstep
      rw [ha']
      obtain ⟨ih1, ih2⟩ := ih (some a') (fun o ho => by simp only [Option.some.injEq] at ho; omega)
      refine ⟨fun h => by have := (ih1 h).1; simp at this, ?_⟩
      intro o ho
      obtain ⟨h1, h2, h3, h4⟩ := ih2 o ho
      have hao : a' ≤ o := h4 a' rfl
      refine ⟨h1, ?_, ?_, ?_⟩
      · rcases h2 with h2 | h2
        · simp only [Option.some.injEq] at h2
          subst h2
          rcases hor with hor | hor
          · right
            have : p + a' = x := by omega
            rw [this]; exact List.mem_cons_self
          · exact Or.inl hor
        · exact Or.inr (List.mem_cons_of_mem _ h2)
      · intro q hq
        rcases List.mem_cons.mp hq with rfl | hq
        · omega
        · exact h3 q hq
      · intro a ha
        have := hmin a ha
        omega
    · have hstep : offStep p acc x = acc := by unfold offStep; simp [hx]
      rw [hstep]
      obtain ⟨ih1, ih2⟩ := ih acc hacc
      refine ⟨?_, ?_⟩
      · intro h
        obtain ⟨h1, h2⟩ := ih1 h
        refine ⟨h1, ?_⟩
        intro q hq
        rcases List.mem_cons.mp hq with rfl | hq
        · omega
        · exact h2 q hq
      · intro o ho
        obtain ⟨h1, h2, h3, h4⟩ := ih2 o ho
        refine ⟨h1, ?_, ?_, h4⟩
        · rcases h2 with h2 | h2
          · exact Or.inl h2
          · exact Or.inr (List.mem_cons_of_mem _ h2)
        · intro q hq
          rcases List.mem_cons.mp hq with rfl | hq
          · omega
          · exact h3 q hq

/-- the points of the prerequisite atoms -/
def atomPts (pres : List Pre) : List Int := pres.flatMap fun pr => pr.atoms.map fun a => a.1.pt

/-- **what `atomFutOff` computes**: `none` iff no prerequisite atom lies at a later point; `some o` iff `o > 0`, some
atom lies exactly `o` cycles later and none lies further -/
theorem atomFutOff_spec (p : Int) (pres : List Pre) :
    (atomFutOff p pres = none → ∀ q ∈ atomPts pres, q ≤ p) ∧
    (∀ o, atomFutOff p pres = some o → 0 < o ∧ (p + o) ∈ atomPts pres ∧ ∀ q ∈ atomPts pres, q ≤ p + o) := by
  obtain ⟨h1, h2⟩ := foldl_offStep p (atomPts pres) none (fun o ho => by simp at ho)
  constructor
  · intro h; exact (h1 h).2
  · intro o ho
    obtain ⟨a, b, c, _⟩ := h2 o ho
    refine ⟨a, ?_, c⟩
    rcases b with b | b
    · simp at b
    · exact b

/-- under `wfFut` the offset the model (and the judge) use for an instance is the one its atoms give -/
theorem instOff_of_wfFut (g : Graph) (hwf : wfFut g = true) (n : String) (p : Int) (t : TaskDefn) (d : InstDef)
    (ht : g.task? n = some t) (hd : t.inst? p = some d) : instOff g n p = atomFutOff p (d.pre ++ d.sui) := by
  unfold instOff
  rw [ht]
  simp only [Option.bind_some, hd]
  unfold TaskDefn.inst? at hd
  cases hf : t.insts.find? (fun x => x.1 == p) with
  | none => rw [hf] at hd; simp at hd
  | some pd =>
    rw [hf] at hd
    simp only [Option.map_some, Option.some.injEq] at hd
    have hmem : pd ∈ t.insts := List.mem_of_find?_eq_some hf
    have hp : pd.1 = p := by simpa using List.find?_some hf
    have htm : t ∈ g.tasks := List.mem_of_find?_eq_some ht
    have h1 := List.all_eq_true.mp (List.all_eq_true.mp hwf t htm) pd hmem
    rw [hd, hp] at h1
    simpa using h1

end CylcModel.Sched3Fut
