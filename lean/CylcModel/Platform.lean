/-
Platform — executable model of `cylc/flow/platforms.py`:
`get_host_from_platform`, `get_platform_from_group`, `platform_from_name`.

* Regular-expression matching is an **input**: `Env.pm name i` says whether platform definition `i`
  (its name pattern, commas read as alternation) fully matches `name`; `Env.gm name g` the same for
  platform-group definition `g`.  `PlatDef.lhPrefix / lhFull` say whether the pattern contains regex
  specials and matches a prefix of / all of `"localhost"`.
* `random.choice` is an **input**: a stream of naturals `cs`; a random selection from a list `l`
  consumes one number `c` and yields `l[c % l.length]` (an exhausted stream yields 0).  Theorems
  quantify over all streams.
* Definitions are kept in definition order (Python dict order); the code scans them reversed.

Tables read from the live source (`Generated/PlatformCfg.lean`): the selection methods, `JOBLESS_MODES`
and the probed behaviour flag `lhGuardPrefix`.
-/
import CylcModel.Generated.PlatformCfg
namespace CylcModel.Platform

abbrev Host := String
abbrev Name := String

/-- exceptions of the three functions, as a small enum -/
inductive Err where
  | noHosts                                -- NoHostsError
  | noPlatforms (consumed : List Host)     -- NoPlatformsError(hosts_consumed) (sorted, distinct)
  | lookup                                 -- PlatformLookupError
  | method                                 -- CylcError: unsupported selection method
  | keyError                               -- KeyError (`platforms['localhost']` absent)
  deriving DecidableEq, Repr

/-- one `[platforms][<key>]` section as loaded -/
structure PlatDef where
  key : String
  hosts : List Host
  method : String
  tag : String          -- identifies the definition in observations (`install target`)
  lhPrefix : Bool
  lhFull : Bool
  deriving DecidableEq, Repr

/-- one `[platform groups][<key>]` section as loaded -/
structure GroupDef where
  key : String
  members : List Name
  method : String
  deriving DecidableEq, Repr

structure Env where
  plats : List PlatDef
  groups : List GroupDef
  pm : Name → Nat → Bool
  gm : Name → Nat → Bool

/-- the platform dictionary returned by `platform_from_name`, projected -/
structure Plat where
  name : Name
  hosts : List Host
  method : String
  tag : String
  deriving DecidableEq, Repr

inductive Kind where
  | first | random
  deriving DecidableEq

/-- `HOST_SELECTION_METHODS` -/
def methodKind (m : String) : Option Kind :=
  if methodsFirst.contains m then some .first
  else if methodsRandom.contains m then some .random
  else none

def nextChoice : List Nat → Nat × List Nat
  | [] => (0, [])
  | c :: cs => (c, cs)

/-- `HOST_SELECTION_METHODS[method](x :: xs)`; an unknown method is a `CylcError` -/
def pick {α} (method : String) (x : α) (xs : List α) (cs : List Nat) : Except Err (α × List Nat) :=
  match methodKind method with
  | none => .error .method
  | some .first => .ok (x, cs)
  | some .random =>
    let c := nextChoice cs
    .ok ((x :: xs).getD (c.1 % (xs.length + 1)) x, c.2)

/-- `goodhosts`: the filter is skipped when `bad_hosts` is falsy -/
def goodHosts (hosts bad : List Host) : List Host :=
  if bad.isEmpty then hosts else hosts.filter fun h => !bad.contains h

/-- `get_host_from_platform(platform, bad_hosts)` -/
def getHost (hosts : List Host) (method : String) (bad : List Host) (cs : List Nat) :
    Except Err (Host × List Nat) :=
  match goodHosts hosts bad with
  | [] => .error .noHosts
  | h :: hs => pick method h hs cs

/-- the greatest index `< n` that matches: `for ... in reversed(list(defs)): if fullmatch: ...` -/
def lookupLast (m : Nat → Bool) : Nat → Option Nat
  | 0 => none
  | n + 1 => if m n then some n else lookupLast m n

/-- the "localhost platform cannot be defined using a regular expression" guard -/
def guardClash (d : PlatDef) : Bool := if lhGuardPrefix then d.lhPrefix else d.lhFull

def platOf (name : Name) (d : PlatDef) : Plat :=
  ⟨name, if d.hosts.isEmpty then [name] else d.hosts, d.method, d.tag⟩

/-- second half of `platform_from_name`: the localhost guard, then the reversed scan of the platform
definitions, then the fallback for run-mode names -/
def platformLookup (e : Env) (name : Name) : Except Err Plat :=
  if e.plats.any guardClash then .error .lookup
  else
    match lookupLast (e.pm name) e.plats.length with
    | some i =>
      match e.plats[i]? with
      | some d => .ok (platOf name d)
      | none => .error .keyError
    | none =>
      if jobless.contains name then
        match e.plats.find? (fun d => d.key == "localhost") with
        | some d => .ok ⟨"localhost", d.hosts, d.method, d.tag⟩
        | none => .error .keyError
      else .error .lookup

/-- select from candidate names: no candidates is `NoPlatformsError` (the caller fills in the hosts) -/
def groupSelect (method : String) (cands : List Name) (cs : List Nat) : Except Err (Name × List Nat) :=
  match cands with
  | [] => .error (.noPlatforms [])
  | n :: ns => pick method n ns cs

/-- first half of `platform_from_name(name)` without bad hosts: a matching group selects among all
its members -/
def groupNoBad (e : Env) (name : Name) (cs : List Nat) : Except Err (Name × List Nat) :=
  match lookupLast (e.gm name) e.groups.length with
  | none => .ok (name, cs)
  | some g =>
    match e.groups[g]? with
    | none => .error .keyError
    | some G => groupSelect G.method G.members cs

/-- `platform_from_name(name)` (no bad hosts), as called for every member of a group -/
def resolveNoBad (e : Env) (name : Name) (cs : List Nat) : Except Err (Plat × List Nat) :=
  match groupNoBad e name cs with
  | .error x => .error x
  | .ok (n, cs') =>
    match platformLookup e n with
    | .error x => .error x
    | .ok p => .ok (p, cs')

/-- `[(m, platform_from_name(m)['hosts']) for m in members]`, left to right, first error wins -/
def resolveAll (e : Env) : List Name → List Nat → Except Err (List (Name × List Host) × List Nat)
  | [], cs => .ok ([], cs)
  | m :: ms, cs =>
    match resolveNoBad e m cs with
    | .error x => .error x
    | .ok (p, cs1) =>
      match resolveAll e ms cs1 with
      | .error x => .error x
      | .ok (rest, cs2) => .ok ((m, p.hosts) :: rest, cs2)

/-- `bad_hosts.issuperset(hosts)` -/
def subsetOf (hs bad : List Host) : Bool := hs.all fun h => bad.contains h

/-- members that keep a host outside `bad` -/
def aliveNames (ms : List (Name × List Host)) (bad : List Host) : List Name :=
  (ms.filter fun m => !subsetOf m.2 bad).map (·.1)

def insertSorted (x : String) : List String → List String
  | [] => [x]
  | y :: ys => if x < y then x :: y :: ys else if x == y then y :: ys else y :: insertSorted x ys

/-- sorted list of the distinct elements (canonical form of a Python set of strings) -/
def sortDedup (l : List String) : List String := l.foldr insertSorted []

/-- `get_platform_from_group(group, group_name, bad_hosts)` -/
def groupFrom (e : Env) (G : GroupDef) (bad : List Host) (cs : List Nat) : Except Err (Name × List Nat) :=
  let cands : Except Err (List Name × List Nat) :=
    if bad.isEmpty then .ok (G.members, cs)
    else
      match resolveAll e G.members cs with
      | .error x => .error x
      | .ok (ms, cs1) => .ok (aliveNames ms bad, cs1)
  match cands with
  | .error x => .error x
  | .ok ([], cs1) =>
    match resolveAll e G.members cs1 with
    | .error x => .error x
    | .ok (ms, _) => .error (.noPlatforms (sortDedup (ms.flatMap (·.2))))
  | .ok (n :: ns, cs1) => pick G.method n ns cs1

/-- `platform_from_name(name, bad_hosts=bad)` -/
def platformFromName (e : Env) (name : Name) (bad : List Host) (cs : List Nat) : Except Err (Plat × List Nat) :=
  match lookupLast (e.gm name) e.groups.length with
  | none =>
    match platformLookup e name with
    | .error x => .error x
    | .ok p => .ok (p, cs)
  | some g =>
    match e.groups[g]? with
    | none => .error .keyError
    | some G =>
      match groupFrom e G bad cs with
      | .error x => .error x
      | .ok (sel, cs1) =>
        match platformLookup e sel with
        | .error x => .error x
        | .ok p => .ok (p, cs1)

/-! ### comma-separated section headings (`GlobalConfig._expand_commas` / `expand_many_section`) -/

/-- keys of `[platforms]` after loading: "localhost" is always first (it is in the spec); a repeated
key keeps its first position -/
def dedupKeys (l : List String) : List String := l.foldl (fun acc k => if acc.contains k then acc else acc ++ [k]) []

def loadedKeys (keys : List String) : List String := dedupKeys ("localhost" :: keys)

end CylcModel.Platform
