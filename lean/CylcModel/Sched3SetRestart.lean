/-
Restart lemmas of the `Sched3Set` model (check C11R).

1. `rows_invariant`: in every state of every run every pooled proxy has a `task_states` / `task_outputs` row (or a
   queued INSERT) of exactly its (point, name, flows) — given the repaired behaviour `dbRowPerFlowSet` of
   `_load_historical_outputs` (the flag is probed from the live code).  An instance of the generic pool-shape
   invariant of `Sched3SetNoDup`.
2. what `restart` does to a pooled proxy, field by field, in terms of the proxy and the committed row of its flows
   (`restart_reads_row`), for ANY state.
-/
import CylcModel.Sched3SetNoDup2

namespace CylcModel.Sched3Set

/-- the proxy's (point, name, flows) has a row or a queued INSERT -/
def RowQ (s : State) (x : Proxy) : Prop := hasKey s x.pt x.name x.flows

theorem mem_insertRow (r : Row) : ∀ (l : List Row) (y : Row), y ∈ insertRow r l ↔ y = r ∨ y ∈ l := by
  intro l
  induction l with
  | nil => intro y; simp [insertRow]
  | cons a l ih =>
    intro y
    unfold insertRow
    split
    · simp only [List.mem_cons]
    · simp only [List.mem_cons, ih]
      constructor
      · rintro (h | h | h)
        · exact Or.inr (Or.inl h)
        · exact Or.inl h
        · exact Or.inr (Or.inr h)
      · rintro (h | h | h)
        · exact Or.inr (Or.inl h)
        · exact Or.inl h
        · exact Or.inr (Or.inr h)

theorem mem_rowsFor {s : State} {p : Int} {n : String} {r : Row} (h : r ∈ rowsFor s p n) :
    r ∈ s.rows ∧ r.pt = p ∧ r.name = n := by
  unfold rowsFor at h
  have key : ∀ (l acc : List Row), r ∈ l.foldl (fun acc r => insertRow r acc) acc → r ∈ l ∨ r ∈ acc := by
    intro l
    induction l with
    | nil => intro acc h; exact Or.inr h
    | cons a l ih =>
      intro acc h
      simp only [List.foldl_cons] at h
      rcases ih _ h with h1 | h1
      · exact Or.inl (List.mem_cons_of_mem _ h1)
      · rcases (mem_insertRow a acc r).mp h1 with rfl | h2
        · exact Or.inl List.mem_cons_self
        · exact Or.inr h2
  rcases key _ _ h with h1 | h1
  · have := List.mem_filter.mp h1
    simp only [Bool.and_eq_true, beq_iff_eq] at this
    exact ⟨this.1, this.2.1, this.2.2⟩
  · cases h1

theorem mem_selectTaskOutputs (rows : List Row) :
    ∀ e ∈ selectTaskOutputs rows, ∃ r ∈ rows, r.flows = e.2 := by
  unfold selectTaskOutputs
  have key : ∀ (l : List Row) (acc : List (List (String × Bool) × Flows)) (done : List Row),
      (∀ e ∈ acc, ∃ r ∈ done, r.flows = e.2) →
      ∀ e ∈ l.foldl (fun acc r =>
        if acc.any (fun e => e.1 == r.outs) then acc.map fun e => if e.1 == r.outs then (e.1, r.flows) else e
        else acc ++ [(r.outs, r.flows)]) acc, ∃ r ∈ done ++ l, r.flows = e.2 := by
    intro l
    induction l with
    | nil => intro acc done h e he; simpa using h e he
    | cons a l ih =>
      intro acc done h e he
      simp only [List.foldl_cons] at he
      have := ih _ (done ++ [a]) (by
        intro e' he'
        split at he'
        · obtain ⟨e0, he0, rfl⟩ := List.mem_map.mp he'
          split
          · exact ⟨a, by simp, rfl⟩
          · obtain ⟨r, hr, hrf⟩ := h e0 he0
            exact ⟨r, List.mem_append_left _ hr, hrf⟩
        · rcases List.mem_append.mp he' with h1 | h1
          · obtain ⟨r, hr, hrf⟩ := h e' h1
            exact ⟨r, List.mem_append_left _ hr, hrf⟩
          · simp only [List.mem_singleton] at h1
            rw [h1]
            exact ⟨a, by simp, rfl⟩) e he
      simpa [List.append_assoc] using this
  intro e he
  simpa using key rows [] [] (by intro e he; cases he) e he

/-- `_load_historical_outputs` either queues the INSERT of the proxy's rows, or leaves the database alone - the
latter (repaired behaviour) only when the history has an entry of exactly the proxy's flows -/
theorem loadHist_cases (g : Graph) (s : State) (x : Proxy) :
    (loadHistoricalOutputs g s x).1 = dbInsert s (loadHistoricalOutputs g s x).2 ∨
    ((loadHistoricalOutputs g s x).1 = s ∧ (dbRowPerFlowSet = true →
      ∃ e ∈ selectTaskOutputs (rowsFor s x.pt x.name), (e.2 == (loadHistoricalOutputs g s x).2.flows) = true)) := by
  unfold loadHistoricalOutputs
  simp only
  split
  · left; rfl
  · split
    · rename_i hc
      right
      refine ⟨rfl, ?_⟩
      intro hflag
      rw [hflag] at hc
      cases hany : (selectTaskOutputs (rowsFor s x.pt x.name)).any fun e => e.2 ==
          (List.foldl (fun (acc : Proxy × Bool) e =>
            if fMeets acc.1.flows e.2 then
              (e.1.foldl (fun (z : Proxy) m =>
                if hasOutput g z m.1 && !z.done.contains m.1 then { z with done := z.done ++ [m.1] } else z) acc.1, true)
            else acc) (x, false) (selectTaskOutputs (rowsFor s x.pt x.name))).1.flows with
      | false => rw [hany] at hc; simp at hc
      | true => exact List.any_eq_true.mp hany
    · left; rfl

theorem rowq_load (hflag : dbRowPerFlowSet = true) (g : Graph) (s : State) (x : Proxy) :
    RowQ (loadHistoricalOutputs g s x).1 (loadHistoricalOutputs g s x).2 := by
  have hf := loadHistoricalOutputs_fields g s x
  have hc := loadHist_cases g s x
  generalize loadHistoricalOutputs g s x = L at hf hc
  unfold RowQ
  rcases hc with h1 | ⟨h1, h2⟩
  · rw [h1]
    refine ⟨{ pt := L.2.pt, name := L.2.name, flows := L.2.flows, status := L.2.status, submitNum := L.2.submitNum,
              flowWait := L.2.flowWait, outs := [] }, Or.inr ?_, ?_⟩
    · unfold dbInsert; simp
    · rw [isKey_iff]; exact ⟨rfl, rfl, rfl⟩
  · rw [h1]
    obtain ⟨e, he, hef⟩ := h2 hflag
    obtain ⟨r, hr, hrf⟩ := mem_selectTaskOutputs _ e he
    have hm := mem_rowsFor hr
    refine ⟨r, Or.inl hm.1, ?_⟩
    rw [isKey_iff]
    refine ⟨hm.2.1.trans hf.1.symm, hm.2.2.trans hf.2.1.symm, ?_⟩
    rw [hrf]
    exact beq_iff_eq.mp hef

theorem rowq_ins (s : State) (x : Proxy) : RowQ (dbInsert s x) x := by
  unfold RowQ
  refine ⟨{ pt := x.pt, name := x.name, flows := x.flows, status := x.status, submitNum := x.submitNum,
            flowWait := x.flowWait, outs := [] }, Or.inr ?_, ?_⟩
  · unfold dbInsert; simp
  · rw [isKey_iff]; exact ⟨rfl, rfl, rfl⟩

/-- `RowQ` is a pool-shape predicate when `_load_historical_outputs` has the repaired behaviour -/
theorem pinv_row (hflag : dbRowPerFlowSet = true) : PInv RowQ where
  congr := by
    intro s x y h1 h2 h3 hx
    unfold RowQ at *
    rw [h1, h2, h3]; exact hx
  mono := by
    intro s s' x hle hx
    exact hle _ _ _ hx
  ins := rowq_ins
  load := rowq_load hflag

/-- **every pooled proxy has the database rows of exactly its flow numbers (committed, or their INSERT queued), and
no instance is pooled twice - in every state of every run** (any graph; main loops, messages, holds, stop / pause,
`cylc set` with any --flow / --wait on pooled or inactive instances, restarts) -/
theorem rows_invariant (hflag : dbRowPerFlowSet = true) (g : Graph) (ops : List Op) :
    ∀ s ∈ run g ops, INV RowQ s :=
  inv_run (pinv_row hflag) g ops

/-! ### what `restart` does to a pooled proxy -/

theorem putTaskPool_prq (s : State) :
    (putTaskPool s).pool = s.pool ∧ (putTaskPool s).rows = s.rows ∧ (putTaskPool s).qIns = s.qIns ∧
    (putTaskPool s).holdPoint = s.holdPoint := by
  unfold putTaskPool
  have : ∀ (l : List Proxy) (st : State),
      (l.foldl (fun st x => if x.upd then dbUpdatePool st x else st) st).pool = st.pool ∧
      (l.foldl (fun st x => if x.upd then dbUpdatePool st x else st) st).rows = st.rows ∧
      (l.foldl (fun st x => if x.upd then dbUpdatePool st x else st) st).qIns = st.qIns ∧
      (l.foldl (fun st x => if x.upd then dbUpdatePool st x else st) st).holdPoint = st.holdPoint := by
    intro l
    induction l with
    | nil => intro st; exact ⟨rfl, rfl, rfl, rfl⟩
    | cons a l ih =>
      intro st
      simp only [List.foldl_cons]
      split
      · exact ih _
      · exact ih _
  exact this s.pool s

/-- the state the new scheduler loads: the pool written once more, the queue flushed -/
def atShutdown (s : State) : State := flushDb (putTaskPool s)

theorem atShutdown_pool (s : State) : (atShutdown s).pool = s.pool := (putTaskPool_prq s).1

theorem atShutdown_holdPoint (s : State) : (atShutdown s).holdPoint = s.holdPoint := (putTaskPool_prq s).2.2.2

theorem rowsLe_atShutdown (s : State) : RowsLe s (atShutdown s) := by
  unfold atShutdown
  exact (rowsLe_of_eq (putTaskPool_prq s).2.1 (putTaskPool_prq s).2.2.1).trans (rowsLe_flushDb _)

/-- every pooled proxy with `RowQ` has a committed row of its key at shutdown -/
theorem row_at_shutdown {s : State} {x : Proxy} (hx : RowQ s x) :
    ∃ r, (atShutdown s).rows.find? (·.isKey x.pt x.name x.flows) = some r := by
  obtain ⟨r, hm, hk⟩ := rowsLe_atShutdown s _ _ _ hx
  have hq : (atShutdown s).qIns = [] := rfl
  rw [hq] at hm
  rcases hm with hm | hm
  · cases hf : (atShutdown s).rows.find? (·.isKey x.pt x.name x.flows) with
    | some r' => exact ⟨r', rfl⟩
    | none =>
      have := List.find?_eq_none.mp hf r hm
      exact absurd hk this
  · cases hm

theorem restoreProxy_some (g : Graph) (rows : List Row) (x : Proxy) (r : Row)
    (h : rows.find? (·.isKey x.pt x.name x.flows) = some r) : ∃ y, restoreProxy g rows x = some y := by
  unfold restoreProxy
  rw [h]
  exact ⟨_, rfl⟩

/-- the status a restart gives a task -/
def restoredStatus (st : Status) : Status := if st == .preparing then .waiting else st

/-- the outputs a restart reloads from a row for a task with (restored) status `st` -/
def restoredDone (g : Graph) (x : Proxy) (r : Row) : List String :=
  if restoredStatus x.status == .running || restoredStatus x.status == .failed || restoredStatus x.status == .succeeded
  then (r.outs.map (·.1)).filter fun m => hasOutput g x m else []

theorem restoreProxy_spec (g : Graph) (rows : List Row) (x y : Proxy) (h : restoreProxy g rows x = some y) :
    ∃ r, rows.find? (·.isKey x.pt x.name x.flows) = some r ∧
      y.pt = x.pt ∧ y.name = x.name ∧ y.flows = x.flows ∧ y.held = x.held ∧ y.pre = x.pre ∧ y.sui = x.sui ∧
      y.status = restoredStatus x.status ∧ y.flowWait = r.flowWait ∧
      y.submitNum = (if x.status == .preparing then r.submitNum - 1 else r.submitNum) ∧
      y.done = restoredDone g x r := by
  unfold restoreProxy at h
  split at h
  · cases h
  · rename_i r hr
    simp only [Option.some.injEq] at h
    refine ⟨r, hr, ?_⟩
    rw [← h]
    unfold restoredDone restoredStatus
    exact ⟨rfl, rfl, rfl, rfl, rfl, rfl, rfl, rfl, rfl, rfl⟩

theorem find?_key_filterMap (f : Proxy → Option Proxy) (p : Int) (n : String)
    (hf : ∀ x y, f x = some y → y.pt = x.pt ∧ y.name = x.name) :
    ∀ l : List Proxy, (∀ x ∈ l, (f x).isSome = true) →
      (l.filterMap f).find? (fun z => z.pt == p && z.name == n) = (l.find? (fun z => z.pt == p && z.name == n)).bind f := by
  intro l
  induction l with
  | nil => intro _; rfl
  | cons a l ih =>
    intro hall
    have ha := hall a List.mem_cons_self
    cases hfa : f a with
    | none => rw [hfa] at ha; cases ha
    | some b =>
      have hk := hf a b hfa
      simp only [List.filterMap_cons, hfa, List.find?_cons, hk.1, hk.2]
      cases hc : (a.pt == p && a.name == n) with
      | true => simp [hfa]
      | false => simp only; exact ih (fun x hx => hall x (List.mem_cons_of_mem _ hx))

theorem get?_of_mem {s : State} {x : Proxy} (h : ND s) (hx : x ∈ s.pool) : s.get? x.pt x.name = some x := by
  have key : ∀ (l : List Proxy), (l.map Proxy.key).Nodup → x ∈ l →
      l.find? (fun y => y.pt == x.pt && y.name == x.name) = some x := by
    intro l
    induction l with
    | nil => intro _ hx; cases hx
    | cons y ys ih =>
      intro hn hx
      simp only [List.map_cons, List.nodup_cons] at hn
      rcases List.mem_cons.mp hx with rfl | hx'
      · simp [List.find?]
      · have hne : (y.pt == x.pt && y.name == x.name) = false := by
          cases hc : (y.pt == x.pt && y.name == x.name) with
          | false => rfl
          | true =>
            simp only [Bool.and_eq_true, beq_iff_eq] at hc
            exfalso
            apply hn.1
            have : y.key = x.key := by unfold Proxy.key; rw [hc.1, hc.2]
            rw [this]
            exact List.mem_map.mpr ⟨x, hx', rfl⟩
        simp only [List.find?, hne]
        exact ih hn.2 hx'
  exact key s.pool h hx

/-- the pool right after `load_db_task_pool_for_restart`: every pooled proxy restored from its row -/
theorem get?_reloaded {s : State} (g : Graph) (h : INV RowQ s) {x : Proxy} (hx : x ∈ s.pool) :
    ∃ y, (reloaded g (atShutdown s)).get? x.pt x.name = some y ∧ restoreProxy g (atShutdown s).rows x = some y := by
  have hall : ∀ z ∈ (atShutdown s).pool, (restoreProxy g (atShutdown s).rows z).isSome = true := by
    intro z hz
    rw [atShutdown_pool] at hz
    obtain ⟨r, hr⟩ := row_at_shutdown (h.2 z hz)
    obtain ⟨y, hy⟩ := restoreProxy_some g _ z r hr
    rw [hy]; rfl
  have hfind := find?_key_filterMap (restoreProxy g (atShutdown s).rows) x.pt x.name
    (fun a b hab => ⟨(restoreProxy_fields g _ a b hab).1, (restoreProxy_fields g _ a b hab).2.1⟩)
    (atShutdown s).pool hall
  obtain ⟨r, hr⟩ := row_at_shutdown (h.2 x hx)
  obtain ⟨y, hy⟩ := restoreProxy_some g _ x r hr
  refine ⟨y, ?_, hy⟩
  have hg : (atShutdown s).pool.find? (fun z => z.pt == x.pt && z.name == x.name) = some x := by
    rw [atShutdown_pool]
    exact get?_of_mem h.1 hx
  show (reloaded g (atShutdown s)).pool.find? (fun z => z.pt == x.pt && z.name == x.name) = some y
  have : (reloaded g (atShutdown s)).pool = (atShutdown s).pool.filterMap (restoreProxy g (atShutdown s).rows) := rfl
  rw [this, hfind, hg]
  exact hy

/-! ### the hold point re-applied by `configure` after the pool is loaded -/

/-- what `set_hold_point` may do to a proxy: nothing, or hold it when it lies beyond the point -/
def HeldRel (hp : Int) (y y' : Proxy) : Prop := y' = y ∨ (hp < y.pt ∧ y' = y.reset (held := some true))

theorem reset_held_idem (y : Proxy) : (y.reset (held := some true)).reset (held := some true) = y.reset (held := some true) := by
  unfold Proxy.reset
  simp only [Option.getD_none, Option.getD_some]
  cases hh : y.held <;> simp [hh]

theorem HeldRel.refl (hp : Int) (y : Proxy) : HeldRel hp y y := Or.inl rfl

theorem HeldRel.trans {hp : Int} {a b c : Proxy} (h1 : HeldRel hp a b) (h2 : HeldRel hp b c) : HeldRel hp a c := by
  rcases h1 with rfl | ⟨ha, rfl⟩
  · exact h2
  · rcases h2 with rfl | ⟨_, rfl⟩
    · exact Or.inr ⟨ha, rfl⟩
    · right
      exact ⟨ha, reset_held_idem a⟩

/-- every proxy of `s'` comes from the proxy of `s` with its key by `HeldRel`, and no key appears or disappears -/
def HoldStep (hp : Int) (s s' : State) : Prop :=
  ∀ p n, (∀ y, s.get? p n = some y → ∃ y', s'.get? p n = some y' ∧ HeldRel hp y y') ∧
         (s.get? p n = none → s'.get? p n = none)

theorem HoldStep.refl (hp : Int) (s : State) : HoldStep hp s s :=
  fun _ _ => ⟨fun y hy => ⟨y, hy, HeldRel.refl hp y⟩, fun h => h⟩

theorem HoldStep.trans {hp : Int} {a b c : State} (h1 : HoldStep hp a b) (h2 : HoldStep hp b c) : HoldStep hp a c := by
  intro p n
  refine ⟨?_, fun h => (h2 p n).2 ((h1 p n).2 h)⟩
  intro y hy
  obtain ⟨y', hy', r1⟩ := (h1 p n).1 y hy
  obtain ⟨y'', hy'', r2⟩ := (h2 p n).1 y' hy'
  exact ⟨y'', hy'', r1.trans r2⟩

theorem holdStep_of_pool_eq {hp : Int} {s s' : State} (h : s'.pool = s.pool) : HoldStep hp s s' := by
  intro p n
  rw [get?_of_pool_eq h]
  exact (HoldStep.refl hp s) p n

theorem holdStep_holdActive (hp : Int) (st : State) (y : Proxy) (hy : st.get? y.pt y.name = some y) (hb : hp < y.pt) :
    HoldStep hp st (holdActive st y) := by
  have h1 : HoldStep hp st (st.put (y.reset (held := some true))) := by
    intro p n
    rw [get?_put]
    simp only [reset_pt, reset_name]
    by_cases hk : y.pt = p ∧ y.name = n
    · simp only [hk, and_self, if_true]
      obtain ⟨rfl, rfl⟩ := hk
      rw [hy]
      refine ⟨?_, fun h => by cases h⟩
      intro z hz
      simp only [Option.some.injEq] at hz
      subst hz
      exact ⟨_, by simp, Or.inr ⟨hb, rfl⟩⟩
    · simp only [hk, if_false]
      exact ⟨fun z hz => ⟨z, hz, HeldRel.refl hp z⟩, fun h => h⟩
  unfold holdActive
  dsimp only
  split
  · exact h1
  · exact h1.trans (holdStep_of_pool_eq rfl)

theorem holdStep_setHoldPoint (s : State) (hp : Int) : HoldStep hp s (setHoldPoint s hp) := by
  unfold setHoldPoint
  dsimp only
  have h0 : HoldStep hp s { s with holdPoint := some hp } := holdStep_of_pool_eq rfl
  apply foldl_inv (fun st => HoldStep hp s st)
  · intro st x hst
    split
    · rename_i hgt
      split
      · rename_i y hy
        have hk := get?_key hy
        have hy' : st.get? y.pt y.name = some y := by rw [hk.1, hk.2]; exact hy
        have hb : hp < y.pt := by rw [hk.1]; simpa using hgt
        exact hst.trans (holdStep_holdActive hp st y hy' hb)
      · exact hst
    · exact hst
  · exact h0

/-! ### the restart theorems -/

theorem restart_eq (g : Graph) (s : State) :
    restart g s = flushDb (match (reloaded g (atShutdown s)).holdPoint with
      | some hp => setHoldPoint (reloaded g (atShutdown s)) hp
      | none => reloaded g (atShutdown s)) := rfl

theorem reloaded_holdPoint (g : Graph) (s : State) : (reloaded g s).holdPoint = s.holdPoint := rfl

/-- **Restart, field by field.**  For a state with the rows invariant (every reachable state has it,
`rows_invariant`) and a pooled proxy `x`: the database has a committed row `r` of exactly `x`'s (point, name,
flows) at shutdown, the restarted pool has a proxy `y` at `x`'s key, and
* point, name, flow numbers, prerequisites (with their satisfaction) and suicide prerequisites of `y` are `x`'s;
* the status is `x`'s, `preparing ↦ waiting`;
* `y` is held if `x` was; if `y` is held and `x` was not, `x` lies beyond the hold point (re-applied by `configure`);
* the flow-wait flag, the submit number (`preparing`: minus one) and the completed outputs (running / failed /
  succeeded tasks only) of `y` are those of the ROW `r` - they are `x`'s exactly when the row agrees with `x`. -/
theorem restart_reads_row (g : Graph) (s : State) (h : INV RowQ s) (x : Proxy) (hx : x ∈ s.pool) :
    ∃ r y, (atShutdown s).rows.find? (·.isKey x.pt x.name x.flows) = some r ∧
      (restart g s).get? x.pt x.name = some y ∧
      y.pt = x.pt ∧ y.name = x.name ∧ y.flows = x.flows ∧ y.pre = x.pre ∧ y.sui = x.sui ∧
      y.status = restoredStatus x.status ∧
      (x.held = true → y.held = true) ∧
      (y.held = true → x.held = true ∨ ∃ hp, s.holdPoint = some hp ∧ hp < x.pt) ∧
      y.flowWait = r.flowWait ∧
      y.submitNum = (if x.status == .preparing then r.submitNum - 1 else r.submitNum) ∧
      y.done = restoredDone g x r := by
  obtain ⟨y0, hy0, hres⟩ := get?_reloaded g h hx
  obtain ⟨r, hr, f1, f2, f3, f4, f5, f6, f7, f8, f9, f10⟩ := restoreProxy_spec g _ x y0 hres
  rw [restart_eq]
  have hhp : (reloaded g (atShutdown s)).holdPoint = s.holdPoint := by
    rw [reloaded_holdPoint, atShutdown_holdPoint]
  generalize reloaded g (atShutdown s) = R at hy0 hhp
  cases hh : R.holdPoint with
  | none =>
    refine ⟨r, y0, hr, ?_, f1, f2, f3, f5, f6, f7, ?_, ?_, f8, f9, f10⟩
    · show (flushDb R).get? x.pt x.name = some y0
      rw [get?_of_pool_eq (pool_flushDb R)]; exact hy0
    · intro hxh; rw [f4]; exact hxh
    · intro hyh; left; rw [← f4]; exact hyh
  | some hp =>
    obtain ⟨y, hy, hrel⟩ := ((holdStep_setHoldPoint R hp) x.pt x.name).1 y0 hy0
    have hget : (flushDb (setHoldPoint R hp)).get? x.pt x.name = some y := by
      rw [get?_of_pool_eq (pool_flushDb _)]; exact hy
    rcases hrel with rfl | ⟨hb, rfl⟩
    · refine ⟨r, y, hr, hget, f1, f2, f3, f5, f6, f7, ?_, ?_, f8, f9, f10⟩
      · intro hxh; rw [f4]; exact hxh
      · intro hyh; left; rw [← f4]; exact hyh
    · have hst : (y0.reset (held := some true)).status = y0.status := by
        unfold Proxy.reset; simp only [Option.getD_none]; split <;> rfl
      have hfw : (y0.reset (held := some true)).flowWait = y0.flowWait := by
        unfold Proxy.reset; simp only; split <;> rfl
      have hsn : (y0.reset (held := some true)).submitNum = y0.submitNum := by
        unfold Proxy.reset; simp only; split <;> rfl
      have hsui : (y0.reset (held := some true)).sui = y0.sui := by
        unfold Proxy.reset; simp only; split <;> rfl
      have hheld : (y0.reset (held := some true)).held = true := by
        unfold Proxy.reset
        simp only [Option.getD_none, Option.getD_some]
        cases hh0 : y0.held <;> simp [hh0]
      refine ⟨r, _, hr, hget, by simp [f1], by simp [f2], by simp [f3], by simp [f5], by rw [hsui, f6],
        by rw [hst, f7], fun _ => hheld, ?_, by rw [hfw, f8], by rw [hsn, f9], by simp [f10]⟩
      intro _
      right
      refine ⟨hp, ?_, ?_⟩
      · rw [← hhp]; exact hh
      · rw [← f1]; exact hb

/-- **Restart loses and invents no task**: from a state with the rows invariant, the restarted pool holds exactly
the same instances, in the same order. -/
theorem restart_keys (g : Graph) (s : State) (h : INV RowQ s) : keys (restart g s) = keys s := by
  have hkeys_hold : ∀ (R : State) (hp : Int), keys (setHoldPoint R hp) = keys R := by
    intro R hp
    unfold setHoldPoint
    dsimp only
    have h0 : keys { R with holdPoint := some hp } = keys R := rfl
    apply foldl_inv (fun st => keys st = keys R)
    · intro st x hst
      split
      · split
        · unfold holdActive
          dsimp only
          split
          · rw [keys_put]; exact hst
          · show keys (st.put _) = keys R
            rw [keys_put]; exact hst
        · exact hst
      · exact hst
    · exact h0
  have hR : keys (reloaded g (atShutdown s)) = keys s := by
    unfold keys
    have : (reloaded g (atShutdown s)).pool = (atShutdown s).pool.filterMap (restoreProxy g (atShutdown s).rows) := rfl
    rw [this, atShutdown_pool]
    have hall : ∀ z ∈ s.pool, ∃ y, restoreProxy g (atShutdown s).rows z = some y ∧ y.key = z.key := by
      intro z hz
      obtain ⟨r, hr⟩ := row_at_shutdown (h.2 z hz)
      obtain ⟨y, hy⟩ := restoreProxy_some g _ z r hr
      have hf := restoreProxy_fields g _ z y hy
      exact ⟨y, hy, by unfold Proxy.key; rw [hf.1, hf.2.1]⟩
    generalize s.pool = l at hall
    induction l with
    | nil => rfl
    | cons a l ih =>
      obtain ⟨y, hy, hk⟩ := hall a List.mem_cons_self
      simp only [List.filterMap_cons, hy, List.map_cons, hk]
      rw [ih (fun z hz => hall z (List.mem_cons_of_mem _ hz))]
  rw [restart_eq]
  show keys (match (reloaded g (atShutdown s)).holdPoint with
      | some hp => setHoldPoint (reloaded g (atShutdown s)) hp
      | none => reloaded g (atShutdown s)) = keys s
  split
  · rw [hkeys_hold]; exact hR
  · exact hR

end CylcModel.Sched3Set
