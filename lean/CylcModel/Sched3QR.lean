/-
`Sched3QR` - `Sched3QT` (scheduler core + holds / stop / pause / restart + limited queues + manual triggers of pooled
tasks) with RETRY DELAYS THAT ARE NOT OVER AT ONCE, for C03 on workflows with limited queues (id C03Q).

`Sched3QT` (like every model before it) takes every retry delay to be `PT0S`: the retry xtrigger
`_cylc_retry_<p>_<name>` / `_cylc_submit_retry_<p>_<name>` of a task that failed with a retry lined up is satisfied
by the next queue-if-ready sweep of a main loop.  Here a task definition may have non-zero execution / submission
retry delays (`execLong`, `subLong`); the wall clock is an explicit part of the state: `hold` lists the proxies whose
pending retry timer lies in the future, a retry lined up for a task with a non-zero delay enters it, and only the
operation `tick` (the clock moves past every pending delay) empties it.  The sweep satisfies the retry xtrigger of a
proxy only when it is not in `hold` (`Scheduler._main_loop`: `xtrigger_mgr.call_xtriggers_async` -> `_wall_clock`).

A wrapper, not a copy: every primitive is the one of `Sched3QT`; only the sweep, the main loop built around it and
`step` / `run` are restated.  With no non-zero delay in the graph the runs are those of `Sched3QT` (`hold` stays empty).
Core Lean only.
-/
import CylcModel.Sched3QT
namespace CylcModel.Sched3QR
open CylcModel.Sched3QT

structure GraphR where
  g : Graph
  execLong : List String := []          -- task names with non-zero `execution retry delays`
  subLong : List String := []           -- task names with non-zero `submission retry delays`
  deriving Inhabited

structure StateR where
  s : State
  hold : List (Int × String) := []                 -- proxies whose pending retry timer is in the future
  deriving Inhabited

inductive OpR where
  | base (op : Op)
  | tick                                -- the wall clock moves past every pending retry delay
  deriving Repr

/-- the queue-if-ready sweep over waiting, unqueued, released proxies: the retry xtrigger of a proxy is satisfied
unless its timer is in the future -/
def sweepQueueR (hold : List (Int × String)) (s : State) : State :=
  s.pool.foldl (fun st x => match st.get? x.pt x.name with
    | some y =>
      if y.status == .waiting && !y.queued && !y.runahead then
        let y := if hold.contains (y.pt, y.name) then y else { y with retryWait := false }
        queueIfReady (st.put y) y
      else st
    | none => st) s

/-- one iteration of `Scheduler._main_loop` (`Sched3QT.mainLoop` with the clock-aware sweep) -/
def mainLoopR (g : Graph) (hold : List (Int × String)) (s : State) : State :=
  if s.stop.isSome then s else
  let s := computeRunahead g s
  let s := (releaseRunahead g s).1
  -- workflow_shutdown
  let s :=
    if s.stopMode.isNone then
      let (s, std) := stopTaskDone s
      if std then { s with stopMode := some "AUTOMATIC" }
      else
        let (s, auto) := checkAutoShutdown g s
        if auto then { s with stopMode := some "AUTOMATIC" } else s
    else s
  if canStop s then { s with stop := s.stopMode } else
  let s := sweepQueueR hold s
  let s := if s.stopMode.isNone then (if s.paused then submitWjp s else releaseAndSubmit s) else s
  let s := processQueue g s
  finishLoop g s

/-- a retry with a non-zero delay was lined up for `y` in the operation that led from `s`: its try counter went up -/
def newlyLong (gr : GraphR) (s : State) (y : Proxy) : Bool :=
  match s.get? y.pt y.name with
  | none => false
  | some o => (y.execTry > o.execTry && gr.execLong.contains y.name) ||
              (y.subTry > o.subTry && gr.subLong.contains y.name)

/-- the pending future retry timers after an operation `s -> s'`: those that were pending and whose proxy still
waits on its retry xtrigger, plus the ones lined up by the operation -/
def holdAfter (gr : GraphR) (hold : List (Int × String)) (s s' : State) : List (Int × String) :=
  (s'.pool.filter fun y => y.retryWait && (hold.contains (y.pt, y.name) || newlyLong gr s y)).map fun y => (y.pt, y.name)

def stepR (gr : GraphR) (sr : StateR) (op : OpR) : StateR :=
  match op with
  | .tick => { s := clearOp sr.s, hold := [] }
  | .base op =>
    let s' := match op with
      | .loop => mainLoopR gr.g sr.hold (clearOp sr.s)
      | op => step gr.g sr.s op
    { s := s', hold := holdAfter gr sr.hold sr.s s' }

def initR (gr : GraphR) : StateR := { s := init gr.g, hold := [] }

/-- all states of a run: after start-up, then after each op -/
def runR (gr : GraphR) (ops : List OpR) : List StateR :=
  (ops.foldl (fun (acc : List StateR × StateR) op =>
    let s' := stepR gr acc.2 op
    (acc.1 ++ [s'], s')) ([initR gr], initR gr)).1

end CylcModel.Sched3QR
