/-
Model of `cylc/flow/cycling/integer.py` : `IntegerSequence` (C16).

A line-by-line port of `IntegerSequence.__init__` (bounds arithmetic of the three
format numbers, context clipping, exclusions) and of the query methods.
Core Lean only.  Python `%` on a positive divisor is `Int.emod` (`%` on `Int`).

What is *not* modelled (the harness never generates it, the driver answers
`unsupported`): zero intervals (`P0`), zero repetitions (`R0`), text-level regex
matching of the recurrence string (the structured `Form` is rendered to text by
the generator and `Form.toParsed` states which groups the regex table yields).
-/
namespace CylcModel.IntSeq

/-- `5` | `+P2` / `-P12` (signed offset from the context point) -/
inductive PtExpr where
  | abs (v : Int)
  | rel (d : Int)
  deriving Repr, DecidableEq

/-- The recurrence forms accepted by `RECURRENCE_FORMAT_RECS`, in the order of the table.
`k` is the interval `Pk`; `n` the repetition count `Rn`. -/
inductive Form where
  | repStartEnd (n : Nat) (a b : PtExpr)            -- Rn/a/b
  | startIntv (a : PtExpr) (k : Nat)                -- a/Pk , R/a/Pk
  | intv (k : Nat)                                  -- Pk
  | intvEnd (k : Nat) (b : PtExpr)                  -- Pk/b , R/Pk/b
  | r1Start (a : PtExpr)                            -- R1/a
  | repStartIntv (n : Nat) (a : PtExpr) (k : Nat)   -- Rn/a/Pk
  | repIntvFromIcp (n : Nat) (k : Nat)              -- Rn//Pk
  | repIntvEnd (n : Nat) (k : Nat) (b : PtExpr)     -- Rn/Pk/b
  | repIntv (n : Nat) (k : Nat)                     -- Rn/Pk   (END = final point)
  | r1                                              -- R1
  | r1End (b : PtExpr)                              -- R1//b
  deriving Repr, DecidableEq

/-- What the regex table extracts: format number, repetitions, start, end, interval. -/
structure Parsed where
  fmt : Nat
  reps : Option Nat
  start : Option PtExpr
  stop : Option PtExpr
  intv : Option Nat
  deriving Repr, DecidableEq

def Form.toParsed : Form → Parsed
  | .repStartEnd n a b    => ⟨1, some n, some a, some b, none⟩
  | .startIntv a k        => ⟨3, none, some a, none, some k⟩
  | .intv k               => ⟨3, none, none, none, some k⟩
  | .intvEnd k b          => ⟨4, none, none, some b, some k⟩
  | .r1Start a            => ⟨3, some 1, some a, none, none⟩
  | .repStartIntv n a k   => ⟨3, some n, some a, none, some k⟩
  | .repIntvFromIcp n k   => ⟨3, some n, none, none, some k⟩
  | .repIntvEnd n k b     => ⟨4, some n, none, some b, some k⟩
  | .repIntv n k          => ⟨4, some n, none, none, some k⟩
  | .r1                   => ⟨3, some 1, none, none, none⟩
  | .r1End b              => ⟨4, some 1, none, some b, none⟩

inductive Err where
  | error          -- the constructor raises (missing context point, uneven Rn/a/b, negative step, ...)
  | unsupported    -- outside the modelled domain (P0, R0)
  deriving Repr, DecidableEq

/-- start / stop / step of a sequence without exclusions (`step = none`: one-off). -/
structure Core where
  start : Int
  stop : Option Int
  step : Option Int
  deriving Repr, DecidableEq

/-- `get_point_from_expression` -/
def ptOf (e : Option PtExpr) (ctx : Option Int) (required : Bool) : Except Err (Option Int) :=
  match e, ctx with
  | none, none => if required then .error .error else .ok none
  | none, some c => .ok (some c)
  | some (.abs v), _ => .ok (some v)
  | some (.rel d), some c => .ok (some (c + d))
  | some (.rel _), none => .error .error     -- `None + interval` raises

/-- The format-specific branch of `__init__`: (start, stop, step) before context clipping. -/
def branch (p : Parsed) (ctxStart : Int) (ctxStop : Option Int) (pStart0 : Int) (pStop0 : Option Int) :
    Except Err (Int × Option Int × Option Int) :=
  if p.fmt == 3 then
    match p.intv, p.reps with
    | none, _ => pure (pStart0, some pStart0, (none : Option Int))
    | some k, some n =>
        if n ≤ 1 then pure (pStart0, some pStart0, none)
        else pure (pStart0, some (pStart0 + (k : Int) * ((n : Int) - 1)), some (k : Int))
    | some k, none =>
        match ctxStop with
        | some cs => pure (pStart0, some (cs - (cs - pStart0) % (k : Int)), some (k : Int))
        | none => pure (pStart0, pStop0, some (k : Int))
  else if p.fmt == 1 then
    match p.reps, pStop0 with
    | some n, some e =>
        if n == 1 then pure (pStart0, some pStart0, none)
        else
          let span := e - pStart0
          let d : Int := (n : Int) - 1
          if span % d ≠ 0 then throw Err.error
          else
            let st := span / d
            if st < 0 then throw Err.error        -- "negative intervals not supported"
            else if st = 0 then pure (pStart0, some e, none)   -- falsy interval: behaves as a one-off
            else pure (pStart0, some e, some st)
    | _, _ => throw Err.error
  else
    -- format 4
    match pStop0 with
    | none => throw Err.error
    | some e =>
      match p.reps with
      | some n =>
          if n ≤ 1 then pure (e, some e, none)
          else
            match p.intv with
            | some k => pure (e - (k : Int) * ((n : Int) - 1), some e, some (k : Int))
            | none => throw Err.error
      | none =>
          match p.intv with
          | some k => pure (ctxStart + (e - ctxStart) % (k : Int), some e, some (k : Int))
          | none => throw Err.error

/-- Clip the start to the context start and the stop to the context stop (stepped sequences only). -/
def clip (s1 : Int) (e1 : Option Int) (k1 : Option Int) (ctxStart : Int) (ctxStop : Option Int) : Core :=
  match k1 with
  | none => ⟨s1, e1, none⟩
  | some k =>
    let s2 : Int := if s1 < ctxStart then ctxStart + (s1 - ctxStart) % k else s1
    let e2 : Option Int :=
      match e1, ctxStop with
      | some e, some cs => if e > cs then some (cs - (cs - s2) % k) else some e
      | _, _ => e1
    ⟨s2, e2, some k⟩

/-- The body of `IntegerSequence.__init__` up to (not including) the exclusions. -/
def buildCore (p : Parsed) (ctxStart : Int) (ctxStop : Option Int) : Except Err Core := do
  if p.intv = some 0 then throw .unsupported
  if p.reps = some 0 then throw .unsupported
  let startReq := p.fmt == 1 || p.fmt == 3
  let endReq := p.fmt == 1 || p.fmt == 4
  let pStartO ← ptOf p.start (some ctxStart) startReq
  let pStop0 ← ptOf p.stop ctxStop endReq
  -- the start context always exists, so `pStartO` is never `none`
  let pStart0 := pStartO.getD ctxStart
  let (s1, e1, k1) ← branch p ctxStart ctxStop pStart0 pStop0
  pure (clip s1 e1 k1 ctxStart ctxStop)

/-- A sequence with its exclusions (exclusion sequences carry no exclusions of their own). -/
structure Seq where
  core : Core
  hasExcl : Bool            -- `self.exclusions` is not None
  exclPts : List Int
  exclSeqs : List Core
  deriving Repr, DecidableEq

inductive ExclItem where
  | pt (v : Int)
  | seq (f : Form)
  deriving Repr, DecidableEq

def buildExcl (start : Int) (stop : Option Int) :
    List ExclItem → Except Err (List Int × List Core)
  | [] => .ok ([], [])
  | .pt v :: rest => do
      let (ps, ss) ← buildExcl start stop rest
      pure (if v ∈ ps then (ps) else (v :: ps), ss)
  | .seq f :: rest => do
      let c ← buildCore f.toParsed start stop
      let (ps, ss) ← buildExcl start stop rest
      pure (ps, c :: ss)

def build (f : Form) (excl : List ExclItem) (ctxStart : Int) (ctxStop : Option Int) :
    Except Err Seq := do
  let c ← buildCore f.toParsed ctxStart ctxStop
  if excl.isEmpty then pure ⟨c, false, [], []⟩
  else
    let (ps, ss) ← buildExcl c.start c.stop excl
    pure ⟨c, true, ps, ss⟩

/-! ### Queries -/

def Core.onSeq (c : Core) (p : Int) : Bool :=
  match c.step with
  | some k => (p - c.start) % k == 0
  | none => p == c.start

def Core.inBounds (c : Core) (p : Int) : Bool :=
  decide (c.start ≤ p) && (match c.stop with | none => true | some e => decide (p ≤ e))

def Core.isValid (c : Core) (p : Int) : Bool := c.onSeq p && c.inBounds p

def Core.boundsOpt (c : Core) (p : Int) : Option Int := if c.inBounds p then some p else none

def Seq.excluded (s : Seq) (p : Int) : Bool :=
  s.hasExcl && (s.exclPts.contains p || s.exclSeqs.any (·.isValid p))

def Seq.onSeq (s : Seq) (p : Int) : Bool := !s.excluded p && s.core.onSeq p

def Seq.isValid (s : Seq) (p : Int) : Bool := s.onSeq p && s.core.inBounds p

/-- Result of a query that may recurse over exclusions: `none` = fuel exhausted
(Python: `RecursionError`). -/
abbrev QRes := Option (Option Int)

def Seq.prevPoint (s : Seq) : Nat → Int → QRes
  | 0, _ => none
  | fuel + 1, p =>
    match s.core.step with
    | none => some none
    | some k =>
      let i := (p - s.core.start) % k
      let prev := if i ≠ 0 then p - i else p - k
      match s.core.boundsOpt prev with
      | none => some none
      | some r => if s.excluded r then s.prevPoint fuel r else some (some r)

def Seq.nextPoint (s : Seq) : Nat → Int → QRes
  | 0, _ => none
  | fuel + 1, p =>
    match s.core.step with
    | none => if p < s.core.start then some (some s.core.start) else some none
    | some k =>
      let i := (p - s.core.start) % k
      let nx := p + k - i
      match s.core.boundsOpt nx with
      | none => some none
      | some r => if s.excluded r then s.nextPoint fuel r else some (some r)

def Seq.nextOnSeq (s : Seq) : Nat → Int → QRes
  | 0, _ => none
  | fuel + 1, p =>
    match s.core.step with
    | none => some none
    | some k =>
      match s.core.boundsOpt (p + k) with
      | none => some none
      | some r => if s.excluded r then s.nextOnSeq fuel r else some (some r)

def Seq.firstPoint (s : Seq) (fuel : Nat) (p : Int) : QRes :=
  let pt : QRes :=
    if p ≤ s.core.start then some (s.core.boundsOpt s.core.start)
    else if s.onSeq p then some (s.core.boundsOpt p)
    else s.nextPoint fuel p
  match pt with
  | none => none
  | some none => some none
  | some (some r) => if s.excluded r then s.nextOnSeq fuel r else some (some r)

def Seq.startPoint (s : Seq) (fuel : Nat) : QRes :=
  if s.excluded s.core.start then s.nextOnSeq fuel s.core.start else some (some s.core.start)

def Seq.stopPoint (s : Seq) (fuel : Nat) : QRes :=
  match s.core.stop with
  | none => some none
  | some e => if s.excluded e then s.prevPoint fuel e else some (some e)

/-- the `while` loop of `get_nearest_prev_point` -/
def Seq.nearestLoop (s : Seq) (fuel : Nat) (p : Int) : Nat → Option Int → Option Int → QRes
  | 0, _, _ => none
  | _ + 1, none, prev => some prev
  | n + 1, some sp, prev =>
    if sp > p then some prev
    else
      match s.nextPoint fuel sp with
      | none => none
      | some nx => s.nearestLoop fuel p n nx (some sp)

def Seq.nearestPrev (s : Seq) (fuel : Nat) (p : Int) : QRes :=
  if s.onSeq p then s.prevPoint fuel p
  else
    match s.firstPoint fuel s.core.start with
    | none => none
    | some sp => s.nearestLoop fuel p fuel sp none

/-! ### Specification: the arithmetic progression each form denotes -/

/-- `base + j*step` for `0 ≤ j < count` (forward) or `base - j*step` (backward);
`step = none` is the single point `base`. -/
structure Prog where
  base : Int
  step : Option Int
  count : Option Nat
  backward : Bool
  deriving Repr, DecidableEq

def Prog.mem (g : Prog) (x : Int) : Bool :=
  match g.step with
  | none => x == g.base
  | some k =>
    let d := if g.backward then g.base - x else x - g.base
    decide (0 ≤ d) && (d % k == 0) &&
      (match g.count with | none => true | some n => decide (d / k < (n : Int)))

def relTo (e : PtExpr) (ctx : Option Int) : Option Int :=
  match e, ctx with
  | .abs v, _ => some v
  | .rel d, some c => some (c + d)
  | .rel _, none => none

/-- The progression a form denotes in a context, `none` = the form is an error there
(missing context point, uneven or descending `Rn/a/b`). `n ≥ 1`, `k ≥ 1` assumed. -/
def Form.prog (f : Form) (icp : Int) (fcp : Option Int) : Option Prog :=
  match f with
  | .repStartEnd n a b =>
      match relTo a (some icp), relTo b fcp with
      | some a, some b =>
          if n == 1 then some ⟨a, none, some 1, false⟩
          else
            let d : Int := (n : Int) - 1
            if (b - a) % d ≠ 0 ∨ b - a < 0 then none
            else if b = a then some ⟨a, none, some 1, false⟩
            else some ⟨a, some ((b - a) / d), some n, false⟩
      | _, _ => none
  | .startIntv a k => (relTo a (some icp)).map fun a => ⟨a, some k, none, false⟩
  | .intv k => some ⟨icp, some k, none, false⟩
  | .intvEnd k b => (relTo b fcp).map fun b => ⟨b, some k, none, true⟩
  | .r1Start a => (relTo a (some icp)).map fun a => ⟨a, none, some 1, false⟩
  | .repStartIntv n a k => (relTo a (some icp)).map fun a =>
      if n ≤ 1 then ⟨a, none, some 1, false⟩ else ⟨a, some k, some n, false⟩
  | .repIntvFromIcp n k =>
      some (if n ≤ 1 then ⟨icp, none, some 1, false⟩ else ⟨icp, some k, some n, false⟩)
  | .repIntvEnd n k b => (relTo b fcp).map fun b =>
      if n ≤ 1 then ⟨b, none, some 1, true⟩ else ⟨b, some k, some n, true⟩
  | .repIntv n k => fcp.map fun b =>
      if n ≤ 1 then ⟨b, none, some 1, true⟩ else ⟨b, some k, some n, true⟩
  | .r1 => some ⟨icp, none, some 1, false⟩
  | .r1End b => (relTo b fcp).map fun b => ⟨b, none, some 1, true⟩

def inContext (icp : Int) (fcp : Option Int) (x : Int) : Bool :=
  decide (icp ≤ x) && (match fcp with | none => true | some e => decide (x ≤ e))

/-- C16 specification of membership, exclusions apart: progression ∩ [icp, fcp]. -/
def Form.specMem (f : Form) (icp : Int) (fcp : Option Int) (x : Int) : Bool :=
  match f.prog icp fcp with
  | none => false
  | some g => g.mem x && inContext icp fcp x

/-- What the implementation does for one-off recurrences: the single point is reported
valid even when it lies outside the context (known finding `oneoff-outside-context`). -/
def Form.codeMem (f : Form) (icp : Int) (fcp : Option Int) (x : Int) : Bool :=
  match f.prog icp fcp with
  | none => false
  | some g => g.mem x && (g.step.isNone || inContext icp fcp x)

end CylcModel.IntSeq
