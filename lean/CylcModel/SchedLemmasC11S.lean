/-
Helper lemmas for C11 at scheduler level: "a finished proxy is in the pool only while incomplete".
Invariant `AllP` (every pooled proxy satisfies `P`), its relaxation `AllEx p n` (all but the proxy whose
message is being processed), one lemma per primitive, lifted with `run_inv`.
-/
import CylcModel.SchedLemmasC07

namespace CylcModel.Sched

/-- the completed outputs without the two *implied* ones (`submitted`, `started`) -/
def core (done : List String) : List String := done.filter fun m => m != "submitted" && m != "started"

/-- a finished proxy is incomplete over its non-implied outputs -/
def P (g : Graph) (x : Proxy) : Prop :=
  x.status.isFinal = true → ∀ t, g.task? x.name = some t → isComplete t (core x.done) = false

/-- every pooled proxy satisfies `P`, except possibly those whose key is exempted by `E` -/
def AllX (E : Int → String → Prop) (g : Graph) (s : State) : Prop :=
  ∀ x ∈ s.pool, E x.pt x.name ∨ P g x

/-- no exemption -/
abbrev NoKey : Int → String → Prop := fun _ _ => False
/-- the proxy `(p, n)` (whose message is being processed) is exempt -/
abbrev Key (p : Int) (n : String) : Int → String → Prop := fun a b => a = p ∧ b = n

abbrev AllP (g : Graph) (s : State) : Prop := AllX NoKey g s

theorem allP_iff {g : Graph} {s : State} : AllP g s ↔ ∀ x ∈ s.pool, P g x :=
  ⟨fun h x hx => (h x hx).elim (fun f => f.elim) id, fun h x hx => Or.inr (h x hx)⟩

theorem allX_of_allP {g : Graph} {s : State} (h : AllP g s) (E : Int → String → Prop) : AllX E g s :=
  fun x hx => Or.inr ((h x hx).elim (fun f => f.elim) id)

/-! ### completion is monotone in the completed outputs -/

theorem CE.eval_mono (e : CE) (σ τ : String → Bool) (h : ∀ v, σ v = true → τ v = true) :
    e.eval σ = true → e.eval τ = true := by
  induction e with
  | var v => exact h v
  | and l r ihl ihr =>
    simp only [CE.eval, Bool.and_eq_true]
    exact fun ⟨a, b⟩ => ⟨ihl a, ihr b⟩
  | or l r ihl ihr =>
    simp only [CE.eval, Bool.or_eq_true]
    exact fun hh => hh.elim (fun a => Or.inl (ihl a)) (fun b => Or.inr (ihr b))

theorem isComplete_mono (t : TaskDefn) (d d' : List String) (h : ∀ m, d.contains m = true → d'.contains m = true) :
    isComplete t d = true → isComplete t d' = true := by
  unfold isComplete
  apply CE.eval_mono
  intro v hv
  simp only [List.any_eq_true, Bool.and_eq_true] at hv ⊢
  obtain ⟨o, ho, h1, h2⟩ := hv
  exact ⟨o, ho, h1, h _ h2⟩

theorem core_sub (d : List String) (m : String) (h : (core d).contains m = true) : d.contains m = true := by
  unfold core at h
  simp only [List.contains_eq_mem, decide_eq_true_eq] at h ⊢
  exact (List.mem_filter.mp h).1

/-- incomplete over all outputs ⇒ incomplete over the non-implied ones -/
theorem incomplete_core (t : TaskDefn) (d : List String) (h : isComplete t d = false) : isComplete t (core d) = false := by
  cases hc : isComplete t (core d) with
  | false => rfl
  | true =>
    have := isComplete_mono t (core d) d (core_sub d) hc
    rw [h] at this; exact absurd this (by simp)

theorem core_append_implied (d : List String) (m : String) (h : m = "started" ∨ m = "submitted") :
    core (d ++ [m]) = core d := by
  unfold core
  rcases h with h | h <;> subst h <;> simp [List.filter_append]

/-! ### `P` under the proxy updates of the model -/

theorem P_same {g : Graph} {x : Proxy} (hx : P g x) (y : Proxy) (h1 : y.name = x.name) (h2 : y.status = x.status)
    (h3 : core y.done = core x.done) : P g y := by
  intro hf t ht
  rw [h2] at hf; rw [h1] at ht; rw [h3]
  exact hx hf t ht

theorem P_nonfinal {g : Graph} (y : Proxy) (h : y.status.isFinal = false) : P g y := by
  intro hf; rw [h] at hf; exact absurd hf (by simp)

theorem P_satisfyMe {g : Graph} {x : Proxy} (hx : P g x) (a : Atom) : P g (x.satisfyMe a) :=
  P_same hx _ rfl rfl rfl

theorem P_foldl_satisfyMe {g : Graph} (l : List Atom) : ∀ {x : Proxy}, P g x →
    P g (l.foldl (fun z a => z.satisfyMe a) x) := by
  induction l with
  | nil => intro x hx; exact hx
  | cons a l ih => intro x hx; exact ih (P_satisfyMe hx a)

theorem P_reset_flags {g : Graph} {x : Proxy} (hx : P g x) (q r : Option Bool) : P g (x.reset none q r) :=
  P_same hx _ (reset_name ..) (by rw [reset_status]; rfl) (by rw [reset_done])

theorem mkProxy_status {g : Graph} {n : String} {p : Int} {x : Proxy} (h : mkProxy g n p = some x) :
    x.status = .waiting := by
  unfold mkProxy at h
  cases ht : g.task? n with
  | none => simp [ht] at h
  | some t =>
    simp only [ht] at h
    by_cases hb : (p < g.icp || p > g.fcp) = true
    · simp [hb] at h
    · cases hd : t.inst? p with
      | none => simp [hb, hd] at h
      | some d =>
        simp [hb, hd] at h
        subst h
        rfl

theorem spawnTask_P {g : Graph} {s : State} {n : String} {p : Int} {x : Proxy}
    (h : spawnTask g s n p = some x) : P g x := by
  unfold spawnTask at h
  simp only at h
  split at h
  · simp at h
  · split at h
    · simp at h
    · rename_i x0 hx0
      have hk := mkProxy_key hx0
      have p0 : P g x0 := P_nonfinal _ (by rw [mkProxy_status hx0]; rfl)
      have hrev : ∀ y, (match (s.hist.filter fun h => h.pt == p && h.name == n).getLast? with
          | none => some x0
          | some h =>
            if h.done.isEmpty then none
            else
              let y := { x0 with status := h.status, submitNum := h.submitNum, done := h.done }
              if h.status.isFinal then
                match g.task? n with
                | some t => if isComplete t h.done then none else some y
                | none => none
              else some y) = some y → P g y := by
        intro y hy
        split at hy
        · simp at hy; subst hy; exact p0
        · split at hy
          · simp at hy
          · split at hy
            · split at hy
              · rename_i t ht
                split at hy
                · simp at hy
                · rename_i hinc
                  simp at hy; subst hy
                  intro _ t' ht'
                  simp only [hk.2] at ht'
                  rw [ht] at ht'
                  simp only [Option.some.injEq] at ht'
                  subst ht'
                  apply incomplete_core
                  simpa using hinc
              · simp at hy
            · rename_i hnf
              simp at hy; subst hy
              exact P_nonfinal _ (by simpa using hnf)
      rw [Option.map_eq_some_iff] at h
      obtain ⟨y, hy, hxy⟩ := h
      have gy := hrev y hy
      subst hxy
      split
      · split
        · exact P_foldl_satisfyMe _ gy
        · exact gy
      · exact gy

/-! ### pool primitives (generic in the exemption `E`) -/

section generic
variable {E : Int → String → Prop} {g : Graph}

theorem allX_put {s : State} (h : AllX E g s) {y : Proxy} (hy : E y.pt y.name ∨ P g y) : AllX E g (s.put y) := by
  intro z hz
  unfold State.put at hz
  simp only at hz
  obtain ⟨w, hw, rfl⟩ := List.mem_map.mp hz
  split
  · exact hy
  · exact h w hw

theorem allX_add {s : State} (h : AllX E g s) {y : Proxy} (hy : E y.pt y.name ∨ P g y) : AllX E g (s.add y) := by
  unfold State.add
  split
  · exact h
  · intro z hz
    simp only at hz
    rcases List.mem_append.mp hz with hz | hz
    · exact h z hz
    · simp at hz; subst hz; exact hy

/-- a same-key update that keeps `P` keeps membership of `E ∨ P` -/
theorem ex_same {x : Proxy} (hx : E x.pt x.name ∨ P g x) (y : Proxy) (h1 : y.pt = x.pt) (h2 : y.name = x.name)
    (hP : P g x → P g y) : E y.pt y.name ∨ P g y := by
  rcases hx with h | h
  · left; rw [h1, h2]; exact h
  · right; exact hP h

theorem allX_spawnAndAdd {s : State} (h : AllX E g s) (n : String) (p : Int) : AllX E g (spawnAndAdd g s n p) := by
  unfold spawnAndAdd
  split
  · exact h
  · split
    · rename_i x hx; exact allX_add h (Or.inr (spawnTask_P hx))
    · exact h

theorem allX_spawnNextParentless {s : State} (h : AllX E g s) (x : Proxy) : AllX E g (spawnNextParentless g s x) := by
  unfold spawnNextParentless
  split
  · exact h
  · split
    · exact allX_spawnAndAdd h _ _
    · exact h

theorem allX_computeRunahead {s : State} (h : AllX E g s) (f : Bool) : AllX E g (computeRunahead g s f) := by
  unfold AllX; rw [pool_computeRunahead]; exact h

theorem allX_releaseRunahead {s : State} (h : AllX E g s) : AllX E g (releaseRunahead g s).1 := by
  unfold releaseRunahead
  split
  · exact h
  · split
    · exact h
    · simp only
      apply foldl_inv (AllX E g)
      · intro st x hst
        apply allX_spawnNextParentless
        split
        · rename_i y hy
          apply allX_put hst
          exact ex_same (hst y (get?_mem hy).1) _ (reset_pt ..) (reset_name ..) (fun hp => P_reset_flags hp _ _)
        · exact hst
      · exact h

theorem allX_releaseRunaheadN : ∀ (k : Nat) {s : State}, AllX E g s → AllX E g (releaseRunaheadN g k s) := by
  intro k; induction k with
  | zero => intro s h; exact h
  | succ k ih =>
    intro s h
    unfold releaseRunaheadN
    simp only
    split
    · exact ih (allX_releaseRunahead h)
    · exact allX_releaseRunahead h

theorem allX_queueIfReady {s : State} (h : AllX E g s) {x : Proxy} (hx : E x.pt x.name ∨ P g x) :
    AllX E g (queueIfReady s x) := by
  unfold queueIfReady
  split
  · exact allX_put h (ex_same hx _ (reset_pt ..) (reset_name ..) (fun hp => P_reset_flags hp _ _))
  · exact h

theorem allX_empty : AllX E g ({} : State) := by intro x hx; simp at hx

theorem allX_loadFromPoint : AllX E g (loadFromPoint g) := by
  unfold loadFromPoint
  simp only
  apply foldl_inv (AllX E g)
  · intro st x hst
    split
    · rename_i y hy
      exact allX_queueIfReady hst (hst y (get?_mem hy).1)
    · exact hst
  · apply allX_releaseRunaheadN
    apply allX_computeRunahead
    apply foldl_inv (AllX E g)
    · intro st t hst
      split
      · exact allX_spawnAndAdd hst _ _
      · exact hst
    · exact allX_empty

theorem allX_releaseAndSubmit {s : State} (h : AllX E g s) : AllX E g (releaseAndSubmit s) := by
  unfold releaseAndSubmit
  simp only
  split
  · exact h
  · have key : ∀ (l : List Proxy) (st : State), AllX E g st →
        AllX E g (l.foldl (fun (st : State) x =>
          let y := x.reset (queued := some false)
          let y := { (y.reset (status := some .preparing)) with submitNum := x.submitNum + 1 }
          { (st.put y) with launched := st.launched ++ [(x.pt, x.name, x.submitNum + 1)] }) st) := by
      intro l; induction l with
      | nil => intro st hst; exact hst
      | cons a l ih =>
        intro st hst
        apply ih
        have : P g { ((a.reset (queued := some false)).reset (status := some .preparing)) with
            submitNum := a.submitNum + 1 } := P_nonfinal _ (by simp [reset_status]; rfl)
        exact allX_put hst (Or.inr this)
    exact key _ _ h

theorem allX_remove {s : State} (h : AllX E g s) (x : Proxy) : AllX E g (remove g s x) := by
  unfold remove
  simp only
  have h1 : AllX E g (if (!x.flows.isEmpty && x.runahead) = true then spawnNextParentless g s x else s) := by
    split
    · exact allX_spawnNextParentless h _
    · exact h
  intro y hy
  exact h1 y (List.mem_filter.mp hy).1

theorem allX_removeIfComplete {s : State} (h : AllX E g s) (x : Proxy) : AllX E g (removeIfComplete g s x) := by
  unfold removeIfComplete
  split
  · exact h
  · split
    · exact h
    · split
      · exact allX_remove h _
      · exact h

theorem allX_spawnChild (p : Int) (n out : String) (acc : State × List (Int × String)) (c : Child)
    (h : AllX E g acc.1) : AllX E g (spawnChild g p n out acc c).1 := by
  obtain ⟨st, sui⟩ := acc
  unfold spawnChild
  simp only
  have h0 : AllX E g (if (c.isAbs && !st.absDone.contains ⟨p, n, out⟩) = true then
      { st with absDone := st.absDone ++ [⟨p, n, out⟩] } else st) := by
    split
    · exact h
    · exact h
  generalize (if (c.isAbs && !st.absDone.contains ⟨p, n, out⟩) = true then
      { st with absDone := st.absDone ++ [⟨p, n, out⟩] } else st) = st0 at h0 ⊢
  have hfold : ∀ (ks : List (Int × String)) (a : State × List (Int × String)), AllX E g a.1 →
      AllX E g (ks.foldl (fun (a : State × List (Int × String)) k =>
        match a.1.get? k.1 k.2 with
        | none => a
        | some z =>
          let z := z.satisfyMe ⟨p, n, out⟩
          (a.1.put z, if (z.suicideNow && !a.2.contains k) = true then a.2 ++ [k] else a.2)) a).1 := by
    intro ks; induction ks with
    | nil => intro a ha; exact ha
    | cons k ks ih =>
      intro a ha
      apply ih
      simp only
      split
      · exact ha
      · rename_i z hz
        exact allX_put ha (ex_same (ha z (get?_mem hz).1) _ rfl rfl (fun hp => P_satisfyMe hp _))
  split
  · exact h0
  · rename_i y hy
    apply hfold
    simp only
    split
    · exact h0
    · apply allX_add h0
      split at hy
      · rename_i y' hy'
        simp only [Option.some.injEq] at hy; subst hy
        exact ex_same (h0 _ (get?_mem hy').1) _ rfl rfl (fun hp => P_satisfyMe hp _)
      · exact Or.inr (P_satisfyMe (spawnTask_P hy) _)

end generic

/-! ### `spawnOnOutput`: generic preservation, and the closing `removeIfComplete` re-establishes `P` for the proxy itself -/

theorem unique_of_nodup : ∀ (l : List Proxy) (p : Int) (n : String) (x z : Proxy),
    (l.map fun y => (y.pt, y.name)).Nodup → l.find? (fun y => y.pt == p && y.name == n) = some x →
    z ∈ l → z.pt = p → z.name = n → z = x := by
  intro l; induction l with
  | nil => intro p n x z _ hf; simp at hf
  | cons a l ih =>
    intro p n x z hn hf hz h1 h2
    simp only [List.map_cons, List.nodup_cons] at hn
    by_cases ha : (a.pt == p && a.name == n) = true
    · simp only [List.find?_cons, ha, Option.some.injEq] at hf
      subst hf
      rcases List.mem_cons.mp hz with hz | hz
      · exact hz
      · exfalso
        apply hn.1
        simp only [Bool.and_eq_true, beq_iff_eq] at ha
        rw [ha.1, ha.2, ← h1, ← h2]
        exact List.mem_map.mpr ⟨z, hz, rfl⟩
    · have ha' : (a.pt == p && a.name == n) = false := by simpa using ha
      simp only [List.find?_cons, ha'] at hf
      rcases List.mem_cons.mp hz with hz | hz
      · exfalso; apply ha; subst hz; simp [h1, h2]
      · exact ih p n x z hn.2 hf hz h1 h2

theorem nodup_get?_unique {s : State} (hn : NoDup s) {p : Int} {n : String} {x z : Proxy}
    (hg : s.get? p n = some x) (hz : z ∈ s.pool) (h1 : z.pt = p) (h2 : z.name = n) : z = x :=
  unique_of_nodup s.pool p n x z hn hg hz h1 h2

section generic2
variable {E : Int → String → Prop} {g : Graph}

/-- the state reached by `spawnOnOutput` just before its closing `removeIfComplete` -/
def soMid (g : Graph) (s : State) (x : Proxy) (p : Int) (n out : String) : State :=
  let cs := if x.flows.isEmpty then [] else childrenOf g x out
  let r := cs.foldl (spawnChild g p n out) (s, [])
  r.2.foldl (fun (st : State) k => match st.get? k.1 k.2 with
    | some z => remove g st z
    | none => st) r.1

theorem spawnOnOutput_eq (g : Graph) (s : State) (p : Int) (n out : String) :
    spawnOnOutput g s p n out =
      match s.get? p n with
      | none => s
      | some x =>
        match (soMid g s x p n out).get? p n with
        | some x' => removeIfComplete g (soMid g s x p n out) x'
        | none => soMid g s x p n out := by
  unfold spawnOnOutput soMid
  cases s.get? p n <;> rfl

theorem soMid_inv (Q : State → Prop) (hchild : ∀ acc c, Q acc.1 → Q (spawnChild g p n out acc c).1)
    (hrem : ∀ st z, Q st → Q (remove g st z)) {s : State} (h : Q s) (x : Proxy) :
    Q (soMid g s x p n out) := by
  unfold soMid
  simp only
  have h1 : ∀ (cs : List Child) (acc : State × List (Int × String)), Q acc.1 →
      Q (cs.foldl (spawnChild g p n out) acc).1 := by
    intro cs; induction cs with
    | nil => intro acc ha; exact ha
    | cons c cs ih => intro acc ha; exact ih _ (hchild acc c ha)
  have h2 : ∀ (ks : List (Int × String)) (st : State), Q st →
      Q (ks.foldl (fun (st : State) k => match st.get? k.1 k.2 with
        | some z => remove g st z
        | none => st) st) := by
    intro ks; induction ks with
    | nil => intro st hst; exact hst
    | cons k ks ih =>
      intro st hst
      apply ih
      simp only
      split
      · exact hrem _ _ hst
      · exact hst
  exact h2 _ _ (h1 _ _ h)

theorem allX_spawnOnOutput {s : State} (h : AllX E g s) (p : Int) (n out : String) :
    AllX E g (spawnOnOutput g s p n out) := by
  rw [spawnOnOutput_eq]
  split
  · exact h
  · rename_i x _
    have hm : AllX E g (soMid g s x p n out) :=
      soMid_inv (AllX E g) (fun acc c ha => allX_spawnChild p n out acc c ha) (fun st z hst => allX_remove hst z) h x
    split
    · exact allX_removeIfComplete hm _
    · exact hm

theorem nodup_soMid {s : State} (h : NoDup s) (x : Proxy) (p : Int) (n out : String) : NoDup (soMid g s x p n out) :=
  soMid_inv NoDup (fun acc c ha => nodup_spawnChild g p n out acc c ha) (fun st z hst => nodup_remove g st z hst) h x

end generic2

/-- get? = none: nothing in the pool carries the key -/
theorem allP_of_key_none {g : Graph} {s : State} {p : Int} {n : String} (h : AllX (Key p n) g s)
    (hn : s.get? p n = none) : AllP g s := by
  intro x hx
  rcases h x hx with hk | hp
  · exfalso
    apply get?_none_not_mem s p n hn
    unfold keys
    exact List.mem_map.mpr ⟨x, hx, by rw [hk.1, hk.2]⟩
  · exact Or.inr hp

/-- replacing the exempt proxy by one that satisfies `P` -/
theorem allP_put_key {g : Graph} {s : State} {p : Int} {n : String} (h : AllX (Key p n) g s) {y : Proxy}
    (h1 : y.pt = p) (h2 : y.name = n) (hy : P g y) : AllP g (s.put y) := by
  intro z hz
  unfold State.put at hz
  simp only at hz
  obtain ⟨w, hw, rfl⟩ := List.mem_map.mp hz
  split
  · exact Or.inr hy
  · rename_i hne
    rcases h w hw with hk | hp
    · exfalso; apply hne; simp [hk.1, hk.2, h1, h2]
    · exact Or.inr hp

/-- **D**: whatever the state of the proxy `(p, n)` itself, after `spawnOnOutput … p n` every pooled proxy satisfies `P` -/
theorem allP_spawnOnOutput_key {g : Graph} {s : State} {p : Int} {n : String} (hn : NoDup s)
    (h : AllX (Key p n) g s) (out : String) : AllP g (spawnOnOutput g s p n out) := by
  rw [spawnOnOutput_eq]
  split
  · rename_i hnone; exact allP_of_key_none h hnone
  · rename_i x _
    have hm : AllX (Key p n) g (soMid g s x p n out) :=
      soMid_inv (AllX (Key p n) g) (fun acc c ha => allX_spawnChild p n out acc c ha)
        (fun st z hst => allX_remove hst z) h x
    have hnm : NoDup (soMid g s x p n out) := nodup_soMid hn x p n out
    generalize soMid g s x p n out = m at hm hnm
    split
    · rename_i x' hx'
      have hk := get?_mem hx'
      -- the closing removeIfComplete
      unfold removeIfComplete
      split
      · -- not final: retained, and P holds trivially for it (it is the only proxy with the key)
        rename_i hnf
        intro z hz
        rcases hm z hz with hkz | hp
        · have : z = x' := nodup_get?_unique hnm hx' hz hkz.1 hkz.2
          subst this
          exact Or.inr (P_nonfinal _ (by simpa using hnf))
        · exact Or.inr hp
      · split
        · -- no task definition: P holds vacuously
          rename_i hnt
          intro z hz
          rcases hm z hz with hkz | hp
          · have : z = x' := nodup_get?_unique hnm hx' hz hkz.1 hkz.2
            subst this
            right; intro _ t ht; rw [hnt] at ht; exact absurd ht (by simp)
          · exact Or.inr hp
        · rename_i t ht
          split
          · -- complete: removed; what remains does not carry the key
            have hr : AllX (Key p n) g (remove g m x') := allX_remove hm x'
            intro z hz
            rcases hr z hz with hkz | hp
            · exfalso
              unfold remove at hz
              simp only at hz
              have := (List.mem_filter.mp hz).2
              simp [hkz.1, hkz.2, hk.2.1, hk.2.2] at this
            · exact Or.inr hp
          · -- incomplete: retained
            rename_i hinc
            intro z hz
            rcases hm z hz with hkz | hp
            · have : z = x' := nodup_get?_unique hnm hx' hz hkz.1 hkz.2
              subst this
              right; intro _ t' ht'
              rw [ht] at ht'
              simp only [Option.some.injEq] at ht'
              subst ht'
              exact incomplete_core _ _ (by simpa using hinc)
            · exact Or.inr hp
    · rename_i hnone
      exact allP_of_key_none hm hnone

/-! ### messages -/

theorem lookup_key {s : State} {p : Int} {n : String} {x : Proxy} {tr : Bool} (hl : lookup s p n = some (x, tr)) :
    x.pt = p ∧ x.name = n := by
  unfold lookup at hl
  split at hl
  · rename_i y hy
    simp only [Option.some.injEq, Prod.mk.injEq] at hl
    rw [← hl.1]; exact (get?_mem hy).2
  · rw [Option.map_eq_some_iff] at hl
    obtain ⟨y, hy, hxy⟩ := hl
    simp only [Prod.mk.injEq] at hxy
    rw [← hxy.1]
    have := List.find?_some hy
    simpa using this

theorem lookup_false {s : State} {p : Int} {n : String} {x : Proxy} (hl : lookup s p n = some (x, false)) :
    s.get? p n = some x := by
  unfold lookup at hl
  split at hl
  · rename_i y hy
    simp only [Option.some.injEq, Prod.mk.injEq] at hl
    rw [← hl.1]; exact hy
  · rw [Option.map_eq_some_iff] at hl
    obtain ⟨y, _, hxy⟩ := hl
    simp at hxy

theorem lookup_true {s : State} {p : Int} {n : String} {x : Proxy} (hl : lookup s p n = some (x, true)) :
    s.get? p n = none := by
  unfold lookup at hl
  split at hl
  · simp at hl
  · rename_i h; exact h

theorem lookup_none {s : State} {p : Int} {n : String} (hl : lookup s p n = none) : s.get? p n = none := by
  unfold lookup at hl
  split at hl
  · simp at hl
  · rename_i h; exact h

theorem store_pool_true (s : State) (y : Proxy) : (store s y true).pool = s.pool := by
  unfold store; simp

theorem setComplete_pt (g : Graph) (x : Proxy) (m : String) : (setComplete g x m).1.pt = x.pt :=
  (setComplete_fields g x m).1
theorem setComplete_name (g : Graph) (x : Proxy) (m : String) : (setComplete g x m).1.name = x.name :=
  (setComplete_fields g x m).2.1
theorem setComplete_status (g : Graph) (x : Proxy) (m : String) : (setComplete g x m).1.status = x.status :=
  (setComplete_fields g x m).2.2.2.2

/-- `setComplete` either appends the message (reporting `some true`) or leaves the proxy alone -/
theorem setComplete_cases (g : Graph) (x : Proxy) (m : String) :
    ((setComplete g x m).2 = some true ∧ (setComplete g x m).1.done = x.done ++ [m]) ∨
    ((setComplete g x m).2 ≠ some true ∧ (setComplete g x m).1 = x) := by
  unfold setComplete
  split
  · right; simp
  · split
    · right; simp
    · left; simp

section generic3
variable {E : Int → String → Prop} {g : Graph}

theorem allX_store {s : State} (h : AllX E g s) {y : Proxy} (hy : E y.pt y.name ∨ P g y) (tr : Bool) :
    AllX E g (store s y tr) := by
  unfold store
  split
  · exact h
  · exact allX_put h hy

theorem allX_spawnChildren {s : State} (h : AllX E g s) (p : Int) (n out : String) (tr : Bool) :
    AllX E g (spawnChildren g s p n out tr) := by
  unfold spawnChildren; split
  · exact h
  · exact allX_spawnOnOutput h _ _ _

attribute [local irreducible] Proxy.reset setComplete AllX in
/-- **A**: processing a message of `(p, n)` keeps `P` for every proxy other than `(p, n)` (any fuel) -/
theorem allX_processMessage (p : Int) (n : String) (hE : E p n) : ∀ (fuel : Nat) {s : State} (flag : Flag)
    (sn : Nat) (msg : String), AllX E g s → AllX E g (processMessage g fuel s p n flag sn msg).1 := by
  intro fuel
  induction fuel with
  | zero => intro s flag sn msg h; exact h
  | succ fuel ih =>
    intro s flag sn msg h
    unfold processMessage
    split
    · exact h
    · rename_i x tr hl
      have hk := lookup_key hl
      split
      · exact h
      · split
        · exact h
        · simp only
          have himp : ∀ (l : List String) (st : State), AllX E g st →
              AllX E g (l.foldl (fun st m => (processMessage g fuel st p n .internal sn m).1) st) := by
            intro l; induction l with
            | nil => intro st hst; exact hst
            | cons a l ihl => intro st hst; exact ihl _ (ih _ _ _ hst)
          generalize hS : (List.foldl (fun st m => (processMessage g fuel st p n Flag.internal sn m).1) _ _) = S
          have hSn : AllX E g S := by
            rw [← hS]
            apply himp
            apply allX_store h
            left
            split
            · rw [hk.1, hk.2]; exact hE
            · rw [setComplete_pt, setComplete_name, hk.1, hk.2]; exact hE
          split
          · exact hSn
          · rename_i x' tr' hl'
            have hk' := lookup_key hl'
            repeat' split
            all_goals try exact hSn
            all_goals dsimp only
            all_goals (repeat (first | exact hSn | apply allX_spawnChildren | apply allX_store))
            all_goals (left; simp only [reset_pt, reset_name, setComplete_pt, setComplete_name, hk'.1, hk'.2]; exact hE)

end generic3

/-! ### **B**: processing a message keeps `P` for every pooled proxy, the proxy `(p, n)` included -/

theorem allP_store_key {g : Graph} {s : State} {p : Int} {n : String} (hQ : AllX (Key p n) g s) {tr : Bool}
    (htr : tr = true → AllP g s) {y : Proxy} (h1 : y.pt = p) (h2 : y.name = n) (hy : P g y) :
    AllP g (store s y tr) := by
  cases tr with
  | true => intro z hz; rw [store_pool_true] at hz; exact htr rfl z hz
  | false =>
    have : store s y false = s.put y := by unfold store; simp
    rw [this]; exact allP_put_key hQ h1 h2 hy

theorem allP_spawnChildren_key {g : Graph} {s : State} {p : Int} {n : String} (hN : NoDup s)
    (hQ : AllX (Key p n) g s) {tr : Bool} (htr : tr = true → AllP g s) (out : String) :
    AllP g (spawnChildren g s p n out tr) := by
  unfold spawnChildren; split
  · rename_i h; exact htr h
  · exact allP_spawnOnOutput_key hN hQ out

theorem allP_spawnChildren_store_key {g : Graph} {s : State} {p : Int} {n : String} (hN : NoDup s)
    (hQ : AllX (Key p n) g s) {tr : Bool} (htr : tr = true → AllP g s) {y : Proxy} (h1 : y.pt = p) (h2 : y.name = n)
    (out : String) : AllP g (spawnChildren g (store s y tr) p n out tr) := by
  cases tr with
  | true =>
    unfold spawnChildren
    simp only [if_true]
    intro z hz; rw [store_pool_true] at hz; exact htr rfl z hz
  | false =>
    have : store s y false = s.put y := by unfold store; simp
    rw [this]
    unfold spawnChildren
    simp only [Bool.false_eq_true, if_false]
    exact allP_spawnOnOutput_key (nodup_put _ _ hN) (allX_put hQ (Or.inl ⟨h1, h2⟩)) out

theorem allX_store_true {E : Int → String → Prop} {g : Graph} {s : State} (h : AllX E g s) (y : Proxy) :
    AllX E g (store s y true) := by
  intro z hz; rw [store_pool_true] at hz; exact h z hz

attribute [local irreducible] Proxy.reset setComplete AllX in
theorem allP_processMessage {g : Graph} : ∀ (fuel : Nat) {s : State} (p : Int) (n : String) (flag : Flag)
    (sn : Nat) (msg : String), NoDup s → AllP g s → AllP g (processMessage g fuel s p n flag sn msg).1 := by
  intro fuel
  induction fuel with
  | zero => intro s p n flag sn msg _ h; exact h
  | succ fuel ih =>
    intro s p n flag sn msg hN h
    unfold processMessage
    split
    · exact h
    · rename_i x tr hl
      have hk := lookup_key hl
      split
      · exact h
      · split
        · exact h
        · simp only
          generalize hxc : (if (msg == "submit-failed" || msg == "failed") = true then (x, some false)
            else setComplete g x msg) = xc
          have hxk : xc.1.pt = p ∧ xc.1.name = n := by
            rw [← hxc]; split
            · exact hk
            · rw [setComplete_pt, setComplete_name]; exact hk
          have hxs : xc.1.status = x.status := by
            rw [← hxc]; split
            · rfl
            · exact setComplete_status ..
          have hxcases : core xc.1.done = core x.done ∨
              (xc.2 = some true ∧ msg ≠ "started" ∧ msg ≠ "submitted" ∧
                (msg == "submit-failed" || msg == "failed") = false) := by
            rw [← hxc]; split
            · left; rfl
            · rename_i hmf
              rcases setComplete_cases g x msg with ⟨h1, h2⟩ | ⟨_, h2⟩
              · by_cases hm : msg = "started" ∨ msg = "submitted"
                · left; rw [h2]; exact core_append_implied _ _ hm
                · right
                  refine ⟨h1, fun e => hm (Or.inl e), fun e => hm (Or.inr e), by simpa using hmf⟩
              · left; rw [h2]
          have hN1 : NoDup (store s xc.1 tr) := nodup_store _ _ _ hN
          have hQ1 : AllX (Key p n) g (store s xc.1 tr) := allX_store (allX_of_allP h _) (Or.inl hxk) tr
          have himpQ : ∀ (l : List String) (st : State), NoDup st ∧ AllX (Key p n) g st →
              (NoDup (l.foldl (fun st m => (processMessage g fuel st p n .internal sn m).1) st) ∧
               AllX (Key p n) g (l.foldl (fun st m => (processMessage g fuel st p n .internal sn m).1) st)) := by
            intro l; induction l with
            | nil => intro st hst; exact hst
            | cons a l ihl =>
              intro st hst
              exact ihl _ ⟨nodup_processMessage g fuel _ _ _ _ _ _ hst.1,
                allX_processMessage p n ⟨rfl, rfl⟩ fuel _ _ _ hst.2⟩
          have himpP : ∀ (l : List String) (st : State), NoDup st ∧ AllP g st →
              AllP g (l.foldl (fun st m => (processMessage g fuel st p n .internal sn m).1) st) := by
            intro l; induction l with
            | nil => intro st hst; exact hst.2
            | cons a l ihl =>
              intro st hst
              exact ihl _ ⟨nodup_processMessage g fuel _ _ _ _ _ _ hst.1, ih _ _ _ _ _ hst.1 hst.2⟩
          have hP1 : (tr = true ∨ core xc.1.done = core x.done) → AllP g (store s xc.1 tr) := by
            intro hc
            cases tr with
            | true => exact allX_store_true h _
            | false =>
              have hcore := hc.resolve_left (by simp)
              have hx := get?_mem (lookup_false hl)
              have hPx : P g x := (allP_iff.mp h) x hx.1
              apply allX_store h (Or.inr _)
              exact P_same hPx _ (by rw [hxk.2, hk.2]) hxs hcore
          generalize hS : (List.foldl (fun st m => (processMessage g fuel st p n Flag.internal sn m).1) _ _) = S
          have hQS : NoDup S ∧ AllX (Key p n) g S := by rw [← hS]; exact himpQ _ _ ⟨hN1, hQ1⟩
          have hPS : (tr = true ∨ core xc.1.done = core x.done) → AllP g S := by
            intro hc; rw [← hS]; exact himpP _ _ ⟨hN1, hP1 hc⟩
          split
          · rename_i hnone
            exact allP_of_key_none hQS.2 (lookup_none hnone)
          · rename_i x' tr' hl'
            have hk' := lookup_key hl'
            have htr' : tr' = true → AllP g S := by
              intro e; subst e; exact allP_of_key_none hQS.2 (lookup_true hl')
            have hG1 : (msg = "started" ∨ msg = "submitted" ∨ msg = "failed" ∨ msg = "submit-failed" ∨
                xc.2 ≠ some true) → AllP g S := by
              intro hm
              apply hPS
              right
              rcases hxcases with hc | ⟨h1, h2, h3, h4⟩
              · exact hc
              · exfalso
                rcases hm with e | e | e | e | e
                · exact h2 e
                · exact h3 e
                · subst e; simp at h4
                · subst e; simp at h4
                · exact e h1
            repeat' split
            all_goals dsimp only
            all_goals first
              | exact hG1 (Or.inl (by simpa using ‹(msg == "started") = true›))
              | exact hG1 (Or.inr (Or.inl (by simpa using ‹(msg == "submitted") = true›)))
              | exact hG1 (Or.inr (Or.inr (Or.inl (by simpa using ‹(msg == "failed") = true›))))
              | exact hG1 (Or.inr (Or.inr (Or.inr (Or.inl (by simpa using ‹(msg == "submit-failed") = true›)))))
              | exact hG1 (Or.inr (Or.inr (Or.inr (Or.inr (by simpa using ‹¬(xc.2 == some true) = true›)))))
              | exact allP_spawnChildren_key hQS.1 hQS.2 htr' _
              | (apply allP_spawnChildren_store_key hQS.1 hQS.2 htr' <;>
                  simp only [reset_pt, reset_name, setComplete_pt, setComplete_name, hk'.1, hk'.2])
              | (apply allP_store_key hQS.2 htr'
                 · simp only [reset_pt, hk'.1]
                 · simp only [reset_name, hk'.2]
                 · exact P_nonfinal _ (by simp only [reset_status]; rfl))

/-! ### the main loop and the run -/

/-- the run invariant: no duplicates, and every pooled proxy satisfies `P` -/
def R (g : Graph) (s : State) : Prop := NoDup s ∧ AllP g s

theorem R_processQueue {g : Graph} {s : State} (h : R g s) : R g (processQueue g s) := by
  unfold processQueue
  apply foldl_inv (R g)
  · intro st grp hst
    simp only
    split
    · exact hst
    · have : ∀ (l : List Msg) (acc : State × Bool), R g acc.1 →
          R g (l.foldl (fun (acc : State × Bool) m =>
            let (st', pl) := processMessage g 4 acc.1 grp.1.1 grp.1.2 .received m.submitNum m.text
            (st', acc.2 || pl)) acc).1 := by
        intro l; induction l with
        | nil => intro acc ha; exact ha
        | cons m l ihl =>
          intro acc ha
          apply ihl
          exact ⟨nodup_processMessage g 4 _ _ _ _ _ _ ha.1, allP_processMessage 4 _ _ _ _ _ ha.1 ha.2⟩
      have h2 := this grp.2 (st, false) hst
      split
      · exact h2
      · exact h2
  · exact h

theorem allX_checkStalled {E : Int → String → Prop} {g : Graph} {s : State} (h : AllX E g s) :
    AllX E g (checkStalled g s) := by
  unfold checkStalled; split
  · exact h
  · split <;> exact h

theorem allX_checkAutoShutdown {E : Int → String → Prop} {g : Graph} {s : State} (h : AllX E g s) :
    AllX E g (checkAutoShutdown g s).1 := by
  unfold checkAutoShutdown
  simp only
  split
  · exact allX_checkStalled h
  · split <;> exact allX_checkStalled h

theorem allX_sweepQueue {E : Int → String → Prop} {g : Graph} {s : State} (h : AllX E g s) :
    AllX E g (sweepQueue s) := by
  unfold sweepQueue
  apply foldl_inv (AllX E g)
  · intro st x hst
    split
    · rename_i y hy
      have gy := hst y (get?_mem hy).1
      split
      · have gy' : E ({ y with retryWait := false } : Proxy).pt ({ y with retryWait := false } : Proxy).name ∨
            P g { y with retryWait := false } := ex_same gy _ rfl rfl (fun hp => P_same hp _ rfl rfl rfl)
        exact allX_queueIfReady (allX_put hst gy') gy'
      · exact hst
    · exact hst
  · exact h

theorem allX_finishLoop {E : Int → String → Prop} {g : Graph} {s : State} (h : AllX E g s) :
    AllX E g (finishLoop g s) := by
  unfold finishLoop
  simp only
  have h5 : AllX E g (if (s.schedUpd || s.pool.any (·.upd)) = true then
      { s with stalled := false, schedUpd := false, pool := s.pool.map fun x => { x with upd := false } }
    else s) := by
    split
    · intro y hy
      simp only at hy
      obtain ⟨z, hz, rfl⟩ := List.mem_map.mp hy
      exact ex_same (h z hz) _ rfl rfl (fun hp => P_same hp _ rfl rfl rfl)
    · exact h
  generalize (if (s.schedUpd || s.pool.any (·.upd)) = true then
      { s with stalled := false, schedUpd := false, pool := s.pool.map fun x => { x with upd := false } }
    else s) = s5 at h5 ⊢
  have h6 : AllX E g { s5 with db := some s5.pool } := h5
  split
  · exact allX_checkStalled h6
  · exact h6

theorem R_mainLoop {g : Graph} {s : State} (h : R g s) : R g (mainLoop g s) := by
  refine ⟨nodup_mainLoop g s h.1, ?_⟩
  unfold mainLoop
  split
  · exact h.2
  · simp only
    have n1 := nodup_releaseRunahead g _ (nodup_computeRunahead g s false h.1)
    have n2 := nodup_checkAutoShutdown g _ n1
    have h1 : AllP g (releaseRunahead g (computeRunahead g s)).1 := allX_releaseRunahead (allX_computeRunahead h.2 false)
    have h2 := allX_checkAutoShutdown h1
    split
    · exact h2
    · have n3 := nodup_releaseAndSubmit _ (nodup_sweepQueue _ n2)
      have h3 : AllP g _ := allX_releaseAndSubmit (allX_sweepQueue h2)
      exact allX_finishLoop (R_processQueue ⟨n3, h3⟩).2

theorem R_step {g : Graph} (s : State) (op : Op) (h : R g s) : R g (step g s op) := by
  unfold step
  have hc : R g (clearOp s) := h
  cases op with
  | loop => exact R_mainLoop hc
  | subres p n ok sn =>
    exact ⟨nodup_processMessage g 4 _ _ _ _ _ _ hc.1, allP_processMessage 4 _ _ _ _ _ hc.1 hc.2⟩
  | msg p n sn text => exact hc

theorem R_run (g : Graph) (ops : List Op) : ∀ s ∈ run g ops, R g s :=
  run_inv (R g) g ⟨nodup_loadFromPoint g, allX_loadFromPoint⟩ (fun s op h => R_step s op h) ops

/-! ### exact statements with the full output set -/

/-- what `spawnOnOutput … p n` leaves of the proxy `(p, n)` is never finished-and-complete (full output set) -/
theorem spawnOnOutput_key_exact {g : Graph} {s : State} (hn : NoDup s) (p : Int) (n out : String) :
    ∀ z ∈ (spawnOnOutput g s p n out).pool, z.pt = p → z.name = n → z.status.isFinal = true →
      ∀ t, g.task? n = some t → isComplete t z.done = false := by
  have hnone : ∀ (m : State), m.get? p n = none → ∀ z ∈ m.pool, z.pt = p → z.name = n → False := by
    intro m hm z hz h1 h2
    apply get?_none_not_mem m p n hm
    unfold keys
    exact List.mem_map.mpr ⟨z, hz, by rw [h1, h2]⟩
  rw [spawnOnOutput_eq]
  split
  · rename_i h0
    intro z hz h1 h2; exact (hnone s h0 z hz h1 h2).elim
  · rename_i x _
    have hnm : NoDup (soMid g s x p n out) := nodup_soMid hn x p n out
    generalize soMid g s x p n out = m at hnm
    split
    · rename_i x' hx'
      have hk := get?_mem hx'
      unfold removeIfComplete
      split
      · rename_i hnf
        intro z hz h1 h2 hf
        have : z = x' := nodup_get?_unique hnm hx' hz h1 h2
        subst this
        rw [hf] at hnf; simp at hnf
      · split
        · rename_i hnt
          intro z hz h1 h2 _ t ht
          rw [← hk.2.2, hnt] at ht; exact absurd ht (by simp)
        · rename_i t ht
          split
          · intro z hz h1 h2
            exfalso
            unfold remove at hz
            simp only at hz
            have := (List.mem_filter.mp hz).2
            simp [h1, h2, hk.2.1, hk.2.2] at this
          · rename_i hinc
            intro z hz h1 h2 _ t' ht'
            have : z = x' := nodup_get?_unique hnm hx' hz h1 h2
            subst this
            rw [← hk.2.2, ht] at ht'
            simp only [Option.some.injEq] at ht'
            subst ht'
            simpa using hinc
    · rename_i h0
      intro z hz h1 h2; exact (hnone m h0 z hz h1 h2).elim

/-- `spawnTask` never puts a finished-and-complete instance back (history revival) -/
theorem spawnTask_exact {g : Graph} {s : State} {n : String} {p : Int} {x : Proxy}
    (h : spawnTask g s n p = some x) :
    x.status.isFinal = true → ∀ t, g.task? n = some t → isComplete t x.done = false := by
  unfold spawnTask at h
  simp only at h
  split at h
  · simp at h
  · split at h
    · simp at h
    · rename_i x0 hx0
      have hst0 := mkProxy_status hx0
      have hrev : ∀ y, (match (s.hist.filter fun h => h.pt == p && h.name == n).getLast? with
          | none => some x0
          | some h =>
            if h.done.isEmpty then none
            else
              let y := { x0 with status := h.status, submitNum := h.submitNum, done := h.done }
              if h.status.isFinal then
                match g.task? n with
                | some t => if isComplete t h.done then none else some y
                | none => none
              else some y) = some y →
          (y.status.isFinal = true → ∀ t, g.task? n = some t → isComplete t y.done = false) := by
        intro y hy
        split at hy
        · simp at hy; subst hy; intro hf; rw [hst0] at hf; exact absurd hf (by decide)
        · split at hy
          · simp at hy
          · split at hy
            · split at hy
              · rename_i t ht
                split at hy
                · simp at hy
                · rename_i hinc
                  simp at hy; subst hy
                  intro _ t' ht'
                  rw [ht] at ht'
                  simp only [Option.some.injEq] at ht'
                  subst ht'
                  simpa using hinc
              · simp at hy
            · rename_i hnf
              simp at hy; subst hy
              intro hf; simp at hnf; simp [hnf] at hf
      rw [Option.map_eq_some_iff] at h
      obtain ⟨y, hy, hxy⟩ := h
      have gy := hrev y hy
      subst hxy
      have hfold : ∀ (l : List Atom) (z : Proxy),
          (l.foldl (fun z a => z.satisfyMe a) z).status = z.status ∧
          (l.foldl (fun z a => z.satisfyMe a) z).done = z.done := by
        intro l; induction l with
        | nil => intro z; exact ⟨rfl, rfl⟩
        | cons a l ih => intro z; exact ih (z.satisfyMe a)
      split
      · split
        · rw [(hfold _ y).1, (hfold _ y).2]; exact gy
        · exact gy
      · exact gy

/-! ### completion expressions that do not mention the implied outputs -/

def CE.vars : CE → List String
  | .var v => [v]
  | .and l r => l.vars ++ r.vars
  | .or l r => l.vars ++ r.vars

/-- the completion expression of `t` mentions neither `submitted` nor `started` -/
def indepImplied (t : TaskDefn) : Bool :=
  t.outputs.all fun o =>
    !(o.message == "submitted" || o.message == "started") || !(t.completion.vars.contains (compVar o.trigger))

theorem CE.eval_congr (e : CE) (σ τ : String → Bool) (h : ∀ v ∈ e.vars, σ v = τ v) : e.eval σ = e.eval τ := by
  induction e with
  | var v => exact h v (by simp [CE.vars])
  | and l r ihl ihr =>
    simp only [CE.eval]
    rw [ihl (fun v hv => h v (by simp [CE.vars, hv])), ihr (fun v hv => h v (by simp [CE.vars, hv]))]
  | or l r ihl ihr =>
    simp only [CE.eval]
    rw [ihl (fun v hv => h v (by simp [CE.vars, hv])), ihr (fun v hv => h v (by simp [CE.vars, hv]))]

theorem core_contains (d : List String) (m : String) (h1 : m ≠ "submitted") (h2 : m ≠ "started") :
    (core d).contains m = d.contains m := by
  unfold core
  rw [Bool.eq_iff_iff]
  simp only [List.contains_eq_mem, decide_eq_true_eq, List.mem_filter, Bool.and_eq_true, bne_iff_ne, ne_eq]
  exact ⟨fun h => h.1, fun h => ⟨h, h1, h2⟩⟩

theorem isComplete_core (t : TaskDefn) (d : List String) (h : indepImplied t = true) :
    isComplete t (core d) = isComplete t d := by
  unfold isComplete
  apply CE.eval_congr
  intro v hv
  unfold indepImplied at h
  rw [List.all_eq_true] at h
  rw [Bool.eq_iff_iff]
  simp only [List.any_eq_true, Bool.and_eq_true]
  constructor
  · rintro ⟨o, ho, h1, h2⟩
    exact ⟨o, ho, h1, core_sub d _ h2⟩
  · rintro ⟨o, ho, h1, h2⟩
    refine ⟨o, ho, h1, ?_⟩
    have hio := h o ho
    by_cases hm : o.message = "submitted" ∨ o.message = "started"
    · exfalso
      have hv' : t.completion.vars.contains (compVar o.trigger) = true := by
        simp only [beq_iff_eq] at h1
        rw [h1]; simpa using hv
      have hv'' : compVar o.trigger ∈ t.completion.vars := by simpa using hv'
      rcases hm with e | e <;> simp [e] at hio <;> exact hio hv''
    · rw [core_contains d _ (fun e => hm (Or.inl e)) (fun e => hm (Or.inr e))]; exact h2

end CylcModel.Sched
