/-
Helper lemmas for C36: strip functions, the invariant of the continuation state machine,
`splitLines ∘ dump`, include-free inlining.
-/
import CylcModel.Lines

namespace CylcModel.Lines

/-! ## stripping -/

theorem dropWhile_idem (p : Char → Bool) (l : Line) : (l.dropWhile p).dropWhile p = l.dropWhile p := by
  induction l with
  | nil => rfl
  | cons c r ih =>
    by_cases h : p c = true
    · simp [h, ih]
    · simp [h]

theorem dropRightWhile_idem (p : Char → Bool) (l : Line) :
    dropRightWhile p (dropRightWhile p l) = dropRightWhile p l := by
  simp [dropRightWhile, dropWhile_idem]

theorem dropWhile_head (p : Char → Bool) (l : Line) : ∀ c, (l.dropWhile p).head? = some c → p c = false := by
  induction l with
  | nil => simp
  | cons a r ih =>
    intro c
    by_cases h : p a = true
    · simpa [List.dropWhile_cons, h] using ih c
    · simp only [List.dropWhile_cons, h, if_false, List.head?_cons, Option.some.injEq, Bool.false_eq_true]
      rintro rfl; simpa using h

/-- the last character left by `dropRightWhile p` does not satisfy `p` -/
theorem dropRightWhile_last (p : Char → Bool) (l : Line) (c : Char)
    (h : (dropRightWhile p l).getLast? = some c) : p c = false := by
  unfold dropRightWhile at h
  rw [List.getLast?_reverse] at h
  exact dropWhile_head p _ c h

theorem dropWhile_length (p : Char → Bool) (l : Line) : (l.dropWhile p).length ≤ l.length := by
  induction l with
  | nil => simp
  | cons a r ih =>
    by_cases h : p a = true
    · simp only [List.dropWhile_cons, h, if_true, List.length_cons]; omega
    · simp [List.dropWhile_cons, h]

theorem rstrip_idem (l : Line) : rstrip (rstrip l) = rstrip l := dropRightWhile_idem _ l

theorem rstrip_length (l : Line) : (rstrip l).length ≤ l.length := by
  simpa [rstrip, dropRightWhile] using dropWhile_length isSp l.reverse

/-- a line without trailing whitespace is never a "whitespace after the continuation character" line -/
theorem badCont_rstrip (l : Line) : badCont (rstrip l) = false := by
  simp [badCont, rstrip_idem]

theorem endsBs_stripBs (l : Line) : endsBs (stripBs l) = false := by
  unfold endsBs
  cases h : (stripBs l).getLast? with
  | none => rfl
  | some c =>
    have := dropRightWhile_last (· == '\\') l c h
    have hc : c ≠ '\\' := by simpa using this
    simp [hc]

/-- a clean processed line: no trailing backslash, not a bad-continuation line -/
def Clean (l : Line) : Prop := endsBs l = false ∧ badCont l = false

theorem finalStrip_idem (ke : Bool) (l : Line) : finalStrip ke (finalStrip ke l) = finalStrip ke l := by
  unfold finalStrip
  by_cases h : (ke && endsBs (rstrip l)) = true
  · simp [h]
  · have h' : (ke && endsBs (rstrip l)) = false := Bool.eq_false_iff.2 h
    simp [h', rstrip_idem]

theorem finalStrip_clean (l : Line) (h : Clean l) : Clean (finalStrip true l) := by
  unfold finalStrip
  by_cases hb : endsBs (rstrip l) = true
  · simpa [hb] using h
  · have hb' : endsBs (rstrip l) = false := Bool.eq_false_iff.2 hb
    simp only [Bool.true_and, hb', Bool.false_eq_true, if_false]
    exact ⟨hb', badCont_rstrip l⟩

/-! ## `_concatenate` -/

/-- invariant of the fold for the repaired check: every line completed so far is clean -/
def CInv (s : CState) : Prop := s.err = false → ∀ c ∈ s.out, Clean c

theorem emit_inv (s : CState) (l : Line) (hs : CInv s) (hl : endsBs l = false) : CInv (emit true s l) := by
  unfold emit
  by_cases hb : badCont l = true
  · simp [hb, CInv]
  · have hb' : badCont l = false := Bool.eq_false_iff.2 hb
    simp only [Bool.true_and, hb', Bool.false_eq_true, if_false]
    intro he c hc
    simp only [List.mem_append, List.mem_singleton] at hc
    rcases hc with hc | rfl
    · exact hs he c hc
    · exact ⟨hl, hb'⟩

theorem cstep_inv (s : CState) (l : Line) (hs : CInv s) : CInv (cstep true s l) := by
  unfold cstep
  by_cases he : s.err = true
  · simp [he, CInv]
  · have he' : s.err = false := Bool.eq_false_iff.2 he
    simp only [he', Bool.false_eq_true, if_false]
    cases hp : s.pending with
    | none =>
      simp only
      by_cases hb : endsBs l = true
      · simp only [hb, if_true]
        intro _ c hc
        exact hs he' c (by simpa using hc)
      · have hb' : endsBs l = false := Bool.eq_false_iff.2 hb
        simp only [hb', Bool.false_eq_true, if_false]
        exact emit_inv s l hs hb'
    | some p =>
      simp only
      by_cases hb : endsBs (p.dropLast ++ l) = true
      · simp only [hb, if_true]
        intro _ c hc
        exact hs he' c (by simpa using hc)
      · have hb' : endsBs (p.dropLast ++ l) = false := Bool.eq_false_iff.2 hb
        simp only [hb', Bool.false_eq_true, if_false]
        exact emit_inv s _ hs hb'

theorem foldl_inv (ls : List Line) (s : CState) (hs : CInv s) : CInv (ls.foldl (cstep true) s) := by
  induction ls generalizing s with
  | nil => exact hs
  | cons l r ih => exact ih _ (cstep_inv s l hs)

/-- with the repaired check every line `_concatenate` returns is clean -/
theorem concatenate_clean (ls cs : List Line) (h : concatenate true ls = some cs) : ∀ c ∈ cs, Clean c := by
  unfold concatenate cfinish at h
  have hinv := foldl_inv ls {} (by intro _ c hc; cases hc)
  generalize ls.foldl (cstep true) {} = s at h hinv
  by_cases he : s.err = true
  · simp [he] at h
  · have he' : s.err = false := Bool.eq_false_iff.2 he
    simp only [he', Bool.false_eq_true, if_false] at h
    cases hp : s.pending with
    | none =>
      rw [hp] at h
      simp only [Option.some.injEq] at h
      subst h
      exact hinv he'
    | some p =>
      rw [hp] at h
      simp only [Bool.true_and] at h
      by_cases hb : badCont (stripBs p) = true
      · simp [hb] at h
      · have hb' : badCont (stripBs p) = false := Bool.eq_false_iff.2 hb
        simp only [hb', Bool.false_eq_true, if_false, Option.some.injEq] at h
        subst h
        intro c hc
        simp only [List.mem_append, List.mem_singleton] at hc
        rcases hc with hc | rfl
        · exact hinv he' c hc
        · exact ⟨endsBs_stripBs p, hb'⟩

/-- clean lines pass through `_concatenate` unchanged, whatever the check -/
theorem foldl_clean (cc : Bool) (ls o : List Line) (h : ∀ c ∈ ls, Clean c) :
    ls.foldl (cstep cc) { out := o } = { out := o ++ ls } := by
  induction ls generalizing o with
  | nil => simp
  | cons l r ih =>
    have hl := h l (by simp)
    have : cstep cc { out := o } l = { out := o ++ [l] } := by
      simp [cstep, hl.1, emit, hl.2]
    rw [List.foldl_cons, this, ih (o ++ [l]) (fun c hc => h c (by simp [hc]))]
    simp

theorem concatenate_of_clean (cc : Bool) (ls : List Line) (h : ∀ c ∈ ls, Clean c) :
    concatenate cc ls = some ls := by
  unfold concatenate
  have := foldl_clean cc ls [] h
  simp only [List.nil_append] at this
  show cfinish cc (ls.foldl (cstep cc) { out := [] }) = some ls
  rw [this]
  simp [cfinish]

/-! ## reading back the dump -/

def NoNL (l : Line) : Prop := '\n' ∉ l ∧ '\r' ∉ l

theorem splitAux_line (l : Line) (rest : List Char) (cur : Line) (h : NoNL l) :
    splitAux (l ++ '\n' :: rest) cur = (cur ++ l) :: splitAux rest [] := by
  induction l generalizing cur with
  | nil => simp [splitAux]
  | cons c r ih =>
    have hc1 : c ≠ '\n' := fun e => h.1 (by simp [e])
    have hc2 : c ≠ '\r' := fun e => h.2 (by simp [e])
    have hr : NoNL r := ⟨fun x => h.1 (by simp [x]), fun x => h.2 (by simp [x])⟩
    rw [List.cons_append, splitAux]
    · rw [ih _ hr]; simp
    · exact hc1
    · intro r' e _; exact hc2 e
    · exact hc2

theorem splitAux_flat (ps : List Line) (h : ∀ l ∈ ps, NoNL l) :
    splitAux (ps.flatMap (· ++ ['\n'])) [] = ps := by
  induction ps with
  | nil => simp [splitAux]
  | cons l r ih =>
    rw [List.flatMap_cons, List.append_assoc, List.singleton_append, splitAux_line l _ [] (h l (by simp)),
      ih (fun x hx => h x (by simp [hx]))]
    simp

theorem splitLines_dump (ps : List Line) (hne : ps ≠ []) (h : ∀ l ∈ ps, NoNL l) : splitLines (dump ps) = ps := by
  cases ps with
  | nil => exact absurd rfl hne
  | cons l r => exact splitAux_flat (l :: r) h

/-! ## lines without directives -/

theorem inlineWith_plain (sub : List Line → Option (List Line)) (files : Files) (ps : List Line)
    (h : ∀ l ∈ ps, includeMatch l = none) : inlineWith sub files ps = some ps := by
  induction ps with
  | nil => rfl
  | cons l r ih =>
    simp [inlineWith, h l (by simp), ih (fun x hx => h x (by simp [hx]))]

theorem inline_plain (files : Files) (ps : List Line) (h : ∀ l ∈ ps, includeMatch l = none) :
    inline includeDepth files ps = some ps := by
  simp [includeDepth, inline, inlineWith_plain _ files ps h]

end CylcModel.Lines
