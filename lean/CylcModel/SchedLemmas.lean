/-
Inductive invariants of the `Sched` model: lemma-per-primitive, lifted over op lists.
-/
import CylcModel.Sched

namespace CylcModel.Sched

/-! ### Generic lifting -/

theorem foldl_inv {α σ} (P : σ → Prop) (f : σ → α → σ) (h : ∀ s a, P s → P (f s a)) :
    ∀ (l : List α) (s : σ), P s → P (l.foldl f s) := by
  intro l; induction l with
  | nil => intro s hs; exact hs
  | cons a l ih => intro s hs; exact ih _ (h s a hs)

/-- every state of a run satisfies `P` when the start-up state does and every step preserves it -/
theorem run_inv (P : State → Prop) (g : Graph) (h0 : P (init g)) (hs : ∀ s op, P s → P (step g s op)) :
    ∀ ops, ∀ s ∈ run g ops, P s := by
  intro ops
  unfold run
  -- generalise the accumulator
  have key : ∀ (ops : List Op) (acc : List State) (cur : State),
      (∀ s ∈ acc, P s) → P cur →
      ∀ s ∈ (ops.foldl (fun (a : List State × State) op =>
          let s' := step g a.2 op; (a.1 ++ [s'], s')) (acc, cur)).1, P s := by
    intro ops
    induction ops with
    | nil => intro acc cur hacc _ s hm; exact hacc s hm
    | cons op ops ih =>
      intro acc cur hacc hcur
      simp only [List.foldl_cons]
      apply ih
      · intro s hm
        rcases List.mem_append.mp hm with h | h
        · exact hacc s h
        · simp at h; subst h; exact hs _ _ hcur
      · exact hs _ _ hcur
  exact key ops [init g] (init g) (by intro s hm; simp at hm; subst hm; exact h0) h0

/-! ### Keys of the pool -/

def keys (s : State) : List (Int × String) := s.pool.map fun x => (x.pt, x.name)

/-- C26: no two proxies for the same (point, name) -/
def NoDup (s : State) : Prop := (keys s).Nodup

theorem keys_put (s : State) (x : Proxy) : keys (s.put x) = keys s := by
  unfold keys State.put
  simp only [List.map_map]
  apply List.map_congr_left
  intro y _
  simp only [Function.comp]
  split
  · rename_i h
    simp only [Bool.and_eq_true, beq_iff_eq] at h
    rw [h.1, h.2]
  · rfl

theorem get?_none_not_mem (s : State) (p : Int) (n : String) (h : s.get? p n = none) :
    (p, n) ∉ keys s := by
  unfold State.get? at h
  unfold keys
  intro hm
  obtain ⟨y, hy, hk⟩ := List.mem_map.mp hm
  have := List.find?_eq_none.mp h y hy
  simp only [Prod.mk.injEq] at hk
  simp [hk.1, hk.2] at this

theorem nodup_add (s : State) (x : Proxy) (h : NoDup s) : NoDup (s.add x) := by
  unfold State.add
  split
  · exact h
  · rename_i hn
    have hn' : s.get? x.pt x.name = none := by
      cases hg : s.get? x.pt x.name with
      | none => rfl
      | some v => simp [hg] at hn
    unfold NoDup keys
    simp only [List.map_append, List.map_cons, List.map_nil]
    apply List.nodup_append.mpr
    refine ⟨h, by simp, ?_⟩
    intro a ha b hb
    simp at hb; subst hb
    intro heq; subst heq
    exact get?_none_not_mem s x.pt x.name hn' ha

theorem nodup_put (s : State) (x : Proxy) (h : NoDup s) : NoDup (s.put x) := by
  unfold NoDup; rw [keys_put]; exact h

theorem nodup_filter (s : State) (f : Proxy → Bool) (h : NoDup s) :
    NoDup { s with pool := s.pool.filter f } := by
  unfold NoDup keys at *
  exact List.Nodup.sublist (List.Sublist.map _ List.filter_sublist) h

end CylcModel.Sched

namespace CylcModel.Sched

/-! ### `NoDup` is preserved by every primitive of the model -/

theorem nodup_spawnAndAdd (g : Graph) (s : State) (n : String) (p : Int) (h : NoDup s) :
    NoDup (spawnAndAdd g s n p) := by
  unfold spawnAndAdd
  split
  · exact h
  · split
    · exact nodup_add _ _ h
    · exact h

theorem nodup_spawnNextParentless (g : Graph) (s : State) (x : Proxy) (h : NoDup s) :
    NoDup (spawnNextParentless g s x) := by
  unfold spawnNextParentless
  split
  · exact h
  · split
    · exact nodup_spawnAndAdd _ _ _ _ h
    · exact h

theorem pool_computeRunahead (g : Graph) (s : State) (f : Bool) : (computeRunahead g s f).pool = s.pool := by
  unfold computeRunahead
  simp only
  split
  · rfl
  · split <;> rfl

theorem nodup_computeRunahead (g : Graph) (s : State) (f : Bool) (h : NoDup s) :
    NoDup (computeRunahead g s f) := by
  unfold NoDup keys; rw [pool_computeRunahead]; exact h

theorem nodup_releaseRunahead (g : Graph) (s : State) (h : NoDup s) : NoDup (releaseRunahead g s).1 := by
  unfold releaseRunahead
  split
  · exact h
  · split
    · exact h
    · simp only
      apply foldl_inv NoDup _ _ _ _ h
      intro st x hst
      apply nodup_spawnNextParentless
      split
      · exact nodup_put _ _ hst
      · exact hst

theorem nodup_releaseRunaheadN (g : Graph) : ∀ (n : Nat) (s : State), NoDup s → NoDup (releaseRunaheadN g n s) := by
  intro n; induction n with
  | zero => intro s h; exact h
  | succ n ih =>
    intro s h
    unfold releaseRunaheadN
    simp only
    split
    · exact ih _ (nodup_releaseRunahead g s h)
    · exact nodup_releaseRunahead g s h

theorem nodup_queueIfReady (s : State) (x : Proxy) (h : NoDup s) : NoDup (queueIfReady s x) := by
  unfold queueIfReady; split
  · exact nodup_put _ _ h
  · exact h

theorem nodup_empty : NoDup ({} : State) := by unfold NoDup keys; simp

theorem nodup_loadFromPoint (g : Graph) : NoDup (loadFromPoint g) := by
  unfold loadFromPoint
  simp only
  apply foldl_inv NoDup
  · intro st x hst
    split
    · exact nodup_queueIfReady _ _ hst
    · exact hst
  · apply nodup_releaseRunaheadN
    apply nodup_computeRunahead
    apply foldl_inv NoDup
    · intro st t hst
      split
      · exact nodup_spawnAndAdd _ _ _ _ hst
      · exact hst
    · exact nodup_empty

theorem nodup_releaseAndSubmit (s : State) (h : NoDup s) : NoDup (releaseAndSubmit s) := by
  unfold releaseAndSubmit
  simp only
  split
  · exact h
  · show NoDup _
    have : ∀ (l : List Proxy) (st : State), NoDup st →
        NoDup (l.foldl (fun (st : State) x =>
          let y := x.reset (queued := some false)
          let y := { (y.reset (status := some .preparing)) with submitNum := x.submitNum + 1 }
          { (st.put y) with launched := st.launched ++ [(x.pt, x.name, x.submitNum + 1)] }) st) := by
      intro l; induction l with
      | nil => intro st hst; exact hst
      | cons a l ih => intro st hst; exact ih _ (nodup_put _ _ hst)
    exact this _ _ h

theorem nodup_remove (g : Graph) (s : State) (x : Proxy) (h : NoDup s) : NoDup (remove g s x) := by
  unfold remove
  simp only
  have h1 : NoDup (if (!x.flows.isEmpty && x.runahead) = true then spawnNextParentless g s x else s) := by
    split
    · exact nodup_spawnNextParentless _ _ _ h
    · exact h
  exact nodup_filter _ _ h1

theorem nodup_removeIfComplete (g : Graph) (s : State) (x : Proxy) (h : NoDup s) :
    NoDup (removeIfComplete g s x) := by
  unfold removeIfComplete
  split
  · exact h
  · split
    · exact h
    · split
      · exact nodup_remove _ _ _ h
      · exact h

theorem nodup_spawnChild (g : Graph) (p : Int) (n out : String) (acc : State × List (Int × String)) (c : Child)
    (h : NoDup acc.1) : NoDup (spawnChild g p n out acc c).1 := by
  obtain ⟨st, sui⟩ := acc
  unfold spawnChild
  simp only
  -- the state after recording the absolute output
  have h0 : NoDup (if (c.isAbs && !st.absDone.contains ⟨p, n, out⟩) = true then
      { st with absDone := st.absDone ++ [⟨p, n, out⟩] } else st) := by
    split
    · exact h
    · exact h
  generalize (if (c.isAbs && !st.absDone.contains ⟨p, n, out⟩) = true then
      { st with absDone := st.absDone ++ [⟨p, n, out⟩] } else st) = st0 at h0 ⊢
  have hfold : ∀ (ks : List (Int × String)) (a : State × List (Int × String)), NoDup a.1 →
      NoDup (ks.foldl (fun (a : State × List (Int × String)) k =>
        match a.1.get? k.1 k.2 with
        | none => a
        | some z =>
          let z := z.satisfyMe ⟨p, n, out⟩
          (a.1.put z, if (z.suicideNow && !a.2.contains k) = true then a.2 ++ [k] else a.2)) a).1 := by
    intro ks; induction ks with
    | nil => intro a ha; exact ha
    | cons k ks ih =>
      intro a ha
      apply ih
      simp only
      split
      · exact ha
      · exact nodup_put _ _ ha
  split
  · exact h0
  · apply hfold
    simp only
    split
    · exact h0
    · exact nodup_add _ _ h0

theorem nodup_spawnOnOutput (g : Graph) (s : State) (p : Int) (n out : String) (h : NoDup s) :
    NoDup (spawnOnOutput g s p n out) := by
  unfold spawnOnOutput
  split
  · exact h
  · simp only
    have h1 : ∀ (cs : List Child) (acc : State × List (Int × String)), NoDup acc.1 →
        NoDup (cs.foldl (spawnChild g p n out) acc).1 := by
      intro cs; induction cs with
      | nil => intro acc ha; exact ha
      | cons c cs ih => intro acc ha; exact ih _ (nodup_spawnChild g p n out acc c ha)
    have h2 : ∀ (ks : List (Int × String)) (st : State), NoDup st →
        NoDup (ks.foldl (fun (st : State) k => match st.get? k.1 k.2 with
          | some z => remove g st z
          | none => st) st) := by
      intro ks; induction ks with
      | nil => intro st hst; exact hst
      | cons k ks ih =>
        intro st hst
        apply ih
        simp only
        split
        · exact nodup_remove _ _ _ hst
        · exact hst
    generalize hR : (List.foldl (spawnChild g p n out) (s, []) _) = R
    have hRn : NoDup R.1 := by rw [← hR]; exact h1 _ _ h
    have h3 := h2 R.2 R.1 hRn
    split
    · exact nodup_removeIfComplete _ _ _ h3
    · exact h3

theorem nodup_store (s : State) (x : Proxy) (tr : Bool) (h : NoDup s) : NoDup (store s x tr) := by
  unfold store; split
  · exact h
  · exact nodup_put _ _ h

theorem nodup_spawnChildren (g : Graph) (s : State) (p : Int) (n out : String) (tr : Bool) (h : NoDup s) :
    NoDup (spawnChildren g s p n out tr) := by
  unfold spawnChildren; split
  · exact h
  · exact nodup_spawnOnOutput _ _ _ _ _ h

end CylcModel.Sched

namespace CylcModel.Sched

theorem nodup_processMessage (g : Graph) : ∀ (fuel : Nat) (s : State) (p : Int) (n : String) (flag : Flag)
    (sn : Nat) (msg : String), NoDup s → NoDup (processMessage g fuel s p n flag sn msg).1 := by
  intro fuel
  induction fuel with
  | zero => intro s p n flag sn msg h; exact h
  | succ fuel ih =>
    intro s p n flag sn msg h
    unfold processMessage
    split
    · exact h
    · rename_i x tr _
      split
      · exact h
      · split
        · exact h
        · -- after completing the output and the implied messages
          simp only
          have hstore : ∀ (y : Proxy), NoDup (store s y tr) := fun y => nodup_store _ _ _ h
          have himp : ∀ (l : List String) (st : State), NoDup st →
              NoDup (l.foldl (fun st m => (processMessage g fuel st p n .internal sn m).1) st) := by
            intro l; induction l with
            | nil => intro st hst; exact hst
            | cons a l ihl => intro st hst; exact ihl _ (ih _ _ _ _ _ _ hst)
          generalize hS : (List.foldl (fun st m => (processMessage g fuel st p n Flag.internal sn m).1) _ _) = S
          have hSn : NoDup S := by rw [← hS]; exact himp _ _ (hstore _)
          split
          · exact hSn
          · repeat' split
            all_goals first
              | exact hSn
              | exact nodup_store _ _ _ hSn
              | exact nodup_spawnChildren _ _ _ _ _ _ (nodup_store _ _ _ hSn)
              | exact nodup_spawnChildren _ _ _ _ _ _ hSn

theorem nodup_processQueue (g : Graph) (s : State) (h : NoDup s) : NoDup (processQueue g s) := by
  unfold processQueue
  apply foldl_inv NoDup
  · intro st grp hst
    simp only
    split
    · exact hst
    · have : ∀ (l : List Msg) (acc : State × Bool), NoDup acc.1 →
          NoDup (l.foldl (fun (acc : State × Bool) m =>
            let (st', pl) := processMessage g 4 acc.1 grp.1.1 grp.1.2 .received m.submitNum m.text
            (st', acc.2 || pl)) acc).1 := by
        intro l; induction l with
        | nil => intro acc ha; exact ha
        | cons m l ihl =>
          intro acc ha
          apply ihl
          exact nodup_processMessage g 4 _ _ _ _ _ _ ha
      have h2 := this grp.2 (st, false) hst
      split
      · exact h2
      · exact h2
  · exact h

theorem nodup_checkStalled (g : Graph) (s : State) (h : NoDup s) : NoDup (checkStalled g s) := by
  unfold checkStalled; split
  · exact h
  · split <;> exact h

theorem nodup_checkAutoShutdown (g : Graph) (s : State) (h : NoDup s) : NoDup (checkAutoShutdown g s).1 := by
  unfold checkAutoShutdown
  simp only
  split
  · exact nodup_checkStalled _ _ h
  · split <;> exact nodup_checkStalled _ _ h

theorem nodup_mapUpd (s : State) (h : NoDup s) (a b : Bool) :
    NoDup { s with stalled := a, schedUpd := b, pool := s.pool.map fun x => { x with upd := false } } := by
  unfold NoDup keys at *
  simp only [List.map_map]
  exact h

theorem nodup_sweepQueue (s : State) (h : NoDup s) : NoDup (sweepQueue s) := by
  unfold sweepQueue
  apply foldl_inv NoDup
  · intro st x hst
    split
    · split
      · exact nodup_queueIfReady _ _ (nodup_put _ _ hst)
      · exact hst
    · exact hst
  · exact h

theorem nodup_finishLoop (g : Graph) (s : State) (h : NoDup s) : NoDup (finishLoop g s) := by
  unfold finishLoop
  simp only
  have h5 : NoDup (if (s.schedUpd || s.pool.any (·.upd)) = true then
      { s with stalled := false, schedUpd := false, pool := s.pool.map fun x => { x with upd := false } }
    else s) := by
    split
    · exact nodup_mapUpd _ h _ _
    · exact h
  split
  · exact nodup_checkStalled _ _ h5
  · exact h5

theorem nodup_mainLoop (g : Graph) (s : State) (h : NoDup s) : NoDup (mainLoop g s) := by
  unfold mainLoop
  split
  · exact h
  · simp only
    have h1 := nodup_releaseRunahead g _ (nodup_computeRunahead g s false h)
    have h2 := nodup_checkAutoShutdown g _ h1
    split
    · exact h2
    · exact nodup_finishLoop g _ (nodup_processQueue g _ (nodup_releaseAndSubmit _ (nodup_sweepQueue _ h2)))

theorem nodup_step (g : Graph) (s : State) (op : Op) (h : NoDup s) : NoDup (step g s op) := by
  unfold step
  have hc : NoDup (clearOp s) := h
  cases op with
  | loop => exact nodup_mainLoop g _ hc
  | subres p n ok sn => exact nodup_processMessage g 4 _ _ _ _ _ _ hc
  | msg p n sn text => exact hc

/-- C26 `Inv_pool`: in every state of every run, no two proxies share (point, name). -/
theorem nodup_run (g : Graph) (ops : List Op) : ∀ s ∈ run g ops, NoDup s :=
  run_inv NoDup g (nodup_loadFromPoint g) (nodup_step g) ops

end CylcModel.Sched
