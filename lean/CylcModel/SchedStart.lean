/-
Start-task start (`cylc play --start-task=ID ...`, `Scheduler._load_pool_from_tasks`) on top of the
frozen `Sched` model: only the start-up state differs — instead of `load_from_point` every start task is
spawned with `spawn_task` (which still refuses instances before the start point = the earliest start-task
cycle, `WorkflowConfig.process_start_cycle_point`), all its prerequisite atoms are force-satisfied
(`set_prereqs_and_outputs(prereqs=["all"])`) and it is added to the pool; runahead release, queueing and
everything after that is the unchanged `step`.  Core Lean only (linked into the C46 driver).
-/
import CylcModel.Sched

namespace CylcModel.Sched

/-- `Prerequisite` with every atom force-satisfied -/
def Pre.forceAll (p : Pre) : Pre := { p with atoms := p.atoms.map fun e => (e.1, true) }

/-- `TaskProxy.force_satisfy(set_all=True)` (suicide prerequisites are left alone) -/
def Proxy.forceSatisfy (x : Proxy) : Proxy := { x with pre := x.pre.map Pre.forceAll }

/-- one start task of `_load_pool_from_tasks` -/
def loadStartTask (g : Graph) (s : State) (k : Int × String) : State :=
  match s.get? k.1 k.2 with
  | some _ => s
  | none =>
    match spawnTask g s k.2 k.1 with
    | some x => s.add x.forceSatisfy
    | none => s

/-- the pool after start-up with start tasks -/
def initTasks (g : Graph) (starts : List (Int × String)) : State :=
  starts.foldl (loadStartTask g) {}

/-- all states of a run from a given start-up state -/
def runFrom (g : Graph) (s0 : State) (ops : List Op) : List State :=
  (ops.foldl (fun (acc : List State × State) op =>
    let s' := step g acc.2 op
    (acc.1 ++ [s'], s')) ([s0], s0)).1

/-- a run started with start tasks -/
def runTasks (g : Graph) (starts : List (Int × String)) (ops : List Op) : List State :=
  runFrom g (initTasks g starts) ops

end CylcModel.Sched
