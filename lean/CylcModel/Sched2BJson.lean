/-
JSON layer of `Sched2B` (check C19): cases as for `Sched2` (Sched2Json) plus
  graph : "namespaces": [name..], "longest_interval": n
  op    : {"op":"bcast","mode":"put","points":[p..],"namespaces":[n..],"settings":[[[[sect..,item],value]..]..]}
          {"op":"bcast","mode":"clear","points":[p..],"namespaces":[n..],"cancel":[[sect..,item]..]}
          {"op":"bcast","mode":"expire","cutoff":n|null}
  observation: the `Sched2` observation + "bcast": [[point, namespace, key, value]..] sorted
-/
import CylcModel.Sched2Json
import CylcModel.Sched2B
open Lean CylcModel.Drv

namespace CylcModel.Sched2B

def strList (j : Json) (k : String) : List String := ((jArrField? j k).getD []).filterMap jStr?

def parsePath (j : Json) : Except String Bcast.Path :=
  match jArr? j with
  | some l => .ok (l.filterMap jStr?)
  | none => .error "bad key path"

def parseLeaf (j : Json) : Except String (Bcast.Path × String) :=
  match jArr? j with
  | some [p, v] => do return (← parsePath p, ← Sched2.req (jStr? v) "broadcast value")
  | _ => .error "bad setting item"

def parseBcast (j : Json) : Except String Bcast.Op := do
  match jStrField? j "mode" with
  | some "put" =>
    let sets ← ((jArrField? j "settings").getD []).mapM fun s => ((jArr? s).getD []).mapM parseLeaf
    return .put (strList j "points") (strList j "namespaces") sets
  | some "clear" =>
    let cancel ← ((jArrField? j "cancel").getD []).mapM parsePath
    return .clear ⟨strList j "points", strList j "namespaces", cancel⟩
  | some "expire" => return .expire ((jOptField j "cutoff").bind jInt? |>.map Int.toNat)
  | _ => .error "bad broadcast mode"

def parseOp (j : Json) : Except String Op := do
  if jStrField? j "op" == some "bcast" then return .bcast (← parseBcast j)
  else return .sched (← Sched2.parseOp j)

structure Case where
  cfg : Cfg
  graph : Sched2.Graph
  ops : List Op

def parseCase (i : Json) : Except String Case := do
  let gj ← Sched2.req (jField? i "graph") "graph"
  let g ← Sched2.parseGraph gj
  let ops ← ((jArrField? i "ops").getD []).mapM parseOp
  return { cfg := { known := strList gj "namespaces", longest := (jIntField? gj "longest_interval").getD 0 },
           graph := g, ops }

def entryLt (a b : Bcast.Key × String) : Bool :=
  a.1.point < b.1.point || (a.1.point == b.1.point && (a.1.ns < b.1.ns || (a.1.ns == b.1.ns &&
    (Bcast.renderKey a.1.path < Bcast.renderKey b.1.path ||
      (Bcast.renderKey a.1.path == Bcast.renderKey b.1.path && a.2 < b.2)))))

def bcastJson (st : Bcast.Store) : Json :=
  jOfList (fun (e : Bcast.Key × String) =>
    Json.arr #[Json.str e.1.point, Json.str e.1.ns, Json.str (Bcast.renderKey e.1.path), Json.str e.2])
    (Sched2.sortBy entryLt st)

def obsJson (g : Sched2.Graph) (y : State) : Json :=
  (Sched2.obsJson g y.s).setObjVal! "bcast" (bcastJson y.b.store)

def modelObs (c : Case) : Json := jOfList (obsJson c.graph) (run c.cfg c.graph c.ops)

/-- hypotheses of the broadcast theorems on the ops of a case: every setting holds one item, no `[` / `]`
inside a section or item name, no empty section name -/
def safeName (s : String) : Bool := s.toList.all fun ch => ch != '[' && ch != ']'

def opOk : Op → Bool
  | .bcast (.put _ _ sets) => sets.all fun s => s.length ≤ 1 && s.all fun e =>
      !e.1.isEmpty && e.1.all safeName && e.1.dropLast.all (!·.isEmpty)
  | _ => true

end CylcModel.Sched2B
