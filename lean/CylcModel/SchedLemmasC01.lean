/-
Helper lemmas of C01 (and, through them, C02 / C31), in four files:
* `SchedHypC01`  — the decidable hypotheses (graph well-formedness, sequential shape, environment assumption);
* `SchedActC01`  — the atomic-action system (`Upd`, `Act`, `Steps`, `Kinds`) and the facts about single actions;
* `SchedRefC01`  — refinement: every primitive of the `Sched` model is a sequence of atomic actions;
* `SchedInvC01`  — the C01 invariants per atomic action, lifted to all states of all runs.
-/
import CylcModel.SchedHypC01
import CylcModel.SchedActC01
import CylcModel.SchedRefC01
import CylcModel.SchedInvC01
