/-
Model of `cylc/flow/prerequisite.py` (`Prerequisite`) and of
`Dependency.get_prerequisite / get_expression` in `cylc/flow/task_trigger.py` (C13).

Strings are `List Char`.  What is ported, quirks included:

* `Dependency.get_prerequisite`: one `_satisfied` entry per trigger, in the order of
  `Dependency.task_triggers`; offset kinds (none / relative / absolute / from the initial point);
  pre-initial entries start satisfied; entries before the start point start satisfied when the
  task itself is at or after the start point; a second trigger with the same key overwrites the value.
* `Dependency.get_expression`: the expression text, every trigger rendered `point/name output`.
* `Prerequisite.set_conditional_expr`: only when the text contains `|`; one `re.sub` pass per
  `_satisfied` key, in dict order, pattern `\b<msg>\b` (or `-\b<msg[1:]>\b` for messages that start
  with `-`), replacement `bool(self._satisfied[("p", "t", "o")])`.  `re.sub` is modelled on
  characters (`sub`): leftmost non-overlapping occurrences of a literal, with a condition on the
  character before and after the occurrence (`\b` = word-ness differs, word = `[A-Za-z0-9_]`).
* `_eval_satisfied`: `all(values)` without a conditional expression, else Python `eval` of the
  rewritten text, modelled by a lexer + parser for the sub-language the rewrite can produce:
  `bool(self._satisfied[(..)])`, `&`, `|`, parentheses and unary `-` (values in {-1, 0, 1});
  anything else, or a key that is not in `_satisfied`, is an error (`none`).
* `is_satisfied` with the `_cached_satisfied` short cut, `__setitem__` (cache kept only when the
  cached value and the new value are both truthy), `satisfy_me`, `set_satisfied`,
  `unset_naturally_satisfied`.

Not modelled: non-ASCII word characters, backslashes in names/messages (Python string escapes and
`re.sub` template escapes), residues of a failed rewrite that happen to be valid Python outside the
sub-language above (e.g. `x-1`).
-/
import CylcModel.Generated.PrereqTemplates
namespace CylcModel.Prereq
open CylcModel.Generated.PrereqTemplates

abbrev Str := List Char

/-! ## Triggers and keys -/

inductive Offset where
  | none
  | rel (d : Int)      -- foo[-P2]
  | abs (v : Int)      -- foo[3]
  | icp (d : Int)      -- foo[^], foo[^+P1]
  deriving Repr, DecidableEq

structure Trig where
  name : Str
  off : Offset
  out : Str            -- `TaskTrigger.output` (for custom outputs: the message text)
  deriving Repr, DecidableEq

/-- Context of `get_prerequisite(point, tdef)`; `render` is `str(point)`. -/
structure Ctx where
  p : Int
  icp : Int
  start : Int
  render : Int → Str

structure Key where
  point : Str
  task : Str
  out : Str
  deriving Repr, DecidableEq

/-- `TaskTrigger.get_point` -/
def Trig.point (c : Ctx) (t : Trig) : Int :=
  match t.off with
  | .none => c.p
  | .rel d => c.p + d
  | .abs v => v
  | .icp d => c.icp + d

def Trig.key (c : Ctx) (t : Trig) : Key := ⟨c.render (t.point c), t.name, t.out⟩

/-- initial value of the `_satisfied` entry (`True` is stored as 'satisfied naturally') -/
def Trig.initSat (c : Ctx) (t : Trig) : Bool :=
  match t.off with
  | .none => false
  | _ => decide (t.point c < c.icp) || (decide (t.point c < c.start) && decide (c.start ≤ c.p))

/-- `MESSAGE_TEMPLATE % key`; the pieces of the template around the three `%s` are regenerated
from the source (`Generated/PrereqTemplates.lean`) -/
def Key.msg (k : Key) : Str := msgHead ++ k.point ++ msgSep1 ++ k.task ++ msgSep2 ++ k.out ++ msgTail

/-- `SATISFIED_TEMPLATE % key` (pieces regenerated from the source) -/
def Key.tmpl (k : Key) : Str := satHead ++ k.point ++ satSep1 ++ k.task ++ satSep2 ++ k.out ++ satTail

/-! ## `re.sub` of a literal with conditions on the neighbouring characters -/

def isWord (c : Char) : Bool := c.isAlphanum || c == '_'

def isWordO : Option Char → Bool
  | none => false
  | some c => isWord c

structure Pat where
  lit : Str                    -- the literal (never empty here)
  okL : Option Char → Bool     -- condition on the character before the occurrence
  okR : Option Char → Bool     -- condition on the character after the occurrence

def Pat.matchAt (P : Pat) (prev : Option Char) (s : Str) : Bool :=
  P.okL prev && P.lit.isPrefixOf s && P.okR (s.drop P.lit.length).head?

/-- `re.sub(P, repl, s)`: scan left to right; `skip` = characters of the current occurrence
still to be dropped; `prev` = the character before the current position. -/
def sub (P : Pat) (repl : Str) : Option Char → Str → Nat → Str
  | _, [], _ => []
  | _, c :: rest, skip + 1 => sub P repl (some c) rest skip
  | prev, c :: rest, 0 =>
    if P.matchAt prev (c :: rest) then repl ++ sub P repl (some c) rest (P.lit.length - 1)
    else c :: sub P repl (some c) rest 0

/-- the pattern `set_conditional_expr` builds for one key -/
def patOf (msg : Str) : Pat :=
  match msg with
  | '-' :: rest =>
    -- `-\b<rest>\b`: the inner `\b` holds iff `rest` starts with a word character
    { lit := msg,
      okL := fun _ => isWordO rest.head?,
      okR := fun n => isWordO msg.getLast? != isWordO n }
  | _ =>
    { lit := msg,
      okL := fun p => isWordO p != isWordO msg.head?,
      okR := fun n => isWordO msg.getLast? != isWordO n }

def subKey (k : Key) (s : Str) : Str := sub (patOf k.msg) k.tmpl none s 0

/-- all passes of `set_conditional_expr`, in `_satisfied` order -/
def rewriteText (keys : List Key) (s : Str) : Str := keys.foldl (fun acc k => subKey k acc) s

/-! ## Expression text -/

inductive Tok where
  | atom (i : Nat)     -- index into the trigger list
  | amp | bar | lp | rp
  deriving Repr, DecidableEq

def Tok.text (atomText : Nat → Str) : Tok → Str
  | .atom i => atomText i
  | .amp => ['&']
  | .bar => ['|']
  | .lp => ['(']
  | .rp => [')']

def exprText (atomText : Nat → Str) (toks : List Tok) : Str := toks.flatMap (Tok.text atomText)

/-! ## Python `eval` of the rewritten text -/

inductive PTok where
  | ref (k : Key)
  | amp | bar | lp | rp | minus
  deriving Repr, DecidableEq

def dropPrefix? : Str → Str → Option Str
  | [], s => some s
  | _ :: _, [] => none
  | a :: as, b :: bs => if a == b then dropPrefix? as bs else none

/-- characters up to the next `"`, and what follows that quote -/
def untilQuote : Str → Option (Str × Str)
  | [] => none
  | c :: rest =>
    if c == '"' then some ([], rest)
    else match untilQuote rest with
      | some (a, b) => some (c :: a, b)
      | none => none

/-- one `bool(self._satisfied[("p", "t", "o")])`: the head of the template, then three string
literals, each read up to its closing quote (the first character of the next template piece) -/
def readRef (s : Str) : Option (Key × Str) :=
  match dropPrefix? satHead s with
  | none => none
  | some r0 =>
    match untilQuote r0 with
    | none => none
    | some (p, r1) =>
      match dropPrefix? (satSep1.drop 1) r1 with
      | none => none
      | some r2 =>
        match untilQuote r2 with
        | none => none
        | some (t, r3) =>
          match dropPrefix? (satSep2.drop 1) r3 with
          | none => none
          | some r4 =>
            match untilQuote r4 with
            | none => none
            | some (o, r5) =>
              match dropPrefix? (satTail.drop 1) r5 with
              | none => none
              | some r6 => some (⟨p, t, o⟩, r6)

def lex : Nat → Str → Option (List PTok)
  | _, [] => some []
  | 0, _ :: _ => none
  | fuel + 1, c :: rest =>
    let one (t : PTok) : Option (List PTok) := (lex fuel rest).map (t :: ·)
    if c == '&' then one .amp
    else if c == '|' then one .bar
    else if c == '(' then one .lp
    else if c == ')' then one .rp
    else if c == '-' then one .minus
    else match readRef (c :: rest) with
      | some (k, r) => (lex fuel r).map (PTok.ref k :: ·)
      | none => none

/-- values reachable from `bool(..)` by unary minus and bitwise `&`, `|` -/
inductive V3 where
  | neg1 | zero | one
  deriving Repr, DecidableEq

def V3.ofBool : Bool → V3
  | true => .one
  | false => .zero

def V3.truthy : V3 → Bool
  | .zero => false
  | _ => true

def V3.neg : V3 → V3
  | .neg1 => .one
  | .zero => .zero
  | .one => .neg1

/-- Python `&` on {-1, 0, 1} -/
def V3.and : V3 → V3 → V3
  | .zero, _ => .zero
  | _, .zero => .zero
  | .neg1, b => b
  | a, .neg1 => a
  | .one, .one => .one

/-- Python `|` on {-1, 0, 1} -/
def V3.or : V3 → V3 → V3
  | .neg1, _ => .neg1
  | _, .neg1 => .neg1
  | .zero, b => b
  | a, .zero => a
  | .one, .one => .one

/-- Recursive descent for `or_expr := and_expr ('|' or_expr)?`, `and_expr := unary ('&' and_expr)?`,
`unary := '-' unary | ref | '(' or_expr ')'`.  (`&`, `|` are associative on these values, so the
right-nested reading gives Python's left-nested value.)  `lvl` 0 = or, 1 = and, 2 = unary.
`look k` is the truthiness of `self._satisfied[k]` (`none` = `KeyError`). -/
def parse (look : Key → Option Bool) : Nat → Nat → List PTok → Option (V3 × List PTok)
  | 0, _, _ => none
  | fuel + 1, 0, ts =>
    match parse look fuel 1 ts with
    | some (a, .bar :: r) =>
      (match parse look fuel 0 r with
       | some (b, r') => some (V3.or a b, r')
       | none => none)
    | res => res
  | fuel + 1, 1, ts =>
    match parse look fuel 2 ts with
    | some (a, .amp :: r) =>
      (match parse look fuel 1 r with
       | some (b, r') => some (V3.and a b, r')
       | none => none)
    | res => res
  | fuel + 1, _ + 2, ts =>
    match ts with
    | .ref k :: r =>
      (match look k with
       | some b => some (V3.ofBool b, r)
       | none => none)
    | .minus :: r =>
      (match parse look fuel 2 r with
       | some (a, r') => some (V3.neg a, r')
       | none => none)
    | .lp :: r =>
      (match parse look fuel 0 r with
       | some (a, .rp :: r') => some (a, r')
       | _ => none)
    | _ => none

/-- truthiness of `eval(text)`; `none` = any exception -/
def pyEval (look : Key → Option Bool) (text : Str) : Option Bool :=
  match lex (text.length + 1) text with
  | none => none
  | some ts =>
    match parse look (3 * ts.length + 3) 0 ts with
    | some (v, []) => some v.truthy
    | _ => none

/-! ## `Prerequisite` -/

inductive SatVal where
  | unsat | natural | skip | forced
  deriving Repr, DecidableEq

def SatVal.truthy : SatVal → Bool
  | .unsat => false
  | _ => true

structure Prereq where
  sat : List (Key × SatVal) := []
  cond : Option Str := none
  cached : Option Bool := none
  deriving Repr, DecidableEq

def lookupKey (k : Key) : List (Key × SatVal) → Option SatVal
  | [] => none
  | (k', v) :: rest => if k' = k then some v else lookupKey k rest

/-- dict assignment: an existing key keeps its position -/
def assign (k : Key) (v : SatVal) : List (Key × SatVal) → List (Key × SatVal)
  | [] => [(k, v)]
  | (k', v') :: rest => if k' = k then (k', v) :: rest else (k', v') :: assign k v rest

/-- `__setitem__` -/
def Prereq.setItem (pr : Prereq) (k : Key) (v : SatVal) : Prereq :=
  { pr with
    sat := assign k v pr.sat,
    cached := if pr.cached == some true && v.truthy then pr.cached else none }

def containsBar (s : Str) : Bool := s.contains '|'

/-- `set_conditional_expr` -/
def Prereq.setConditionalExpr (pr : Prereq) (expr : Str) : Prereq :=
  if containsBar expr then
    { pr with cached := none, cond := some (rewriteText (pr.sat.map (·.1)) expr) }
  else { pr with cached := none }

def initVal (b : Bool) : SatVal := if b then .natural else .unsat

/-- the `_satisfied` dict `Dependency.get_prerequisite` fills: one assignment per trigger -/
def buildSat (c : Ctx) (trigs : List Trig) : List (Key × SatVal) :=
  trigs.foldl (fun s t => assign (t.key c) (initVal (t.initSat c)) s) []

/-- `MESSAGE_TEMPLATE` text of trigger `i` -/
def atomMsg (c : Ctx) (trigs : List Trig) (i : Nat) : Str :=
  match trigs[i]? with
  | some t => (t.key c).msg
  | none => []

/-- `Dependency.get_prerequisite` -/
def build (c : Ctx) (trigs : List Trig) (toks : List Tok) : Prereq :=
  let pr : Prereq := trigs.foldl (fun (pr : Prereq) t => pr.setItem (t.key c) (initVal (t.initSat c))) {}
  pr.setConditionalExpr (exprText (atomMsg c trigs) toks)

def Prereq.look (sat : List (Key × SatVal)) (k : Key) : Option Bool :=
  (lookupKey k sat).map SatVal.truthy

/-- `_eval_satisfied` (`none` = it raises) -/
def Prereq.evalSatisfied (pr : Prereq) : Option Bool :=
  match pr.cond with
  | none | some [] => some (pr.sat.all fun (kv : Key × SatVal) => kv.2.truthy)
  | some e => pyEval (Prereq.look pr.sat) e

/-- `is_satisfied`: result (`none` = exception) and the state afterwards -/
def Prereq.isSatisfied (pr : Prereq) : Option Bool × Prereq :=
  match pr.cached with
  | some b => (some b, pr)
  | none =>
    if pr.sat.isEmpty then (some true, pr)
    else match pr.evalSatisfied with
      | some b => (some b, { pr with cached := some b })
      | none => (none, pr)

/-- `satisfy_me(outputs, mode, forced)`; `v` is the state recorded for newly satisfied entries -/
def Prereq.satisfyMe (pr : Prereq) (outs : List Key) (v : SatVal) : Prereq :=
  outs.foldl (fun (pr : Prereq) k =>
    match lookupKey k pr.sat with
    | some .unsat => pr.setItem k v
    | _ => pr) pr

/-- every unsatisfied entry becomes 'force satisfied' -/
def forceAll (sat : List (Key × SatVal)) : List (Key × SatVal) :=
  sat.map fun (kv : Key × SatVal) => if kv.2.truthy then kv else (kv.1, .forced)

/-- `set_satisfied` -/
def Prereq.setSatisfied (pr : Prereq) : Prereq :=
  let pr1 := { pr with sat := forceAll pr.sat }
  match pr1.cond with
  | none | some [] => { pr1 with cached := some true }
  | some _ =>
    match pr1.evalSatisfied with
    | some b => { pr1 with cached := some b }
    | none => pr1      -- the exception leaves the entries forced and the cache untouched

/-- does `unset_naturally_satisfied(id)` reset this entry? -/
def unsetHits (id : Str) (kv : Key × SatVal) : Bool :=
  decide ((kv.1.point ++ '/' :: kv.1.task) = id) && kv.2.truthy && kv.2 != .forced

/-- `unset_naturally_satisfied(id)` with `id = point/task`: every hit entry is assigned `False`
in place (each assignment goes through `__setitem__`, which drops the cache) -/
def Prereq.unsetNaturally (pr : Prereq) (id : Str) : Prereq :=
  { pr with
    sat := pr.sat.map fun (kv : Key × SatVal) => if unsetHits id kv then (kv.1, .unsat) else kv,
    cached := if pr.sat.any (unsetHits id) then none else pr.cached }

inductive Op where
  | sat (outs : List Key) (v : SatVal)
  | unset (id : Str)
  | setAll
  deriving Repr, DecidableEq

def Prereq.apply (pr : Prereq) : Op → Prereq
  | .sat outs v => pr.satisfyMe outs v
  | .unset id => pr.unsetNaturally id
  | .setAll => pr.setSatisfied

/-- `is_satisfied()` after the build and after every operation -/
def observe (pr : Prereq) : List Op → List (Option Bool)
  | [] => [pr.isSatisfied.1]
  | op :: ops =>
    let (r, pr') := pr.isSatisfied
    r :: observe (pr'.apply op) ops

/-! ## Specification side: trigger expressions as trees -/

/-- a graph trigger expression; `paren` is an explicit pair of parentheses -/
inductive BExpr where
  | atom (i : Nat)
  | and (a b : BExpr)
  | or (a b : BExpr)
  | paren (a : BExpr)
  deriving Repr, DecidableEq

def BExpr.eval (v : Nat → Bool) : BExpr → Bool
  | .atom i => v i
  | .and a b => a.eval v && b.eval v
  | .or a b => a.eval v || b.eval v
  | .paren a => a.eval v

def BExpr.isOr : BExpr → Bool
  | .or _ _ => true
  | _ => false

def BExpr.atoms : BExpr → List Nat
  | .atom i => [i]
  | .and a b => a.atoms ++ b.atoms
  | .or a b => a.atoms ++ b.atoms
  | .paren a => a.atoms

/-- the token list of an expression: `&` binds tighter than `|`, so an `or` under an `and` is
parenthesised; every other parenthesis is an explicit `paren` node -/
def BExpr.render : BExpr → List Tok
  | .atom i => [.atom i]
  | .and a b =>
    (if a.isOr then .lp :: a.render ++ [.rp] else a.render) ++
      .amp :: (if b.isOr then .lp :: b.render ++ [.rp] else b.render)
  | .or a b => a.render ++ .bar :: b.render
  | .paren a => .lp :: a.render ++ [.rp]

/-! ## Collision predicate -/

def isSep (c : Char) : Bool := c == '&' || c == '|' || c == '(' || c == ')'

/-- every key's own message, taken alone, is turned into its own template by the whole sequence of
passes (decidable on the ordered key list) -/
def NoCollision (keys : List Key) : Bool :=
  keys.all fun k => rewriteText keys k.msg == k.tmpl

/-- decimal rendering of integer points (`str(IntegerPoint)`) -/
def renderInt (n : Int) : Str := (toString n).toList

end CylcModel.Prereq
