/-
`Sched3Fut` — `Sched2` extended with FUTURE TRIGGERS (`a[+P1] => b`) and what the code hangs on them (checks C04F, C07F):
* `TaskDef.max_future_prereq_offset` is a lazily raised attribute of the task definition: every construction of a
  `TaskProxy` (spawn_task, restart load, the ghost proxies the data store builds for the n=1 window of a task added
  to the pool, the temporary proxy of a job message without a pooled task) raises it to the largest future offset
  of the prerequisites of that instance (`Dependency.get_prerequisite`): state field `tdefOff`, primitive `touch`;
* the cached `TaskPool.max_future_offset` (`maxFut`) with its update sites: `add_to_pool` and `remove` call
  `set_max_future_offset` only when the task definition of the added / removed proxy has an offset, and a changed
  value forces `compute_runahead(force=True)` at once (inside spawn_on_output, release_runahead_tasks, restart load);
* `compute_runahead`: the limit is extended by `maxFut` and then capped at the stop point;
* `spawn_task`: an instance at or before the stop point with a prerequisite atom beyond the stop point is not
  spawned (the proxy is constructed, so the task definition is touched);
* the pool is kept in `get_tasks()` order (cycle buckets) and graph children in their real iteration order, because
  forced recomputations in the middle of a release / spawn sequence make the order observable.
A copy of `Sched2`, so that v1 / v2 and their proofs stay frozen.  Header of `Sched2` follows.

`Sched2` — `Sched` (v1) extended with holds, stop modes / stop point / stop task, pause and
clean restart (commands applied between main loops).  A copy, so that v1 and its proofs stay frozen.
Original header of v1 follows.

`Sched` — the scheduler core as one state machine (DESIGN §4 layer B), stage 1:
spawn-on-demand pool, runahead limiting, queue-if-ready / release, job messages,
completion-based removal, auto shutdown and stall detection, single original flow.

The model runs over an *instance graph*: for every task name and cycle point the
prerequisites (atoms + and/or expression), the graph children per output, the next
parentless point — i.e. what `TaskProxy.__init__` / `TaskDef` compute from the loaded
configuration (those static computations are the subject of C13–C16; here they are inputs).

Anchors: cylc/flow/task_pool.py (load_from_point, compute_runahead, release_runahead_tasks,
queue_if_ready, release_queued_tasks, spawn_on_output, spawn_task, remove, remove_if_complete,
is_stalled), cylc/flow/scheduler.py (_main_loop, workflow_shutdown, check_auto_shutdown,
process_queued_task_messages, check_workflow_stalled), cylc/flow/task_events_mgr.py
(process_message and helpers), cylc/flow/task_job_mgr.py (prep_submit_task_jobs).

Not modelled in this stage (never generated): commands, holds, several flows, flow-wait,
suicide triggers, xtriggers, clock expiry, queue limits, future-offset runahead extension,
stop points, Cylc-7 compatibility mode.  Core Lean only.
-/
namespace CylcModel.Sched3Fut

/-! ### Static instance graph -/

inductive Status where
  | waiting | expired | preparing | submitFailed | submitted | running | failed | succeeded
  deriving Repr, DecidableEq, Inhabited

/-- position in `TASK_STATUSES_ORDERED` -/
def Status.rank : Status → Nat
  | .waiting => 0 | .expired => 1 | .preparing => 2 | .submitFailed => 3
  | .submitted => 4 | .running => 5 | .failed => 6 | .succeeded => 7

def Status.str : Status → String
  | .waiting => "waiting" | .expired => "expired" | .preparing => "preparing"
  | .submitFailed => "submit-failed" | .submitted => "submitted" | .running => "running"
  | .failed => "failed" | .succeeded => "succeeded"

def Status.isFinal : Status → Bool
  | .expired | .submitFailed | .failed | .succeeded => true
  | _ => false

def Status.isActive : Status → Bool        -- TASK_STATUSES_ACTIVE
  | .submitted | .running => true
  | _ => false

structure Atom where
  pt : Int
  task : String
  out : String          -- the output *message*
  deriving Repr, DecidableEq, Inhabited

/-- and/or expression over atom indices (prerequisites) -/
inductive BE where
  | atom (i : Nat)
  | and (l r : BE)
  | or (l r : BE)
  deriving Repr, DecidableEq, Inhabited

/-- and/or expression over completion variables (trigger names with `-` → `_`) -/
inductive CE where
  | var (v : String)
  | and (l r : CE)
  | or (l r : CE)
  deriving Repr, DecidableEq, Inhabited

structure Pre where
  atoms : List (Atom × Bool)      -- satisfied flag
  expr : Option BE                -- `none`: conjunction of all atoms
  deriving Repr, DecidableEq, Inhabited

structure Child where
  name : String
  pt : Int
  isAbs : Bool
  deriving Repr, DecidableEq, Inhabited

structure InstDef where
  pre : List Pre
  sui : List Pre
  children : List (String × List Child)     -- keyed by output message
  nextParentless : Option Int
  futOff : Option Int := none               -- largest future offset among the prerequisite atoms (incl. suicide) of the instance
                                            -- (`atomFutOff`; the JSON layer computes it from the atoms, see `wfFut`):
                                            -- what constructing a TaskProxy here contributes to `tdef.max_future_prereq_offset`
  ghosts : List (String × Int) := []        -- graph children / parents (at or before the final point) for which the data store
                                            -- builds ghost task proxies when this instance is added to the pool (n = 1 window)
  deriving Repr, Inhabited

structure OutDef where
  trigger : String
  message : String
  deriving Repr, DecidableEq, Inhabited

structure TaskDefn where
  name : String
  insts : List (Int × InstDef)              -- valid points only
  firstParentless : Option Int
  completion : CE
  outputs : List OutDef
  execRetries : Nat := 0                    -- number of `execution retry delays`
  subRetries : Nat := 0                     -- number of `submission retry delays`
  hasAbs : Bool := false                    -- `TaskDef.has_abs_triggers`
  deriving Repr, Inhabited

structure Graph where
  icp : Int
  fcp : Int
  start : Int
  runahead : Nat                            -- `Pn`
  tasks : List TaskDefn                     -- in `task_name_list` order
  seqs : List (List Int)                    -- valid points of every sequence, ascending
  stopPoint : Option Int := none            -- `TaskPool.stop_point` (the final point unless set otherwise)
  cfgStop : Option Int := none              -- `[scheduling]stop after cycle point` of flow.cylc
  deriving Repr, Inhabited

def Graph.task? (g : Graph) (name : String) : Option TaskDefn := g.tasks.find? (·.name == name)

def TaskDefn.inst? (t : TaskDefn) (p : Int) : Option InstDef := (t.insts.find? (·.1 == p)).map (·.2)

/-! ### Dynamic state -/

structure Proxy where
  pt : Int
  name : String
  status : Status := .waiting
  held : Bool := false
  queued : Bool := false
  runahead : Bool := true
  flows : List Nat := [1]
  submitNum : Nat := 0
  done : List String := []                  -- completed output *messages*
  pre : List Pre := []
  sui : List Pre := []
  upd : Bool := false                       -- TaskState.is_updated
  execTry : Nat := 0                        -- try_timers[EXECUTION_RETRY].num
  subTry : Nat := 0                         -- try_timers[SUBMISSION_RETRY].num
  retryWait : Bool := false                 -- an unsatisfied `_cylc_retry` / `_cylc_submit_retry` xtrigger
  live : Bool := false                      -- `run_mode == LIVE` (set at job preparation, lost on restart)
  timers : Bool := false                    -- `try_timers` exist (created at the first preparation, saved in the DB)
  deriving Repr, Inhabited

structure Hist where                        -- a removed instance as recorded in the DB
  pt : Int
  name : String
  status : Status
  submitNum : Nat
  done : List String := []                  -- completed output messages (`task_outputs` table)
  deriving Repr, Inhabited

structure Msg where
  pt : Int
  name : String
  submitNum : Nat
  text : String
  deriving Repr, Inhabited

structure State where
  pool : List Proxy := []                   -- in `get_tasks()` order
  tdefOff : List (String × Int) := []       -- `tdef.max_future_prereq_offset` of every task definition that has one
  maxFut : Option Int := none               -- `TaskPool.max_future_offset`
  hist : List Hist := []
  histQ : List Hist := []                   -- `task_states` rows queued for the next commit (instances refused by `spawn_task`)
  rhLimit : Option Int := none
  prevBase : Option Int := none
  prevSeqPts : List Int := []
  stalled : Bool := false
  stop : Option String := none
  schedUpd : Bool := true                   -- Scheduler.is_updated
  queue : List Msg := []                    -- Scheduler.message_queue
  launched : List (Int × String × Nat) := []  -- launches of the current op
  polls : List (Int × String) := []           -- polls requested in the current op
  absDone : List Atom := []                   -- `abs_outputs_done`
  tasksToHold : List (String × Int) := []     -- `tasks_to_hold`
  holdPoint : Option Int := none              -- `hold_point`
  stopPoint : Option Int := none              -- `TaskPool.stop_point` (dynamic: `cylc stop <point>`)
  stopMode : Option String := none            -- `Scheduler.stop_mode` (requested), `stop` = SchedulerStop raised
  stopTask : Option (Int × String) := none    -- `stop_task_id`
  stopTaskFinished : Bool := false
  paused : Bool := false
  dbStopCp : Option Int := none               -- workflow_params `stopcp` in the DB
  restartWait : Bool := false                 -- `is_restart_timeout_wait`
  db : Option (List Proxy) := none            -- `task_pool` DB table as committed by the latest main loop
  ghosts : List Proxy := []                   -- proxies removed during the current op (`transient` objects
                                              -- still referenced by the message batch being processed)
  deriving Repr, Inhabited

/-! ### Expressions -/

def BE.eval (sat : Nat → Bool) : BE → Bool
  | .atom i => sat i
  | .and l r => l.eval sat && r.eval sat
  | .or l r => l.eval sat || r.eval sat

def CE.eval (σ : String → Bool) : CE → Bool
  | .var v => σ v
  | .and l r => l.eval σ && r.eval σ
  | .or l r => l.eval σ || r.eval σ

def Pre.isSatisfied (p : Pre) : Bool :=
  match p.expr with
  | none => p.atoms.all (·.2)
  | some e => e.eval fun i => match p.atoms[i]? with | some a => a.2 | none => false

/-- `Prerequisite.satisfy_me` for one output of one upstream instance -/
def Pre.satisfy (p : Pre) (a : Atom) : Pre :=
  { p with atoms := p.atoms.map fun (b, s) => if b == a then (b, true) else (b, s) }

def Proxy.prereqsSatisfied (x : Proxy) : Bool := x.pre.all Pre.isSatisfied

def Proxy.satisfyMe (x : Proxy) (a : Atom) : Proxy :=
  { x with pre := x.pre.map (·.satisfy a), sui := x.sui.map (·.satisfy a) }

def compVar (trigger : String) : String := trigger.replace "-" "_"

/-- `TaskOutputs.is_complete` -/
def isComplete (t : TaskDefn) (done : List String) : Bool :=
  t.completion.eval fun v =>
    t.outputs.any fun o => compVar o.trigger == v && done.contains o.message

def Proxy.key (x : Proxy) : Int × String := (x.pt, x.name)

/-! ### Pool primitives -/

def State.get? (s : State) (p : Int) (n : String) : Option Proxy :=
  s.pool.find? fun x => x.pt == p && x.name == n

def State.put (s : State) (x : Proxy) : State :=
  { s with pool := s.pool.map fun y => if y.pt == x.pt && y.name == x.name then x else y }

/-- `process_queued_ops`: the queued `task_states` rows reach the database -/
def State.flushHist (s : State) : State := { s with hist := s.hist ++ s.histQ, histQ := [] }

/-! ### Future offsets, runahead limit, `add_to_pool` -/

/-- position of a new proxy in `get_tasks()` order: `active_tasks` is a dict of cycle buckets (in creation
order; an emptied bucket is deleted) of dicts of proxies (insertion order), so the flat list keeps the proxies
of one point together: a new proxy goes behind the last proxy of its point, or at the very end (new bucket) -/
def insertBucket (x : Proxy) : List Proxy → List Proxy
  | [] => [x]
  | y :: ys =>
    if ys.any (·.pt == x.pt) then y :: insertBucket x ys
    else if y.pt == x.pt then y :: x :: ys
    else y :: insertBucket x ys

/-- `tdef.max_future_prereq_offset` of task `n` (`none` = `None`) -/
def State.offOf (s : State) (n : String) : Option Int := (s.tdefOff.find? (·.1 == n)).map (·.2)

/-- `Dependency.get_prerequisite`: the future offset the construction of a proxy at point `p` records - the largest
distance from `p` to a prerequisite atom (suicide prerequisites included) at a LATER point, however the trigger was
written (`foo[+P2]`, `foo[^+P2]`, ...); `none` if there is no such atom -/
def atomFutOff (p : Int) (pres : List Pre) : Option Int :=
  (pres.flatMap fun pr => pr.atoms.map fun a => a.1.pt).foldl (fun acc q =>
    if q > p then
      (match acc with
       | none => some (q - p)
       | some o => if q - p > o then some (q - p) else acc)
    else acc) none

/-- what constructing a `TaskProxy` of `n` at `p` contributes (`none`: not an instance / no future prerequisite) -/
def instOff (g : Graph) (n : String) (p : Int) : Option Int :=
  ((g.task? n).bind (·.inst? p)).bind (·.futOff)

/-- construction of a `TaskProxy` (`TaskState._add_prerequisites` → `Dependency.get_prerequisite`): the attribute
of the task definition is raised to the largest future offset of the instance -/
def touch (g : Graph) (s : State) (n : String) (p : Int) : State :=
  match instOff g n p with
  | none => s
  | some k =>
    match s.offOf n with
    | none => { s with tdefOff := s.tdefOff ++ [(n, k)] }
    | some k0 =>
      if k > k0 then { s with tdefOff := s.tdefOff.map fun e => if e.1 == n then (n, k) else e } else s

def insertSorted (x : Int) : List Int → List Int
  | [] => [x]
  | y :: ys => if x < y then x :: y :: ys else if x == y then y :: ys else y :: insertSorted x ys

def sortDedup (l : List Int) : List Int := l.foldl (fun acc x => insertSorted x acc) []

def minOf : List Int → Option Int
  | [] => none
  | x :: xs => some (xs.foldl min x)

/-- the last element, or `d` for an empty list -/
def lastOr (l : List Int) (d : Int) : Int :=
  match l.getLast? with
  | none => d
  | some v => v

/-- "Adjust for future offset" -/
def applyOffset (l0 : Int) (off : Option Int) : Int :=
  match off with
  | some k => l0 + k
  | none => l0

/-- "... and stop point" -/
def capAt (sp : Option Int) (l : Int) : Int :=
  match sp with
  | some q => if l > q then q else l
  | none => l

/-- the runahead base point: the earliest pooled point (an empty pool: the earliest first point of the recurrences) -/
def basePointOf (g : Graph) (s : State) : Option Int :=
  if s.pool.isEmpty then minOf (g.seqs.filterMap fun q => q.find? (· ≥ g.start))
  else minOf (s.pool.map (·.pt))

/-- the points `compute_runahead` generates: the first n+1 of every recurrence from the base point -/
def seqPoints (g : Graph) (b : Int) : List Int :=
  sortDedup (g.seqs.flatMap fun q => (q.filter (· ≥ b)).take (g.runahead + 1))

/-- `compute_runahead` (count-cycles limit `Pn`): base point = earliest pooled point; unforced: early return when the
base point did not move or the limit sits at the stop point; the limit is extended by the cached maximum future
offset and then capped at the stop point -/
def computeRunahead (g : Graph) (s : State) (force : Bool := false) : State :=
  match basePointOf g s with
  | none => s
  | some b =>
    let prevBase := s.prevBase.getD b
    let s := { s with prevBase := some prevBase }
    if !force && s.rhLimit.isSome && (b == prevBase || s.rhLimit == s.stopPoint) then s
    else
      let pts : List Int :=
        if !force && !s.prevSeqPts.isEmpty && b == prevBase then s.prevSeqPts
        else seqPoints g b
      { s with prevSeqPts := pts, prevBase := some b,
               rhLimit := some (capAt s.stopPoint (applyOffset (lastOr (pts.take (g.runahead + 1)) b) s.maxFut)) }

/-- the largest `tdef.max_future_prereq_offset` among the pooled proxies -/
def poolMaxOff (s : State) : Option Int :=
  s.pool.foldl (fun acc x =>
    match s.offOf x.name with
    | none => acc
    | some k => match acc with
      | none => some k
      | some a => if k > a then some k else acc) none

/-- `set_max_future_offset`: recompute the cached maximum; a changed value forces a recomputation of the limit -/
def setMaxFut (g : Graph) (s : State) : State :=
  let m := poolMaxOff s
  let s' := { s with maxFut := m }
  if m != s.maxFut then computeRunahead g s' true else s'

/-- the ghost proxies the data store builds for the graph neighbours of a proxy entering the pool -/
def ghostsOf (g : Graph) (x : Proxy) : List (String × Int) :=
  match (g.task? x.name).bind (·.inst? x.pt) with
  | some d => d.ghosts
  | none => []

def ghostTouch (g : Graph) (s : State) (x : Proxy) : State :=
  (ghostsOf g x).foldl (fun st k => touch g st k.1 k.2) s

/-- `add_to_pool`: no-op when the key is present; the data store builds ghost proxies for the graph neighbours
(`create_data_store_elements` → `increment_graph_window`); `set_max_future_offset` only when the task definition of
the new proxy has a future offset -/
def enterPool (g : Graph) (s : State) (x : Proxy) : State :=
  ghostTouch g { s with pool := insertBucket x s.pool } x

def State.add (g : Graph) (s : State) (x : Proxy) : State :=
  if (s.get? x.pt x.name).isSome then s
  else if ((enterPool g s x).offOf x.name).isSome then setMaxFut g (enterPool g s x) else enterPool g s x

/-- `TaskState.reset` for the flags used here; sets `upd` when anything changed -/
def Proxy.reset (x : Proxy) (status : Option Status := none) (queued : Option Bool := none)
    (runahead : Option Bool := none) (held : Option Bool := none) : Proxy :=
  let y := { x with status := status.getD x.status, queued := queued.getD x.queued,
                    runahead := runahead.getD x.runahead, held := held.getD x.held }
  if y.status == x.status && y.queued == x.queued && y.runahead == x.runahead && y.held == x.held then x
  else { y with upd := true }

/-- `can_be_spawned` + proxy construction; `none` when out of bounds / off sequence -/
def mkProxy (g : Graph) (name : String) (p : Int) : Option Proxy := do
  let t ← g.task? name
  if p < g.icp || p > g.fcp then none
  let d ← t.inst? p
  pure { pt := p, name := name, pre := d.pre, sui := d.sui }

/-- the latest committed `task_states` row of the instance -/
def histOf (s : State) (name : String) (p : Int) : Option Hist :=
  (s.hist.filter fun h => h.pt == p && h.name == name).getLast?

/-- what `spawn_task` makes of the DB history: a fresh proxy, a revived one, or nothing
("task was removed": a row without outputs; finished and complete: not re-run) -/
def revive (g : Graph) (name : String) (hist : Option Hist) (x : Proxy) : Option Proxy :=
  match hist with
  | none => some x
  | some h =>
    if h.done.isEmpty then none
    else if h.status.isFinal then
      match g.task? name with
      | some t => if isComplete t h.done then none
                  else some { x with status := h.status, submitNum := h.submitNum, done := h.done }
      | none => none
    else some { x with status := h.status, submitNum := h.submitNum, done := h.done }

/-- a new proxy is held when a hold was requested for it earlier or it lies beyond the hold point -/
def holdOnSpawn (s : State) (name : String) (p : Int) (y : Proxy) : State × Proxy :=
  if s.tasksToHold.contains (name, p) then (s, y.reset (held := some true))
  else match s.holdPoint with
    | some hp => if p > hp then
        ({ s with tasksToHold := s.tasksToHold ++ [(name, p)] }, y.reset (held := some true))
      else (s, y)
    | none => (s, y)

/-- "Don't add to pool if it depends on a task beyond the stop point" (`foo[+P1] & bar => baz`): the instance lies
at or before the stop point and one of its prerequisite atoms targets a point beyond it -/
def beyondStop (s : State) (p : Int) (y : Proxy) : Bool :=
  match s.stopPoint with
  | some sp => decide (p ≤ sp) && y.pre.any fun pr => pr.atoms.any fun a => decide (a.1.pt > sp)
  | none => false

/-- satisfy absolute triggers from the record of completed absolute outputs -/
def absSatisfy (g : Graph) (s : State) (name : String) (y : Proxy) : Proxy :=
  match g.task? name with
  | some t => if t.hasAbs && !y.prereqsSatisfied then s.absDone.foldl (fun z a => z.satisfyMe a) y else y
  | none => y

/-- the refusal of an instance without history leaves fresh `task_states` / `task_outputs` rows queued
(`_load_db_task_proxy`): once committed, later attempts find a row without outputs = "task was removed" -/
def refuse (s : State) (name : String) (p : Int) (hist : Option Hist) : State :=
  if hist.isNone then { s with histQ := s.histQ ++ [⟨p, name, .waiting, 0, []⟩] } else s

/-- `spawn_task` (single flow): consult the DB history of the instance, build the proxy (the task definition is
touched), hold it if requested, refuse it if it depends on a task beyond the stop point -/
def spawnTask (g : Graph) (s : State) (name : String) (p : Int) : State × Option Proxy :=
  if (histOf s name p).isNone && p < g.start then (s, none)       -- warm start: pre-start instances count as run
  else match mkProxy g name p with
    | none => (s, none)
    | some x =>
      match revive g name (histOf s name p) x with
      | none => (touch g s name p, none)
      | some y =>
        let r := holdOnSpawn (touch g s name p) name p y
        if beyondStop r.1 p r.2 then (refuse r.1 name p (histOf s name p), none)
        else (r.1, some (absSatisfy g r.1 name r.2))

/-- `get_or_spawn_task` + `add_to_pool` as used by parentless spawning -/
def spawnAndAdd (g : Graph) (s : State) (name : String) (p : Int) : State :=
  if (s.get? p name).isSome then s            -- merge_flows: same flow, nothing to do
  else match (spawnTask g s name p).2 with
    | some x => State.add g (spawnTask g s name p).1 x
    | none => (spawnTask g s name p).1

def nextParentless (g : Graph) (x : Proxy) : Option Int := do
  let t ← g.task? x.name
  let d ← t.inst? x.pt
  d.nextParentless

/-- `spawn_next_parentless` -/
def spawnNextParentless (g : Graph) (s : State) (x : Proxy) : State :=
  if x.flows.isEmpty || x.pt < g.start then s
  else match nextParentless g x with
    | some np => spawnAndAdd g s x.name np
    | none => s

/-! ### Runahead release -/

/-- one task of `release_me`: released, then its next parentless instance is spawned -/
def releaseOne (g : Graph) (st : State) (x : Proxy) : State :=
  spawnNextParentless g (match st.get? x.pt x.name with
    | some y => st.put (y.reset (runahead := some false))
    | none => st) x

/-- the snapshot `release_me`: the runahead-limited proxies at or before the limit, in pool order -/
def releaseMe (s : State) (lim : Int) : List Proxy := s.pool.filter fun x => x.pt ≤ lim && x.runahead

/-- `release_runahead_tasks`; returns whether anything was released -/
def releaseRunahead (g : Graph) (s : State) : State × Bool :=
  match s.rhLimit with
  | none => (s, false)
  | some lim =>
    if s.pool.isEmpty then (s, false) else
    ((releaseMe s lim).foldl (releaseOne g) s, !(releaseMe s lim).isEmpty)

def releaseRunaheadN (g : Graph) : Nat → State → State
  | 0, s => s
  | n + 1, s => if (releaseRunahead g s).2 then releaseRunaheadN g n (releaseRunahead g s).1 else (releaseRunahead g s).1

/-! ### Queueing and release -/

def Proxy.isReadyToRun (x : Proxy) : Bool :=
  !x.held && x.status == .waiting && x.prereqsSatisfied && !x.retryWait

/-- `queue_if_ready` -/
def queueIfReady (s : State) (x : Proxy) : State :=
  if !x.queued && !x.runahead && x.isReadyToRun then s.put (x.reset (queued := some true)) else s

/-- `hold_active_task` on a pooled proxy -/
def holdActive (s : State) (x : Proxy) : State :=
  let s := s.put (x.reset (held := some true))
  if s.tasksToHold.contains (x.name, x.pt) then s
  else { s with tasksToHold := s.tasksToHold ++ [(x.name, x.pt)] }

/-- `release_held_active_task` on a pooled proxy -/
def releaseHeldActive (s : State) (x : Proxy) : State :=
  let s :=
    if x.held then
      let y := x.reset (held := some false)
      let y := if !y.runahead && y.isReadyToRun then y.reset (queued := some true) else y
      s.put y
    else s
  { s with tasksToHold := s.tasksToHold.filter (· != (x.name, x.pt)) }

/-- `load_from_point` -/
def loadFromPoint (g : Graph) : State :=
  let s : State := { stopPoint := g.stopPoint }
  let s := g.tasks.foldl (fun st t =>
      match t.firstParentless with
      | some p => spawnAndAdd g st t.name p
      | none => st) s
  let s := computeRunahead g s
  let s := releaseRunaheadN g 10 s
  s.pool.foldl (fun st x => match st.get? x.pt x.name with
    | some y => queueIfReady st y | none => st) s

/-- `release_queued_tasks` (unlimited queues) + `prep_submit_task_jobs` with the stub job runner:
every queued task enters `preparing` under the next submit number and is launched. -/
def launchProxy (x : Proxy) : Proxy :=
  { ((x.reset (queued := some false)).reset (status := some .preparing)) with
    submitNum := x.submitNum + 1, live := true, timers := true }

def releaseAndSubmit (s : State) : State :=
  let rel := s.pool.filter fun x => x.queued && !x.held
  if rel.isEmpty then s else
  let s := rel.foldl (fun (st : State) x =>
      { (st.put (launchProxy x)) with launched := st.launched ++ [(x.pt, x.name, x.submitNum + 1)] }) s
  { s with schedUpd := true }

/-! ### Removal and spawning on outputs -/

/-- the proxy leaves the pool (final `task_states` update, commit now) -/
def dropPool (s : State) (x : Proxy) : State :=
  { s.flushHist with pool := s.flushHist.pool.filter (fun y => !(y.pt == x.pt && y.name == x.name)),
                     hist := s.flushHist.hist ++ [⟨x.pt, x.name, x.status, x.submitNum, x.done⟩],
                     ghosts := s.flushHist.ghosts ++ [x] }

/-- the tail of `remove`: the cached maximum future offset is recomputed only if the task definition of the
removed proxy has an offset -/
def dropKey (g : Graph) (s : State) (x : Proxy) : State :=
  if ((dropPool s x).offOf x.name).isSome then setMaxFut g (dropPool s x) else dropPool s x

/-- `remove` -/
def remove (g : Graph) (s : State) (x : Proxy) : State :=
  let s := releaseHeldActive s x
  let x := (s.get? x.pt x.name).getD x
  let s := if !x.flows.isEmpty && x.runahead then spawnNextParentless g s x else s
  dropKey g s x

/-- `remove_if_complete` -/
def removeIfComplete (g : Graph) (s : State) (x : Proxy) : State :=
  if !x.status.isFinal then s
  else
  let s := if s.stopTask == some (x.pt, x.name) then { s with stopTaskFinished := true } else s
  match g.task? x.name with
    | none => s
    | some t => if isComplete t x.done then remove g s x else s

def childrenOf (g : Graph) (x : Proxy) (out : String) : List Child :=
  match (g.task? x.name).bind (·.inst? x.pt) with
  | none => []
  | some d => match d.children.find? (·.1 == out) with
    | some (_, cs) => cs
    | none => []

def Proxy.suicideNow (x : Proxy) : Bool := !x.sui.isEmpty && x.sui.all Pre.isSatisfied

/-- an absolute output is recorded (`abs_outputs_done`, DB insert, commit now) -/
def recordAbs (st : State) (c : Child) (atom : Atom) : State :=
  let st := if c.isAbs && !st.absDone.contains atom then { st with absDone := st.absDone ++ [atom] } else st
  if c.isAbs then st.flushHist else st        -- `put_insert_abs_output` + `process_queued_ops`

/-- the proxies whose prerequisites one output satisfies: the child (for an absolute trigger: every pooled instance
of the child task as well) -/
def childTargets (st : State) (c : Child) : List (Int × String) :=
  if c.isAbs then
    let others := (st.pool.filter fun z => z.name == c.name).map fun z => (z.pt, z.name)
    if others.contains (c.pt, c.name) then others else others ++ [(c.pt, c.name)]
  else [(c.pt, c.name)]

/-- `satisfy_me` on every target; the ones whose suicide prerequisites are now all satisfied are collected -/
def satisfyTargets (atom : Atom) (acc : State × List (Int × String)) (targets : List (Int × String)) :
    State × List (Int × String) :=
  targets.foldl (fun (a : State × List (Int × String)) k =>
    match a.1.get? k.1 k.2 with
    | none => a
    | some z =>
      (a.1.put (z.satisfyMe atom),
       if (z.satisfyMe atom).suicideNow && !a.2.contains k then a.2 ++ [k] else a.2)) acc

/-- one child of `spawn_on_output`: record an absolute output, find or spawn the child, satisfy the
prerequisite (for an absolute trigger: of every pooled instance of the child task), collect suicides -/
def spawnChild (g : Graph) (p : Int) (n out : String) (acc : State × List (Int × String)) (c : Child) :
    State × List (Int × String) :=
  let st := recordAbs acc.1 c ⟨p, n, out⟩
  match st.get? c.pt c.name with
  | some _ => satisfyTargets ⟨p, n, out⟩ (st, acc.2) (childTargets st c)
  | none =>
    match (spawnTask g st c.name c.pt).2 with
    | none => ((spawnTask g st c.name c.pt).1, acc.2)
    | some y =>
      let st2 := State.add g (spawnTask g st c.name c.pt).1 (y.satisfyMe ⟨p, n, out⟩)
      satisfyTargets ⟨p, n, out⟩ (st2, acc.2) (childTargets st2 c)

/-- the collected suicides are removed -/
def removeSuicides (g : Graph) (s : State) (ks : List (Int × String)) : State :=
  ks.foldl (fun (st : State) k => match st.get? k.1 k.2 with
    | some z => remove g st z
    | none => st) s

/-- `spawn_on_output` -/
def spawnOnOutput (g : Graph) (s : State) (p : Int) (n : String) (out : String) : State :=
  match s.get? p n with
  | none => s
  | some x =>
    let r := (if x.flows.isEmpty then [] else childrenOf g x out).foldl (spawnChild g p n out) (s, [])
    let s2 := removeSuicides g r.1 r.2
    match s2.get? p n with
    | some x' => removeIfComplete g s2 x'
    | none => s2

/-! ### Messages -/

def Proxy.isDone (x : Proxy) (msg : String) : Bool := x.done.contains msg

def hasOutput (g : Graph) (x : Proxy) (msg : String) : Bool :=
  match g.task? x.name with
  | some t => t.outputs.any (·.message == msg)
  | none => false

/-- `set_message_complete`: `some true` newly completed, `some false` already, `none` no such output -/
def setComplete (g : Graph) (x : Proxy) (msg : String) : Proxy × Option Bool :=
  if !hasOutput g x msg then (x, none)
  else if x.isDone msg then (x, some false)
  else ({ x with done := x.done ++ [msg] }, some true)

inductive Flag where | internal | received | polled
  deriving Repr, DecidableEq

/-- the live proxy, or the transient object of an instance removed earlier in this op -/
def lookup (s : State) (p : Int) (n : String) : Option (Proxy × Bool) :=
  match s.get? p n with
  | some x => some (x, false)
  | none => (s.ghosts.find? fun x => x.pt == p && x.name == n).map fun x => (x, true)

def store (s : State) (x : Proxy) (transient : Bool) : State :=
  if transient then
    { s with ghosts := s.ghosts.map fun y => if y.pt == x.pt && y.name == x.name then x else y }
  else s.put x

/-- `spawn_children`: transient objects do not spawn -/
def spawnChildren (g : Graph) (s : State) (p : Int) (n : String) (out : String) (transient : Bool) : State :=
  if transient then s else spawnOnOutput g s p n out

/-- `process_message` for one (non-forced) message; returns the new state and whether a poll is
requested.  `fuel` bounds the implied-output recursion (depth ≤ 3). -/
def processMessage (g : Graph) : Nat → State → Int → String → Flag → Nat → String → State × Bool
  | 0, s, _, _, _, _, _ => (s, false)
  | fuel + 1, s, p, n, flag, sn, msg =>
    match lookup s p n with
    | none => (s, false)
    | some (x, tr) =>
      -- _process_message_check (a transient object skips the checks)
      if !tr && flag == .received && sn != x.submitNum then (s, false) else
      -- a waiting task with a retry lined up ignores (late) messages
      if !tr && x.status == .waiting && x.live && (x.subTry > 0 || x.execTry > 0) then (s, false) else
      -- complete the corresponding output
      let (x, completed) :=
        if msg == "submit-failed" || msg == "failed" then (x, some false)
        else setComplete g x msg
      let s := store s x tr
      -- implied outputs first
      let implied : List String :=
        (if msg == "succeeded" || msg == "failed" then ["submitted", "started"]
         else if msg == "started" then ["submitted"] else []).filter fun m => !x.isDone m
      let s := implied.foldl (fun st m => (processMessage g fuel st p n .internal sn m).1) s
      match lookup s p n with
      | none => (s, false)
      | some (x, tr) =>
      if msg == "started" then
        if flag == .received && x.status.rank > Status.running.rank then (s, true) else
        -- submission was successful: the submission try number is reset
        let s := store s { (x.reset (status := some .running)) with subTry := 0 } tr
        (spawnChildren g s p n "started" tr, false)
      else if msg == "succeeded" then
        let s := store s (x.reset (status := some .succeeded)) tr
        (spawnChildren g s p n "succeeded" tr, false)
      else if msg == "failed" then
        if flag == .received && x.status.rank > Status.failed.rank then (s, true) else
        let maxTry := match g.task? n with | some t => t.execRetries | none => 0
        if x.timers && x.execTry < maxTry then
          -- an execution retry is lined up: back to waiting behind a retry xtrigger
          let y := { (x.reset (status := some .waiting)) with execTry := x.execTry + 1, retryWait := true }
          (store s y tr, false)
        else
        -- definitive failure
        let y := x.reset (status := some .failed)
        let (y, _) := if x.status != .failed then setComplete g y "failed" else (y, none)
        let s := store s y tr
        (spawnChildren g s p n "failed" tr, false)
      else if msg == "submit-failed" then
        if flag == .received && x.status.rank > Status.submitFailed.rank then (s, true) else
        let maxTry := match g.task? n with | some t => t.subRetries | none => 0
        if x.timers && x.subTry < maxTry then
          let y := { (x.reset (status := some .waiting)) with subTry := x.subTry + 1, retryWait := true }
          (store s y tr, false)
        else
        let y := x.reset (status := some .submitFailed)
        let (y, _) := if x.status != .submitFailed then setComplete g y "submit-failed" else (y, none)
        let s := store s y tr
        (spawnChildren g s p n "submit-failed" tr, false)
      else if msg == "submitted" then
        if flag == .received && x.status.rank ≥ Status.submitted.rank then (s, true) else
        let s := if x.status == .preparing then
            store s ((x.reset (status := some .submitted)).reset (queued := some false)) tr else s
        (spawnChildren g s p n "submitted" tr, false)
      else if completed == some true then
        (spawnChildren g s p n msg tr, false)
      else (s, false)

/-- group queued messages by task id in order of first arrival (`dict.setdefault`) -/
def groupMsgs (q : List Msg) : List ((Int × String) × List Msg) :=
  q.foldl (fun acc m =>
    if acc.any (fun e => e.1 == (m.pt, m.name)) then
      acc.map fun e => if e.1 == (m.pt, m.name) then (e.1, e.2 ++ [m]) else e
    else acc ++ [((m.pt, m.name), [m])]) []

/-- the messages of one task, in order of arrival; returns whether a poll is requested -/
def processGroupMsgs (g : Graph) (p : Int) (n : String) (msgs : List Msg) (st : State) : State × Bool :=
  msgs.foldl (fun (acc : State × Bool) m =>
    ((processMessage g 4 acc.1 p n .received m.submitNum m.text).1,
     acc.2 || (processMessage g 4 acc.1 p n .received m.submitNum m.text).2)) (st, false)

/-- one task of the batch: without a pooled proxy its messages are left for job-only processing after all groups -/
def processGroup (g : Graph) (acc : State × List (Int × String)) (grp : (Int × String) × List Msg) :
    State × List (Int × String) :=
  match acc.1.get? grp.1.1 grp.1.2 with
  | none => (acc.1, acc.2 ++ grp.2.map fun _ => grp.1)
  | some _ =>
    let r := processGroupMsgs g grp.1.1 grp.1.2 grp.2 acc.1
    (if r.2 then { r.1 with polls := r.1.polls ++ [grp.1] } else r.1, acc.2)

/-- `process_queued_task_messages`; `process_job_message` builds a temporary TaskProxy for every message without a
pooled task (the task definition is touched) -/
def processQueue (g : Graph) (s : State) : State :=
  let r := (groupMsgs s.queue).foldl (processGroup g) ({ s with queue := [] }, [])
  r.2.foldl (fun st k => touch g st k.2 k.1) r.1

/-! ### Stall and shutdown -/

/-- `TaskPool.is_stalled` (no stop point) -/
def isStalled (g : Graph) (s : State) : Bool :=
  if s.pool.any (fun x => x.status.isActive || x.status == .preparing ||
      (x.status == .waiting && !x.runahead && x.prereqsSatisfied)) then false
  else
    let incomplete := s.pool.any fun x => x.status.isFinal &&
      (match g.task? x.name with | some t => !isComplete t x.done | none => false)
    let beyond (p : Int) : Bool := match s.stopPoint with | some sp => p > sp | none => false
    let unsatisfied := s.pool.any fun x => !beyond x.pt && x.pre.any fun pr =>
      !pr.isSatisfied && pr.atoms.any (fun a => !a.2 && !beyond a.1.pt)
    incomplete || unsatisfied

/-- `check_workflow_stalled` -/
def checkStalled (g : Graph) (s : State) : State :=
  if s.stalled then s else if s.paused then s else if isStalled g s then { s with stalled := true } else s

/-- `check_auto_shutdown` (with its stall-check side effect) -/
def checkAutoShutdown (g : Graph) (s : State) : State × Bool :=
  if s.paused || s.restartWait then (s, false) else
  let s := checkStalled g s
  if s.stalled then (s, false)
  else if s.pool.any (fun x => x.status == .preparing || x.status == .submitted ||
      x.status == .running || (x.status == .waiting && !x.runahead)) then (s, false)
  else ({ s with dbStopCp := none }, true)      -- the stop point is forgotten once reached

/-! ### Operations -/

inductive Op where
  | loop
  | subres (pt : Int) (name : String) (ok : Bool) (sn : Nat)
  | msg (pt : Int) (name : String) (sn : Nat) (text : String)
  | hold (ids : List (Int × String))
  | release (ids : List (Int × String))
  | setHoldPoint (p : Int)
  | releaseHoldPoint
  | stop (mode : String)                  -- "REQUEST(CLEAN)" | "REQUEST(NOW)" | "REQUEST(NOW-NOW)"
  | stopPoint (p : Int)
  | stopTask (pt : Int) (name : String)
  | pause
  | resume
  | restart
  deriving Repr

def clearOp (s : State) : State := { s with launched := [], polls := [], ghosts := [], db := none }

/-- the queue-if-ready sweep over waiting, unqueued, released proxies -/
def sweepOne (st : State) (x : Proxy) : State :=
  match st.get? x.pt x.name with
  | some y =>
    if y.status == .waiting && !y.queued && !y.runahead then
      -- zero-delay retry clock triggers are satisfied by the time of the next sweep
      queueIfReady (st.put { y with retryWait := false }) { y with retryWait := false }
    else st
  | none => st

def sweepQueue (s : State) : State := s.pool.foldl sweepOne s

/-- end of the main loop: updated flags, DB commit of the task pool, stall check -/
def hasUpdates (s : State) : Bool := s.schedUpd || s.pool.any (·.upd)

/-- the updated flags are cleared and the task pool is committed to the DB -/
def preCommit (s : State) : State :=
  let s1 := if s.pool.any (·.upd) then { s with restartWait := false } else s
  let s2 := if hasUpdates s then
      { s1 with stalled := false, schedUpd := false, pool := s1.pool.map fun x => { x with upd := false } }
    else s1
  { s2.flushHist with db := some s2.pool }      -- put_task_pool + process_queued_ops

def finishLoop (g : Graph) (s : State) : State :=
  if !hasUpdates s && (preCommit s).stopMode.isNone then checkStalled g (preCommit s) else preCommit s

/-- `TaskPool.can_stop` -/
def canStop (s : State) : Bool :=
  match s.stopMode with
  | none => false
  | some m =>
    if m == "REQUEST(NOW-NOW)" then true
    else !(s.pool.any fun x => (m == "REQUEST(CLEAN)" || m == "REQUEST(KILL)") && x.status.isActive)

/-- `stop_task_done` -/
def stopTaskDone (s : State) : State × Bool :=
  if s.stopTask.isSome && s.stopTaskFinished then
    ({ s with stopTask := none, stopTaskFinished := false }, true)
  else (s, false)

/-- `workflow_shutdown`: with no stop requested, the stop task / the automatic shutdown may request one -/
def shutdownDecision (g : Graph) (s : State) : State :=
  if s.stopMode.isNone then
    if (stopTaskDone s).2 then { (stopTaskDone s).1 with stopMode := some "AUTOMATIC" }
    else
      if (checkAutoShutdown g (stopTaskDone s).1).2 then
        { (checkAutoShutdown g (stopTaskDone s).1).1 with stopMode := some "AUTOMATIC" }
      else (checkAutoShutdown g (stopTaskDone s).1).1
  else s

/-- the rest of the main loop once the scheduler is not stopping now -/
def loopBody (g : Graph) (s : State) : State :=
  let s := sweepQueue s
  let s := if s.stopMode.isNone && !s.paused then releaseAndSubmit s else s
  let s := processQueue g s
  finishLoop g s

/-- the first two calls of the main loop: `compute_runahead`, `release_runahead_tasks` -/
def preShutdown (g : Graph) (s : State) : State := (releaseRunahead g (computeRunahead g s)).1

/-- one iteration of `Scheduler._main_loop` -/
def mainLoop (g : Graph) (s : State) : State :=
  if s.stop.isSome then s else
  let s := shutdownDecision g (preShutdown g s)
  if canStop s then { s with stop := s.stopMode } else loopBody g s

/-- `set_stop_point` -/
def setStopPoint (s : State) (p : Int) : State :=
  if s.stopPoint == some p then s else
  let s := { s with stopPoint := some p, dbStopCp := some p }
  match s.rhLimit with
  | some l =>
    if l > p then
      { s with rhLimit := some p,
               pool := s.pool.map fun x =>
                 if x.pt > p && x.status == .waiting then x.reset (runahead := some true) else x }
    else s
  | none => s

/-- `set_hold_point` -/
def setHoldPoint (s : State) (p : Int) : State :=
  let s := { s with holdPoint := some p }
  s.pool.foldl (fun st x => if x.pt > p then
      match st.get? x.pt x.name with | some y => holdActive st y | none => st
    else st) s

/-- `hold_tasks` (ids are valid instances: pooled ones are held, future ones recorded) -/
def holdTasks (s : State) (ids : List (Int × String)) : State :=
  ids.foldl (fun st k => match st.get? k.1 k.2 with
    | some y => holdActive st y
    | none => if st.tasksToHold.contains (k.2, k.1) then st
              else { st with tasksToHold := st.tasksToHold ++ [(k.2, k.1)] }) s

/-- `release_held_tasks`: only ids currently in `tasks_to_hold` are matched -/
def releaseTasks (s : State) (ids : List (Int × String)) : State :=
  ids.foldl (fun st k =>
    if !st.tasksToHold.contains (k.2, k.1) then st else
    match st.get? k.1 k.2 with
    | some y => releaseHeldActive st y
    | none => { st with tasksToHold := st.tasksToHold.filter (· != (k.2, k.1)) }) s

/-- `release_hold_point` -/
def releaseHoldPoint (s : State) : State :=
  let s := { s with holdPoint := none }
  let s := s.pool.foldl (fun st x => match st.get? x.pt x.name with
    | some y => releaseHeldActive st y | none => st) s
  { s with tasksToHold := [] }

/-- a `task_pool` row as loaded by `load_db_task_pool_for_restart` -/
def restoreProxy (x : Proxy) : Proxy :=
  let status := if x.status == .preparing then Status.waiting else x.status
  let sn := if x.status == .preparing then x.submitNum - 1 else x.submitNum
  let keepOut := status == .running || status == .failed || status == .succeeded
  let final := status == .failed || status == .succeeded || status == .expired
  { x with status := status, submitNum := sn, done := if keepOut then x.done else [],
           queued := false, runahead := !final, retryWait := false, live := false,
           upd := (x.status == .preparing) || final }

/-- the stop point after a restart: DB `stopcp`, else flow.cylc, else the final point -/
def restoredStop (g : Graph) (s : State) : Int :=
  match s.dbStopCp with
  | some p => p
  | none => g.cfgStop.getD g.fcp

/-- the new scheduler process before the pool is loaded: no task definition has a future offset yet -/
def restartBase (g : Graph) (s : State) : State :=
  let cfgStop : Option Int := match s.dbStopCp with | some p => some p | none => g.cfgStop
  let pool := s.pool.map restoreProxy
  let wait := pool.isEmpty || (match cfgStop with
    | some sp => pool.all (fun x => x.pt > sp)
    | none => false)
  { pool := [], hist := s.hist ++ s.histQ, absDone := s.absDone,
    tasksToHold := s.tasksToHold, holdPoint := s.holdPoint, stopPoint := some (restoredStop g s),
    dbStopCp := s.dbStopCp, restartWait := wait,
    stopTask := s.stopTask, stopTaskFinished := false, schedUpd := true }

/-- one row of `load_db_task_pool_for_restart`: the TaskProxy is constructed, loaded runahead-limited, added to the
pool (ghost proxies, `set_max_future_offset`, possibly a forced `compute_runahead` on the partly loaded pool) and
released at once if it is finished -/
def loadRow (g : Graph) (st : State) (x : Proxy) : State :=
  let y := restoreProxy x
  (State.add g (touch g st y.name y.pt) { y with runahead := true }).put y

/-- clean restart from the database written at shutdown (`load_db_task_pool_for_restart` row by row - DB row order =
pool order -, then `configure` re-applies the hold point) -/
def restart (g : Graph) (s : State) : State :=
  let s' := s.pool.foldl (loadRow g) (restartBase g s)
  match s'.holdPoint with
  | some hp => setHoldPoint s' hp
  | none => s'

def step (g : Graph) (s : State) (op : Op) : State :=
  let s := clearOp s
  match op with
  | .loop => mainLoop g s
  | .subres p n ok sn =>
      (processMessage g 4 s p n .internal sn (if ok then "submitted" else "submit-failed")).1
  | .msg p n sn text => { s with queue := s.queue ++ [⟨p, n, sn, text⟩] }
  | .hold ids => holdTasks s ids
  | .release ids => releaseTasks s ids
  | .setHoldPoint p => setHoldPoint s p
  | .releaseHoldPoint => releaseHoldPoint s
  | .stop mode => { s with stopMode := some mode }
  | .stopPoint p => setStopPoint s p
  | .stopTask p n => { s with stopTask := some (p, n), stopTaskFinished := false }
  | .pause => { s with paused := true }
  | .resume => { s with paused := false }
  | .restart => restart g s

def init (g : Graph) : State :=
  let s := loadFromPoint g
  s

/-- all states of a run: after start-up, then after each op -/
def run (g : Graph) (ops : List Op) : List State :=
  (ops.foldl (fun (acc : List State × State) op =>
    let s' := step g acc.2 op
    (acc.1 ++ [s'], s')) ([init g], init g)).1

end CylcModel.Sched3Fut
