/-
C01: inductive invariants of the atomic-action system (`SchedActC01`), hence of every state of every
run of the `Sched` model (`SchedRefC01`): prerequisites of pooled proxies are the graph's, satisfied only
with justification; queued proxies have satisfied prerequisites; every launch is justified; every pooled
or recorded instance is in the spawn-on-demand closure.
-/
import CylcModel.SchedRefC01

namespace CylcModel.Sched

/-! ### Pointwise relation of two lists -/

inductive All2 {α β : Type} (R : α → β → Prop) : List α → List β → Prop
  | nil : All2 R [] []
  | cons {a : α} {b : β} {l1 : List α} {l2 : List β} : R a b → All2 R l1 l2 → All2 R (a :: l1) (b :: l2)

theorem All2.imp {α β : Type} {R R' : α → β → Prop} (h : ∀ a b, R a b → R' a b) :
    ∀ {l1 : List α} {l2 : List β}, All2 R l1 l2 → All2 R' l1 l2 := by
  intro l1 l2 hl
  induction hl with
  | nil => exact All2.nil
  | cons hab _ ih => exact All2.cons (h _ _ hab) ih

theorem All2.map_right {α β γ : Type} {R : α → β → Prop} {R' : α → γ → Prop} (f : β → γ)
    (h : ∀ a b, R a b → R' a (f b)) : ∀ {l1 : List α} {l2 : List β}, All2 R l1 l2 → All2 R' l1 (l2.map f) := by
  intro l1 l2 hl
  induction hl with
  | nil => exact All2.nil
  | cons hab _ ih => exact All2.cons (h _ _ hab) ih

theorem All2.map_left_self {α β : Type} {R : α → β → Prop} (f : α → β) (h : ∀ a, R a (f a)) :
    ∀ (l : List α), All2 R l (l.map f) := by
  intro l; induction l with
  | nil => exact All2.nil
  | cons a l ih => exact All2.cons (h a) ih

theorem All2.flip_map {α β : Type} {R : α → β → Prop} {R' : β → α → Prop} (f : α → α)
    (h : ∀ a b, R a b → R' b (f a)) : ∀ {l1 : List α} {l2 : List β}, All2 R l1 l2 → All2 R' l2 (l1.map f) := by
  intro l1 l2 hl
  induction hl with
  | nil => exact All2.nil
  | cons hab _ ih => exact All2.cons (h _ _ hab) ih

theorem All2.get? {α β : Type} {R : α → β → Prop} : ∀ {l1 : List α} {l2 : List β}, All2 R l1 l2 →
    ∀ (i : Nat) (a : α), l1[i]? = some a → ∃ b, l2[i]? = some b ∧ R a b := by
  intro l1 l2 hl
  induction hl with
  | nil => intro i a h; simp at h
  | cons hab _ ih =>
    intro i a h
    cases i with
    | zero => simp only [List.getElem?_cons_zero, Option.some.injEq] at h ⊢; subst h; exact ⟨_, rfl, hab⟩
    | succ i => simp only [List.getElem?_cons_succ] at h ⊢; exact ih i a h

theorem All2.get?_none {α β : Type} {R : α → β → Prop} : ∀ {l1 : List α} {l2 : List β}, All2 R l1 l2 →
    ∀ (i : Nat), l1[i]? = none → l2[i]? = none := by
  intro l1 l2 hl
  induction hl with
  | nil => intro i _; simp
  | cons hab _ ih =>
    intro i h
    cases i with
    | zero => simp at h
    | succ i => simp only [List.getElem?_cons_succ] at h ⊢; exact ih i h

theorem All2.mem_left {α β : Type} {R : α → β → Prop} : ∀ {l1 : List α} {l2 : List β}, All2 R l1 l2 →
    ∀ a ∈ l1, ∃ b ∈ l2, R a b := by
  intro l1 l2 hl
  induction hl with
  | nil => intro a h; cases h
  | cons hab _ ih =>
    intro a h
    rcases List.mem_cons.mp h with rfl | h
    · exact ⟨_, List.mem_cons_self, hab⟩
    · obtain ⟨b, hb, hr⟩ := ih a h
      exact ⟨b, List.mem_cons_of_mem _ hb, hr⟩

/-! ### Monotonicity of prerequisite satisfaction -/

/-- same atoms, flags only raised -/
def AtomsLe (xa ya : List (Atom × Bool)) : Prop :=
  All2 (fun x y => y.1 = x.1 ∧ (x.2 = true → y.2 = true)) xa ya

theorem BE.eval_mono {f h : Nat → Bool} (hfh : ∀ i, f i = true → h i = true) :
    ∀ e : BE, e.eval f = true → e.eval h = true := by
  intro e; induction e with
  | atom i => exact hfh i
  | and l r ihl ihr =>
    intro he
    simp only [BE.eval, Bool.and_eq_true] at he ⊢
    exact ⟨ihl he.1, ihr he.2⟩
  | or l r ihl ihr =>
    intro he
    simp only [BE.eval, Bool.or_eq_true] at he ⊢
    rcases he with he | he
    · exact Or.inl (ihl he)
    · exact Or.inr (ihr he)

theorem isSatisfied_mono {p q : Pre} (he : q.expr = p.expr) (hle : AtomsLe p.atoms q.atoms)
    (hp : p.isSatisfied = true) : q.isSatisfied = true := by
  unfold Pre.isSatisfied at *
  rw [he]
  cases hexp : p.expr with
  | none =>
    simp only [hexp] at hp ⊢
    unfold AtomsLe at hle
    generalize p.atoms = pa at hle hp
    generalize q.atoms = qa at hle
    induction hle with
    | nil => rfl
    | cons hab _ ih =>
      simp only [List.all_cons, Bool.and_eq_true] at hp ⊢
      exact ⟨hab.2 hp.1, ih hp.2⟩
  | some e =>
    simp only [hexp] at hp ⊢
    apply BE.eval_mono _ e hp
    intro i hi
    cases hpi : p.atoms[i]? with
    | none => simp [hpi] at hi
    | some a =>
      obtain ⟨b, hb, hr⟩ := All2.get? hle i a hpi
      simp only [hpi] at hi
      simp only [hb]
      exact hr.2 hi

/-- the prerequisite with the flags of the atoms selected by `f` raised -/
def Pre.raise (f : Atom → Bool) (p : Pre) : Pre :=
  { p with atoms := p.atoms.map fun ab => (ab.1, ab.2 || f ab.1) }

theorem raise_mono {f h : Atom → Bool} (hfh : ∀ a, f a = true → h a = true) (p : Pre)
    (hp : (p.raise f).isSatisfied = true) : (p.raise h).isSatisfied = true := by
  refine isSatisfied_mono (p := p.raise f) (q := p.raise h) rfl ?_ hp
  unfold AtomsLe Pre.raise
  simp only
  generalize p.atoms = l
  induction l with
  | nil => exact All2.nil
  | cons a l ih =>
    refine All2.cons ⟨rfl, ?_⟩ ih
    simp only [Bool.or_eq_true]
    intro h1
    rcases h1 with h1 | h1
    · exact Or.inl h1
    · exact Or.inr (hfh _ h1)


/-! ### Proxy prerequisites against the graph's -/

/-- `xa` are the graph atoms `da` with flags raised only where the graph had them raised or `C` justifies -/
def AtomsRel (C : Atom → Bool) (da xa : List (Atom × Bool)) : Prop :=
  All2 (fun d x => x.1 = d.1 ∧ (x.2 = true → d.2 = true ∨ C d.1 = true)) da xa

def PreRel (C : Atom → Bool) (dp xp : Pre) : Prop := xp.expr = dp.expr ∧ AtomsRel C dp.atoms xp.atoms

def PresRel (C : Atom → Bool) (dps xps : List Pre) : Prop := All2 (PreRel C) dps xps

theorem PresRel.refl (C : Atom → Bool) (l : List Pre) : PresRel C l l := by
  unfold PresRel
  have := All2.map_left_self (R := PreRel C) id (by
    intro p
    refine ⟨rfl, ?_⟩
    unfold AtomsRel
    have := All2.map_left_self (R := fun (d x : Atom × Bool) => x.1 = d.1 ∧ (x.2 = true → d.2 = true ∨ C d.1 = true)) id
      (by intro a; exact ⟨rfl, fun h => Or.inl h⟩) p.atoms
    simpa using this) l
  simpa using this

theorem PresRel.mono {C C' : Atom → Bool} (h : ∀ a, C a = true → C' a = true) {d x : List Pre}
    (hr : PresRel C d x) : PresRel C' d x := by
  unfold PresRel at *
  apply All2.imp _ hr
  intro dp xp hp
  refine ⟨hp.1, ?_⟩
  apply All2.imp _ hp.2
  intro a b hab
  refine ⟨hab.1, fun hb => ?_⟩
  rcases hab.2 hb with h1 | h1
  · exact Or.inl h1
  · exact Or.inr (h _ h1)

theorem PresRel.satisfy {C : Atom → Bool} {a : Atom} (ha : C a = true) {d x : List Pre}
    (hr : PresRel C d x) : PresRel C d (x.map (·.satisfy a)) := by
  unfold PresRel at *
  apply All2.map_right _ _ hr
  intro dp xp hp
  refine ⟨hp.1, ?_⟩
  unfold Pre.satisfy
  simp only
  apply All2.map_right _ _ hp.2
  intro da xa hx
  split
  · rename_i heq
    have : xa.1 = a := by simpa using heq
    refine ⟨hx.1, fun _ => Or.inr ?_⟩
    rw [← hx.1, this]; exact ha
  · exact hx

theorem PreRel.sat {C : Atom → Bool} {dp xp : Pre} (hr : PreRel C dp xp) (hs : xp.isSatisfied = true) :
    (dp.raise C).isSatisfied = true := by
  refine isSatisfied_mono (p := xp) (q := dp.raise C) hr.1.symm ?_ hs
  unfold AtomsLe Pre.raise
  simp only
  apply All2.flip_map _ _ hr.2
  intro d x hdx
  refine ⟨hdx.1.symm, fun hx => ?_⟩
  simp only [Bool.or_eq_true]
  exact hdx.2 hx

theorem satisfy_isSatisfied (p : Pre) (a : Atom) (h : p.isSatisfied = true) : (p.satisfy a).isSatisfied = true := by
  refine isSatisfied_mono (p := p) (q := p.satisfy a) rfl ?_ h
  unfold AtomsLe Pre.satisfy
  simp only
  generalize p.atoms = l
  induction l with
  | nil => exact All2.nil
  | cons b l ih =>
    refine All2.cons ?_ ih
    simp only
    split
    · exact ⟨rfl, fun _ => rfl⟩
    · exact ⟨rfl, fun h => h⟩

theorem prereqsSatisfied_satisfyMe (x : Proxy) (a : Atom) (h : x.prereqsSatisfied = true) :
    (x.satisfyMe a).prereqsSatisfied = true := by
  unfold Proxy.prereqsSatisfied Proxy.satisfyMe at *
  simp only [List.all_map, List.all_eq_true, Function.comp] at *
  intro p hp
  exact satisfy_isSatisfied p a (h p hp)

/-! ### The spawn-on-demand closure -/

/-- instances that spawn-on-demand can create, given the completed outputs `C`: parentless points of a
task, and graph children of completed outputs of instances of the closure -/
inductive Spawnable (g : Graph) (C : Atom → Prop) : String → Int → Prop
  | first {t : TaskDefn} {n : String} {p : Int} : t ∈ g.tasks → t.name = n → t.firstParentless = some p →
      Spawnable g C n p
  | next {n : String} {q p : Int} : nextPl g n q = some p → Spawnable g C n p
  | child {u : String} {q : Int} {out : String} {c : Child} : Spawnable g C u q → C ⟨q, u, out⟩ →
      c ∈ childrenAt g u q out → Spawnable g C c.name c.pt

theorem Spawnable.mono {g : Graph} {C C' : Atom → Prop} (h : ∀ a, C a → C' a) {n : String} {p : Int}
    (hs : Spawnable g C n p) : Spawnable g C' n p := by
  induction hs with
  | first h1 h2 h3 => exact Spawnable.first h1 h2 h3
  | next h1 => exact Spawnable.next h1
  | child _ h2 h3 ih => exact Spawnable.child ih (h _ h2) h3

/-- a valid instance within the bounds whose proxy prerequisites are the graph's, raised with justification -/
def Valid (g : Graph) (C : Atom → Bool) (x : Proxy) : Prop :=
  ∃ t d, g.task? x.name = some t ∧ t.inst? x.pt = some d ∧ g.icp ≤ x.pt ∧ x.pt ≤ g.fcp ∧
    PresRel C d.pre x.pre ∧ PresRel C d.sui x.sui

theorem Valid.mono {g : Graph} {C C' : Atom → Bool} (h : ∀ a, C a = true → C' a = true) {x : Proxy}
    (hv : Valid g C x) : Valid g C' x := by
  obtain ⟨t, d, h1, h2, h3, h4, h5, h6⟩ := hv
  exact ⟨t, d, h1, h2, h3, h4, h5.mono h, h6.mono h⟩

/-- a launch `(point, name, submit number)` is justified by the completed outputs `C`: the instance is a valid
instance of the graph within the bounds, every prerequisite expression of the instance is true when an atom
counts as satisfied iff it is initially satisfied in the graph or its output is in `C`, and the instance is in
the spawn-on-demand closure -/
def LaunchOK (g : Graph) (C : Atom → Bool) (l : Int × String × Nat) : Prop :=
  ∃ t d, g.task? l.2.1 = some t ∧ t.inst? l.1 = some d ∧ g.icp ≤ l.1 ∧ l.1 ≤ g.fcp ∧
    (∀ pre ∈ d.pre, (pre.raise C).isSatisfied = true) ∧ Spawnable g (fun a => C a = true) l.2.1 l.1

theorem LaunchOK.mono {g : Graph} {C C' : Atom → Bool} (h : ∀ a, C a = true → C' a = true)
    {l : Int × String × Nat} (hl : LaunchOK g C l) : LaunchOK g C' l := by
  obtain ⟨t, d, h1, h2, h3, h4, h5, h6⟩ := hl
  exact ⟨t, d, h1, h2, h3, h4, fun pre hp => raise_mono h pre (h5 pre hp), h6.mono h⟩

structure C01Inv (g : Graph) (s : State) : Prop where
  valid : ∀ x ∈ s.pool, Valid g (completedB s) x
  queued : ∀ x ∈ s.pool, x.queued = true → x.prereqsSatisfied = true ∧ x.runahead = false
  abs : ∀ a ∈ s.absDone, completedB s a = true
  launched : ∀ l ∈ s.launched, LaunchOK g (completedB s) l
  spPool : ∀ x ∈ s.pool, Spawnable g (fun a => completedB s a = true) x.name x.pt
  spHist : ∀ h ∈ s.hist, Spawnable g (fun a => completedB s a = true) h.name h.pt


/-! ### Shape of the atomic updates -/

theorem setComplete_fields (g : Graph) (x : Proxy) (m : String) :
    (setComplete g x m).1.pre = x.pre ∧ (setComplete g x m).1.sui = x.sui ∧
    (setComplete g x m).1.queued = x.queued ∧ (setComplete g x m).1.runahead = x.runahead ∧
    (setComplete g x m).1.submitNum = x.submitNum ∧ (setComplete g x m).1.execTry = x.execTry ∧
    (setComplete g x m).1.subTry = x.subTry := by
  rcases setComplete_spec g x m with h | h
  · rw [h.1]; exact ⟨rfl, rfl, rfl, rfl, rfl, rfl, rfl⟩
  · rw [h.2.2.1]; exact ⟨rfl, rfl, rfl, rfl, rfl, rfl, rfl⟩

theorem upd_pre {g : Graph} {K : Kinds} {s : State} {x y : Proxy} (h : Upd g K s x y) :
    (y.pre = x.pre ∧ y.sui = x.sui) ∨
    (∃ a, justB s a = true ∧ y.pre = x.pre.map (·.satisfy a) ∧ y.sui = x.sui.map (·.satisfy a)) := by
  cases h with
  | refl => exact Or.inl ⟨rfl, rfl⟩
  | setc msg => have := setComplete_fields g x msg; exact Or.inl ⟨this.1, this.2.1⟩
  | failedFinal =>
    left
    split
    · have := setComplete_fields g (x.reset (status := some .failed)) "failed"
      exact ⟨by simpa using this.1, by simpa using this.2.1⟩
    · simp
  | subFailedFinal =>
    left
    split
    · have := setComplete_fields g (x.reset (status := some .submitFailed)) "submit-failed"
      exact ⟨by simpa using this.1, by simpa using this.2.1⟩
    · simp
  | satisfy a hj => exact Or.inr ⟨a, hj, rfl, rfl⟩
  | unwait => exact Or.inl ⟨rfl, rfl⟩
  | _ => left; simp

theorem upd_qr {g : Graph} {K : Kinds} {s : State} {x y : Proxy} (h : Upd g K s x y) :
    y.queued = false ∨ (y.queued = x.queued ∧ (y.runahead = x.runahead ∨ y.runahead = false)) ∨
    (x.isReadyToRun = true ∧ x.runahead = false ∧ y.runahead = false) := by
  cases h with
  | refl => exact Or.inr (Or.inl ⟨rfl, Or.inl rfl⟩)
  | setc msg => have := setComplete_fields g x msg; exact Or.inr (Or.inl ⟨this.2.2.1, Or.inl this.2.2.2.1⟩)
  | failedFinal =>
    right; left
    split
    · have := setComplete_fields g (x.reset (status := some .failed)) "failed"
      exact ⟨by simpa using this.2.2.1, Or.inl (by simpa using this.2.2.2.1)⟩
    · simp
  | subFailedFinal =>
    right; left
    split
    · have := setComplete_fields g (x.reset (status := some .submitFailed)) "submit-failed"
      exact ⟨by simpa using this.2.2.1, Or.inl (by simpa using this.2.2.2.1)⟩
    · simp
  | satisfy a hj => exact Or.inr (Or.inl ⟨rfl, Or.inl rfl⟩)
  | unwait => exact Or.inr (Or.inl ⟨rfl, Or.inl rfl⟩)
  | submitted => left; simp
  | release => right; left; simp
  | queue hq =>
    right; right
    simp only [Bool.and_eq_true, Bool.not_eq_true'] at hq
    exact ⟨hq.2, hq.1.2, by simpa using hq.1.2⟩
  | _ => right; left; simp

theorem upd_valid {g : Graph} {K : Kinds} {s : State} {x y : Proxy} (h : Upd g K s x y)
    {C : Atom → Bool} (hC : ∀ a, justB s a = true → C a = true) (hv : Valid g C x) : Valid g C y := by
  obtain ⟨t, d, h1, h2, h3, h4, h5, h6⟩ := hv
  have hk := upd_key h
  refine ⟨t, d, by rw [hk.2]; exact h1, by rw [hk.1]; exact h2, by rw [hk.1]; exact h3, by rw [hk.1]; exact h4, ?_, ?_⟩
  · rcases upd_pre h with hp | ⟨a, ha, hp, _⟩
    · rw [hp.1]; exact h5
    · rw [hp]; exact h5.satisfy (hC a ha)
  · rcases upd_pre h with hp | ⟨a, ha, _, hp⟩
    · rw [hp.2]; exact h6
    · rw [hp]; exact h6.satisfy (hC a ha)

theorem isReady_prereqs {x : Proxy} (h : x.isReadyToRun = true) : x.prereqsSatisfied = true := by
  unfold Proxy.isReadyToRun at h
  simp only [Bool.and_eq_true] at h
  exact h.1.2

theorem prereqs_of_pre_eq {x y : Proxy} (h : y.pre = x.pre) : y.prereqsSatisfied = x.prereqsSatisfied := by
  unfold Proxy.prereqsSatisfied; rw [h]

theorem upd_queued {g : Graph} {K : Kinds} {s : State} {x y : Proxy} (h : Upd g K s x y)
    (hx : x.queued = true → x.prereqsSatisfied = true ∧ x.runahead = false) :
    y.queued = true → y.prereqsSatisfied = true ∧ y.runahead = false := by
  intro hq
  have hpre : x.prereqsSatisfied = true → y.prereqsSatisfied = true := by
    intro hp
    rcases upd_pre h with hp' | ⟨a, _, hp', _⟩
    · rw [prereqs_of_pre_eq hp'.1]; exact hp
    · have := prereqsSatisfied_satisfyMe x a hp
      unfold Proxy.prereqsSatisfied at this ⊢
      rw [hp']
      exact this
  rcases upd_qr h with h1 | ⟨h1, h2⟩ | ⟨h1, h2, h3⟩
  · rw [h1] at hq; cases hq
  · rw [h1] at hq
    have := hx hq
    refine ⟨hpre this.1, ?_⟩
    rcases h2 with h2 | h2
    · rw [h2]; exact this.2
    · exact h2
  · exact ⟨hpre (isReady_prereqs h1), h3⟩


/-! ### Preservation -/

theorem presRel_fold {C : Atom → Bool} (d : List Pre) (sel : Proxy → List Pre)
    (hsel : ∀ z a, sel (z.satisfyMe a) = (sel z).map (·.satisfy a)) :
    ∀ (l : List Atom), (∀ a ∈ l, C a = true) → ∀ z : Proxy, PresRel C d (sel z) →
      PresRel C d (sel (l.foldl (fun z a => z.satisfyMe a) z)) := by
  intro l; induction l with
  | nil => intro _ z h; exact h
  | cons a l ih =>
    intro hl z h
    simp only [List.foldl_cons]
    apply ih (fun b hb => hl b (List.mem_cons_of_mem _ hb))
    rw [hsel]
    exact h.satisfy (hl a List.mem_cons_self)

theorem spawned_valid {g : Graph} {s : State} {y0 y : Proxy} {C : Atom → Bool}
    (hC : ∀ a, justB s a = true → C a = true)
    (hsp : spawnTask g s y.name y.pt = some y0)
    (hy : y = y0 ∨ ∃ a, justB s a = true ∧ y = y0.satisfyMe a) : Valid g C y := by
  obtain ⟨x0, y1, hm, hrev, hy0⟩ := spawnTask_spec hsp
  obtain ⟨t, d, h1, h2, h3, h4, hx0⟩ := mkProxy_spec hm
  have hy1 : y1.pre = d.pre ∧ y1.sui = d.sui := by
    rcases hrev with ⟨_, _, rfl⟩ | ⟨hr, _, _, rfl⟩ <;> (subst hx0; exact ⟨rfl, rfl⟩)
  have habs : ∀ a ∈ s.absDone, C a = true := by
    intro a ha
    apply hC
    unfold justB
    simp [ha]
  have hp0 : PresRel C d.pre y0.pre ∧ PresRel C d.sui y0.sui := by
    rcases hy0 with rfl | rfl
    · rw [hy1.1, hy1.2]; exact ⟨PresRel.refl _ _, PresRel.refl _ _⟩
    · constructor
      · exact presRel_fold d.pre (·.pre) (fun _ _ => rfl) _ habs y1 (by rw [hy1.1]; exact PresRel.refl _ _)
      · exact presRel_fold d.sui (·.sui) (fun _ _ => rfl) _ habs y1 (by rw [hy1.2]; exact PresRel.refl _ _)
  refine ⟨t, d, h1, h2, h3, h4, ?_, ?_⟩
  · rcases hy with rfl | ⟨a, ha, rfl⟩
    · exact hp0.1
    · exact hp0.1.satisfy (hC a ha)
  · rcases hy with rfl | ⟨a, ha, rfl⟩
    · exact hp0.2
    · exact hp0.2.satisfy (hC a ha)

theorem completedB_key {s : State} {a : Atom} (h : completedB s a = true) :
    (∃ z ∈ s.pool, z.pt = a.pt ∧ z.name = a.task) ∨ (∃ h ∈ s.hist, h.pt = a.pt ∧ h.name = a.task) := by
  rw [completedB_iff] at h
  rcases h with ⟨z, hz, h1, h2, _⟩ | ⟨z, hz, h1, h2, _⟩
  · exact Or.inl ⟨z, hz, h1, h2⟩
  · exact Or.inr ⟨z, hz, h1, h2⟩

theorem c01_act {g : Graph} {K : Kinds} {s s' : State}
    (hi : RInv g s) (hinv : C01Inv g s) (ha : Act g K s s') : C01Inv g s' := by
  have hC : ∀ a, completedB s a = true → completedB s' a = true := fun a h => completedB_act hi.nodup ha h
  have hJ : ∀ a, justB s a = true → completedB s' a = true := by
    intro a h
    unfold justB at h
    simp only [Bool.or_eq_true, List.contains_iff_mem] at h
    rcases h with h | h
    · exact hC a (hinv.abs a h)
    · exact hC a h
  have hvOld : ∀ x ∈ s.pool, Valid g (completedB s') x := fun x hx => (hinv.valid x hx).mono hC
  have hspOld : ∀ x ∈ s.pool, Spawnable g (fun a => completedB s' a = true) x.name x.pt :=
    fun x hx => (hinv.spPool x hx).mono hC
  have hshOld : ∀ h ∈ s.hist, Spawnable g (fun a => completedB s' a = true) h.name h.pt :=
    fun h hh => (hinv.spHist h hh).mono hC
  have hlOld : ∀ l ∈ s.launched, LaunchOK g (completedB s') l := fun l hl => (hinv.launched l hl).mono hC
  have habsOld : ∀ a ∈ s.absDone, completedB s' a = true := fun a h => hC a (hinv.abs a h)
  cases ha with
  | frame hp hs =>
    exact ⟨by rw [hp]; exact hvOld, by rw [hp]; exact hinv.queued, by rw [hs.2.1]; exact habsOld,
      by rw [hs.2.2]; exact hlOld, by rw [hp]; exact hspOld, by rw [hs.1]; exact hshOld⟩
  | upd x y hg hu hp hs =>
    have hxm := (get?_some_spec hg).1
    have hk := upd_key hu
    refine ⟨?_, ?_, by rw [hs.2.1]; exact habsOld, by rw [hs.2.2]; exact hlOld, ?_, by rw [hs.1]; exact hshOld⟩
    · intro z hz
      rw [hp] at hz
      rcases mem_put hz with rfl | hz
      · exact upd_valid hu hJ (hvOld x hxm)
      · exact hvOld z hz
    · intro z hz
      rw [hp] at hz
      rcases mem_put hz with rfl | hz
      · exact upd_queued hu (hinv.queued x hxm)
      · exact hinv.queued z hz
    · intro z hz
      rw [hp] at hz
      rcases mem_put hz with rfl | hz
      · rw [hk.1, hk.2]; exact hspOld x hxm
      · exact hspOld z hz
  | launch x hg hq hp hh ha hl =>
    have hxm := (get?_some_spec hg).1
    have hvx := hvOld x hxm
    refine ⟨?_, ?_, by rw [ha]; exact habsOld, ?_, ?_, by rw [hh]; exact hshOld⟩
    · intro z hz
      rw [hp] at hz
      rcases mem_put hz with rfl | hz
      · obtain ⟨t, d, h1, h2, h3, h4, h5, h6⟩ := hvx
        exact ⟨t, d, by simpa using h1, by simpa using h2, by simpa using h3, by simpa using h4,
          by simpa using h5, by simpa using h6⟩
      · exact hvOld z hz
    · intro z hz
      rw [hp] at hz
      rcases mem_put hz with rfl | hz
      · intro hq'; simp at hq'
      · exact hinv.queued z hz
    · intro l hl'
      rw [hl] at hl'
      rcases List.mem_append.mp hl' with hl' | hl'
      · exact hlOld l hl'
      · simp only [List.mem_singleton] at hl'
        subst hl'
        obtain ⟨t, d, h1, h2, h3, h4, h5, _⟩ := hvx
        refine ⟨t, d, h1, h2, h3, h4, ?_, hspOld x hxm⟩
        intro pre hpre
        obtain ⟨xp, hxp, hrel⟩ := All2.mem_left h5 pre hpre
        apply hrel.sat
        have := (hinv.queued x hxm hq).1
        unfold Proxy.prereqsSatisfied at this
        exact List.all_eq_true.mp this xp hxp
    · intro z hz
      rw [hp] at hz
      rcases mem_put hz with rfl | hz
      · simpa using hspOld x hxm
      · exact hspOld z hz
  | spawn y0 y hg hsp hy hw hp hs =>
    refine ⟨?_, ?_, by rw [hs.2.1]; exact habsOld, by rw [hs.2.2]; exact hlOld, ?_, by rw [hs.1]; exact hshOld⟩
    · intro z hz
      rw [hp] at hz
      rcases List.mem_append.mp hz with hz | hz
      · exact hvOld z hz
      · simp only [List.mem_singleton] at hz
        subst hz
        exact spawned_valid hJ hsp hy
    · intro z hz
      rw [hp] at hz
      rcases List.mem_append.mp hz with hz | hz
      · exact hinv.queued z hz
      · simp only [List.mem_singleton] at hz
        subst hz
        intro hq
        obtain ⟨x0, hm, hc⟩ := spawned_spec hsp hy
        obtain ⟨t, d, _, _, _, _, hx0⟩ := mkProxy_spec hm
        rcases hc with ⟨_, _, hc⟩ | ⟨hr, _, _, hc⟩ <;>
        · simp only [Proxy.core, Prod.mk.injEq] at hc
          rw [hc.2.2.2.2.1, hx0] at hq
          cases hq
    · intro z hz
      rw [hp] at hz
      rcases List.mem_append.mp hz with hz | hz
      · exact hspOld z hz
      · simp only [List.mem_singleton] at hz
        subst hz
        rcases hw with ⟨t, ht, hn, hf⟩ | ⟨q, hq⟩ | ⟨q, u, out, c, hc, hcn, hcp, hcomp⟩
        · exact Spawnable.first ht hn hf
        · exact Spawnable.next hq
        · rw [← hcn, ← hcp]
          refine Spawnable.child ?_ (hC _ hcomp) hc
          rcases completedB_key hcomp with ⟨w, hw, h1, h2⟩ | ⟨w, hw, h1, h2⟩
          · have := hspOld w hw
            rw [h1, h2] at this; exact this
          · have := hshOld w hw
            rw [h1, h2] at this; exact this
  | remove x hg hp hh ha hl =>
    have hxm := (get?_some_spec hg).1
    refine ⟨?_, ?_, by rw [ha]; exact habsOld, by rw [hl]; exact hlOld, ?_, ?_⟩
    · intro z hz; rw [hp] at hz; exact hvOld z (List.mem_filter.mp hz).1
    · intro z hz; rw [hp] at hz; exact hinv.queued z (List.mem_filter.mp hz).1
    · intro z hz; rw [hp] at hz; exact hspOld z (List.mem_filter.mp hz).1
    · intro h hm
      rw [hh] at hm
      rcases List.mem_append.mp hm with hm | hm
      · exact hshOld h hm
      · simp only [List.mem_singleton] at hm
        subst hm
        exact hspOld x hxm
  | absAdd a hc hp hh ha' hl =>
    refine ⟨by rw [hp]; exact hvOld, by rw [hp]; exact hinv.queued, ?_, by rw [hl]; exact hlOld,
      by rw [hp]; exact hspOld, by rw [hh]; exact hshOld⟩
    intro b hb
    rw [ha'] at hb
    rcases List.mem_append.mp hb with hb | hb
    · exact habsOld b hb
    · simp only [List.mem_singleton] at hb
      subst hb
      exact hC _ hc
  | clearUpd hp hs =>
    refine ⟨?_, ?_, by rw [hs.2.1]; exact habsOld, by rw [hs.2.2]; exact hlOld, ?_, by rw [hs.1]; exact hshOld⟩
    · intro z hz
      rw [hp] at hz
      obtain ⟨w, hw, rfl⟩ := List.mem_map.mp hz
      exact hvOld w hw
    · intro z hz
      rw [hp] at hz
      obtain ⟨w, hw, rfl⟩ := List.mem_map.mp hz
      exact hinv.queued w hw
    · intro z hz
      rw [hp] at hz
      obtain ⟨w, hw, rfl⟩ := List.mem_map.mp hz
      exact hspOld w hw

theorem c01_empty (g : Graph) : C01Inv g ({} : State) :=
  ⟨(by intro x hx; cases hx), (by intro x hx; cases hx), (by intro x hx; cases hx), (by intro x hx; cases hx),
   (by intro x hx; cases hx), (by intro x hx; cases hx)⟩


/-! ### Runs -/

/-- the states of a run from `s`: `s`, then the state after each operation -/
def trace (g : Graph) : State → List Op → List State
  | s, [] => [s]
  | s, op :: ops => s :: trace g (step g s op) ops

theorem trace_ne_nil (g : Graph) (s : State) (ops : List Op) : trace g s ops = s :: (trace g s ops).tail := by
  cases ops <;> rfl

theorem run_eq_trace (g : Graph) (ops : List Op) : run g ops = trace g (init g) ops := by
  unfold run
  have key : ∀ (ops : List Op) (acc : List State) (cur : State),
      (ops.foldl (fun (a : List State × State) op =>
          let s' := step g a.2 op; (a.1 ++ [s'], s')) (acc, cur)).1 = acc ++ (trace g cur ops).tail := by
    intro ops; induction ops with
    | nil => intro acc cur; simp [trace]
    | cons op ops ih =>
      intro acc cur
      simp only [List.foldl_cons]
      rw [ih]
      simp only [trace, List.tail_cons, List.append_assoc, List.singleton_append]
      rw [← trace_ne_nil]
  rw [key]
  rw [List.singleton_append, ← trace_ne_nil]

theorem trace_inv (g : Graph) (P : State → Prop) (E : State → Op → Bool)
    (hs : ∀ s op, P s → E s op = true → P (step g s op)) :
    ∀ (ops : List Op) (s : State), P s → envAll E g s ops = true → ∀ s' ∈ trace g s ops, P s' := by
  intro ops; induction ops with
  | nil => intro s hp _ s' hm; simp only [trace, List.mem_singleton] at hm; subst hm; exact hp
  | cons op ops ih =>
    intro s hp he s' hm
    simp only [envAll, Bool.and_eq_true] at he
    simp only [trace, List.mem_cons] at hm
    rcases hm with rfl | hm
    · exact hp
    · exact ih _ (hs s op hp he.1) he.2 s' hm

theorem envAll_noEnv (g : Graph) : ∀ (ops : List Op) (s : State), envAll noEnv g s ops = true := by
  intro ops; induction ops with
  | nil => intro s; rfl
  | cons op ops ih => intro s; simp only [envAll, noEnv, Bool.true_and]; exact ih _

/-- lifting of an invariant of the atomic actions to all states of all runs -/
theorem run_inv_act {g : Graph} (hwf : g.wf = true) (K : Kinds) (hs : K.sched = true) (hmsg : ∀ x, K.msg x = true)
    (hlive : ∀ x, K.live x = true) (hret : K.retry = true) (hsui : K.sui = true)
    (E : State → Op → Bool)
    (hE : ∀ s op, E s op = true → (∀ x, K.allow x = true) ∨ opOK K.allow s op = true)
    (P : State → Prop) (h0 : P ({} : State))
    (hact : ∀ s s', RInv g s → P s → Act g K s s' → P s')
    (hclear : ∀ s, P s → P (clearOp s)) :
    ∀ (ops : List Op), envAll E g (init g) ops = true → ∀ s ∈ run g ops, RInv g s ∧ P s := by
  intro ops he s hm
  rw [run_eq_trace] at hm
  have hstep : ∀ a b, Steps g K a b → (RInv g a ∧ P a) → (RInv g b ∧ P b) := by
    intro a b hab hpa
    exact Steps.inv (fun st => RInv g st ∧ P st)
      (fun s s' h ha => ⟨rinv_act hwf h.1 ha, hact s s' h.1 h.2 ha⟩) hab hpa
  refine trace_inv g (fun st => RInv g st ∧ P st) E ?_ ops (init g) ?_ he s hm
  · intro st op hp hop
    exact hstep _ _ (steps_step hwf hs hmsg hlive hret hsui hp.1 op (hE st op hop)) ⟨rinv_clearOp hp.1, hclear st hp.2⟩
  · exact hstep _ _ (steps_init hwf hs) ⟨rinv_empty, h0⟩

theorem c01_clearOp {g : Graph} {s : State} (h : C01Inv g s) : C01Inv g (clearOp s) :=
  ⟨h.valid, h.queued, h.abs, (by intro l hl; cases hl), h.spPool, h.spHist⟩

/-- the C01 invariants hold in every state of every run -/
theorem c01_run {g : Graph} (hwf : g.wf = true) (ops : List Op) : ∀ s ∈ run g ops, RInv g s ∧ C01Inv g s :=
  run_inv_act hwf Kinds.all rfl (fun _ => rfl) (fun _ => rfl) rfl rfl noEnv (fun _ _ _ => Or.inl (fun _ => rfl)) (C01Inv g) (c01_empty g)
    (fun _ _ hi hp ha => c01_act hi hp ha) (fun _ h => c01_clearOp h) ops (envAll_noEnv g ops _)


/-! ### Launches are justified by what was completed before the operation -/

/-- only scheduler-driven actions: no message-driven update -/
def Kinds.schedOnly : Kinds := ⟨fun _ => true, fun _ => false, true, fun _ => true, true, true⟩

/-- only message-driven actions: no release / queue / launch -/
def Kinds.msgOnly : Kinds := ⟨fun _ => true, fun _ => true, false, fun _ => true, true, true⟩

theorem upd_quiet_done {g : Graph} {K : Kinds} (hK : ∀ x, K.msg x = false) {s : State} {x y : Proxy}
    (h : Upd g K s x y) : y.done = x.done := by
  cases h with
  | refl => rfl
  | satisfy => rfl
  | unwait => rfl
  | release => simp
  | queue => simp
  | setc _ _ _ hm => rw [hK] at hm; cases hm
  | running hm => rw [hK] at hm; cases hm
  | succeeded hm => rw [hK] at hm; cases hm
  | execRetry _ hm => rw [hK] at hm; cases hm
  | failedFinal _ hm => rw [hK] at hm; cases hm
  | subRetry _ _ hm => rw [hK] at hm; cases hm
  | subFailedFinal _ _ hm => rw [hK] at hm; cases hm
  | submitted _ hm => rw [hK] at hm; cases hm

/-- without message-driven updates nothing new is recorded complete -/
theorem quiet_act {g : Graph} {K : Kinds} (hK : ∀ x, K.msg x = false) {s s' : State} (ha : Act g K s s')
    {a : Atom} (hc : completedB s' a = true) : completedB s a = true := by
  rw [completedB_iff] at hc ⊢
  have hput : ∀ (x y : Proxy), s.get? y.pt y.name = some x → y.pt = x.pt → y.name = x.name → y.done = x.done →
      (∃ z ∈ (s.put y).pool, z.pt = a.pt ∧ z.name = a.task ∧ a.out ∈ z.done) →
      ∃ z ∈ s.pool, z.pt = a.pt ∧ z.name = a.task ∧ a.out ∈ z.done := by
    intro x y hg h1 h2 h3 ⟨z, hz, hzp, hzn, hzo⟩
    rcases mem_put hz with rfl | hz
    · exact ⟨x, (get?_some_spec hg).1, by rw [← h1]; exact hzp, by rw [← h2]; exact hzn, by rw [← h3]; exact hzo⟩
    · exact ⟨z, hz, hzp, hzn, hzo⟩
  cases ha with
  | frame hp hs => rw [hp, hs.1] at hc; exact hc
  | absAdd a' hc' hp hh ha hl => rw [hp, hh] at hc; exact hc
  | upd x y hg hu hp hs =>
    rw [hp, hs.1] at hc
    rcases hc with hc | hc
    · exact Or.inl (hput x y hg (upd_key hu).1 (upd_key hu).2 (upd_quiet_done hK hu) hc)
    · exact Or.inr hc
  | launch x hg hq hp hh ha hl =>
    rw [hp, hh] at hc
    rcases hc with hc | hc
    · exact Or.inl (hput x (launchOf x) (by simpa using hg) (by simp) (by simp) (by simp) hc)
    · exact Or.inr hc
  | spawn y0 y hg hsp hy hw hp hs =>
    rw [hp, hs.1] at hc
    rcases hc with ⟨z, hz, hzp, hzn, hzo⟩ | hc
    · rcases List.mem_append.mp hz with hz | hz
      · exact Or.inl ⟨z, hz, hzp, hzn, hzo⟩
      · simp only [List.mem_singleton] at hz
        subst hz
        obtain ⟨x0, hm, hcs⟩ := spawned_spec hsp hy
        obtain ⟨t, d, _, _, _, _, hx0⟩ := mkProxy_spec hm
        rcases hcs with ⟨_, _, hcs⟩ | ⟨hr, hl, _, hcs⟩
        · simp only [Proxy.core, Prod.mk.injEq] at hcs
          rw [hcs.2.2.2.2.2.2.2.2.1, hx0] at hzo
          cases hzo
        · simp only [Proxy.core, Prod.mk.injEq] at hcs
          rw [hcs.2.2.2.2.2.2.2.2.1] at hzo
          have hm' := lastHist_mem hl
          exact Or.inr ⟨hr, hm'.1, by rw [hm'.2.1]; exact hzp, by rw [hm'.2.2]; exact hzn, hzo⟩
    · exact Or.inr hc
  | remove x hg hp hh ha hl =>
    rw [hp, hh] at hc
    rcases hc with ⟨z, hz, h⟩ | ⟨h, hm, hh'⟩
    · exact Or.inl ⟨z, (List.mem_filter.mp hz).1, h⟩
    · rcases List.mem_append.mp hm with hm | hm
      · exact Or.inr ⟨h, hm, hh'⟩
      · simp only [List.mem_singleton] at hm
        subst hm
        exact Or.inl ⟨x, (get?_some_spec hg).1, hh'⟩
  | clearUpd hp hs =>
    rw [hp, hs.1] at hc
    rcases hc with ⟨z, hz, h⟩ | hc
    · obtain ⟨w, hw, rfl⟩ := List.mem_map.mp hz
      exact Or.inl ⟨w, hw, h⟩
    · exact Or.inr hc

theorem quiet_steps {g : Graph} {K : Kinds} (hK : ∀ x, K.msg x = false) {s s' : State} (h : Steps g K s s')
    {a : Atom} (hc : completedB s' a = true) : completedB s a = true := by
  induction h with
  | refl => exact hc
  | tail _ hact ih => exact ih (quiet_act hK hact hc)

/-- without scheduler-driven actions nothing is launched -/
theorem nolaunch_steps {g : Graph} {K : Kinds} (hK : K.sched = false) {s s' : State} (h : Steps g K s s') :
    s'.launched = s.launched := by
  induction h with
  | refl => rfl
  | tail _ hact ih =>
    rw [← ih]
    cases hact with
    | frame hp hs => exact hs.2.2
    | upd x y hg hu hp hs => exact hs.2.2
    | launch x hg hq hp hh ha hl hs => rw [hK] at hs; cases hs
    | spawn y0 y hg hsp hy hw hp hs => exact hs.2.2
    | remove x hg hp hh ha hl => exact hl
    | absAdd a hc hp hh ha hl => exact hl
    | clearUpd hp hs => exact hs.2.2

theorem c01_steps {g : Graph} (hwf : g.wf = true) {K : Kinds} {s s' : State} (h : Steps g K s s')
    (hi : RInv g s) (hinv : C01Inv g s) : C01Inv g s' :=
  (Steps.inv (fun st => RInv g st ∧ C01Inv g st)
    (fun _ _ hp ha => ⟨rinv_act hwf hp.1 ha, c01_act hp.1 hp.2 ha⟩) h ⟨hi, hinv⟩).2

/-- **launches are justified by the state before the operation**: whatever the operation, every launch it
records is justified (`LaunchOK`) by the outputs recorded complete *before* it -/
theorem launch_justified_before {g : Graph} (hwf : g.wf = true) {s : State} (hi : RInv g s) (hinv : C01Inv g s)
    (op : Op) : ∀ l ∈ (step g s op).launched, LaunchOK g (completedB s) l := by
  have hc := rinv_clearOp hi
  have hcinv := c01_clearOp hinv
  cases op with
  | msg p n sn text => intro l hl; cases hl
  | subres p n ok sn =>
    intro l hl
    have hst : Steps g Kinds.msgOnly (clearOp s) (step g s (.subres p n ok sn)) :=
      steps_processMessage hwf 4 Kinds.msgOnly _ _ _ _ _ _ hc (Or.inl rfl) (fun _ _ _ => rfl) (fun _ => Or.inl (fun _ => rfl))
        (fun _ => rfl) (fun _ _ _ => rfl)
    rw [nolaunch_steps rfl hst] at hl
    cases hl
  | loop =>
    intro l hl
    have hstep : step g s .loop = mainLoop g (clearOp s) := rfl
    rw [hstep, mainLoop_eq] at hl
    split at hl
    · cases hl
    · obtain ⟨h1, hq1⟩ := steps_preSubmit (K := Kinds.schedOnly) hwf rfl hc
      have hinv1 := c01_steps hwf h1 hc hcinv
      have hl1 : l ∈ (preSubmit g (clearOp s)).1.launched := by
        split at hl
        · exact hl
        · have h2 : Steps g Kinds.msgOnly (preSubmit g (clearOp s)).1
              (finishLoop g (processQueue g (preSubmit g (clearOp s)).1)) :=
            steps_postSubmit hwf (fun _ => True) (fun _ _ _ _ _ => trivial) (fun _ => rfl) rfl (Or.inl rfl)
              (rinv_steps hwf h1 hc)
              trivial (fun _ _ _ _ _ => Or.inl (fun _ => rfl)) (Or.inl (fun _ => rfl))
          rw [nolaunch_steps rfl h2] at hl
          exact hl
      exact (hinv1.launched l hl1).mono (fun a ha => quiet_steps (fun _ => rfl) h1 ha)

end CylcModel.Sched
