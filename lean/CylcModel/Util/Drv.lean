/-
Shared JSON-lines driver loop and JSON accessors (Lean core + `Lean.Data.Json` only,
so that driver executables link without Mathlib).

Protocol: one JSON object per input line `{"i": <input>, "o": <observed from the implementation>}`;
one JSON object per output line `{"m": <model output>, "h": <judge on o>, "why": <string>}`.
A line the driver cannot decode yields `{"err": "..."}` (the harness treats that as a
harness/driver bug, never as agreement).
-/
import Lean.Data.Json
open Lean

namespace CylcModel.Drv

def jInt? (j : Json) : Option Int :=
  match j.getInt? with | .ok v => some v | .error _ => none

def jNat? (j : Json) : Option Nat :=
  match j.getNat? with | .ok v => some v | .error _ => none

def jStr? (j : Json) : Option String :=
  match j.getStr? with | .ok v => some v | .error _ => none

def jBool? (j : Json) : Option Bool :=
  match j.getBool? with | .ok v => some v | .error _ => none

def jArr? (j : Json) : Option (List Json) :=
  match j.getArr? with | .ok v => some v.toList | .error _ => none

def jField? (j : Json) (k : String) : Option Json :=
  match j.getObjVal? k with | .ok v => some v | .error _ => none

/-- field that may be absent or `null` -/
def jOptField (j : Json) (k : String) : Option Json :=
  match j.getObjVal? k with
  | .ok .null => none
  | .ok v => some v
  | .error _ => none

def jIntField? (j : Json) (k : String) : Option Int := (jField? j k).bind jInt?
def jNatField? (j : Json) (k : String) : Option Nat := (jField? j k).bind jNat?
def jStrField? (j : Json) (k : String) : Option String := (jField? j k).bind jStr?
def jBoolField? (j : Json) (k : String) : Option Bool := (jField? j k).bind jBool?
def jArrField? (j : Json) (k : String) : Option (List Json) := (jField? j k).bind jArr?

def jOptInt (o : Option Int) : Json := match o with | some v => Json.num (JsonNumber.fromInt v) | none => Json.null
def jOfInt (v : Int) : Json := Json.num (JsonNumber.fromInt v)
def jOfNat (v : Nat) : Json := Json.num (JsonNumber.fromNat v)
def jOfList {α} (f : α → Json) (l : List α) : Json := Json.arr (l.map f).toArray

/-- Result of handling one line. -/
structure Reply where
  model : Json
  holds : Bool
  why : String := ""

def Reply.toJson (r : Reply) : Json :=
  Json.mkObj [("m", r.model), ("h", Json.bool r.holds), ("why", Json.str r.why)]

partial def loop (handle : Json → Json → Except String Reply)
    (inp out : IO.FS.Stream) : IO Unit := do
  let line ← inp.getLine
  if line.isEmpty then return ()
  let reply : Json :=
    match Json.parse line with
    | .error e => Json.mkObj [("err", Json.str s!"json: {e}")]
    | .ok j =>
      match j.getObjVal? "i" with
      | .error e => Json.mkObj [("err", Json.str s!"no input: {e}")]
      | .ok i =>
        let o := match j.getObjVal? "o" with | .ok v => v | .error _ => Json.null
        match handle i o with
        | .ok r => r.toJson
        | .error e => Json.mkObj [("err", Json.str e)]
  out.putStrLn reply.compress
  loop handle inp out

def run (handle : Json → Json → Except String Reply) : IO Unit := do
  let out ← IO.getStdout
  loop handle (← IO.getStdin) out
  out.flush

end CylcModel.Drv
