/-
Decidable hypotheses of the C01 / C02 / C31 theorems about the `Sched` model: well-formedness of the instance
graph, the shape of sequential tasks, the environment assumption on operation lists.  Core Lean, imports the
model only, so that the drivers can evaluate them on every real case.
-/
import CylcModel.Sched

namespace CylcModel.Sched

/-- hypothesis on the instance graph: every task declares the five standard job outputs -/
def Graph.wf (g : Graph) : Bool :=
  g.tasks.all fun t => ["submitted", "started", "succeeded", "failed", "submit-failed"].all fun m =>
    t.outputs.any (·.message == m)

/-- no suicide triggers anywhere in the instance graph -/
def Graph.noSui (g : Graph) : Bool := g.tasks.all fun t => t.insts.all fun pd => pd.2.sui.isEmpty

/-- a history record of a finished instance whose outputs are complete (such an instance is never revived) -/
def histFinal (g : Graph) (h : Hist) : Bool :=
  h.status.isFinal && (match g.task? h.name with | some t => isComplete t h.done | none => false)

/-- the nearest valid point of the task before `p` -/
def prevInst (t : TaskDefn) (p : Int) : Option Int :=
  ((t.insts.map (·.1)).filter (· < p)).foldl (fun acc q => match acc with
    | none => some q
    | some a => some (max a q)) none

/-- `pre` is the previous-instance prerequisite: the single atom `q/n:succeeded`, initially satisfied only if `q`
is before the start point -/
def isSeqPre (g : Graph) (q : Int) (n : String) (pre : Pre) : Bool :=
  match pre.atoms with
  | [(a, b)] => a == (⟨q, n, "succeeded"⟩ : Atom) && (!b || decide (q < g.start)) &&
      (pre.expr == none || pre.expr == some (.atom 0))
  | _ => false

/-- **shape hypothesis** for a sequential task `n`: every instance that has an earlier instance carries the
previous-instance prerequisite on the nearest earlier instance -/
def Graph.seqShape (g : Graph) (n : String) : Bool :=
  match g.task? n with
  | none => false
  | some t => t.insts.all fun pd =>
      match prevInst t pd.1 with
      | none => true
      | some q => pd.2.pre.any (isSeqPre g q n)

/-- environment assumption on an operation in a state (with `allow x = (x.status == .preparing)`):
the job-submit callback reports a failure only for an instance that is still preparing, and no job ever
sends the message "submit-failed" -/
def opOK (allow : Proxy → Bool) (s : State) : Op → Bool
  | .loop => s.queue.all fun m => m.text != "submit-failed"
  | .subres p n ok _ => ok || (match s.get? p n with | some x => allow x | none => true)
  | .msg _ _ _ _ => true

/-- an assumption on every operation of a run, evaluated in the state the operation is applied to -/
def envAll (E : State → Op → Bool) (g : Graph) : State → List Op → Bool
  | _, [] => true
  | s, op :: ops => E s op && envAll E g (step g s op) ops

/-- no assumption -/
def noEnv : State → Op → Bool := fun _ _ => true

/-- the environment assumption of `opOK` with `allow x = (x.status == .preparing)` -/
def prepOnly : Proxy → Bool := fun x => x.status == .preparing

/-- every operation of the run respects the environment assumption -/
def envOK (g : Graph) (ops : List Op) : Bool := envAll (opOK prepOnly) g (init g) ops

end CylcModel.Sched
