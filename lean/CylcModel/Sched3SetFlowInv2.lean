/-
Flow invariant (continued): `POK D` through message processing, `cylc set`, the main loop, holds and restart.
-/
import CylcModel.Sched3SetFlowInv

namespace CylcModel.Sched3Set

theorem fok_setComplete {D : Flows} (g : Graph) (x : Proxy) (m : String) (f : Bool) (hx : FOK D x) :
    FOK D (setComplete g x m f).1 := by
  unfold setComplete
  split
  · exact hx
  · split
    · exact hx
    · exact hx

theorem pok_ite_fst {D : Flows} (c : Bool) (a b : State × Bool) (ha : POK D a.1) (hb : POK D b.1) :
    POK D (if c = true then a else b).1 := by
  cases c <;> simp [ha, hb]

theorem pok_handleMessage {D : Flows} (g : Graph) (s : State) (p : Int) (n : String) (flag : Flag) (msg : String)
    (forced : Bool) (completed : Option Bool) (h : POK D s) :
    POK D (handleMessage g s p n flag msg forced completed).1 := by
  unfold handleMessage
  split
  · exact h
  · rename_i x tr hl
    have hx : FOK D x := fok_of_lookup h hl
    have hst : ∀ y : Proxy, y.flows = x.flows → POK D (store s y tr) := fun y hy => pok_store h (fok_of_flows_eq hy hx)
    have hsc : ∀ (y : Proxy) (out : String), y.flows = x.flows → POK D (spawnChildren g (store s y tr) p n out tr forced) :=
      fun y out hy => pok_spawnChildren g _ p n out tr forced (hst y hy)
    have hfs : ∀ (y : Proxy) (m : String) (f : Bool), y.flows = x.flows → (setComplete g y m f).1.flows = x.flows := by
      intro y m f hy
      unfold setComplete
      split
      · exact hy
      · split <;> exact hy
    repeat' split
    all_goals (try dsimp only)
    all_goals first
      | exact h
      | (apply pok_spawnChildren; exact h)
      | (apply hsc; simp; done)
      | (apply hst; simp; done)
      | (apply hsc; apply hfs; simp; done)
      | (apply pok_ite_fst
         · apply hst; simp
         · first
           | (apply hsc; simp; done)
           | (apply hsc; apply hfs; simp; done))

theorem pok_processMessage {D : Flows} (g : Graph) : ∀ (fuel : Nat) (s : State) (p : Int) (n : String) (flag : Flag)
    (sn : Nat) (msg : String) (forced : Bool), POK D s → POK D (processMessage g fuel s p n flag sn msg forced).1 := by
  intro fuel
  induction fuel with
  | zero => intro s p n flag sn msg forced h; exact h
  | succ fuel ih =>
    intro s p n flag sn msg forced h
    unfold processMessage
    split
    · exact h
    · rename_i x tr hl
      have hx : FOK D x := fok_of_lookup h hl
      split
      · exact h
      · split
        · exact h
        · dsimp only
          apply pok_handleMessage
          apply foldl_inv (POK D)
          · intro st m hst; exact ih st p n _ sn m forced hst
          · apply pok_store h
            split
            · exact hx
            · exact fok_setComplete g x msg forced hx

theorem pok_forceOutput {D : Flows} (g : Graph) (p : Int) (n : String) (acc : State × Bool) (m : String)
    (h : POK D acc.1) : POK D (forceOutput g p n acc m).1 := by
  unfold forceOutput
  split
  · exact h
  · split
    · exact h
    · exact pok_processMessage g 4 acc.1 p n _ _ m true h

theorem pok_setOutputsItask {D : Flows} (g : Graph) (s : State) (p : Int) (n : String) (outs : List String)
    (h : POK D s) : POK D (setOutputsItask g s p n outs) := by
  unfold setOutputsItask
  split
  · exact h
  · dsimp only
    have hR : ∀ (l : List String) (acc : State × Bool), POK D acc.1 → POK D (l.foldl (forceOutput g p n) acc).1 := by
      intro l; induction l with
      | nil => intro acc ha; exact ha
      | cons m l ih => intro acc ha; simp only [List.foldl_cons]; exact ih _ (pok_forceOutput g p n acc m ha)
    generalize hRR : List.foldl (forceOutput g p n) (s, true) _ = R
    have hRp : POK D R.1 := by rw [← hRR]; exact hR _ _ h
    split
    · exact hRp
    · rename_i x tr hl
      have hx : FOK D x := fok_of_lookup hRp hl
      have hy : FOK D (if (x.status != Status.waiting) = true then
          x.reset (queued := some false) (runahead := some false) else x) := by
        split
        · exact fok_reset _ _ _ _ hx
        · exact hx
      split
      · exact pok_store hRp hy
      · exact pok_flushDb (pok_dbQueue _ _ _ (pok_dbQueue _ _ _ (pok_store hRp hy)))

theorem fok_forceSatisfy {D : Flows} {x : Proxy} (a : List Atom) (b : Bool) (hx : FOK D x) :
    FOK D (x.forceSatisfy a b) := hx

/-- `cylc set` with the flows of the command in `D` -/
theorem pok_setPrePooled {D : Flows} (g : Graph) (s : State) (x : Proxy) (F : Flows) (v : List Atom) (a : Bool)
    (h : POK D s) (hx : FOK D x) (hF : ∀ f ∈ F, f ∈ D) : POK D (setPrePooled g s x F v a) := by
  unfold setPrePooled
  split
  · exact h
  · dsimp only
    have h1 := pok_mergeFlows g s x F h hx hF
    split
    · rename_i y hy
      exact pok_put h1 (fok_forceSatisfy _ _ (fok_of_get? h1 hy))
    · exact h1

theorem pok_setPreInactive {D : Flows} (g : Graph) (s : State) (p : Int) (n : String) (F : Flows) (w : Bool)
    (v : List Atom) (a : Bool) (h : POK D s) (hF : ∀ f ∈ F, f ∈ D) : POK D (setPreInactive g s p n F w v a) := by
  unfold setPreInactive
  split
  · exact h
  · dsimp only
    have hs := (pok_spawnTask (D := D) g spawnFuel).2 w s n p F h hF
    split
    · rename_i y hy
      exact pok_add (pok_dbInsert _ hs.1) (fok_forceSatisfy _ _ (hs.2 y hy))
    · exact hs.1

theorem pok_setOutPooled {D : Flows} (g : Graph) (s : State) (x : Proxy) (F : Flows) (outs : List String)
    (h : POK D s) (hx : FOK D x) (hF : ∀ f ∈ F, f ∈ D) : POK D (setOutPooled g s x F outs) := by
  unfold setOutPooled
  exact pok_setOutputsItask g _ _ _ outs (pok_mergeFlows g s x F h hx hF)

theorem pok_setOutInactive {D : Flows} (g : Graph) (s : State) (p : Int) (n : String) (F : Flows) (w : Bool)
    (outs : List String) (h : POK D s) (hF : ∀ f ∈ F, f ∈ D) : POK D (setOutInactive g s p n F w outs) := by
  unfold setOutInactive
  split
  · exact h
  · rename_i x0 _
    dsimp only
    apply pok_setOutputsItask
    have hL := pok_loadHistoricalOutputs (D := D) g s { x0 with flows := F, flowWait := w } h
    have hLf := loadHistoricalOutputs_fields g s { x0 with flows := F, flowWait := w }
    generalize loadHistoricalOutputs g s { x0 with flows := F, flowWait := w } = L at hL hLf
    refine ⟨hL.1, ?_⟩
    intro y hy
    rcases List.mem_append.mp hy with hm | hm
    · exact hL.2 y (List.mem_filter.mp hm).1
    · simp at hm
      rw [hm]
      unfold FOK
      rw [hLf.2.2]
      exact hF

/-! ### main loop, holds -/

theorem pok_computeRunahead {D : Flows} (g : Graph) (s : State) (f : Bool) (h : POK D s) :
    POK D (computeRunahead g s f) := by
  unfold computeRunahead
  simp only
  split
  · exact h
  · split
    · exact pok_of_eq rfl rfl h
    · exact pok_of_eq rfl rfl h

theorem pok_releaseRunahead {D : Flows} (g : Graph) (s : State) (h : POK D s) : POK D (releaseRunahead g s).1 := by
  unfold releaseRunahead
  split
  · exact h
  · split
    · exact h
    · simp only
      apply foldl_inv (POK D)
      · intro st x hst
        split
        · rename_i y hy
          have hyf := fok_reset (D := D) none none (some false) none (fok_of_get? hst hy)
          exact pok_spawnNextParentless g _ _ (pok_put hst hyf) hyf
        · exact hst
      · exact h

theorem pok_releaseRunaheadN {D : Flows} (g : Graph) : ∀ (k : Nat) (s : State), POK D s → POK D (releaseRunaheadN g k s) := by
  intro k; induction k with
  | zero => intro s h; exact h
  | succ k ih =>
    intro s h
    unfold releaseRunaheadN
    simp only
    split
    · exact ih _ (pok_releaseRunahead g s h)
    · exact pok_releaseRunahead g s h

theorem pok_queueIfReady {D : Flows} (s : State) (x : Proxy) (h : POK D s) (hx : FOK D x) : POK D (queueIfReady s x) := by
  unfold queueIfReady
  split
  · exact pok_put h (fok_reset _ _ _ _ hx)
  · exact h

theorem pok_sweepQueue {D : Flows} (s : State) (h : POK D s) : POK D (sweepQueue s) := by
  unfold sweepQueue
  apply foldl_inv (POK D)
  · intro st x hst
    split
    · rename_i y hy
      have hyf : FOK D y := fok_of_get? hst hy
      split
      · exact pok_queueIfReady _ _ (pok_put hst (fok_of_flows_eq (x := y) rfl hyf)) (fok_of_flows_eq (x := y) rfl hyf)
      · exact hst
    · exact hst
  · exact h

theorem pok_releaseAndSubmit {D : Flows} (s : State) (h : POK D s) : POK D (releaseAndSubmit s) := by
  unfold releaseAndSubmit
  simp only
  split
  · exact h
  · apply pok_of_eq (s := (s.pool.filter fun x => x.queued && !x.held).foldl (fun (st : State) x =>
        { (st.put { ((x.reset (queued := some false)).reset (status := some .preparing)) with
            submitNum := x.submitNum + 1, live := true, timers := true }) with
          launched := st.launched ++ [(x.pt, x.name, x.submitNum + 1)] }) s) rfl rfl
    have : ∀ (l : List Proxy), (∀ x ∈ l, FOK D x) → ∀ (st : State), POK D st →
        POK D (l.foldl (fun (st : State) x =>
          { (st.put { ((x.reset (queued := some false)).reset (status := some .preparing)) with
              submitNum := x.submitNum + 1, live := true, timers := true }) with
            launched := st.launched ++ [(x.pt, x.name, x.submitNum + 1)] }) st) := by
      intro l
      induction l with
      | nil => intro _ st hst; exact hst
      | cons a l ih =>
        intro hl st hst
        simp only [List.foldl_cons]
        apply ih (fun x hx => hl x (List.mem_cons_of_mem _ hx))
        apply pok_of_eq (s := st.put { ((a.reset (queued := some false)).reset (status := some .preparing)) with
            submitNum := a.submitNum + 1, live := true, timers := true }) rfl rfl
        apply pok_put hst
        have := hl a (List.mem_cons_self)
        exact fok_of_flows_eq (x := a) (by simp) this
    exact this _ (fun x hx => h.1 x (List.mem_filter.mp hx).1) s h

theorem pok_processOne {D : Flows} (g : Graph) (p : Int) (n : String) (acc : State × Bool) (m : Msg) (h : POK D acc.1) :
    POK D (processOne g p n acc m).1 := by
  unfold processOne
  exact pok_processMessage g 4 acc.1 p n _ _ _ false h

theorem pok_processGroup {D : Flows} (g : Graph) (st : State) (grp : (Int × String) × List Msg) (h : POK D st) :
    POK D (processGroup g st grp) := by
  unfold processGroup
  split
  · exact h
  · dsimp only
    have hR : POK D (grp.2.foldl (processOne g grp.1.1 grp.1.2) (st, false)).1 := by
      apply foldl_inv (fun (a : State × Bool) => POK D a.1)
      · intro a m ha; exact pok_processOne g _ _ a m ha
      · exact h
    generalize grp.2.foldl (processOne g grp.1.1 grp.1.2) (st, false) = R at hR
    split
    · exact pok_of_eq rfl rfl hR
    · exact hR

theorem pok_processQueue {D : Flows} (g : Graph) (s : State) (h : POK D s) : POK D (processQueue g s) := by
  unfold processQueue
  apply foldl_inv (POK D)
  · intro st grp hst; exact pok_processGroup g st grp hst
  · exact pok_of_eq rfl rfl h

theorem pok_checkStalled {D : Flows} (g : Graph) (s : State) (h : POK D s) : POK D (checkStalled g s) := by
  unfold checkStalled
  split
  · exact h
  · split
    · exact h
    · split
      · exact pok_of_eq rfl rfl h
      · exact h

theorem pok_checkAutoShutdown {D : Flows} (g : Graph) (s : State) (h : POK D s) : POK D (checkAutoShutdown g s).1 := by
  unfold checkAutoShutdown
  split
  · exact h
  · simp only
    split
    · exact pok_checkStalled g s h
    · split
      · exact pok_checkStalled g s h
      · exact pok_of_eq rfl rfl (pok_checkStalled g s h)

theorem pok_putTaskPool {D : Flows} (s : State) (h : POK D s) : POK D (putTaskPool s) := by
  unfold putTaskPool
  apply foldl_inv (POK D)
  · intro st x hst
    split
    · exact pok_of_eq rfl rfl hst
    · exact hst
  · exact h

theorem pok_finishLoop {D : Flows} (g : Graph) (s : State) (h : POK D s) : POK D (finishLoop g s) := by
  unfold finishLoop
  dsimp only
  have h1 : POK D (if s.pool.any (·.upd) = true then { s with restartWait := false } else s) := by
    split
    · exact pok_of_eq rfl rfl h
    · exact h
  generalize (if s.pool.any (·.upd) = true then { s with restartWait := false } else s) = s1 at h1
  have h2 : POK D (if (s.schedUpd || s.pool.any (·.upd)) = true then
      { putTaskPool s1 with stalled := false, schedUpd := false,
                            pool := (putTaskPool s1).pool.map fun x => { x with upd := false } }
    else s1) := by
    split
    · have hp := pok_putTaskPool s1 h1
      refine ⟨?_, hp.2⟩
      intro y hy
      simp only [List.mem_map] at hy
      obtain ⟨z, hz, rfl⟩ := hy
      exact hp.1 z hz
    · exact h1
  generalize (if (s.schedUpd || s.pool.any (·.upd)) = true then
      { putTaskPool s1 with stalled := false, schedUpd := false,
                            pool := (putTaskPool s1).pool.map fun x => { x with upd := false } }
    else s1) = s2 at h2
  have h3 : POK D (flushDb { s2 with db := some s2.pool }) := pok_of_eq rfl rfl h2
  split
  · exact pok_checkStalled g _ h3
  · exact h3

theorem pok_stopTaskDone {D : Flows} (s : State) (h : POK D s) : POK D (stopTaskDone s).1 := by
  unfold stopTaskDone
  split
  · exact pok_of_eq rfl rfl h
  · exact h

theorem pok_mainLoop {D : Flows} (g : Graph) (s : State) (h : POK D s) : POK D (mainLoop g s) := by
  unfold mainLoop
  split
  · exact h
  · dsimp only
    have h1 := pok_releaseRunahead g _ (pok_computeRunahead g s false h)
    generalize (releaseRunahead g (computeRunahead g s)).1 = s1 at h1
    have h2 : POK D (if s1.stopMode.isNone = true then
        (if (stopTaskDone s1).2 = true then { (stopTaskDone s1).1 with stopMode := some "AUTOMATIC" }
         else if (checkAutoShutdown g (stopTaskDone s1).1).2 = true then
           { (checkAutoShutdown g (stopTaskDone s1).1).1 with stopMode := some "AUTOMATIC" }
         else (checkAutoShutdown g (stopTaskDone s1).1).1)
      else s1) := by
      split
      · split
        · exact pok_of_eq rfl rfl (pok_stopTaskDone s1 h1)
        · split
          · exact pok_of_eq rfl rfl (pok_checkAutoShutdown g _ (pok_stopTaskDone s1 h1))
          · exact pok_checkAutoShutdown g _ (pok_stopTaskDone s1 h1)
      · exact h1
    generalize (if s1.stopMode.isNone = true then
        (if (stopTaskDone s1).2 = true then { (stopTaskDone s1).1 with stopMode := some "AUTOMATIC" }
         else if (checkAutoShutdown g (stopTaskDone s1).1).2 = true then
           { (checkAutoShutdown g (stopTaskDone s1).1).1 with stopMode := some "AUTOMATIC" }
         else (checkAutoShutdown g (stopTaskDone s1).1).1)
      else s1) = s2 at h2
    split
    · exact pok_of_eq rfl rfl h2
    · apply pok_finishLoop
      apply pok_processQueue
      split
      · exact pok_releaseAndSubmit _ (pok_sweepQueue _ h2)
      · exact pok_sweepQueue _ h2

theorem pok_holdActive {D : Flows} (s : State) (x : Proxy) (h : POK D s) (hx : FOK D x) : POK D (holdActive s x) := by
  unfold holdActive
  dsimp only
  have h1 := pok_put h (fok_reset (D := D) none none none (some true) hx)
  split
  · exact h1
  · exact pok_of_eq rfl rfl h1

theorem pok_setStopPoint {D : Flows} (s : State) (p : Int) (h : POK D s) : POK D (setStopPoint s p) := by
  unfold setStopPoint
  split
  · exact h
  · dsimp only
    split
    · split
      · refine ⟨?_, h.2⟩
        intro y hy
        simp only [List.mem_map] at hy
        obtain ⟨z, hz, rfl⟩ := hy
        split
        · exact fok_reset _ _ _ _ (h.1 z hz)
        · exact h.1 z hz
      · exact pok_of_eq rfl rfl h
    · exact pok_of_eq rfl rfl h

theorem pok_setHoldPoint {D : Flows} (s : State) (p : Int) (h : POK D s) : POK D (setHoldPoint s p) := by
  unfold setHoldPoint
  dsimp only
  apply foldl_inv (POK D)
  · intro st x hst
    split
    · split
      · rename_i y hy
        exact pok_holdActive st y hst (fok_of_get? hst hy)
      · exact hst
    · exact hst
  · exact pok_of_eq rfl rfl h

theorem pok_holdTasks {D : Flows} (s : State) (ids : List (Int × String)) (h : POK D s) : POK D (holdTasks s ids) := by
  unfold holdTasks
  apply foldl_inv (POK D)
  · intro st k hst
    split
    · rename_i y hy
      exact pok_holdActive st y hst (fok_of_get? hst hy)
    · split
      · exact hst
      · exact pok_of_eq rfl rfl hst
  · exact h

theorem pok_releaseTasks {D : Flows} (s : State) (ids : List (Int × String)) (h : POK D s) : POK D (releaseTasks s ids) := by
  unfold releaseTasks
  apply foldl_inv (POK D)
  · intro st k hst
    split
    · exact hst
    · split
      · rename_i y hy
        exact pok_releaseHeldActive st y hst (fok_of_get? hst hy)
      · exact pok_of_eq rfl rfl hst
  · exact h

theorem pok_releaseHoldPoint {D : Flows} (s : State) (h : POK D s) : POK D (releaseHoldPoint s) := by
  unfold releaseHoldPoint
  dsimp only
  apply pok_of_eq (s := s.pool.foldl (fun st x => match st.get? x.pt x.name with
    | some y => releaseHeldActive st y | none => st) { s with holdPoint := none }) rfl rfl
  apply foldl_inv (POK D)
  · intro st x hst
    split
    · rename_i y hy
      exact pok_releaseHeldActive st y hst (fok_of_get? hst hy)
    · exact hst
  · exact pok_of_eq rfl rfl h

theorem restoreProxy_flows (g : Graph) (rows : List Row) (x y : Proxy) (h : restoreProxy g rows x = some y) :
    y.flows = x.flows := by
  unfold restoreProxy at h
  split at h
  · cases h
  · simp only [Option.some.injEq] at h
    rw [← h]

end CylcModel.Sched3Set
