/-
The effect of an expiry as it is logged (C32, expire_children along runs): the keys an expiry event reports as
`added` are children of the `expired` output, or the next parentless instance of a task the event reports as
`removed` (`GoodKids`, `goodKids_run`).  A sharper version of the `KeysOK` chain of `Sched3ExpLemmasK`: the proxies
removed since a given moment (`new`) are tracked, and the witnesses are taken among them.
-/
import CylcModel.Sched3ExpLemmasI

namespace CylcModel.Sched3Exp

/-- key `k` is accounted for: pooled at the start (`base`), a listed child (`cs`), or the next parentless instance of
a proxy removed since the start (`new`) -/
def KOK (g : Graph) (base cs : List (Int × String)) (new : List Proxy) (k : Int × String) : Prop :=
  k ∈ base ∨ k ∈ cs ∨ ∃ y ∈ new, y.name = k.2 ∧ nextParentless g y = some k.1

/-- since the moment the ghosts were `g0`: every pooled key and every key removed meanwhile is accounted for -/
def OK2 (g : Graph) (base cs : List (Int × String)) (g0 : List Proxy) (st : State) : Prop :=
  ∃ new, st.ghosts = g0 ++ new ∧ (∀ x ∈ st.pool, KOK g base cs new (x.pt, x.name)) ∧
    (∀ y ∈ new, KOK g base cs new (y.pt, y.name))

theorem kok_mono {g : Graph} {base cs : List (Int × String)} {new new' : List Proxy} {k : Int × String}
    (hn : ∀ y ∈ new, y ∈ new') (h : KOK g base cs new k) : KOK g base cs new' k := by
  rcases h with h | h | ⟨y, hy, h1, h2⟩
  · exact Or.inl h
  · exact Or.inr (Or.inl h)
  · exact Or.inr (Or.inr ⟨y, hn y hy, h1, h2⟩)

theorem ok2_of_eq {g : Graph} {base cs : List (Int × String)} {g0 : List Proxy} {st st' : State}
    (hp : st'.pool = st.pool) (hg : st'.ghosts = st.ghosts) (h : OK2 g base cs g0 st) : OK2 g base cs g0 st' := by
  obtain ⟨new, h1, h2, h3⟩ := h
  exact ⟨new, by rw [hg]; exact h1, by rw [hp]; exact h2, h3⟩

theorem ok2_put {g : Graph} {base cs : List (Int × String)} {g0 : List Proxy} {st : State} (x : Proxy)
    (h : OK2 g base cs g0 st) : OK2 g base cs g0 (st.put x) := by
  obtain ⟨new, h1, h2, h3⟩ := h
  refine ⟨new, h1, ?_, h3⟩
  intro y hy
  rcases mem_put hy with ⟨rfl, z, hz, hz1, hz2⟩ | ⟨hy', _⟩
  · have := h2 z hz
    rw [hz1, hz2] at this
    exact this
  · exact h2 y hy'

theorem ok2_add {g : Graph} {base cs : List (Int × String)} {g0 : List Proxy} {st : State} (x : Proxy)
    (h : OK2 g base cs g0 st) (hx : ∀ new, KOK g base cs new (x.pt, x.name)) : OK2 g base cs g0 (st.add x) := by
  obtain ⟨new, h1, h2, h3⟩ := h
  refine ⟨new, by rw [ghosts_add]; exact h1, ?_, h3⟩
  intro y hy
  rcases mem_add hy with hy' | ⟨rfl, _⟩
  · exact h2 y hy'
  · exact hx new

theorem ok2_releaseHeldActive {g : Graph} {base cs : List (Int × String)} {g0 : List Proxy} {st : State} (x : Proxy)
    (h : OK2 g base cs g0 st) : OK2 g base cs g0 (releaseHeldActive st x) := by
  obtain ⟨new, h1, h2, h3⟩ := h
  refine ⟨new, by rw [ghosts_releaseHeldActive]; exact h1, ?_, h3⟩
  intro y hy
  obtain ⟨z, hz, hz1, hz2⟩ := mem_releaseHeldActive hy
  have := h2 z hz
  rw [hz1, hz2] at this
  exact this

/-- `remove` of a pooled proxy: the proxy joins `new`; its next parentless instance may join the pool -/
theorem ok2_remove {g : Graph} {base cs : List (Int × String)} {g0 : List Proxy} {st : State} (x : Proxy)
    (hx : x ∈ st.pool) (h : OK2 g base cs g0 st) : OK2 g base cs g0 (remove g st x) := by
  unfold remove
  extract_lets s1 x' s2
  obtain ⟨new, h1, h2, h3⟩ := ok2_releaseHeldActive x h
  have hx' : x'.pt = x.pt ∧ x'.name = x.name := getD_key s1 x
  have hg2 : s2.ghosts = s1.ghosts := by
    simp only [s2]; split
    · exact ghosts_spawnNextParentless _ _ _
    · rfl
  -- the removed proxy was pooled: its key is accounted for
  have hxk : KOK g base cs new (x'.pt, x'.name) := by
    obtain ⟨new0, e0, p0, _⟩ := h
    have hn : new0 = new := by
      have : g0 ++ new0 = g0 ++ new := by rw [← e0, ← h1, ghosts_releaseHeldActive]
      exact List.append_cancel_left this
    rw [hx'.1, hx'.2, ← hn]
    exact p0 x hx
  refine ⟨new ++ [x'], ?_, ?_, ?_⟩
  · show s2.ghosts ++ [x'] = g0 ++ (new ++ [x'])
    rw [hg2, h1, List.append_assoc]
  · intro z hz
    have hz2 : z ∈ s2.pool := (List.mem_filter.mp hz).1
    have hmem : z ∈ s1.pool ∨ (z.name = x'.name ∧ nextParentless g x' = some z.pt) := by
      simp only [s2] at hz2
      split at hz2
      · exact mem_spawnNextParentless hz2
      · exact Or.inl hz2
    rcases hmem with hm | ⟨hn, hp⟩
    · exact kok_mono (fun y hy => List.mem_append_left _ hy) (h2 z hm)
    · exact Or.inr (Or.inr ⟨x', by simp, hn.symm, hp⟩)
  · intro y hy
    rcases List.mem_append.mp hy with hy' | hy'
    · exact kok_mono (fun y hy => List.mem_append_left _ hy) (h3 y hy')
    · simp at hy'; subst hy'
      exact kok_mono (fun y hy => List.mem_append_left _ hy) hxk

theorem ok2_removeIfComplete {g : Graph} {base cs : List (Int × String)} {g0 : List Proxy} {st : State} (x : Proxy)
    (hx : x ∈ st.pool) (h : OK2 g base cs g0 st) : OK2 g base cs g0 (removeIfComplete g st x) := by
  unfold removeIfComplete
  split
  · exact h
  · simp only
    have key : ∀ s1 : State, OK2 g base cs g0 s1 → x ∈ s1.pool →
        OK2 g base cs g0 (match g.task? x.name with
          | none => s1
          | some t => if isComplete t x.done = true then remove g s1 x else s1) := by
      intro s1 h1 hx1
      split
      · exact h1
      · split
        · exact ok2_remove x hx1 h1
        · exact h1
    apply key
    · split
      · exact ok2_of_eq rfl rfl h
      · exact h
    · split <;> exact hx

theorem ok2_spawnChildFin {g : Graph} {base cs : List (Int × String)} {g0 : List Proxy} (p : Int) (n out : String)
    (sui : List (Int × String)) (c : Child) (st1 : State) (ch : Option Proxy) (inPool : Bool)
    (hc : (c.pt, c.name) ∈ cs) (hch : ∀ y, ch = some y → y.pt = c.pt ∧ y.name = c.name)
    (h : OK2 g base cs g0 st1) : OK2 g base cs g0 (spawnChildFin p n out sui c st1 ch inPool).1 := by
  unfold spawnChildFin
  split
  · exact h
  · rename_i y
    have hy := hch y rfl
    refine foldl_inv (fun a : State × List (Int × String) => OK2 g base cs g0 a.1) _ ?_ _ _ ?_
    · intro a k ha
      simp only
      split
      · exact ha
      · exact ok2_put _ ha
    · simp only
      split
      · exact h
      · apply ok2_add _ h
        intro new
        right; left
        show ((y.satisfyMe ⟨p, n, out⟩).pt, (y.satisfyMe ⟨p, n, out⟩).name) ∈ cs
        rw [satisfyMe_pt, satisfyMe_name, hy.1, hy.2]; exact hc

theorem ok2_spawnChild {g : Graph} {base cs : List (Int × String)} {g0 : List Proxy} (p : Int) (n out : String)
    (acc : State × List (Int × String)) (c : Child) (hc : (c.pt, c.name) ∈ cs)
    (h : OK2 g base cs g0 acc.1) : OK2 g base cs g0 (spawnChild g p n out acc c).1 := by
  obtain ⟨st, sui⟩ := acc
  rw [spawnChild_eq]
  simp only
  have h0 : OK2 g base cs g0 (if (c.isAbs && !st.absDone.contains ⟨p, n, out⟩) = true then
      { st with absDone := st.absDone ++ [⟨p, n, out⟩] } else st) := by
    split
    · exact ok2_of_eq rfl rfl h
    · exact h
  generalize (if (c.isAbs && !st.absDone.contains ⟨p, n, out⟩) = true then
      { st with absDone := st.absDone ++ [⟨p, n, out⟩] } else st) = st0 at h0 ⊢
  split
  · rename_i y hy
    have := get?_some_mem hy
    exact ok2_spawnChildFin p n out sui c st0 (some y) true hc
      (by intro y' he; cases he; exact ⟨this.2.1, this.2.2⟩) h0
  · apply ok2_spawnChildFin p n out sui c _ _ false hc
    · intro y he
      have := spawnTask_proxy he
      exact ⟨this.1, this.2.1⟩
    · exact ok2_of_eq (pool_spawnTask _ _ _ _) (ghosts_spawnTask _ _ _ _) h0

theorem spawnOnOutput_ok2 (g : Graph) (s : State) (p : Int) (n out : String) (x : Proxy)
    (hx : s.get? p n = some x) :
    OK2 g (keysOf s.pool) ((childrenOf g x out).map fun c => (c.pt, c.name)) s.ghosts (spawnOnOutput g s p n out) := by
  have hbase : OK2 g (keysOf s.pool) ((childrenOf g x out).map fun c => (c.pt, c.name)) s.ghosts s := by
    refine ⟨[], by simp, ?_, by intro y hy; simp at hy⟩
    intro y hy
    left
    unfold keysOf
    exact List.mem_map.mpr ⟨y, hy, rfl⟩
  unfold spawnOnOutput
  simp only [hx]
  have h1 : ∀ (cs' : List Child) (acc : State × List (Int × String)),
      (∀ c ∈ cs', (c.pt, c.name) ∈ (childrenOf g x out).map fun c => (c.pt, c.name)) →
      OK2 g (keysOf s.pool) ((childrenOf g x out).map fun c => (c.pt, c.name)) s.ghosts acc.1 →
      OK2 g (keysOf s.pool) ((childrenOf g x out).map fun c => (c.pt, c.name)) s.ghosts
        (cs'.foldl (spawnChild g p n out) acc).1 := by
    intro cs'; induction cs' with
    | nil => intro acc _ h; exact h
    | cons c cs' ih =>
      intro acc hc h
      simp only [List.foldl_cons]
      exact ih _ (fun c' hc' => hc c' (List.mem_cons_of_mem _ hc'))
        (ok2_spawnChild p n out acc c (hc c List.mem_cons_self) h)
  have h2 : ∀ (ks : List (Int × String)) (st : State),
      OK2 g (keysOf s.pool) ((childrenOf g x out).map fun c => (c.pt, c.name)) s.ghosts st →
      OK2 g (keysOf s.pool) ((childrenOf g x out).map fun c => (c.pt, c.name)) s.ghosts
        (ks.foldl (fun (st : State) k => match st.get? k.1 k.2 with
          | some z => remove g st z
          | none => st) st) := by
    intro ks; induction ks with
    | nil => intro st h; exact h
    | cons k ks ih =>
      intro st h
      simp only [List.foldl_cons]
      apply ih
      split
      · rename_i z hz
        exact ok2_remove _ (get?_some_mem hz).1 h
      · exact h
  generalize hR : (List.foldl (spawnChild g p n out) (s, []) _) = R
  have hRn : OK2 g (keysOf s.pool) ((childrenOf g x out).map fun c => (c.pt, c.name)) s.ghosts R.1 := by
    rw [← hR]
    apply h1
    · intro c hc
      split at hc
      · simp at hc
      · exact List.mem_map.mpr ⟨c, hc, rfl⟩
    · exact hbase
  have h3 := h2 R.2 R.1 hRn
  split
  · rename_i x' hx'
    exact ok2_removeIfComplete _ (get?_some_mem hx').1 h3
  · exact h3

/-! ### the logged effect of an expiry -/

/-- `next_point_parentless` of the instance `k` -/
def nextParentlessAt (g : Graph) (k : Int × String) : Option Int :=
  nextParentless g { pt := k.1, name := k.2 }

/-- the children of the `expired` output of instance `(p, n)` in the graph -/
def kidsAt (g : Graph) (p : Int) (n : String) : List (Int × String) :=
  (childrenOf g { pt := p, name := n } "expired").map fun c => (c.pt, c.name)

/-- what an expiry event of a pooled proxy may report as added to the pool: children of its `expired` output, or the
next parentless instance of a task it reports as removed -/
def GoodKids (g : Graph) (e : ExpEvent) : Prop :=
  e.tr = false → ∀ k ∈ e.added, k ∈ kidsAt g e.pt e.name ∨ ∃ r ∈ e.removed, r.2 = k.2 ∧ nextParentlessAt g r = some k.1

theorem closeEvent_goodKids (g : Graph) (s0 s1 : State) (x : Proxy) (e : ExpEvent)
    (he : e.pt = x.pt ∧ e.name = x.name)
    (h : OK2 g (keysOf s0.pool) ((childrenOf g x "expired").map fun c => (c.pt, c.name)) s0.ghosts s1) :
    GoodKids g (closeEvent g s0 s1 x e) := by
  intro _ k hk
  obtain ⟨new, h1, h2, h3⟩ := h
  have hgone : keysOf (s1.ghosts.drop s0.ghosts.length) = keysOf new := by
    rw [h1, List.drop_left]
  unfold closeEvent at hk ⊢
  simp only at hk ⊢
  rw [hgone] at hk ⊢
  obtain ⟨hmem, hnb⟩ := List.mem_filter.mp hk
  have hnb' : k ∉ keysOf s0.pool := by simpa using hnb
  have hkok : KOK g (keysOf s0.pool) ((childrenOf g x "expired").map fun c => (c.pt, c.name)) new k := by
    rcases List.mem_append.mp hmem with hm | hm
    · unfold keysOf at hm
      obtain ⟨z, hz, rfl⟩ := List.mem_map.mp hm
      exact h2 z hz
    · unfold keysOf at hm
      obtain ⟨z, hz, rfl⟩ := List.mem_map.mp hm
      exact h3 z hz
  rcases hkok with hb | hc | ⟨y, hy, hy1, hy2⟩
  · exact absurd hb hnb'
  · left
    unfold kidsAt
    rw [he.1, he.2]
    have : childrenOf g { pt := x.pt, name := x.name } "expired" = childrenOf g x "expired" :=
      childrenOf_congr g rfl rfl "expired"
    rw [this]; exact hc
  · right
    refine ⟨(y.pt, y.name), ?_, hy1, ?_⟩
    · unfold keysOf; exact List.mem_map.mpr ⟨y, hy, rfl⟩
    · unfold nextParentlessAt
      rw [← hy2]
      exact nextParentless_congr g rfl rfl

theorem goodKids_tr (g : Graph) (e : ExpEvent) (h : e.tr = true) : GoodKids g e := by
  intro hf; rw [h] at hf; simp at hf

/-- `processExpired` logs at most one event; for a pooled proxy the event has good kids -/
theorem expLog_processExpired_kids (g : Graph) (s : State) (x x0 : Proxy) (tr : Bool)
    (hx : tr = false → s.get? x.pt x.name = some x0) :
    (processExpired g s x tr).expLog = s.expLog ∨
      ∃ e, (processExpired g s x tr).expLog = s.expLog ++ [e] ∧ GoodKids g e := by
  unfold processExpired
  extract_lets y changed s0 s1
  have h1 : s1.expLog = s.expLog := by
    simp only [s1, s0]; rw [expLog_spawnChildren, expLog_store]
  split
  · right
    refine ⟨if tr = true then mkEvent s x tr else closeEvent g s0 s1 x (mkEvent s x tr), ?_, ?_⟩
    · show s1.expLog ++ [_] = s.expLog ++ [_]
      rw [h1]
    · split
      · rename_i ht
        exact goodKids_tr g _ (by show tr = true; exact ht)
      · rename_i ht
        have htf : tr = false := by simpa using ht
        subst htf
        have hy : y.pt = x.pt ∧ y.name = x.name := expireReset_key x
        have h0 : s0 = s.put y := by simp only [s0]; unfold store; simp
        have hg0 : s0.get? x.pt x.name = some y := by rw [h0]; exact get?_put (hx rfl) hy
        apply closeEvent_goodKids g s0 s1 x _ ⟨rfl, rfl⟩
        have := spawnOnOutput_ok2 g s0 x.pt x.name "expired" y hg0
        rw [childrenOf_congr g hy.1 hy.2] at this
        simp only [s1]
        unfold spawnChildren
        simp only [Bool.false_eq_true, if_false]
        exact this
  · left; exact h1

theorem lookup_false_get {s : State} {p : Int} {n : String} {x : Proxy} (h : lookup s p n = some (x, false)) :
    s.get? p n = some x := by
  unfold lookup at h
  split at h
  · rename_i y hg
    simp only [Option.some.injEq, Prod.mk.injEq] at h
    rw [hg, h.1]
  · cases hf : s.ghosts.find? (fun x => x.pt == p && x.name == n) with
    | none => simp [hf] at h
    | some y => simp [hf] at h

def GoodKidsLog (g : Graph) (s : State) : Prop := ∀ e ∈ s.expLog, GoodKids g e

theorem goodKidsLog_of_eq {g : Graph} {s s' : State} (h : s'.expLog = s.expLog) (hs : GoodKidsLog g s) :
    GoodKidsLog g s' := by
  intro e he; rw [h] at he; exact hs e he

theorem goodKidsLog_nil {g : Graph} {s : State} (h : s.expLog = []) : GoodKidsLog g s := by
  intro e he; rw [h] at he; simp at he

/-- any message (whoever sent it) keeps the log good -/
theorem goodKidsLog_processMessage (g : Graph) (fuel : Nat) (s : State) (p : Int) (n : String) (flag : Flag)
    (sn : Nat) (msg : String) (h : GoodKidsLog g s) : GoodKidsLog g (processMessage g fuel s p n flag sn msg).1 := by
  by_cases hm : msg = "expired"
  · subst hm
    cases fuel with
    | zero => exact h
    | succ fuel =>
      unfold processMessage
      split
      · exact h
      · rename_i x tr hl
        split
        · exact h
        · have himp : impliedOf (pmComplete g x "expired").1 "expired" = [] := by
            unfold impliedOf; simp
          simp only [himp, List.foldl_nil]
          have hk := lookup_key hl
          have hf := pmComplete_fields g x "expired"
          have hl2 := lookup_store (y := (pmComplete g x "expired").1) hl ⟨hf.1.trans hk.1, hf.2.1.trans hk.2⟩
          rw [hl2]
          simp only
          unfold pmDispatch
          simp only [show ("expired" == "started") = false by decide, show ("expired" == "succeeded") = false by decide,
            Bool.false_eq_true, if_false, beq_self_eq_true, if_true]
          have hget : tr = false → (store s (pmComplete g x "expired").1 tr).get? (pmComplete g x "expired").1.pt
              (pmComplete g x "expired").1.name = some (pmComplete g x "expired").1 := by
            intro ht; subst ht
            rw [hf.1, hf.2.1, hk.1, hk.2]
            exact lookup_false_get hl2
          rcases expLog_processExpired_kids g (store s (pmComplete g x "expired").1 tr) (pmComplete g x "expired").1
              (pmComplete g x "expired").1 tr hget with h1 | ⟨e, he, hgk⟩
          · exact goodKidsLog_of_eq (h1.trans (expLog_store _ _ _)) h
          · intro e' he'
            rw [he, expLog_store] at he'
            rcases List.mem_append.mp he' with h' | h'
            · exact h e' h'
            · simp at h'; subst h'; exact hgk
  · exact goodKidsLog_of_eq (expLog_processMessage_ne g fuel s p n flag sn msg hm) h

theorem goodKidsLog_clockExpireTasks (g : Graph) (s : State) (h : GoodKidsLog g s) :
    GoodKidsLog g (clockExpireTasks g s) := by
  unfold clockExpireTasks
  refine foldl_inv (GoodKidsLog g) (clockExpireOne g) ?_ _ _ h
  intro st k hst
  unfold clockExpireOne
  split
  · exact hst
  · split
    · exact goodKidsLog_processMessage g 4 st k.1 k.2 _ _ _ hst
    · exact hst

theorem goodKidsLog_processQueue (g : Graph) (s : State) (h : GoodKidsLog g s) : GoodKidsLog g (processQueue g s) := by
  unfold processQueue
  refine foldl_inv (GoodKidsLog g) _ ?_ _ _ (goodKidsLog_of_eq rfl h)
  intro st grp hst
  simp only
  split
  · exact hst
  · have : ∀ (l : List Msg) (acc : State × Bool), GoodKidsLog g acc.1 →
        GoodKidsLog g (l.foldl (fun (acc : State × Bool) m =>
          let (st', pl) := processMessage g 4 acc.1 grp.1.1 grp.1.2 .received m.submitNum m.text
          (st', acc.2 || pl)) acc).1 := by
      intro l; induction l with
      | nil => intro acc ha; exact ha
      | cons m l ihl =>
        intro acc ha
        simp only [List.foldl_cons]
        exact ihl _ (goodKidsLog_processMessage g 4 _ _ _ _ _ _ ha)
    have h2 := this grp.2 (st, false) hst
    split
    · exact goodKidsLog_of_eq rfl h2
    · exact h2

theorem goodKidsLog_mainLoop (g : Graph) (s : State) (h : GoodKidsLog g s) : GoodKidsLog g (mainLoop g s) := by
  unfold mainLoop
  split
  · exact h
  · extract_lets s3 s5 s6
    have h3 : GoodKidsLog g s3 := goodKidsLog_of_eq (loopHead_keep g s).1 h
    split
    · exact goodKidsLog_of_eq rfl h3
    · have h5 : GoodKidsLog g s5 := by
        simp only [s5]; unfold loopExpire
        exact goodKidsLog_clockExpireTasks g _ (goodKidsLog_of_eq (expLog_sweepQueue s3) h3)
      have h6 : GoodKidsLog g s6 := by
        simp only [s6]; split
        · exact goodKidsLog_of_eq (expLog_releaseAndSubmit s5) h5
        · exact h5
      exact goodKidsLog_of_eq (expLog_finishLoop g _) (goodKidsLog_processQueue g s6 h6)

theorem goodKidsLog_step (g : Graph) (s : State) (op : Op) : GoodKidsLog g (step g s op) := by
  unfold step
  have hc : (clearOp s).expLog = [] := rfl
  cases op with
  | loop => exact goodKidsLog_mainLoop g _ (goodKidsLog_nil hc)
  | subres p n ok sn => exact goodKidsLog_processMessage g 4 _ _ _ _ _ _ (goodKidsLog_nil hc)
  | msg p n sn text => exact goodKidsLog_nil hc
  | hold ids => simp only; apply goodKidsLog_nil; rw [expLog_holdTasks]; exact hc
  | release ids => simp only; apply goodKidsLog_nil; rw [expLog_releaseTasks]; exact hc
  | setHoldPoint p => simp only; apply goodKidsLog_nil; rw [expLog_setHoldPoint]; exact hc
  | releaseHoldPoint => simp only; apply goodKidsLog_nil; rw [expLog_releaseHoldPoint]; exact hc
  | stop mode => exact goodKidsLog_nil hc
  | stopPoint p => simp only; apply goodKidsLog_nil; rw [expLog_setStopPoint]; exact hc
  | stopTask p n => exact goodKidsLog_nil hc
  | pause => exact goodKidsLog_nil hc
  | resume => exact goodKidsLog_nil hc
  | restart => exact goodKidsLog_nil (expLog_restart g _)
  | tick dt => exact goodKidsLog_nil hc
  | trig p n => simp only; apply goodKidsLog_nil; rw [expLog_trigger]; exact hc

/-- **every logged expiry of every run has good kids** (no hypothesis on the history) -/
theorem goodKids_run (g : Graph) (ops : List Op) : ∀ s ∈ run g ops, GoodKidsLog g s := by
  intro s hs
  rcases mem_run_cases g ops s hs with h0 | ⟨pre, op, post, _, hs0⟩
  · subst h0; exact goodKidsLog_nil (expLog_init g)
  · subst hs0; exact goodKidsLog_step g _ op

end CylcModel.Sched3Exp
