/-
Helper lemmas for C08 (`Flow` model): the skip loop finds an unused number (pigeonhole),
`maxOf`, `toSet`, `useNum`, and the invariant tying the model state to the judge's `used` set.
-/
import CylcModel.Flow

namespace CylcModel.Flow

/-! ### skip loop -/

theorem skip_ge (flows : List Int) : ∀ (fuel : Nat) (c : Int), c ≤ skip flows fuel c := by
  intro fuel
  induction fuel with
  | zero => intro c; simp [skip]
  | succ n ih =>
    intro c
    simp only [skip]
    split
    · have := ih (c + 1); omega
    · omega

/-- number of members of `flows` that are `≥ c` -/
def above (flows : List Int) (c : Int) : Nat := (flows.filter fun x => decide (c ≤ x)).length

theorem above_le_length (flows : List Int) (c : Int) : above flows c ≤ flows.length :=
  List.length_filter_le _ _

theorem above_succ_lt (flows : List Int) (c : Int) (h : c ∈ flows) :
    above flows (c + 1) < above flows c := by
  unfold above
  induction flows with
  | nil => cases h
  | cons a l ih =>
    simp only [List.filter_cons]
    by_cases hac : a = c
    · subst hac
      have h1 : decide (a + 1 ≤ a) = false := decide_eq_false (by omega)
      have h2 : decide (a ≤ a) = true := by simp
      simp only [h1, h2]
      have : (l.filter fun x => decide (a + 1 ≤ x)).length ≤ (l.filter fun x => decide (a ≤ x)).length := by
        clear ih h
        induction l with
        | nil => simp
        | cons b l ih =>
          simp only [List.filter_cons]
          by_cases hb : a + 1 ≤ b
          · have hb' : a ≤ b := by omega
            simp [hb, hb']; exact ih
          · by_cases hb' : a ≤ b
            · simp [hb, hb']; omega
            · simp [hb, hb']; exact ih
      simp; omega
    · have hc : c ∈ l := by
        cases h with
        | head => exact absurd rfl hac
        | tail _ h => exact h
      have := ih hc
      by_cases h1 : c + 1 ≤ a
      · have h2 : c ≤ a := by omega
        simp [h1, h2]; omega
      · by_cases h2 : c ≤ a
        · have : a = c := by omega
          exact absurd this hac
        · simp [h1, h2]; exact this

/-- pigeonhole: with fuel at least the number of known flows `≥ c`, the loop stops on an unknown number -/
theorem skip_not_mem (flows : List Int) :
    ∀ (fuel : Nat) (c : Int), above flows c ≤ fuel → skip flows fuel c ∉ flows := by
  intro fuel
  induction fuel with
  | zero =>
    intro c h hc
    simp only [skip] at hc
    have := above_succ_lt flows c hc
    omega
  | succ n ih =>
    intro c h
    simp only [skip]
    split
    · rename_i hc
      have hc' : c ∈ flows := by simpa using hc
      have := above_succ_lt flows c hc'
      exact ih (c + 1) (by omega)
    · rename_i hc
      simpa using hc

theorem skip_fresh (flows : List Int) (c : Int) :
    skip flows flows.length c ∉ flows ∧ c ≤ skip flows flows.length c :=
  ⟨skip_not_mem flows _ c (above_le_length flows c), skip_ge flows _ c⟩

/-! ### small facts -/

theorem mem_insertNew (l : List Int) (n x : Int) : x ∈ insertNew l n ↔ x = n ∨ x ∈ l := by
  unfold insertNew
  split
  · rename_i h
    have : n ∈ l := by simpa using h
    constructor
    · intro hx; exact Or.inr hx
    · rintro (rfl | hx)
      · exact this
      · exact hx
  · simp

theorem mem_insertSorted (n x : Int) (l : List Int) : x ∈ insertSorted n l ↔ x = n ∨ x ∈ l := by
  induction l with
  | nil => simp [insertSorted]
  | cons a l ih =>
    simp only [insertSorted]
    split
    · simp
    · split
      · rename_i _ h
        have : n = a := by simpa using h
        subst this
        simp
      · simp [ih]
        constructor
        · rintro (h | h | h)
          · exact Or.inr (Or.inl h)
          · exact Or.inl h
          · exact Or.inr (Or.inr h)
        · rintro (h | h | h)
          · exact Or.inr (Or.inl h)
          · exact Or.inl h
          · exact Or.inr (Or.inr h)

theorem mem_toSet (l : List Int) (x : Int) : x ∈ toSet l ↔ x ∈ l := by
  unfold toSet
  induction l with
  | nil => simp
  | cons a l ih => simp [List.foldr, mem_insertSorted, ih]

theorem maxOf_none (l : List Int) : maxOf l = none ↔ l = [] := by
  cases l with
  | nil => simp [maxOf]
  | cons a l =>
    simp only [maxOf]
    split <;> simp

theorem le_maxOf (l : List Int) (m : Int) (h : maxOf l = some m) : ∀ n ∈ l, n ≤ m := by
  induction l generalizing m with
  | nil => simp [maxOf] at h
  | cons a l ih =>
    intro n hn
    simp only [maxOf] at h
    split at h
    · rename_i hl
      have : l = [] := (maxOf_none l).1 hl
      subst this
      simp at h hn
      omega
    · rename_i m' hl
      have hm := ih m' hl
      simp at h
      cases hn with
      | head => split at h <;> omega
      | tail _ hn' =>
        have := hm n hn'
        split at h <;> omega

/-! ### the invariant -/

/-- model state `s` is consistent with the judge's record `sp` of the history -/
structure Inv (s : St) (sp : Spec.St) : Prop where
  used_table : ∀ n ∈ sp.used, n ∈ s.table
  flows_table : ∀ n ∈ s.flows, n ∈ s.table
  table_known : ∀ n ∈ s.table, n ∈ s.flows ∨ ∃ c, s.counter = some c ∧ n ≤ c
  none_blank : s.counter = none → sp.blank = true

theorem inv_init : Inv init {} := by
  constructor <;> simp [init]

theorem useNum_table (s : St) (n : Int) : n ∈ (useNum s n).table ∨ n ∈ s.flows := by
  unfold useNum
  split
  · rename_i h; right; simpa using h
  · left; simp [mem_insertNew]

theorem inv_useNum {s : St} {sp : Spec.St} (h : Inv s sp) (n : Int) (extra : List Int)
    (hx : ∀ x ∈ extra, x = n ∨ x ∈ sp.used) :
    Inv (useNum s n) { sp with used := extra ++ sp.used } := by
  unfold useNum
  split
  · rename_i hn
    have hn' : n ∈ s.flows := by simpa using hn
    constructor
    · intro x hxm
      simp only [List.mem_append] at hxm
      rcases hxm with hxm | hxm
      · rcases hx x hxm with rfl | hu
        · exact h.flows_table _ hn'
        · exact h.used_table _ hu
      · exact h.used_table _ hxm
    · exact h.flows_table
    · exact h.table_known
    · exact h.none_blank
  · constructor
    · intro x hxm
      simp only [List.mem_append] at hxm
      simp only [mem_insertNew]
      rcases hxm with hxm | hxm
      · rcases hx x hxm with rfl | hu
        · exact Or.inl rfl
        · exact Or.inr (h.used_table _ hu)
      · exact Or.inr (h.used_table _ hxm)
    · intro x hxm
      simp only [mem_insertNew]
      simp only [List.mem_cons] at hxm
      rcases hxm with rfl | hxm
      · exact Or.inl rfl
      · exact Or.inr (h.flows_table _ hxm)
    · intro x hxm
      simp only [mem_insertNew] at hxm
      rcases hxm with rfl | hxm
      · left; simp
      · rcases h.table_known x hxm with hf | hc
        · left; simp [hf]
        · right; exact hc
    · exact h.none_blank

theorem inv_useNums {sp : Spec.St} (ns : List Int) :
    ∀ (s : St) (used : List Int), Inv s { sp with used := used } →
      ∀ extra : List Int, (∀ x ∈ extra, x ∈ ns ∨ x ∈ used) →
      Inv (useNums s ns) { sp with used := extra ++ used } := by
  induction ns with
  | nil =>
    intro s used h extra hx
    simp only [useNums]
    constructor
    · intro x hxm
      simp only [List.mem_append] at hxm
      rcases hxm with hxm | hxm
      · rcases hx x hxm with h' | h'
        · cases h'
        · exact h.used_table _ h'
      · exact h.used_table _ hxm
    · exact h.flows_table
    · exact h.table_known
    · exact h.none_blank
  | cons n ns ih =>
    intro s used h extra hx
    simp only [useNums]
    have h1 := inv_useNum (sp := { sp with used := used }) h n [n] (by simp)
    have h2 := ih (useNum s n) ([n] ++ used) h1 extra (by
      intro x hxm
      rcases hx x hxm with h' | h'
      · simp only [List.mem_cons] at h'
        rcases h' with rfl | h'
        · right; simp
        · left; exact h'
      · right; simp [h'])
    constructor
    · intro x hxm
      apply h2.used_table
      simp only [List.mem_append] at hxm ⊢
      rcases hxm with hxm | hxm
      · exact Or.inl hxm
      · exact Or.inr (Or.inr hxm)
    · exact h2.flows_table
    · exact h2.table_known
    · exact h2.none_blank

/-! ### the judge accepts the runs of the model -/

/-- one step: the judge accepts the model's answer and the invariant is kept, or the model
answered `TypeError` in a state reached by restarting before any flow existed -/
theorem step_accepted (s : St) (sp : Spec.St) (k : Nat) (op : Op) (h : Inv s sp) :
    (∃ sp', Spec.stepJudge sp k op (step s op).2 = .ok sp' ∧ Inv (step s op).1 sp') ∨
    (Spec.stepJudge sp k op (step s op).2 = .error (.noNumber k true) ∧ s.counter = none) := by
  have newCase : ∀ c, s.counter = some c →
      let c' := skip s.flows s.flows.length (c + 1)
      ¬ sp.used.contains c' = true ∧
        Inv (useNum { s with counter := some c' } c') { sp with used := c' :: sp.used } := by
    intro c hc c'
    have hfresh := skip_fresh s.flows (c + 1)
    have hnot : ¬ sp.used.contains c' = true := by
      intro hmem
      have hmem' : c' ∈ sp.used := by simpa using hmem
      rcases h.table_known c' (h.used_table c' hmem') with hf | ⟨c0, hc0, hle⟩
      · exact hfresh.1 hf
      · rw [hc] at hc0
        have : c0 = c := by injection hc0 with e; exact e.symm
        have := hfresh.2
        omega
    refine ⟨hnot, ?_⟩
    have hbase : Inv { s with counter := some c' } sp := by
      constructor
      · exact h.used_table
      · exact h.flows_table
      · intro n hn
        rcases h.table_known n hn with hf | ⟨c0, hc0, hle⟩
        · exact Or.inl hf
        · right
          refine ⟨c', rfl, ?_⟩
          rw [hc] at hc0
          have : c0 = c := by injection hc0 with e; exact e.symm
          have := hfresh.2
          omega
      · intro hnone; cases hnone
    exact inv_useNum hbase c' [c'] (by simp)
  cases op with
  | new =>
    cases hc : s.counter with
    | none =>
      right
      have hb := h.none_blank hc
      simp [step, getNew, hc, Spec.stepJudge, hb]
    | some c =>
      left
      have ⟨hnot, hinv⟩ := newCase c hc
      refine ⟨{ sp with used := skip s.flows s.flows.length (c + 1) :: sp.used }, ?_, ?_⟩
      · simp only [step, getNew, hc, Spec.stepJudge]
        simp only [hnot]
        rfl
      · simpa [step, getNew, hc] using hinv
  | num n =>
    left
    refine ⟨{ sp with used := n :: n :: sp.used }, ?_, ?_⟩
    · simp [step, Spec.stepJudge]
    · have := inv_useNum h n [n, n] (by simp)
      simpa [step] using this
  | cli c =>
    cases c with
    | none =>
      left
      exact ⟨sp, by simp [step, Spec.stepJudge], by simpa [step] using h⟩
    | new =>
      cases hc : s.counter with
      | none =>
        right
        have hb := h.none_blank hc
        simp [step, getNew, hc, Spec.stepJudge, hb]
      | some c =>
        left
        have ⟨hnot, hinv⟩ := newCase c hc
        refine ⟨{ sp with used := skip s.flows s.flows.length (c + 1) :: sp.used }, ?_, ?_⟩
        · simp only [step, getNew, hc, Spec.stepJudge]
          simp only [hnot]
          rfl
        · simpa [step, getNew, hc] using hinv
    | nums ns =>
      left
      refine ⟨{ sp with used := toSet ns ++ ns ++ sp.used }, ?_, ?_⟩
      · simp [step, Spec.stepJudge]
      · have := inv_useNums (sp := sp) ns s sp.used h (toSet ns ++ ns) (by
          intro x hx
          simp only [List.mem_append, mem_toSet] at hx
          left; rcases hx with hx | hx <;> exact hx)
        simpa [step, List.append_assoc] using this
  | restart pool =>
    left
    refine ⟨{ sp with blank := sp.used.isEmpty }, ?_, ?_⟩
    · simp [step, Spec.stepJudge]
    · simp only [step]
      constructor
      · exact h.used_table
      · intro n hn
        exact (List.mem_filter.1 hn).1
      · intro n hn
        right
        cases hm : maxOf s.table with
        | none =>
          have := (maxOf_none s.table).1 hm
          rw [this] at hn
          cases hn
        | some m => exact ⟨m, rfl, le_maxOf s.table m hm n hn⟩
      · intro hnone
        cases hm : maxOf s.table with
        | none =>
          have ht := (maxOf_none s.table).1 hm
          cases hu : sp.used with
          | nil => simp
          | cons a l =>
            have := h.used_table a (by simp [hu])
            rw [ht] at this
            cases this
        | some m => simp [hm] at hnone

/-- every failure of the judge on a run of the model is the blank-restart `TypeError` -/
theorem run_accepted (ops : List Op) : ∀ (s : St) (sp : Spec.St) (k : Nat), Inv s sp →
    ∀ f, Spec.runJudge sp k ops (run s ops) = .error f → ∃ k', f = .noNumber k' true := by
  induction ops with
  | nil => intro s sp k _ f hf; simp [run, Spec.runJudge] at hf
  | cons op ops ih =>
    intro s sp k h f hf
    simp only [run, Spec.runJudge] at hf
    rcases step_accepted s sp k op h with ⟨sp', hok, hinv⟩ | ⟨herr, _⟩
    · rw [hok] at hf
      exact ih _ _ _ hinv f hf
    · rw [herr] at hf
      injection hf with e
      exact ⟨k, e.symm⟩

/-- histories in which some flow is created or named before the first restart (the scheduler
always creates the original flow first: `TaskPool.load_from_point`) -/
def flowBeforeRestart : List Op → Bool
  | [] => true
  | .new :: _ => true
  | .num _ :: _ => true
  | .cli .new :: _ => true
  | .cli (.nums (_ :: _)) :: _ => true
  | .restart _ :: _ => false
  | _ :: ops => flowBeforeRestart ops

/-- the counter is a number as long as restarts only happen with a non-empty table
(or the code falls back to a number on an empty table) -/
theorem run_ok (ops : List Op) : ∀ (s : St) (sp : Spec.St) (k : Nat), Inv s sp →
    s.counter ≠ none → (emptyTableCounter ≠ none ∨ s.table ≠ [] ∨ flowBeforeRestart ops = true) →
    Spec.runJudge sp k ops (run s ops) = .ok () := by
  induction ops with
  | nil => intro s sp k _ _ _; simp [run, Spec.runJudge]
  | cons op ops ih =>
    intro s sp k h hc hpre
    simp only [run, Spec.runJudge]
    rcases step_accepted s sp k op h with ⟨sp', hok, hinv⟩ | ⟨_, hnone⟩
    · rw [hok]
      -- the counter stays a number, and the table stays / becomes non-empty
      have hc' : (step s op).1.counter ≠ none ∧
          (emptyTableCounter ≠ none ∨ (step s op).1.table ≠ [] ∨ flowBeforeRestart ops = true) := by
        cases hcs : s.counter with
        | none => exact absurd hcs hc
        | some c =>
        have tableNe : ∀ n, (useNum s n).table ≠ [] ∨ s.table ≠ [] := by
          intro n
          rcases useNum_table s n with h1 | h1
          · left; intro e; rw [e] at h1; cases h1
          · right; intro e; have := h.flows_table n h1; rw [e] at this; cases this
        have useNum_counter : ∀ (s : St) n, (useNum s n).counter = s.counter := by
          intro s n; unfold useNum; split <;> rfl
        have useNum_table_ne : ∀ (s : St) n, s.table ≠ [] → (useNum s n).table ≠ [] := by
          intro s n hne; unfold useNum; split
          · exact hne
          · simp only [insertNew]; split
            · exact hne
            · simp
        have useNums_counter : ∀ ns (s : St), (useNums s ns).counter = s.counter := by
          intro ns; induction ns with
          | nil => intro s; rfl
          | cons n ns ih => intro s; simp only [useNums]; rw [ih, useNum_counter]
        have useNums_table_ne : ∀ ns (s : St), s.table ≠ [] → (useNums s ns).table ≠ [] := by
          intro ns; induction ns with
          | nil => intro s h; exact h
          | cons n ns ih => intro s h; simp only [useNums]; exact ih _ (useNum_table_ne s n h)
        have useNum_new_table : ∀ (s : St) n, n ∉ s.flows → (useNum s n).table ≠ [] := by
          intro s n hn
          have hcont : ¬ (s.flows.contains n = true) := by simpa using hn
          unfold useNum
          rw [if_neg hcont]
          simp only [insertNew]
          split
          · rename_i hm; intro e; rw [e] at hm; simp at hm
          · simp
        cases op with
        | new =>
          have hf := (skip_fresh s.flows (c + 1)).1
          refine ⟨?_, Or.inr (Or.inl ?_)⟩
          · simp [step, getNew, hcs, useNum_counter]
          · simp only [step, getNew, hcs]
            exact useNum_new_table _ _ hf
        | num n =>
          refine ⟨by simp [step, useNum_counter, hcs], ?_⟩
          rcases tableNe n with h1 | h1
          · exact Or.inr (Or.inl (by simpa [step] using h1))
          · exact Or.inr (Or.inl (by simpa [step] using useNum_table_ne s n h1))
        | cli cl =>
          cases cl with
          | none =>
            refine ⟨by simp [step, hcs], ?_⟩
            rcases hpre with h1 | h1 | h1
            · exact Or.inl h1
            · exact Or.inr (Or.inl (by simpa [step] using h1))
            · exact Or.inr (Or.inr (by simpa [flowBeforeRestart] using h1))
          | new =>
            have hf := (skip_fresh s.flows (c + 1)).1
            refine ⟨?_, Or.inr (Or.inl ?_)⟩
            · simp [step, getNew, hcs, useNum_counter]
            · simp only [step, getNew, hcs]
              exact useNum_new_table _ _ hf
          | nums ns =>
            refine ⟨by simp [step, useNums_counter, hcs], ?_⟩
            cases ns with
            | nil =>
              rcases hpre with h1 | h1 | h1
              · exact Or.inl h1
              · exact Or.inr (Or.inl (by simpa [step, useNums] using h1))
              · exact Or.inr (Or.inr (by simpa [flowBeforeRestart] using h1))
            | cons n ns =>
              refine Or.inr (Or.inl ?_)
              simp only [step, useNums]
              rcases tableNe n with h1 | h1
              · exact useNums_table_ne ns _ h1
              · exact useNums_table_ne ns _ (useNum_table_ne s n h1)
        | restart pool =>
          have htab : emptyTableCounter ≠ none ∨ s.table ≠ [] := by
            rcases hpre with h1 | h1 | h1
            · exact Or.inl h1
            · exact Or.inr h1
            · simp [flowBeforeRestart] at h1
          refine ⟨?_, ?_⟩
          · simp only [step]
            cases hm : maxOf s.table with
            | some m => simp
            | none =>
              have := (maxOf_none s.table).1 hm
              rcases htab with h1 | h1
              · simpa using h1
              · exact absurd this h1
          · rcases htab with h1 | h1
            · exact Or.inl h1
            · exact Or.inr (Or.inl (by simpa [step] using h1))
      exact ih _ _ _ hinv hc'.1 hc'.2
    · exact absurd hnone hc

end CylcModel.Flow
