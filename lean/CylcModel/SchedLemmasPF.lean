/-
The extension `SchedPF` (job-file preparation failures) is again a sequence of atomic actions, so the invariants of
C01 / C02 that need no environment assumption carry over to every run of the extended model.
-/
import CylcModel.SchedPF
import CylcModel.SchedLemmasC02

namespace CylcModel.Sched

variable {g : Graph} {K : Kinds}

theorem steps_prepFail (hwf : g.wf = true) (hsui : K.sui = true ∨ g.noSui = true) (hmsg : ∀ x, K.msg x = true)
    (hret : K.retry = true) (hallow : ∀ x : Proxy, x.status = .preparing → K.allow x = true)
    {s : State} (hi : RInv g s) (k : Int × String) : Steps g K s (prepFail g s k) := by
  unfold prepFail
  split
  · rename_i x hx
    split
    · rename_i hc
      simp only [Bool.and_eq_true, beq_iff_eq] at hc
      apply steps_processMessage hwf 4 K _ _ _ _ _ _ hi hsui (fun x _ _ => hmsg x)
      · intro hn; rcases hn with h | h | h <;> simp at h
      · exact fun _ => hret
      · intro _ x' hx'
        rw [hx] at hx'
        rw [← Option.some.inj hx']
        exact hallow x hc.1
    · exact Steps.refl s
  · exact Steps.refl s

theorem mainLoopPF_eq (g : Graph) (s : State) (fails : List (Int × String)) :
    mainLoopPF g s fails = if s.stop.isSome then s else
      if (preSubmit g s).2 then { (preSubmit g s).1 with stop := some "AUTOMATIC" }
      else finishLoop g (processQueue g (fails.foldl (prepFail g) (preSubmit g s).1)) := by
  unfold mainLoopPF preSubmit
  split
  · rfl
  · simp only
    split <;> rfl

/-- one operation of the extended model is a sequence of atomic actions (all kinds admitted) -/
theorem steps_stepX (hwf : g.wf = true) {s : State} (hi : RInv g s) (op : OpX) :
    Steps g Kinds.all (clearOp s) (stepX g s op) := by
  cases op with
  | base op => exact steps_step hwf rfl (fun _ => rfl) (fun _ => rfl) rfl rfl hi op (Or.inl (fun _ => rfl))
  | loopPF fails =>
    show Steps g Kinds.all (clearOp s) (mainLoopPF g (clearOp s) fails)
    have hc := rinv_clearOp hi
    rw [mainLoopPF_eq]
    split
    · exact Steps.refl _
    · obtain ⟨h1, _⟩ := steps_preSubmit (K := Kinds.all) hwf rfl hc
      split
      · exact h1.trans (steps_frame rfl rfl rfl rfl)
      · have hi1 := rinv_steps hwf h1 hc
        have h2 : Steps g Kinds.all (preSubmit g (clearOp s)).1
            (fails.foldl (prepFail g) (preSubmit g (clearOp s)).1) := by
          apply steps_foldl (RInv g) (fun _ _ hi ha => rinv_act hwf hi ha) _ _ _ _ hi1
          intro st k hst
          exact steps_prepFail hwf (Or.inl rfl) (fun _ => rfl) rfl (fun _ _ => rfl) hst k
        have hi2 := rinv_steps hwf h2 hi1
        exact (h1.trans h2).trans (steps_postSubmit hwf (fun _ => True) (fun _ _ _ _ _ => trivial) (fun _ => rfl) rfl
          (Or.inl rfl) hi2 trivial (fun _ _ _ _ _ => Or.inl (fun _ => rfl)) (Or.inl (fun _ => rfl)))

/-- lifting of an invariant of the atomic actions to all states of all runs of the extended model -/
theorem runX_inv_act (hwf : g.wf = true) (P : State → Prop) (h0 : P ({} : State))
    (hact : ∀ s s', RInv g s → P s → Act g Kinds.all s s' → P s') (hclear : ∀ s, P s → P (clearOp s)) :
    ∀ (ops : List OpX), ∀ s ∈ runX g ops, RInv g s ∧ P s := by
  have hstep : ∀ a b, Steps g Kinds.all a b → (RInv g a ∧ P a) → (RInv g b ∧ P b) := by
    intro a b hab hpa
    exact Steps.inv (fun st => RInv g st ∧ P st)
      (fun s s' h ha => ⟨rinv_act hwf h.1 ha, hact s s' h.1 h.2 ha⟩) hab hpa
  have key : ∀ (ops : List OpX) (s : State), (RInv g s ∧ P s) → ∀ s' ∈ traceX g s ops, RInv g s' ∧ P s' := by
    intro ops; induction ops with
    | nil => intro s hp s' hm; simp only [traceX, List.mem_singleton] at hm; subst hm; exact hp
    | cons op ops ih =>
      intro s hp s' hm
      simp only [traceX, List.mem_cons] at hm
      rcases hm with rfl | hm
      · exact hp
      · exact ih _ (hstep _ _ (steps_stepX hwf hp.1 op) ⟨rinv_clearOp hp.1, hclear s hp.2⟩) s' hm
  intro ops
  exact key ops (init g) (hstep _ _ (steps_init hwf rfl) ⟨rinv_empty, h0⟩)

theorem c01_runX (hwf : g.wf = true) (ops : List OpX) : ∀ s ∈ runX g ops, RInv g s ∧ C01Inv g s :=
  runX_inv_act hwf (C01Inv g) (c01_empty g) (fun _ _ hi hp ha => c01_act hi hp ha) (fun _ h => c01_clearOp h) ops

theorem tries_runX (hwf : g.wf = true) (ops : List OpX) : ∀ s ∈ runX g ops, TriesOK g s := by
  intro s hs
  exact (runX_inv_act hwf (TriesOK g) (by intro x hx; cases hx) (fun _ _ _ hp ha => tries_act hp ha)
    (fun _ h => h) ops s hs).2

/-- the state after all operations of the extended model -/
def lastStateX (g : Graph) (s : State) (ops : List OpX) : State := ops.foldl (stepX g) s

theorem traceX_ne_nil (g : Graph) (s : State) (ops : List OpX) : traceX g s ops = s :: (traceX g s ops).tail := by
  cases ops <;> rfl

theorem launches_traceX (hwf : g.wf = true) : ∀ (ops : List OpX) (s : State), RInv g s → ∀ p n,
    snOf s p n ≤ snOf (lastStateX g s ops) p n ∧
    snsOf ((traceX g s ops).tail.flatMap (·.launched)) p n =
      List.range' (snOf s p n + 1) (snOf (lastStateX g s ops) p n - snOf s p n) := by
  intro ops; induction ops with
  | nil => intro s _ p n; simp [traceX, lastStateX, snsOf]
  | cons op ops ih =>
    intro s hi p n
    have hst : Steps g Kinds.all (clearOp s) (stepX g s op) := steps_stepX hwf hi op
    have hi' := rinv_steps hwf hst (rinv_clearOp hi)
    obtain ⟨h1, h2⟩ := logRel_steps hst p n
    have hsn : snOf (clearOp s) p n = snOf s p n := snOf_congr rfl rfl p n
    have hcl : snsOf (clearOp s).launched p n = [] := rfl
    rw [hsn] at h1 h2
    rw [hcl, List.nil_append] at h2
    obtain ⟨h3, h4⟩ := ih (stepX g s op) hi' p n
    have hlast : lastStateX g s (op :: ops) = lastStateX g (stepX g s op) ops := rfl
    rw [hlast]
    refine ⟨Nat.le_trans h1 h3, ?_⟩
    show snsOf ((traceX g (stepX g s op) ops).flatMap (·.launched)) p n = _
    rw [traceX_ne_nil, List.flatMap_cons, snsOf_append, h2, h4]
    have e1 : snOf (stepX g s op) p n + 1 = snOf s p n + 1 + (snOf (stepX g s op) p n - snOf s p n) := by omega
    rw [e1, List.range'_append_1]
    congr 1
    omega

/-- the submission attempts (launches and failed preparations) of one instance carry the numbers 1, 2, …, k -/
theorem submit_numbers_consecutiveX (hwf : g.wf = true) (ops : List OpX) (p : Int) (n : String) :
    snsOf ((runX g ops).flatMap (·.launched)) p n = List.range' 1 (snOf (lastStateX g (init g) ops) p n) := by
  have h0 : Steps g Kinds.all ({} : State) (init g) := steps_init hwf rfl
  have hi0 := rinv_steps hwf h0 rinv_empty
  obtain ⟨h1, h2⟩ := logRel_steps h0 p n
  have hz : snOf ({} : State) p n = 0 := rfl
  have hzl : snsOf ({} : State).launched p n = [] := rfl
  rw [hz] at h1 h2
  rw [hzl, List.nil_append] at h2
  obtain ⟨h3, h4⟩ := launches_traceX hwf ops (init g) hi0 p n
  unfold runX
  rw [traceX_ne_nil, List.flatMap_cons, snsOf_append, h2, h4]
  simp only [Nat.zero_add, Nat.sub_zero]
  have e1 : snOf (init g) p n + 1 = 1 + snOf (init g) p n := by omega
  rw [e1, List.range'_append_1]
  congr 1
  omega

end CylcModel.Sched
