/-
Generic lifting of *pool invariants* of the `Sched` model (used by C45 and C46).

An invariant of the shape

    Holds Q J s  :=  (∀ x ∈ s.pool, Q s x) ∧ J s

is preserved by every primitive of the model, by `step` and along `run`, as soon as `Q`/`J` are
closed under the handful of *atomic* state changes the model is made of (`Frame`): replacing a pooled
proxy by an updated copy of itself, satisfying a prerequisite atom, adding the result of `spawnTask`,
removing a pooled proxy into the history, recording a launch, clearing the per-op fields — and, for
`spawnOnOutput`, appending to `absDone` (`AbsClosed`; invariants that speak about `absDone` prove
their own `spawnOnOutput` lemma and plug it into the upper half of the chain).

Core Lean only.
-/
import CylcModel.SchedLemmas

namespace CylcModel.Sched

/-! ### small facts about proxies and the pool -/

/-- an updated copy of the same instance: identity and prerequisites untouched -/
def Same (x x' : Proxy) : Prop := x'.pt = x.pt ∧ x'.name = x.name ∧ x'.pre = x.pre

theorem Same.rfl' (x : Proxy) : Same x x := ⟨rfl, rfl, rfl⟩

theorem Same.trans {x y z : Proxy} (h1 : Same x y) (h2 : Same y z) : Same x z :=
  ⟨h2.1.trans h1.1, h2.2.1.trans h1.2.1, h2.2.2.trans h1.2.2⟩

theorem same_reset (x : Proxy) (st : Option Status) (q r : Option Bool) : Same x (x.reset st q r) := by
  unfold Proxy.reset
  simp only
  split
  · exact Same.rfl' x
  · exact ⟨rfl, rfl, rfl⟩

theorem same_setComplete (g : Graph) (x : Proxy) (msg : String) : Same x (setComplete g x msg).1 := by
  unfold setComplete
  split
  · exact Same.rfl' x
  · split
    · exact Same.rfl' x
    · exact ⟨rfl, rfl, rfl⟩

theorem reset_pt (x : Proxy) (st : Option Status) (q r : Option Bool) : (x.reset st q r).pt = x.pt :=
  (same_reset x st q r).1
theorem reset_name (x : Proxy) (st : Option Status) (q r : Option Bool) : (x.reset st q r).name = x.name :=
  (same_reset x st q r).2.1
theorem reset_pre (x : Proxy) (st : Option Status) (q r : Option Bool) : (x.reset st q r).pre = x.pre :=
  (same_reset x st q r).2.2
theorem setComplete_pt (g : Graph) (x : Proxy) (msg : String) : (setComplete g x msg).1.pt = x.pt :=
  (same_setComplete g x msg).1
theorem setComplete_name (g : Graph) (x : Proxy) (msg : String) : (setComplete g x msg).1.name = x.name :=
  (same_setComplete g x msg).2.1
theorem setComplete_pre (g : Graph) (x : Proxy) (msg : String) : (setComplete g x msg).1.pre = x.pre :=
  (same_setComplete g x msg).2.2

theorem satisfyMe_pt (x : Proxy) (a : Atom) : (x.satisfyMe a).pt = x.pt := rfl
theorem satisfyMe_name (x : Proxy) (a : Atom) : (x.satisfyMe a).name = x.name := rfl

theorem get?_mem {s : State} {p : Int} {n : String} {x : Proxy} (h : s.get? p n = some x) :
    x ∈ s.pool ∧ x.pt = p ∧ x.name = n := by
  unfold State.get? at h
  have h1 := List.mem_of_find?_eq_some h
  have h2 := List.find?_some h
  simp only [Bool.and_eq_true, beq_iff_eq] at h2
  exact ⟨h1, h2.1, h2.2⟩

theorem get?_none_forall {s : State} {p : Int} {n : String} (h : s.get? p n = none) :
    ∀ x ∈ s.pool, ¬ (x.pt = p ∧ x.name = n) := by
  intro x hx hk
  unfold State.get? at h
  have := List.find?_eq_none.mp h x hx
  simp [hk.1, hk.2] at this

theorem get?_eq_none_of_keys {s s' : State} (hk : keys s' = keys s) (p : Int) (n : String)
    (h : s.get? p n = none) : s'.get? p n = none := by
  cases hg : s'.get? p n with
  | none => rfl
  | some x =>
    exfalso
    obtain ⟨hx, hp, hn⟩ := get?_mem hg
    have hm : (p, n) ∈ keys s' := by
      unfold keys
      exact List.mem_map.mpr ⟨x, hx, by rw [hp, hn]⟩
    rw [hk] at hm
    exact get?_none_not_mem s p n h hm

theorem mem_put {s : State} {z x : Proxy} (h : x ∈ (s.put z).pool) :
    x = z ∨ x ∈ s.pool := by
  unfold State.put at h
  simp only at h
  obtain ⟨y, hy, rfl⟩ := List.mem_map.mp h
  split
  · exact Or.inl rfl
  · exact Or.inr hy

theorem hist_put (s : State) (z : Proxy) : (s.put z).hist = s.hist := rfl
theorem absDone_put (s : State) (z : Proxy) : (s.put z).absDone = s.absDone := rfl
theorem launched_put (s : State) (z : Proxy) : (s.put z).launched = s.launched := rfl

/-! ### `spawnTask` in factored form -/

/-- the latest DB history row of an instance -/
def lastHist (hist : List Hist) (name : String) (p : Int) : Option Hist :=
  (hist.filter fun h => h.pt == p && h.name == name).getLast?

/-- the part of `spawnTask` that reads the history: the (possibly revived) proxy before the
absolute-trigger fix-up -/
def spawnCore (g : Graph) (hist : List Hist) (name : String) (p : Int) : Option Proxy :=
  let h := lastHist hist name p
  if h.isNone && p < g.start then none
  else match mkProxy g name p with
    | none => none
    | some x =>
      match h with
      | none => some x
      | some h =>
        if h.done.isEmpty then none
        else
          let y := { x with status := h.status, submitNum := h.submitNum, done := h.done }
          if h.status.isFinal then
            match g.task? name with
            | some t => if isComplete t h.done then none else some y
            | none => none
          else some y

/-- the absolute-trigger fix-up of `spawnTask` -/
def absFinish (g : Graph) (absDone : List Atom) (name : String) (y : Proxy) : Proxy :=
  match g.task? name with
  | some t => if t.hasAbs && !y.prereqsSatisfied then absDone.foldl (fun z a => z.satisfyMe a) y else y
  | none => y

theorem spawnTask_eq (g : Graph) (s : State) (name : String) (p : Int) :
    spawnTask g s name p = (spawnCore g s.hist name p).map (absFinish g s.absDone name) := by
  unfold spawnTask spawnCore lastHist absFinish
  simp only
  split
  · rfl
  · cases hm : mkProxy g name p with
    | none => rfl
    | some x => rfl

theorem mkProxy_some {g : Graph} {name : String} {p : Int} {x : Proxy} (h : mkProxy g name p = some x) :
    ∃ t d, g.task? name = some t ∧ t.inst? p = some d ∧ x.pt = p ∧ x.name = name ∧ x.pre = d.pre := by
  unfold mkProxy at h
  cases ht : g.task? name with
  | none => simp [ht] at h
  | some t =>
    simp only [ht, Option.bind_eq_bind, Option.bind_some] at h
    split at h
    · simp at h
    · cases hd : t.inst? p with
      | none => simp [hd] at h
      | some d =>
        simp only [hd, Option.bind_some] at h
        simp only [pure, Option.some.injEq] at h
        subst h
        exact ⟨t, d, rfl, hd, rfl, rfl, rfl⟩

/-- what `spawnCore` returns: a proxy of the requested instance with the prerequisites of the graph;
it is refused before the start point unless the instance has history -/
theorem spawnCore_some {g : Graph} {hist : List Hist} {name : String} {p : Int} {y : Proxy}
    (h : spawnCore g hist name p = some y) :
    ∃ t d, g.task? name = some t ∧ t.inst? p = some d ∧ y.pt = p ∧ y.name = name ∧ y.pre = d.pre ∧
      (lastHist hist name p = none → ¬ p < g.start) := by
  unfold spawnCore at h
  simp only at h
  split at h
  · simp at h
  · rename_i hstart
    cases hm : mkProxy g name p with
    | none => simp [hm] at h
    | some x =>
      obtain ⟨t, d, ht, hd, hp, hn, hpre⟩ := mkProxy_some hm
      have hst : lastHist hist name p = none → ¬ p < g.start := by
        intro hl hlt
        apply hstart
        simp [hl, hlt]
      simp only [hm] at h
      split at h
      · simp only [Option.some.injEq] at h; subst h
        exact ⟨t, d, ht, hd, hp, hn, hpre, hst⟩
      · split at h
        · simp at h
        · split at h
          · split at h
            · split at h
              · simp at h
              · simp only [Option.some.injEq] at h; subst h
                exact ⟨t, d, ht, hd, hp, hn, hpre, hst⟩
            · simp at h
          · simp only [Option.some.injEq] at h; subst h
            exact ⟨t, d, ht, hd, hp, hn, hpre, hst⟩

theorem foldl_satisfyMe_pt (l : List Atom) (y : Proxy) :
    (l.foldl (fun z a => z.satisfyMe a) y).pt = y.pt ∧ (l.foldl (fun z a => z.satisfyMe a) y).name = y.name := by
  induction l generalizing y with
  | nil => exact ⟨rfl, rfl⟩
  | cons a l ih => simp only [List.foldl_cons]; exact ⟨(ih _).1, (ih _).2⟩

theorem absFinish_key (g : Graph) (ad : List Atom) (name : String) (y : Proxy) :
    (absFinish g ad name y).pt = y.pt ∧ (absFinish g ad name y).name = y.name := by
  unfold absFinish
  split
  · split
    · exact foldl_satisfyMe_pt _ _
    · exact ⟨rfl, rfl⟩
  · exact ⟨rfl, rfl⟩

theorem spawnTask_key {g : Graph} {s : State} {name : String} {p : Int} {z : Proxy}
    (h : spawnTask g s name p = some z) : z.pt = p ∧ z.name = name := by
  rw [spawnTask_eq] at h
  cases hc : spawnCore g s.hist name p with
  | none => simp [hc] at h
  | some y =>
    simp only [hc, Option.map_some, Option.some.injEq] at h
    subst h
    obtain ⟨_, _, _, _, hp, hn, _⟩ := spawnCore_some hc
    have := absFinish_key g s.absDone name y
    exact ⟨this.1.trans hp, this.2.trans hn⟩

/-- `spawnTask` reads the history and the record of absolute outputs only -/
theorem spawnTask_congr (g : Graph) {s s' : State} (hh : s'.hist = s.hist) (ha : s'.absDone = s.absDone)
    (name : String) (p : Int) : spawnTask g s' name p = spawnTask g s name p := by
  rw [spawnTask_eq, spawnTask_eq, hh, ha]

/-- whether `spawnTask` refuses an instance depends on the history only -/
theorem spawnTask_none_iff (g : Graph) (s : State) (name : String) (p : Int) :
    spawnTask g s name p = none ↔ spawnCore g s.hist name p = none := by
  rw [spawnTask_eq]; simp

/-! ### `spawnChild` after the recording step -/

/-- `spawnChild` from the point where the absolute output has (possibly) been recorded in `st0` -/
def spawnChildCore (g : Graph) (p : Int) (n out : String) (st0 : State) (sui : List (Int × String)) (c : Child) :
    State × List (Int × String) :=
  match (match st0.get? c.pt c.name with
    | some y => some y
    | none => spawnTask g st0 c.name c.pt) with
  | none => (st0, sui)
  | some y =>
    let st : State := if (st0.get? c.pt c.name).isSome then st0 else st0.add (y.satisfyMe ⟨p, n, out⟩)
    let targets : List (Int × String) :=
      if c.isAbs then
        let others : List (Int × String) :=
          (st.pool.filter fun (z : Proxy) => z.name == c.name).map fun (z : Proxy) => (z.pt, z.name)
        if others.contains (c.pt, c.name) then others else others ++ [(c.pt, c.name)]
      else [(c.pt, c.name)]
    targets.foldl (fun (a : State × List (Int × String)) (k : Int × String) =>
      match a.1.get? k.1 k.2 with
      | none => a
      | some z =>
        let z := z.satisfyMe ⟨p, n, out⟩
        (a.1.put z, if z.suicideNow && !a.2.contains k then a.2 ++ [k] else a.2)) (st, sui)

theorem spawnChild_eq (g : Graph) (p : Int) (n out : String) (st : State) (sui : List (Int × String)) (c : Child) :
    spawnChild g p n out (st, sui) c =
      spawnChildCore g p n out
        (if (c.isAbs && !st.absDone.contains ⟨p, n, out⟩) = true then
          { st with absDone := st.absDone ++ [⟨p, n, out⟩] } else st) sui c := by
  unfold spawnChild spawnChildCore
  rfl

theorem task?_mem {g : Graph} {n : String} {t : TaskDefn} (h : g.task? n = some t) : t ∈ g.tasks := by
  unfold Graph.task? at h
  exact List.mem_of_find?_eq_some h

theorem inst?_mem {t : TaskDefn} {p : Int} {d : InstDef} (h : t.inst? p = some d) : (p, d) ∈ t.insts := by
  unfold TaskDefn.inst? at h
  cases hf : t.insts.find? (·.1 == p) with
  | none => simp [hf] at h
  | some pd =>
    simp only [hf, Option.map_some, Option.some.injEq] at h
    have h1 := List.mem_of_find?_eq_some hf
    have h2 := List.find?_some hf
    simp only [beq_iff_eq] at h2
    obtain ⟨p', d'⟩ := pd
    simp only at h h2
    subst h; subst h2
    exact h1

theorem lastHist_mem {hist : List Hist} {n : String} {p : Int} {h : Hist} (hl : lastHist hist n p = some h) :
    h ∈ hist ∧ h.pt = p := by
  unfold lastHist at hl
  have hm := List.mem_of_getLast? hl
  have := List.mem_filter.mp hm
  simp only [Bool.and_eq_true, beq_iff_eq] at this
  exact ⟨this.1, this.2.1⟩

/-- atoms after `Pre.satisfy`: same atoms, flags only raised -/
theorem mem_satisfy_atoms {pr : Pre} {a : Atom} {e : Atom × Bool} (h : e ∈ (pr.satisfy a).atoms) :
    ∃ e0 ∈ pr.atoms, e.1 = e0.1 ∧ (e0.2 = true → e.2 = true) := by
  unfold Pre.satisfy at h
  simp only at h
  obtain ⟨e0, he0, rfl⟩ := List.mem_map.mp h
  refine ⟨e0, he0, ?_, ?_⟩
  · obtain ⟨b, s⟩ := e0
    simp only
    split <;> rfl
  · obtain ⟨b, s⟩ := e0
    simp only
    intro hs
    split
    · rfl
    · exact hs

/-- `foldl_inv` with the membership of the element at hand -/
theorem foldl_inv_mem {α σ} (P : σ → Prop) (f : σ → α → σ) :
    ∀ (l : List α) (s : σ), (∀ s a, a ∈ l → P s → P (f s a)) → P s → P (l.foldl f s) := by
  intro l; induction l with
  | nil => intro s _ hs; exact hs
  | cons a l ih =>
    intro s h hs
    exact ih _ (fun s' a' ha' => h s' a' (List.mem_cons_of_mem _ ha')) (h s a (List.mem_cons_self ..) hs)

theorem childrenOf_congr (g : Graph) (x y : Proxy) (out : String) (hp : x.pt = y.pt) (hn : x.name = y.name) :
    childrenOf g x out = childrenOf g y out := by
  unfold childrenOf
  rw [hp, hn]

theorem nextParentless_congr (g : Graph) (x y : Proxy) (hp : x.pt = y.pt) (hn : x.name = y.name) :
    nextParentless g x = nextParentless g y := by
  unfold nextParentless
  rw [hp, hn]

/-! ### The frame -/

def Holds (Q : State → Proxy → Prop) (J : State → Prop) (s : State) : Prop :=
  (∀ x ∈ s.pool, Q s x) ∧ J s

/-- `A` says which instances may be asked of `spawnTask` (it guards `spawn`); the model only ever asks
for a graph child of an output of a pooled instance (`child`), the next parentless instance of a pooled
instance (`nextp`), or — at start-up — the first parentless instance of a task / a start task.
Invariants that do not care take `A := fun _ => True`. -/
structure Frame (g : Graph) (A : Int × String → Prop) (Q : State → Proxy → Prop) (J : State → Prop) : Prop where
  /-- `Q` reads the state through the pool keys, the history and `absDone` only -/
  qcongr : ∀ (s s' : State) (x : Proxy), keys s' = keys s → s'.hist = s.hist → s'.absDone = s.absDone →
    Q s x → Q s' x
  /-- `J` reads the state through the pool keys, the history, `absDone` and `launched` only -/
  jcongr : ∀ (s s' : State), keys s' = keys s → s'.hist = s.hist → s'.absDone = s.absDone →
    s'.launched = s.launched → J s → J s'
  /-- updated copies of an instance (status, flags, outputs, counters) keep `Q` -/
  upd : ∀ (s : State) (x x' : Proxy), Q s x → Same x x' → Q s x'
  /-- satisfying an atom keeps `Q` -/
  sat : ∀ (s : State) (x : Proxy) (a : Atom), Q s x → Q s (x.satisfyMe a)
  /-- whatever `spawnTask` returns has `Q` -/
  spawn : ∀ (s : State) (n : String) (p : Int) (z : Proxy), Holds Q J s → A (p, n) → spawnTask g s n p = some z → Q s z
  /-- graph children of (any output of) an instance with `Q` may be spawned -/
  child : ∀ (s : State) (x : Proxy) (out : String) (c : Child), Q s x → c ∈ childrenOf g x out → A (c.pt, c.name)
  /-- the next parentless instance of an instance with `Q` may be spawned -/
  nextp : ∀ (s : State) (x : Proxy) (np : Int), Q s x → nextParentless g x = some np → A (np, x.name)
  /-- adding a spawnable instance that is not in the pool -/
  add : ∀ (s : State) (z : Proxy), Holds Q J s → Q s z → (spawnTask g s z.name z.pt).isSome = true →
    s.get? z.pt z.name = none → Holds Q J { s with pool := s.pool ++ [z] }
  /-- removing a pooled instance into the history -/
  remove : ∀ (s : State) (x : Proxy) (gh : List Proxy), Holds Q J s → x ∈ s.pool →
    Holds Q J { s with pool := s.pool.filter (fun y => !(y.pt == x.pt && y.name == x.name)),
                       hist := s.hist ++ [⟨x.pt, x.name, x.status, x.submitNum, x.done⟩],
                       ghosts := gh }
  /-- recording the launch of an instance that has `Q` -/
  launch : ∀ (s : State) (x : Proxy) (n : Nat), Holds Q J s → Q s x →
    Holds Q J { s with launched := s.launched ++ [(x.pt, x.name, n)] }
  /-- the per-op fields are cleared at the start of every op -/
  clear : ∀ (s : State), Holds Q J s → Holds Q J (clearOp s)

/-- closure under recording an absolute output (invariants that do not speak about `absDone`) -/
def AbsClosed (Q : State → Proxy → Prop) (J : State → Prop) : Prop :=
  ∀ (s : State) (a : Atom), Holds Q J s → Holds Q J { s with absDone := s.absDone ++ [a] }

section Low
variable {g : Graph} {A : Int × String → Prop} {Q : State → Proxy → Prop} {J : State → Prop} (F : Frame g A Q J)
include F

/-- a state with the same pool, history, `absDone` and `launched` -/
theorem Frame.holds_congr {s s' : State} (h : Holds Q J s) (hp : s'.pool = s.pool) (hh : s'.hist = s.hist)
    (ha : s'.absDone = s.absDone) (hl : s'.launched = s.launched) : Holds Q J s' := by
  have hk : keys s' = keys s := by unfold keys; rw [hp]
  refine ⟨?_, F.jcongr s s' hk hh ha hl h.2⟩
  intro x hx
  rw [hp] at hx
  exact F.qcongr s s' x hk hh ha (h.1 x hx)

/-- replacing every pooled proxy by an updated copy with `Q` -/
theorem Frame.holds_map {s s' : State} (f : Proxy → Proxy) (h : Holds Q J s)
    (hf : ∀ y ∈ s.pool, Q s (f y) ∧ (f y).pt = y.pt ∧ (f y).name = y.name)
    (hp : s'.pool = s.pool.map f) (hh : s'.hist = s.hist) (ha : s'.absDone = s.absDone)
    (hl : s'.launched = s.launched) : Holds Q J s' := by
  have hk : keys s' = keys s := by
    unfold keys; rw [hp, List.map_map]
    apply List.map_congr_left
    intro y hy
    simp only [Function.comp, (hf y hy).2.1, (hf y hy).2.2]
  refine ⟨?_, F.jcongr s s' hk hh ha hl h.2⟩
  intro x hx
  rw [hp] at hx
  obtain ⟨y, hy, rfl⟩ := List.mem_map.mp hx
  exact F.qcongr s s' _ hk hh ha (hf y hy).1

theorem Frame.holds_put {s : State} {z : Proxy} (h : Holds Q J s) (hz : Q s z) : Holds Q J (s.put z) := by
  refine F.holds_map (s' := s.put z) (fun y => if y.pt == z.pt && y.name == z.name then z else y) h ?_
    rfl rfl rfl rfl
  intro y hy
  split
  · rename_i hc
    simp only [Bool.and_eq_true, beq_iff_eq] at hc
    exact ⟨hz, hc.1.symm, hc.2.symm⟩
  · exact ⟨h.1 y hy, rfl, rfl⟩

/-- `Q` of a fixed proxy survives a `put` -/
theorem Frame.q_put {s : State} {x : Proxy} (z : Proxy) (hx : Q s x) : Q (s.put z) x :=
  F.qcongr s (s.put z) x (keys_put s z) rfl rfl hx

theorem Frame.holds_add {s : State} {z : Proxy} (h : Holds Q J s) (hz : Q s z)
    (hsp : (spawnTask g s z.name z.pt).isSome = true) : Holds Q J (s.add z) := by
  unfold State.add
  split
  · exact h
  · rename_i hn
    have hn' : s.get? z.pt z.name = none := by
      cases hg : s.get? z.pt z.name with
      | none => rfl
      | some v => simp [hg] at hn
    exact F.add s z h hz hsp hn'

theorem Frame.holds_spawnAndAdd (s : State) (n : String) (p : Int) (h : Holds Q J s) (hA : A (p, n)) :
    Holds Q J (spawnAndAdd g s n p) := by
  unfold spawnAndAdd
  split
  · exact h
  · split
    · rename_i x hx
      have hk := spawnTask_key hx
      apply F.holds_add h (F.spawn s n p x h hA hx)
      rw [hk.1, hk.2, hx]; rfl
    · exact h

theorem Frame.holds_spawnNextParentless (s : State) (x : Proxy) (h : Holds Q J s)
    (hx : ∀ np, nextParentless g x = some np → A (np, x.name)) :
    Holds Q J (spawnNextParentless g s x) := by
  unfold spawnNextParentless
  split
  · exact h
  · split
    · rename_i np hnp
      exact F.holds_spawnAndAdd _ _ _ h (hx np hnp)
    · exact h

omit F in
theorem mem_add {s : State} {z x : Proxy} (h : x ∈ s.pool) : x ∈ (s.add z).pool := by
  unfold State.add
  split
  · exact h
  · exact List.mem_append_left _ h

omit F in
theorem mem_spawnAndAdd {s : State} {n : String} {p : Int} {x : Proxy} (h : x ∈ s.pool) :
    x ∈ (spawnAndAdd g s n p).pool := by
  unfold spawnAndAdd
  split
  · exact h
  · split
    · exact mem_add h
    · exact h

omit F in
theorem mem_spawnNextParentless {s : State} {y x : Proxy} (h : x ∈ s.pool) :
    x ∈ (spawnNextParentless g s y).pool := by
  unfold spawnNextParentless
  split
  · exact h
  · split
    · exact mem_spawnAndAdd h
    · exact h

theorem Frame.holds_computeRunahead (s : State) (f : Bool) (h : Holds Q J s) :
    Holds Q J (computeRunahead g s f) := by
  have hp := pool_computeRunahead g s f
  apply F.holds_congr h hp
  all_goals
    unfold computeRunahead
    simp only
    split
    · rfl
    · split <;> rfl

theorem Frame.holds_releaseRunahead (s : State) (h : Holds Q J s) : Holds Q J (releaseRunahead g s).1 := by
  unfold releaseRunahead
  split
  · exact h
  · split
    · exact h
    · simp only
      apply foldl_inv_mem (Holds Q J) _ _ _ _ h
      intro st x hxm hst
      have hxs : x ∈ s.pool := (List.mem_filter.mp hxm).1
      apply F.holds_spawnNextParentless _ _ _ (fun np hnp => F.nextp s x np (h.1 x hxs) hnp)
      split
      · rename_i y hy
        exact F.holds_put hst (F.upd st y _ (hst.1 y (get?_mem hy).1) (same_reset _ _ _ _))
      · exact hst

theorem Frame.holds_releaseRunaheadN : ∀ (n : Nat) (s : State), Holds Q J s → Holds Q J (releaseRunaheadN g n s) := by
  intro n; induction n with
  | zero => intro s h; exact h
  | succ n ih =>
    intro s h
    unfold releaseRunaheadN
    simp only
    split
    · exact ih _ (F.holds_releaseRunahead s h)
    · exact F.holds_releaseRunahead s h

theorem Frame.holds_queueIfReady (s : State) (x : Proxy) (h : Holds Q J s) (hx : Q s x) :
    Holds Q J (queueIfReady s x) := by
  unfold queueIfReady; split
  · exact F.holds_put h (F.upd s x _ hx (same_reset _ _ _ _))
  · exact h

theorem Frame.holds_loadFromPoint (h0 : Holds Q J ({} : State))
    (hload : ∀ t ∈ g.tasks, ∀ p, t.firstParentless = some p → A (p, t.name)) : Holds Q J (loadFromPoint g) := by
  unfold loadFromPoint
  simp only
  apply foldl_inv (Holds Q J)
  · intro st x hst
    split
    · rename_i y hy
      exact F.holds_queueIfReady _ _ hst (hst.1 y (get?_mem hy).1)
    · exact hst
  · apply F.holds_releaseRunaheadN
    apply F.holds_computeRunahead
    apply foldl_inv_mem (Holds Q J)
    · intro st t ht hst
      split
      · rename_i p hp
        exact F.holds_spawnAndAdd _ _ _ hst (hload t ht p hp)
      · exact hst
    · exact h0

theorem Frame.holds_releaseAndSubmit (s : State) (h : Holds Q J s) : Holds Q J (releaseAndSubmit s) := by
  unfold releaseAndSubmit
  simp only
  split
  · exact h
  · -- the released proxies come from the pool of `s`; the fold keeps keys, history and `absDone`
    have key : ∀ (l : List Proxy) (st : State), (∀ x ∈ l, Q s x) → Holds Q J st →
        keys st = keys s → st.hist = s.hist → st.absDone = s.absDone →
        Holds Q J (l.foldl (fun (st : State) x =>
          let y := x.reset (queued := some false)
          let y := { (y.reset (status := some .preparing)) with submitNum := x.submitNum + 1 }
          { (st.put y) with launched := st.launched ++ [(x.pt, x.name, x.submitNum + 1)] }) st) := by
      intro l; induction l with
      | nil => intro st _ hst _ _ _; exact hst
      | cons a l ih =>
        intro st hl hst hk hh ha
        simp only [List.foldl_cons]
        have hqa : Q st a := F.qcongr s st a hk hh ha (hl a (List.mem_cons_self ..))
        have hsame : Same a { ((a.reset (queued := some false)).reset (status := some .preparing)) with
            submitNum := a.submitNum + 1 } :=
          Same.trans (Same.trans (same_reset a none (some false) none) (same_reset _ (some .preparing) none none))
            ⟨rfl, rfl, rfl⟩
        have hput := F.holds_put hst (F.upd st a _ hqa hsame)
        have hl' := F.launch _ a (a.submitNum + 1) hput (F.q_put _ hqa)
        apply ih _ (fun x hx => hl x (List.mem_cons_of_mem _ hx))
        · exact F.holds_congr hl' rfl rfl rfl rfl
        · show keys (st.put _) = keys s
          rw [keys_put]; exact hk
        · exact hh
        · exact ha
    have hrel : ∀ x ∈ s.pool.filter (·.queued), Q s x := fun x hx => h.1 x (List.mem_filter.mp hx).1
    have := key _ s hrel h rfl rfl rfl
    exact F.holds_congr this rfl rfl rfl rfl

theorem Frame.holds_remove (s : State) (x : Proxy) (h : Holds Q J s) (hx : x ∈ s.pool) :
    Holds Q J (CylcModel.Sched.remove g s x) := by
  unfold CylcModel.Sched.remove
  simp only
  split
  · exact F.remove _ x _ (F.holds_spawnNextParentless s x h (fun np hnp => F.nextp s x np (h.1 x hx) hnp))
      (mem_spawnNextParentless hx)
  · exact F.remove _ x _ h hx

theorem Frame.holds_removeIfComplete (s : State) (x : Proxy) (h : Holds Q J s) (hx : x ∈ s.pool) :
    Holds Q J (removeIfComplete g s x) := by
  unfold removeIfComplete
  split
  · exact h
  · split
    · exact h
    · split
      · exact F.holds_remove _ _ h hx
      · exact h

/-- the prerequisite-satisfaction fold over the targets of one child -/
theorem Frame.holds_targets (p : Int) (n out : String) :
    ∀ (ks : List (Int × String)) (a : State × List (Int × String)), Holds Q J a.1 →
      Holds Q J (ks.foldl (fun (a : State × List (Int × String)) k =>
        match a.1.get? k.1 k.2 with
        | none => a
        | some z =>
          let z := z.satisfyMe ⟨p, n, out⟩
          (a.1.put z, if (z.suicideNow && !a.2.contains k) = true then a.2 ++ [k] else a.2)) a).1 := by
  intro ks; induction ks with
  | nil => intro a ha; exact ha
  | cons k ks ih =>
    intro a ha
    apply ih
    simp only
    split
    · exact ha
    · rename_i z hz
      exact F.holds_put ha (F.sat _ z _ (ha.1 z (get?_mem hz).1))

/-- the removal fold over the suicide list -/
theorem Frame.holds_suicides :
    ∀ (ks : List (Int × String)) (st : State), Holds Q J st →
      Holds Q J (ks.foldl (fun (st : State) k => match st.get? k.1 k.2 with
        | some z => CylcModel.Sched.remove g st z
        | none => st) st) := by
  intro ks; induction ks with
  | nil => intro st hst; exact hst
  | cons k ks ih =>
    intro st hst
    apply ih
    simp only
    split
    · rename_i z hz
      exact F.holds_remove _ _ hst (get?_mem hz).1
    · exact hst

/-- one child of `spawn_on_output`, once the (possible) recording of the absolute output is done -/
theorem Frame.holds_spawnChild_core (p : Int) (n out : String) (st0 : State) (sui : List (Int × String))
    (c : Child) (hc : A (c.pt, c.name)) (h0 : Holds Q J st0) :
    Holds Q J (spawnChildCore g p n out st0 sui c).1 := by
  unfold spawnChildCore
  split
  · exact h0
  · rename_i y hy
    simp only
    apply F.holds_targets
    simp only
    split
    · exact h0
    · rename_i hnone
      have hg : st0.get? c.pt c.name = none := by
        cases hgg : st0.get? c.pt c.name with
        | none => rfl
        | some v => simp [hgg] at hnone
      rw [hg] at hy
      simp only at hy
      have hk := spawnTask_key hy
      apply F.holds_add h0 (F.sat _ _ _ (F.spawn _ _ _ _ h0 hc hy))
      show (spawnTask g st0 y.name y.pt).isSome = true
      rw [hk.1, hk.2, hy]; rfl

theorem Frame.holds_spawnChild (hA : AbsClosed Q J) (p : Int) (n out : String)
    (acc : State × List (Int × String)) (c : Child) (hc : A (c.pt, c.name)) (h : Holds Q J acc.1) :
    Holds Q J (spawnChild g p n out acc c).1 := by
  obtain ⟨st, sui⟩ := acc
  rw [spawnChild_eq]
  have h0 : Holds Q J (if (c.isAbs && !st.absDone.contains ⟨p, n, out⟩) = true then
      { st with absDone := st.absDone ++ [⟨p, n, out⟩] } else st) := by
    split
    · exact hA _ _ h
    · exact h
  exact F.holds_spawnChild_core p n out _ sui c hc h0

/-- `spawn_on_output`, given that the fold over the children keeps the invariant -/
theorem Frame.holds_spawnOnOutput_of_children (s : State) (p : Int) (n out : String) (h : Holds Q J s)
    (hfold : ∀ (x : Proxy), s.get? p n = some x →
      Holds Q J ((if x.flows.isEmpty then [] else childrenOf g x out).foldl (spawnChild g p n out) (s, [])).1) :
    Holds Q J (spawnOnOutput g s p n out) := by
  unfold spawnOnOutput
  split
  · exact h
  · rename_i x hx
    simp only
    generalize hR : (List.foldl (spawnChild g p n out) (s, []) _) = R
    have hRn : Holds Q J R.1 := by rw [← hR]; exact hfold x hx
    have h3 := F.holds_suicides R.2 R.1 hRn
    split
    · rename_i x' hx'
      exact F.holds_removeIfComplete _ _ h3 (get?_mem hx').1
    · exact h3

theorem Frame.holds_spawnOnOutput (hA : AbsClosed Q J) (s : State) (p : Int) (n out : String)
    (h : Holds Q J s) : Holds Q J (spawnOnOutput g s p n out) := by
  apply F.holds_spawnOnOutput_of_children s p n out h
  intro x hx
  have hqx : Q s x := h.1 x (get?_mem hx).1
  have h1 : ∀ (cs : List Child) (acc : State × List (Int × String)), (∀ c ∈ cs, A (c.pt, c.name)) →
      Holds Q J acc.1 → Holds Q J (cs.foldl (spawnChild g p n out) acc).1 := by
    intro cs; induction cs with
    | nil => intro acc _ ha; exact ha
    | cons c cs ih =>
      intro acc hcs ha
      exact ih _ (fun c' hc' => hcs c' (List.mem_cons_of_mem _ hc'))
        (F.holds_spawnChild hA p n out acc c (hcs c (List.mem_cons_self ..)) ha)
  apply h1 _ _ _ h
  intro c hc
  split at hc
  · simp at hc
  · exact F.child s x out c hqx hc

end Low

/-! ### upper half: messages, main loop, steps, runs (given `spawnOnOutput`) -/

theorem lookup_pool {s : State} {p : Int} {n : String} {x : Proxy} (h : lookup s p n = some (x, false)) :
    x ∈ s.pool := by
  unfold lookup at h
  split at h
  · rename_i y hy
    simp only [Option.some.injEq, Prod.mk.injEq] at h
    rw [← h.1]; exact (get?_mem hy).1
  · simp at h

section High
variable {g : Graph} {A : Int × String → Prop} {Q : State → Proxy → Prop} {J : State → Prop} (F : Frame g A Q J)
variable (hSOO : ∀ (s : State) (p : Int) (n out : String), Holds Q J s → Holds Q J (spawnOnOutput g s p n out))
include F

theorem Frame.holds_store (s : State) (x : Proxy) (tr : Bool) (h : Holds Q J s) (hx : tr = false → Q s x) :
    Holds Q J (store s x tr) := by
  unfold store; split
  · exact F.holds_congr h rfl rfl rfl rfl
  · rename_i htr
    exact F.holds_put h (hx (by simpa using htr))

/-- `Q` of the looked-up proxy (when it is a live one) carries over to its updated copies -/
theorem Frame.q_lookup {s : State} {p : Int} {n : String} {x x' : Proxy} {tr : Bool} (h : Holds Q J s)
    (hl : lookup s p n = some (x, tr)) (hs : Same x x') : tr = false → Q s x' := by
  intro htr
  subst htr
  exact F.upd s x x' (h.1 x (lookup_pool hl)) hs

omit F in
include hSOO in
theorem Frame.holds_spawnChildren (s : State) (p : Int) (n out : String) (tr : Bool) (h : Holds Q J s) :
    Holds Q J (spawnChildren g s p n out tr) := by
  unfold spawnChildren; split
  · exact h
  · exact hSOO _ _ _ _ h

include hSOO in
theorem Frame.holds_processMessage : ∀ (fuel : Nat) (s : State) (p : Int) (n : String) (flag : Flag)
    (sn : Nat) (msg : String), Holds Q J s → Holds Q J (processMessage g fuel s p n flag sn msg).1 := by
  intro fuel
  induction fuel with
  | zero => intro s p n flag sn msg h; exact h
  | succ fuel ih =>
    intro s p n flag sn msg h
    unfold processMessage
    split
    · exact h
    · rename_i x tr hl
      split
      · exact h
      · split
        · exact h
        · simp only
          -- the output-completion store
          have hx1 : Same x (if (msg == "submit-failed" || msg == "failed") = true then (x, some false)
              else setComplete g x msg).1 := by
            split
            · exact Same.rfl' x
            · exact same_setComplete g x msg
          have hstore : Holds Q J (store s (if (msg == "submit-failed" || msg == "failed") = true then (x, some false)
              else setComplete g x msg).1 tr) :=
            F.holds_store _ _ _ h (F.q_lookup h hl hx1)
          have himp : ∀ (l : List String) (st : State), Holds Q J st →
              Holds Q J (l.foldl (fun st m => (processMessage g fuel st p n .internal sn m).1) st) := by
            intro l; induction l with
            | nil => intro st hst; exact hst
            | cons a l ihl => intro st hst; exact ihl _ (ih _ _ _ _ _ _ hst)
          generalize hS : (List.foldl (fun st m => (processMessage g fuel st p n Flag.internal sn m).1) _ _) = S
          have hSn : Holds Q J S := by rw [← hS]; exact himp _ _ hstore
          split
          · exact hSn
          · rename_i x2 tr2 hl2
            have hq : ∀ x', Same x2 x' → tr2 = false → Q S x' := fun x' hs => F.q_lookup hSn hl2 hs
            have hst : ∀ x', Same x2 x' → Holds Q J (store S x' tr2) :=
              fun x' hs => F.holds_store _ _ _ hSn (hq x' hs)
            have hr : ∀ (st : Option Status) (q r : Option Bool), Same x2 (x2.reset st q r) :=
              fun st q r => same_reset x2 st q r
            repeat' split
            all_goals (try exact hSn)
            all_goals (try exact Frame.holds_spawnChildren hSOO _ _ _ _ _ hSn)
            all_goals first
              | refine Frame.holds_spawnChildren hSOO _ _ _ _ _ (hst _ ?_)
              | refine hst _ ?_
            all_goals
              refine ⟨?_, ?_, ?_⟩ <;>
                simp only [reset_pt, reset_name, reset_pre, setComplete_pt, setComplete_name, setComplete_pre]

include hSOO in
theorem Frame.holds_processQueue (s : State) (h : Holds Q J s) : Holds Q J (processQueue g s) := by
  unfold processQueue
  apply foldl_inv (Holds Q J)
  · intro st grp hst
    simp only
    split
    · exact hst
    · have : ∀ (l : List Msg) (acc : State × Bool), Holds Q J acc.1 →
          Holds Q J (l.foldl (fun (acc : State × Bool) m =>
            let (st', pl) := processMessage g 4 acc.1 grp.1.1 grp.1.2 .received m.submitNum m.text
            (st', acc.2 || pl)) acc).1 := by
        intro l; induction l with
        | nil => intro acc ha; exact ha
        | cons m l ihl =>
          intro acc ha
          apply ihl
          exact F.holds_processMessage hSOO 4 _ _ _ _ _ _ ha
      have h2 := this grp.2 (st, false) hst
      split
      · exact F.holds_congr h2 rfl rfl rfl rfl
      · exact h2
  · exact F.holds_congr h rfl rfl rfl rfl

theorem Frame.holds_checkStalled (s : State) (h : Holds Q J s) : Holds Q J (checkStalled g s) := by
  unfold checkStalled; split
  · exact h
  · split
    · exact F.holds_congr h rfl rfl rfl rfl
    · exact h

theorem Frame.holds_checkAutoShutdown (s : State) (h : Holds Q J s) : Holds Q J (checkAutoShutdown g s).1 := by
  unfold checkAutoShutdown
  simp only
  split
  · exact F.holds_checkStalled _ h
  · split <;> exact F.holds_checkStalled _ h

theorem Frame.holds_sweepQueue (s : State) (h : Holds Q J s) : Holds Q J (sweepQueue s) := by
  unfold sweepQueue
  apply foldl_inv (Holds Q J)
  · intro st x hst
    split
    · rename_i y hy
      split
      · have hqy : Q st { y with retryWait := false } :=
          F.upd st y _ (hst.1 y (get?_mem hy).1) ⟨rfl, rfl, rfl⟩
        exact F.holds_queueIfReady _ _ (F.holds_put hst hqy) (F.q_put _ hqy)
      · exact hst
    · exact hst
  · exact h

theorem Frame.holds_finishLoop (s : State) (h : Holds Q J s) : Holds Q J (finishLoop g s) := by
  unfold finishLoop
  simp only
  have h5 : Holds Q J (if (s.schedUpd || s.pool.any (·.upd)) = true then
      { s with stalled := false, schedUpd := false, pool := s.pool.map fun x => { x with upd := false } }
    else s) := by
    split
    · refine F.holds_map (fun x => { x with upd := false }) h ?_ rfl rfl rfl rfl
      intro y hy
      exact ⟨F.upd s y _ (h.1 y hy) ⟨rfl, rfl, rfl⟩, rfl, rfl⟩
    · exact h
  have h6 : Holds Q J { (if (s.schedUpd || s.pool.any (·.upd)) = true then
      { s with stalled := false, schedUpd := false, pool := s.pool.map fun x => { x with upd := false } }
    else s) with db := some (if (s.schedUpd || s.pool.any (·.upd)) = true then
      { s with stalled := false, schedUpd := false, pool := s.pool.map fun x => { x with upd := false } }
    else s).pool } := F.holds_congr h5 rfl rfl rfl rfl
  split
  · exact F.holds_checkStalled _ h6
  · exact h6

include hSOO in
theorem Frame.holds_mainLoop (s : State) (h : Holds Q J s) : Holds Q J (mainLoop g s) := by
  unfold mainLoop
  split
  · exact h
  · simp only
    have h1 := F.holds_releaseRunahead _ (F.holds_computeRunahead s false h)
    have h2 := F.holds_checkAutoShutdown _ h1
    split
    · exact F.holds_congr h2 rfl rfl rfl rfl
    · exact F.holds_finishLoop _ (F.holds_processQueue hSOO _ (F.holds_releaseAndSubmit _ (F.holds_sweepQueue _ h2)))

include hSOO in
theorem Frame.holds_step (s : State) (op : Op) (h : Holds Q J s) : Holds Q J (step g s op) := by
  unfold step
  have hc : Holds Q J (clearOp s) := F.clear s h
  cases op with
  | loop => exact F.holds_mainLoop hSOO _ hc
  | subres p n ok sn => exact F.holds_processMessage hSOO 4 _ _ _ _ _ _ hc
  | msg p n sn text => exact F.holds_congr hc rfl rfl rfl rfl

include hSOO in
/-- the invariant holds in every state of every run -/
theorem Frame.holds_run (h0 : Holds Q J ({} : State))
    (hload : ∀ t ∈ g.tasks, ∀ p, t.firstParentless = some p → A (p, t.name)) (ops : List Op) :
    ∀ s ∈ run g ops, Holds Q J s :=
  run_inv (Holds Q J) g (F.holds_loadFromPoint h0 hload) (F.holds_step hSOO) ops

end High

end CylcModel.Sched
