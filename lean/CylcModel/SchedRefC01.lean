/-
Every primitive of the `Sched` model is a finite sequence of atomic actions (`Steps`, see `SchedActC01`).
-/
import CylcModel.SchedActC01

namespace CylcModel.Sched

variable {g : Graph} {K : Kinds}

theorem spawnTask_key {s : State} {n : String} {p : Int} {y : Proxy} (h : spawnTask g s n p = some y) :
    y.pt = p ∧ y.name = n := by
  obtain ⟨x0, y1, hm, hrev, hy⟩ := spawnTask_spec h
  obtain ⟨t, d, _, _, _, _, hx0⟩ := mkProxy_spec hm
  have h1 : y1.pt = p ∧ y1.name = n := by
    rcases hrev with ⟨_, _, rfl⟩ | ⟨hr, _, _, rfl⟩ <;> (subst hx0; exact ⟨rfl, rfl⟩)
  have h2 : y.core = y1.core := by
    rcases hy with rfl | rfl
    · rfl
    · exact core_foldl_satisfyMe _ _
  simp only [Proxy.core, Prod.mk.injEq] at h2
  exact ⟨h2.1.trans h1.1, h2.2.1.trans h1.2⟩

/-- a state that differs only in untracked components -/
theorem steps_frame {s s' : State} (hp : s'.pool = s.pool) (hh : s'.hist = s.hist)
    (ha : s'.absDone = s.absDone) (hl : s'.launched = s.launched) : Steps g K s s' :=
  Steps.single (Act.frame hp ⟨hh, ha, hl⟩)

def PlWhy (g : Graph) (n : String) (p : Int) : Prop :=
  (∃ t ∈ g.tasks, t.name = n ∧ t.firstParentless = some p) ∨ (∃ q, nextPl g n q = some p)

theorem PlWhy.spawnWhy {n : String} {p : Int} (h : PlWhy g n p) (s : State) : SpawnWhy g s n p := by
  rcases h with h | h
  · exact Or.inl h
  · exact Or.inr (Or.inl h)

theorem steps_add {s : State} {y0 y : Proxy} (hg : s.get? y.pt y.name = none)
    (hsp : spawnTask g s y.name y.pt = some y0)
    (hy : y = y0 ∨ ∃ a, justB s a = true ∧ y = y0.satisfyMe a)
    (hw : SpawnWhy g s y.name y.pt) : Steps g K s (s.add y) := by
  apply Steps.single
  refine Act.spawn y0 y hg hsp hy hw ?_ ⟨?_, ?_, ?_⟩ <;> simp [State.add, hg]

theorem steps_spawnAndAdd {s : State} {n : String} {p : Int} (hw : PlWhy g n p) :
    Steps g K s (spawnAndAdd g s n p) := by
  unfold spawnAndAdd
  split
  · exact Steps.refl s
  · rename_i hnone
    split
    · rename_i x hx
      have hk := spawnTask_key hx
      have hg : s.get? x.pt x.name = none := by
        rw [hk.1, hk.2]
        cases h : s.get? p n with
        | none => rfl
        | some v => simp [h] at hnone
      refine steps_add hg (by rw [hk.1, hk.2]; exact hx) (Or.inl rfl) ?_
      rw [hk.1, hk.2]; exact hw.spawnWhy s
    · exact Steps.refl s

theorem steps_spawnNextParentless {s : State} (x : Proxy) :
    Steps g K s (spawnNextParentless g s x) := by
  unfold spawnNextParentless
  split
  · exact Steps.refl s
  · split
    · rename_i np hnp
      exact steps_spawnAndAdd (Or.inr ⟨x.pt, by rw [← nextParentless_eq]; exact hnp⟩)
    · exact Steps.refl s

theorem frame_computeRunahead (s : State) (f : Bool) :
    (computeRunahead g s f).pool = s.pool ∧ (computeRunahead g s f).hist = s.hist ∧
    (computeRunahead g s f).absDone = s.absDone ∧ (computeRunahead g s f).launched = s.launched := by
  unfold computeRunahead
  simp only
  split
  · exact ⟨rfl, rfl, rfl, rfl⟩
  · split <;> exact ⟨rfl, rfl, rfl, rfl⟩

theorem steps_computeRunahead (s : State) (f : Bool) : Steps g K s (computeRunahead g s f) := by
  have h := frame_computeRunahead (g := g) s f
  exact steps_frame h.1 h.2.1 h.2.2.1 h.2.2.2

theorem steps_put {s : State} {x y : Proxy} (hg : s.get? y.pt y.name = some x) (hu : Upd g K s x y) :
    Steps g K s (s.put y) :=
  Steps.single (Act.upd x y hg hu rfl (Same.rfl' _))

theorem steps_put' {s : State} {p : Int} {n : String} {x y : Proxy} (hg : s.get? p n = some x)
    (hu : Upd g K s x y) : Steps g K s (s.put y) := by
  have hk := upd_key hu
  have hx := get?_some_spec hg
  exact steps_put (by rw [hk.1, hk.2, hx.2.1, hx.2.2]; exact hg) hu

theorem steps_releaseRunahead (hwf : g.wf = true) (hs : K.sched = true) {s : State} (hi : RInv g s) :
    Steps g K s (releaseRunahead g s).1 := by
  unfold releaseRunahead
  split
  · exact Steps.refl s
  · split
    · exact Steps.refl s
    · simp only
      apply steps_foldl (RInv g) (fun _ _ hi ha => rinv_act hwf hi ha) _ _ _ _ hi
      intro st x _
      have h1 : Steps g K st (match st.get? x.pt x.name with
          | some y => st.put (y.reset (runahead := some false))
          | none => st) := by
        split
        · rename_i y hy
          exact steps_put' hy (Upd.release y hs)
        · exact Steps.refl st
      exact h1.trans (steps_spawnNextParentless x)

theorem steps_releaseRunaheadN (hwf : g.wf = true) (hs : K.sched = true) : ∀ (n : Nat) {s : State}, RInv g s →
    Steps g K s (releaseRunaheadN g n s) := by
  intro n; induction n with
  | zero => intro s _; exact Steps.refl s
  | succ n ih =>
    intro s hi
    unfold releaseRunaheadN
    simp only
    have h1 : Steps g K s (releaseRunahead g s).1 := steps_releaseRunahead hwf hs hi
    split
    · exact h1.trans (ih (rinv_steps hwf h1 hi))
    · exact h1

theorem steps_queueIfReady (hs : K.sched = true) {s : State} {p : Int} {n : String} {x : Proxy} (hg : s.get? p n = some x) :
    Steps g K s (queueIfReady s x) := by
  unfold queueIfReady
  split
  · rename_i hc
    exact steps_put' hg (Upd.queue x hc hs)
  · exact Steps.refl s

theorem rinv_empty : RInv g ({} : State) :=
  ⟨nodup_empty, (by intro x hx; cases hx), (by intro h hh; cases hh), (by intro _ x hx; cases hx)⟩

theorem steps_loadFromPoint (hwf : g.wf = true) (hs : K.sched = true) : Steps g K ({} : State) (loadFromPoint g) := by
  unfold loadFromPoint
  simp only
  -- parentless spawning
  have h1 : Steps g K ({} : State) (g.tasks.foldl (fun st t =>
      match t.firstParentless with
      | some p => spawnAndAdd g st t.name p
      | none => st) {}) := by
    have : ∀ (l : List TaskDefn), (∀ t ∈ l, t ∈ g.tasks) → ∀ (st : State),
        Steps g K st (l.foldl (fun st t =>
          match t.firstParentless with
          | some p => spawnAndAdd g st t.name p
          | none => st) st) := by
      intro l; induction l with
      | nil => intro _ st; exact Steps.refl st
      | cons t l ih =>
        intro hl st
        simp only [List.foldl_cons]
        have ht : t ∈ g.tasks := hl t (List.mem_cons_self)
        have h0 : Steps g K st (match t.firstParentless with
            | some p => spawnAndAdd g st t.name p
            | none => st) := by
          split
          · rename_i p hp
            exact steps_spawnAndAdd (Or.inl ⟨t, ht, rfl, hp⟩)
          · exact Steps.refl st
        exact h0.trans (ih (fun t' ht' => hl t' (List.mem_cons_of_mem _ ht')) _)
    exact this g.tasks (fun _ h => h) {}
  generalize (g.tasks.foldl (fun st t =>
      match t.firstParentless with
      | some p => spawnAndAdd g st t.name p
      | none => st) ({} : State)) = s1 at h1 ⊢
  have hi1 := rinv_steps hwf h1 rinv_empty
  have h2 : Steps g K s1 (computeRunahead g s1) := steps_computeRunahead s1 false
  have hi2 := rinv_steps hwf h2 hi1
  have h3 : Steps g K (computeRunahead g s1) (releaseRunaheadN g 10 (computeRunahead g s1)) :=
    steps_releaseRunaheadN hwf hs 10 hi2
  have hi3 := rinv_steps hwf h3 hi2
  refine (h1.trans (h2.trans h3)).trans ?_
  apply steps_foldl (RInv g) (fun _ _ hi ha => rinv_act hwf hi ha) _ _ _ _ hi3
  intro st x _
  split
  · rename_i y hy
    exact steps_queueIfReady hs hy
  · exact Steps.refl st

theorem steps_sweepQueue (hwf : g.wf = true) (hsch : K.sched = true) {s : State} (hi : RInv g s) : Steps g K s (sweepQueue s) := by
  unfold sweepQueue
  apply steps_foldl (RInv g) (fun _ _ hi ha => rinv_act hwf hi ha) _ _ _ _ hi
  intro st x _
  split
  · rename_i y hy
    split
    · rename_i hc
      have hs := get?_some_spec hy
      have h1 : Steps g K st (st.put { y with retryWait := false }) := steps_put' hy (Upd.unwait y hc hsch)
      have hg2 : (st.put { y with retryWait := false }).get? x.pt x.name = some { y with retryWait := false } := by
        have := get?_put_same (s := st) (y := { y with retryWait := false }) (x := y)
          (by show st.get? y.pt y.name = some y; rw [hs.2.1, hs.2.2]; exact hy)
        rw [← hs.2.1, ← hs.2.2]; exact this
      exact h1.trans (steps_queueIfReady hsch hg2)
    · exact Steps.refl st
  · exact Steps.refl st

/-! ### Release and submission -/

theorem steps_launch (hs : K.sched = true) {s : State} {x : Proxy} (hg : s.get? x.pt x.name = some x) (hq : x.queued = true) :
    Steps g K s { (s.put (launchOf x)) with launched := s.launched ++ [(x.pt, x.name, x.submitNum + 1)] } :=
  Steps.single (Act.launch x hg hq rfl rfl rfl rfl hs)

theorem steps_releaseAndSubmit (hs : K.sched = true) {s : State} (hi : RInv g s) : Steps g K s (releaseAndSubmit s) := by
  unfold releaseAndSubmit
  simp only
  split
  · exact Steps.refl s
  · -- the fold over the (stale) list of queued proxies
    have key : ∀ (l : List Proxy) (st : State),
        (∀ x ∈ l, st.get? x.pt x.name = some x ∧ x.queued = true) →
        (l.map fun x => (x.pt, x.name)).Nodup →
        Steps g K st (l.foldl (fun (st : State) x =>
          let y := x.reset (queued := some false)
          let y := { (y.reset (status := some .preparing)) with submitNum := x.submitNum + 1 }
          { (st.put y) with launched := st.launched ++ [(x.pt, x.name, x.submitNum + 1)] }) st) := by
      intro l; induction l with
      | nil => intro st _ _; exact Steps.refl st
      | cons a l ih =>
        intro st hl hnd
        simp only [List.foldl_cons]
        have ha := hl a List.mem_cons_self
        have h1 := steps_launch (g := g) (K := K) hs ha.1 ha.2
        refine h1.trans (ih _ ?_ ?_)
        · intro z hz
          have hzl := hl z (List.mem_cons_of_mem _ hz)
          refine ⟨?_, hzl.2⟩
          simp only [List.map_cons, List.nodup_cons] at hnd
          have hne : ¬ ((launchOf a).pt = z.pt ∧ (launchOf a).name = z.name) := by
            intro hk
            simp only [launchOf_pt, launchOf_name] at hk
            apply hnd.1
            rw [hk.1, hk.2]
            exact List.mem_map.mpr ⟨z, hz, rfl⟩
          have := get?_put_other (s := st) hne
          show ({ (st.put (launchOf a)) with launched := _ } : State).get? z.pt z.name = some z
          unfold State.get? at this ⊢
          simp only at this ⊢
          rw [this]; exact hzl.1
        · simp only [List.map_cons, List.nodup_cons] at hnd; exact hnd.2
    have hsteps := key (s.pool.filter (·.queued)) s
      (by
        intro x hx
        have := List.mem_filter.mp hx
        exact ⟨get?_of_mem_nodup hi.nodup this.1, this.2⟩)
      (by
        have := hi.nodup
        unfold NoDup keys at this
        exact List.Nodup.sublist (List.Sublist.map _ List.filter_sublist) this)
    refine hsteps.trans (steps_frame rfl rfl rfl rfl)

/-! ### Removal -/

theorem get?_spawnNextParentless {s : State} {p : Int} {n : String} {x : Proxy} (z : Proxy)
    (h : s.get? p n = some x) : (spawnNextParentless g s z).get? p n = some x := by
  unfold spawnNextParentless
  split
  · exact h
  · split
    · unfold spawnAndAdd
      split
      · exact h
      · split
        · unfold State.add
          split
          · exact h
          · exact get?_append_of_some _ h
        · exact h
    · exact h

theorem steps_remove {s : State} {x : Proxy} (hg : s.get? x.pt x.name = some x)
    (hr : histFinal g ⟨x.pt, x.name, x.status, x.submitNum, x.done⟩ = true ∨ K.sui = true) :
    Steps g K s (remove g s x) := by
  unfold remove
  simp only
  have h1 : Steps g K s (if (!x.flows.isEmpty && x.runahead) = true then spawnNextParentless g s x else s) := by
    split
    · exact steps_spawnNextParentless x
    · exact Steps.refl s
  have hg1 : (if (!x.flows.isEmpty && x.runahead) = true then spawnNextParentless g s x else s).get? x.pt x.name
      = some x := by
    split
    · exact get?_spawnNextParentless x hg
    · exact hg
  generalize (if (!x.flows.isEmpty && x.runahead) = true then spawnNextParentless g s x else s) = s1 at h1 hg1 ⊢
  exact h1.trans (Steps.single (Act.remove x hg1 rfl rfl rfl rfl hr))

theorem steps_removeIfComplete {s : State} {x : Proxy} (hg : s.get? x.pt x.name = some x) :
    Steps g K s (removeIfComplete g s x) := by
  unfold removeIfComplete
  split
  · exact Steps.refl s
  · rename_i hfin
    split
    · exact Steps.refl s
    · rename_i t ht
      split
      · rename_i hc
        apply steps_remove hg
        left
        unfold histFinal
        simp only [ht, hc, Bool.and_true]
        simpa using hfin
      · exact Steps.refl s

/-! ### Spawning on outputs -/

theorem completedB_justB {s : State} {a : Atom} (h : completedB s a = true) : justB s a = true := by
  unfold justB; simp [h]

/-- the satisfaction sweep over the target keys of one child -/
theorem steps_satisfyFold (hwf : g.wf = true) (atom : Atom) :
    ∀ (ks : List (Int × String)) (a : State × List (Int × String)), RInv g a.1 → justB a.1 atom = true →
      Steps g K a.1 (ks.foldl (fun (a : State × List (Int × String)) k =>
        match a.1.get? k.1 k.2 with
        | none => a
        | some z =>
          let z := z.satisfyMe atom
          (a.1.put z, if (z.suicideNow && !a.2.contains k) = true then a.2 ++ [k] else a.2)) a).1 := by
  intro ks; induction ks with
  | nil => intro a _ _; exact Steps.refl _
  | cons k ks ih =>
    intro a hi hj
    simp only [List.foldl_cons]
    have h1 : Steps g K a.1 (match a.1.get? k.1 k.2 with
        | none => a
        | some z =>
          let z := z.satisfyMe atom
          (a.1.put z, if (z.suicideNow && !a.2.contains k) = true then a.2 ++ [k] else a.2)).1 := by
      split
      · exact Steps.refl _
      · rename_i z hz
        exact steps_put' hz (Upd.satisfy z atom hj)
    exact h1.trans (ih _ (rinv_steps hwf h1 hi) (justB_steps hwf h1 hi hj))

theorem satisfyFold_snd (atom : Atom) :
    ∀ (ks : List (Int × String)) (a : State × List (Int × String)), (∀ z ∈ a.1.pool, z.sui = []) →
      (ks.foldl (fun (a : State × List (Int × String)) k =>
        match a.1.get? k.1 k.2 with
        | none => a
        | some z =>
          let z := z.satisfyMe atom
          (a.1.put z, if (z.suicideNow && !a.2.contains k) = true then a.2 ++ [k] else a.2)) a).2 = a.2 := by
  intro ks; induction ks with
  | nil => intro a _; rfl
  | cons k ks ih =>
    intro a ha
    simp only [List.foldl_cons]
    cases hg : a.1.get? k.1 k.2 with
    | none => simp only; exact ih a ha
    | some z =>
      simp only
      have hz : (z.satisfyMe atom).sui = [] := by
        show z.sui.map (·.satisfy atom) = []
        rw [ha z (get?_some_spec hg).1]; rfl
      have hsn : (z.satisfyMe atom).suicideNow = false := by
        unfold Proxy.suicideNow; rw [hz]; rfl
      rw [ih]
      · simp [hsn]
      · intro w hw
        rcases mem_put hw with rfl | hw
        · exact hz
        · exact ha w hw

theorem spawnChild_snd (hwf : g.wf = true) (hns : g.noSui = true) {p : Int} {n out : String}
    (acc : State × List (Int × String)) (c : Child) (hi : RInv g acc.1)
    (hcomp : completedB acc.1 ⟨p, n, out⟩ = true) (hc : c ∈ childrenAt g n p out) :
    (spawnChild g p n out acc c).2 = acc.2 := by
  obtain ⟨st, sui⟩ := acc
  unfold spawnChild
  simp only at hi hcomp ⊢
  have h0 : Steps g Kinds.all st (if (c.isAbs && !st.absDone.contains ⟨p, n, out⟩) = true then
      { st with absDone := st.absDone ++ [⟨p, n, out⟩] } else st) := by
    split
    · exact Steps.single (Act.absAdd ⟨p, n, out⟩ hcomp rfl rfl rfl rfl)
    · exact Steps.refl st
  generalize (if (c.isAbs && !st.absDone.contains ⟨p, n, out⟩) = true then
      { st with absDone := st.absDone ++ [⟨p, n, out⟩] } else st) = st0 at h0 ⊢
  have hi0 := rinv_steps hwf h0 hi
  have hc0 := completedB_steps hwf h0 hi hcomp
  split
  · rfl
  · rename_i y hy
    cases hget : st0.get? c.pt c.name with
    | some y' =>
      simp only [hget, Option.isSome_some, if_true]
      exact satisfyFold_snd _ _ (st0, sui) (hi0.nosui hns)
    | none =>
      simp only [hget, Option.isSome_none, Bool.false_eq_true, if_false]
      simp only [hget] at hy
      have hk := spawnTask_key hy
      have h1 : Steps g Kinds.all st0 (st0.add (y.satisfyMe ⟨p, n, out⟩)) := by
        apply steps_add (y0 := y)
        · show st0.get? y.pt y.name = none
          rw [hk.1, hk.2]; exact hget
        · show spawnTask g st0 y.name y.pt = some y
          rw [hk.1, hk.2]; exact hy
        · exact Or.inr ⟨_, completedB_justB hc0, rfl⟩
        · exact Or.inr (Or.inr ⟨p, n, out, c, hc, hk.2.symm, hk.1.symm, hc0⟩)
      exact satisfyFold_snd _ _ (st0.add (y.satisfyMe ⟨p, n, out⟩), sui) ((rinv_steps hwf h1 hi0).nosui hns)

theorem steps_spawnChild (hwf : g.wf = true) {p : Int} {n out : String} (acc : State × List (Int × String))
    (c : Child) (hi : RInv g acc.1) (hcomp : completedB acc.1 ⟨p, n, out⟩ = true)
    (hc : c ∈ childrenAt g n p out) : Steps g K acc.1 (spawnChild g p n out acc c).1 := by
  obtain ⟨st, sui⟩ := acc
  unfold spawnChild
  simp only at hi hcomp ⊢
  have h0 : Steps g K st (if (c.isAbs && !st.absDone.contains ⟨p, n, out⟩) = true then
      { st with absDone := st.absDone ++ [⟨p, n, out⟩] } else st) := by
    split
    · exact Steps.single (Act.absAdd ⟨p, n, out⟩ hcomp rfl rfl rfl rfl)
    · exact Steps.refl st
  generalize (if (c.isAbs && !st.absDone.contains ⟨p, n, out⟩) = true then
      { st with absDone := st.absDone ++ [⟨p, n, out⟩] } else st) = st0 at h0 ⊢
  have hi0 := rinv_steps hwf h0 hi
  have hc0 := completedB_steps hwf h0 hi hcomp
  refine h0.trans ?_
  split
  · exact Steps.refl st0
  · rename_i y hy
    cases hget : st0.get? c.pt c.name with
    | some y' =>
      simp only [hget, Option.isSome_some, if_true]
      exact steps_satisfyFold hwf _ _ (st0, sui) hi0 (completedB_justB hc0)
    | none =>
      simp only [hget, Option.isSome_none, Bool.false_eq_true, if_false]
      simp only [hget] at hy
      have hk := spawnTask_key hy
      have h1 : Steps g K st0 (st0.add (y.satisfyMe ⟨p, n, out⟩)) := by
        apply steps_add (y0 := y)
        · show st0.get? y.pt y.name = none
          rw [hk.1, hk.2]; exact hget
        · show spawnTask g st0 y.name y.pt = some y
          rw [hk.1, hk.2]; exact hy
        · exact Or.inr ⟨_, completedB_justB hc0, rfl⟩
        · exact Or.inr (Or.inr ⟨p, n, out, c, hc, hk.2.symm, hk.1.symm, hc0⟩)
      refine h1.trans ?_
      exact steps_satisfyFold hwf _ _ (st0.add (y.satisfyMe ⟨p, n, out⟩), sui) (rinv_steps hwf h1 hi0)
        (justB_steps hwf h1 hi0 (completedB_justB hc0))

theorem steps_spawnOnOutput (hwf : g.wf = true) (hsui : K.sui = true ∨ g.noSui = true) {s : State} {p : Int}
    {n out : String} (hi : RInv g s)
    (hcomp : (g.task? n).isSome → completedB s ⟨p, n, out⟩ = true) :
    Steps g K s (spawnOnOutput g s p n out) := by
  unfold spawnOnOutput
  split
  · exact Steps.refl s
  · rename_i x hx
    simp only
    have hxs := get?_some_spec hx
    -- the children
    have h1 : ∀ (cs : List Child) (acc : State × List (Int × String)), (∀ c ∈ cs, c ∈ childrenAt g n p out) →
        (cs ≠ [] → completedB acc.1 ⟨p, n, out⟩ = true) → RInv g acc.1 →
        Steps g K acc.1 (cs.foldl (spawnChild g p n out) acc).1 ∧
        (g.noSui = true → (cs.foldl (spawnChild g p n out) acc).2 = acc.2) := by
      intro cs; induction cs with
      | nil => intro acc _ _ _; exact ⟨Steps.refl _, fun _ => rfl⟩
      | cons c cs ih =>
        intro acc hcs hcm hia
        simp only [List.foldl_cons]
        have hcm' := hcm (by simp)
        have hs1 := steps_spawnChild (K := K) hwf acc c hia hcm' (hcs c List.mem_cons_self)
        have ih' := ih _ (fun c' hc' => hcs c' (List.mem_cons_of_mem _ hc'))
          (fun _ => completedB_steps hwf hs1 hia hcm') (rinv_steps hwf hs1 hia)
        refine ⟨hs1.trans ih'.1, fun hns => ?_⟩
        rw [ih'.2 hns]
        exact spawnChild_snd hwf hns acc c hia hcm' (hcs c List.mem_cons_self)
    -- the suicides
    have h2 : K.sui = true → ∀ (ks : List (Int × String)) (st : State),
        Steps g K st (ks.foldl (fun (st : State) k => match st.get? k.1 k.2 with
          | some z => remove g st z
          | none => st) st) := by
      intro hk ks; induction ks with
      | nil => intro st; exact Steps.refl st
      | cons k ks ih =>
        intro st
        simp only [List.foldl_cons]
        have : Steps g K st (match st.get? k.1 k.2 with
            | some z => remove g st z
            | none => st) := by
          split
          · rename_i z hz
            have hzs := get?_some_spec hz
            exact steps_remove (by rw [hzs.2.1, hzs.2.2]; exact hz) (Or.inr hk)
          · exact Steps.refl st
        exact this.trans (ih _)
    have hcs : ∀ c ∈ (if x.flows.isEmpty = true then [] else childrenOf g x out), c ∈ childrenAt g n p out := by
      intro c hc
      split at hc
      · cases hc
      · rw [childrenOf_eq, hxs.2.1, hxs.2.2] at hc; exact hc
    have hne : (if x.flows.isEmpty = true then [] else childrenOf g x out) ≠ [] → completedB s ⟨p, n, out⟩ = true := by
      intro hne
      apply hcomp
      split at hne
      · exact absurd rfl hne
      · rw [childrenOf_eq, hxs.2.2] at hne
        unfold childrenAt at hne
        cases ht : g.task? n with
        | none => simp [ht] at hne
        | some t => rfl
    generalize (if x.flows.isEmpty = true then [] else childrenOf g x out) = cs at hcs hne
    obtain ⟨hs1, hsnd⟩ := h1 cs (s, []) hcs hne hi
    generalize hR : (List.foldl (spawnChild g p n out) (s, []) cs) = R at hs1 hsnd
    have hs2 : Steps g K R.1 (R.2.foldl (fun (st : State) k => match st.get? k.1 k.2 with
          | some z => remove g st z
          | none => st) R.1) := by
      rcases hsui with hk | hns
      · exact h2 hk R.2 R.1
      · rw [hsnd hns]; exact Steps.refl _
    refine (hs1.trans hs2).trans ?_
    split
    · rename_i x' hx'
      have hs' := get?_some_spec hx'
      exact steps_removeIfComplete (by rw [hs'.2.1, hs'.2.2]; exact hx')
    · exact Steps.refl _

/-! ### Messages -/

/-- equality of the tracked components -/
def TEq (s s' : State) : Prop :=
  s'.pool = s.pool ∧ s'.hist = s.hist ∧ s'.absDone = s.absDone ∧ s'.launched = s.launched

theorem TEq.rfl' (s : State) : TEq s s := ⟨rfl, rfl, rfl, rfl⟩

theorem TEq.trans' {a b c : State} (h1 : TEq a b) (h2 : TEq b c) : TEq a c :=
  ⟨h2.1.trans h1.1, h2.2.1.trans h1.2.1, h2.2.2.1.trans h1.2.2.1, h2.2.2.2.trans h1.2.2.2⟩

theorem TEq.steps {s s' : State} (h : TEq s s') : Steps g K s s' := steps_frame h.1 h.2.1 h.2.2.1 h.2.2.2

theorem get?_of_pool_eq {s s' : State} (h : s'.pool = s.pool) (p : Int) (n : String) : s'.get? p n = s.get? p n := by
  unfold State.get?; rw [h]

theorem lookup_of_get?_some {s : State} {p : Int} {n : String} {x : Proxy} (h : s.get? p n = some x) :
    lookup s p n = some (x, false) := by
  unfold lookup; rw [h]

theorem lookup_of_get?_none {s : State} {p : Int} {n : String} (h : s.get? p n = none) {x : Proxy} {tr : Bool}
    (hl : lookup s p n = some (x, tr)) : tr = true := by
  unfold lookup at hl
  rw [h] at hl
  simp only [Option.map_eq_some_iff, Prod.mk.injEq] at hl
  obtain ⟨_, _, _, h2⟩ := hl
  exact h2.symm

theorem lookup_false {s : State} {p : Int} {n : String} {x : Proxy} (hl : lookup s p n = some (x, false)) :
    s.get? p n = some x := by
  cases h : s.get? p n with
  | none => have := lookup_of_get?_none h hl; cases this
  | some y =>
    rw [lookup_of_get?_some h] at hl
    simp only [Option.some.injEq, Prod.mk.injEq, and_true] at hl
    rw [hl]

theorem teq_store_true (s : State) (x : Proxy) : TEq s (store s x true) := by
  unfold store; simp only [if_true]; exact ⟨rfl, rfl, rfl, rfl⟩

/-- a message for an instance that is not in the pool (a transient object) leaves the tracked state alone -/
theorem processMessage_ghost : ∀ (fuel : Nat) (s : State) (p : Int) (n : String) (flag : Flag) (sn : Nat)
    (msg : String), s.get? p n = none → TEq s (processMessage g fuel s p n flag sn msg).1 := by
  intro fuel
  induction fuel with
  | zero => intro s p n flag sn msg _; exact TEq.rfl' s
  | succ fuel ih =>
    intro s p n flag sn msg hg
    unfold processMessage
    split
    · exact TEq.rfl' s
    · rename_i x tr hl
      have htr : tr = true := lookup_of_get?_none hg hl
      subst htr
      split
      · exact TEq.rfl' s
      · split
        · exact TEq.rfl' s
        · simp only
          have himp : ∀ (l : List String) (st : State), st.get? p n = none → TEq s st →
              TEq s (l.foldl (fun st m => (processMessage g fuel st p n .internal sn m).1) st) ∧
              (l.foldl (fun st m => (processMessage g fuel st p n .internal sn m).1) st).get? p n = none := by
            intro l; induction l with
            | nil => intro st h1 h2; exact ⟨h2, h1⟩
            | cons a l ihl =>
              intro st h1 h2
              simp only [List.foldl_cons]
              have h3 := ih st p n .internal sn a h1
              exact ihl _ (by rw [get?_of_pool_eq h3.1]; exact h1) (h2.trans' h3)
          generalize hxc : (if (msg == "submit-failed" || msg == "failed") = true then (x, some false)
              else setComplete g x msg) = xc
          have h1 := teq_store_true s xc.1
          have h2 := himp ((if (msg == "succeeded" || msg == "failed") = true then ["submitted", "started"]
              else if (msg == "started") = true then ["submitted"] else []).filter fun m => !xc.1.isDone m)
              (store s xc.1 true) (by rw [get?_of_pool_eq h1.1]; exact hg) h1
          generalize (List.foldl (fun st m => (processMessage g fuel st p n Flag.internal sn m).1) _ _) = S at h2
          obtain ⟨hS, hgS⟩ := h2
          split
          · exact hS
          · rename_i x2 tr2 hl2
            have htr2 : tr2 = true := lookup_of_get?_none hgS hl2
            subst htr2
            repeat' split
            all_goals first
              | exact hS
              | exact hS.trans' (teq_store_true _ _)

theorem steps_store {s : State} {p : Int} {n : String} {x y : Proxy} {tr : Bool}
    (hl : lookup s p n = some (x, tr)) (hu : tr = false → Upd g K s x y) : Steps g K s (store s y tr) := by
  cases tr with
  | true => exact (teq_store_true s y).steps
  | false =>
    have hg := lookup_false hl
    show Steps g K s (s.put y)
    exact steps_put' hg (hu rfl)

theorem steps_spawnChildren (hwf : g.wf = true) (hsui : K.sui = true ∨ g.noSui = true) {s : State} {p : Int}
    {n out : String} {tr : Bool} (hi : RInv g s)
    (hcomp : tr = false → (g.task? n).isSome → completedB s ⟨p, n, out⟩ = true) :
    Steps g K s (spawnChildren g s p n out tr) := by
  unfold spawnChildren
  cases tr with
  | true => exact Steps.refl s
  | false => exact steps_spawnOnOutput hwf hsui hi (hcomp rfl)

theorem completedB_of_mem {s : State} {y : Proxy} (hy : y ∈ s.pool) {out : String} (ho : out ∈ y.done) :
    completedB s ⟨y.pt, y.name, out⟩ = true := by
  rw [completedB_iff]
  exact Or.inl ⟨y, hy, rfl, rfl, ho⟩

/-- after storing an updated pooled proxy that has the output, the output counts as completed -/
theorem completedB_store {s : State} {p : Int} {n : String} {x y : Proxy}
    (hl : lookup s p n = some (x, false)) (hk : y.pt = x.pt ∧ y.name = x.name) {out : String} (ho : out ∈ y.done) :
    completedB (store s y false) ⟨p, n, out⟩ = true := by
  have hg := lookup_false hl
  have hx := get?_some_spec hg
  have h1 : (s.put y).get? y.pt y.name = some y :=
    get?_put_same (x := x) (by rw [hk.1, hk.2, hx.2.1, hx.2.2]; exact hg)
  have h2 := completedB_of_mem (get?_some_spec h1).1 ho
  rw [hk.1, hk.2, hx.2.1, hx.2.2] at h2
  exact h2

theorem lookup_key {s : State} {p : Int} {n : String} {x : Proxy} {tr : Bool}
    (hl : lookup s p n = some (x, tr)) : x.pt = p ∧ x.name = n := by
  unfold lookup at hl
  cases hg : s.get? p n with
  | some y =>
    rw [hg] at hl
    simp only [Option.some.injEq, Prod.mk.injEq] at hl
    rw [← hl.1]; exact (get?_some_spec hg).2
  | none =>
    rw [hg] at hl
    simp only [Option.map_eq_some_iff, Prod.mk.injEq] at hl
    obtain ⟨y, hy, rfl, _⟩ := hl
    have := List.find?_some hy
    simpa using this

/-- store an update, then spawn on an output that is completed already or that the stored proxy has -/
theorem steps_store_spawn (hwf : g.wf = true) (hsui : K.sui = true ∨ g.noSui = true) {s : State} {p : Int}
    {n out : String} {x y : Proxy} {tr : Bool}
    (hi : RInv g s) (hl : lookup s p n = some (x, tr)) (hu : tr = false → Upd g K s x y)
    (ho : tr = false → (g.task? n).isSome → completedB s ⟨p, n, out⟩ = true ∨ out ∈ y.done) :
    Steps g K s (spawnChildren g (store s y tr) p n out tr) := by
  have h1 : Steps g K s (store s y tr) := steps_store hl hu
  refine h1.trans (steps_spawnChildren hwf hsui (rinv_steps hwf h1 hi) ?_)
  intro htr ht
  subst htr
  rcases ho rfl ht with h | h
  · exact completedB_steps hwf h1 hi h
  · exact completedB_store hl (upd_key (hu rfl)) h

/-- the two checks of `_process_message_check` on the pooled proxy -/
def passes (flag : Flag) (sn : Nat) (x : Proxy) : Prop :=
  ¬ ((!false && flag == Flag.received && sn != x.submitNum) = true) ∧
  ¬ ((!false && x.status == Status.waiting && decide (x.submitNum > 0) &&
      (decide (x.subTry > 0) || decide (x.execTry > 0))) = true)

/-- the kinds without retries -/
def Kinds.noRetry (K : Kinds) : Kinds := { K with retry := false }

theorem Kinds.noRetry_le (K : Kinds) : K.noRetry.le K :=
  ⟨fun _ h => h, fun _ h => h, fun h => h, fun _ h => h, (fun h => by cases h), fun h => h⟩

/-- the messages whose handling changes the status by the job's own report -/
def needsLive (msg : String) : Prop := msg = "started" ∨ msg = "succeeded" ∨ msg = "failed"

/-- what the caller knows about `live`: every proxy is, or the non-waiting proxies of the instance are and the
looked-up proxy, having passed the checks, is not waiting -/
def LiveHyp (K : Kinds) (s : State) (p : Int) (n : String) (flag : Flag) (sn : Nat) : Prop :=
  (∀ x, K.live x = true) ∨
  ((∀ x : Proxy, x.pt = p → x.name = n → x.status ≠ .waiting → K.live x = true) ∧
   (∀ x0, s.get? p n = some x0 → passes flag sn x0 → x0.status ≠ .waiting))

set_option maxHeartbeats 1600000 in
theorem steps_processMessage (hwf : g.wf = true) : ∀ (fuel : Nat) (K : Kinds) (s : State) (p : Int) (n : String)
    (flag : Flag) (sn : Nat) (msg : String), RInv g s → (K.sui = true ∨ g.noSui = true) →
    (∀ x : Proxy, x.pt = p → x.name = n → K.msg x = true) →
    (needsLive msg → LiveHyp K s p n flag sn) →
    ((msg = "failed" ∨ msg = "submit-failed") → K.retry = true) →
    (msg = "submit-failed" → ∀ x, s.get? p n = some x → K.allow x = true) →
    Steps g K s (processMessage g fuel s p n flag sn msg).1 := by
  intro fuel
  induction fuel with
  | zero => intro K s p n flag sn msg _ _ _ _ _ _; exact Steps.refl s
  | succ fuel ih =>
    intro K s p n flag sn msg hi hsui hmsg hnw hretry hallow
    cases hg : s.get? p n with
    | none => exact (processMessage_ghost (fuel + 1) s p n flag sn msg hg).steps
    | some x0 =>
    have hl0 := lookup_of_get?_some hg
    have hx0 := get?_some_spec hg
    unfold processMessage
    split
    · exact Steps.refl s
    · rename_i x tr hl
      rw [hl0] at hl
      simp only [Option.some.injEq, Prod.mk.injEq] at hl
      obtain ⟨rfl, rfl⟩ := hl
      split
      · exact Steps.refl s
      · rename_i hchk1
        split
        · exact Steps.refl s
        · rename_i hchk2
          simp only
          -- the looked-up proxy is not waiting (or every proxy is `live`)
          have hnw0 : needsLive msg → ((∀ x, K.live x = true) ∨
              ((∀ x : Proxy, x.pt = p → x.name = n → x.status ≠ .waiting → K.live x = true) ∧ NWk p n s)) := by
            intro hn
            rcases hnw hn with h | h
            · exact Or.inl h
            · right
              refine ⟨h.1, ?_⟩
              unfold NWk
              rw [hg]
              exact h.2 x0 hg ⟨hchk1, hchk2⟩
          generalize hxc : (if (msg == "submit-failed" || msg == "failed") = true then (x0, some false)
              else setComplete g x0 msg) = xc
          -- the completion of the output named by the message
          have hu1 : Upd g K.noRetry s x0 xc.1 := by
            rw [← hxc]
            split
            · exact Upd.refl x0
            · rename_i hne
              simp only [Bool.or_eq_true, beq_iff_eq, not_or] at hne
              exact Upd.setc x0 msg hne.2 hne.1 (hmsg x0 hx0.2.1 hx0.2.2)
          have hdone1 : (xc.2 = some true ∨ (hasOutput g x0 msg = true ∧ msg ≠ "failed" ∧ msg ≠ "submit-failed")) →
              msg ∈ xc.1.done := by
            rw [← hxc]
            split
            · rename_i heq
              simp only [Bool.or_eq_true, beq_iff_eq] at heq
              intro h
              rcases h with h | h
              · cases h
              · rcases heq with heq | heq
                · exact absurd heq h.2.2
                · exact absurd heq h.2.1
            · intro h
              rcases setComplete_spec g x0 msg with hs | hs
              · rcases h with h | h
                · rw [hs.1]
                  unfold setComplete at h
                  by_cases ho : hasOutput g x0 msg = true
                  · exact hs.2 ho
                  · simp [ho] at h
                · rw [hs.1]; exact hs.2 h.1
              · rw [hs.2.2.1]; simp
          have hs1' : Steps g K.noRetry s (store s xc.1 false) := steps_store hl0 (fun _ => hu1)
          have hs1 : Steps g K s (store s xc.1 false) := hs1'.mono K.noRetry_le
          have hi1 := rinv_steps hwf hs1 hi
          have hnw1 : needsLive msg → ((∀ x, K.live x = true) ∨
              ((∀ x : Proxy, x.pt = p → x.name = n → x.status ≠ .waiting → K.live x = true) ∧
                NWk p n (store s xc.1 false))) := by
            intro hn
            rcases hnw0 hn with h | h
            · exact Or.inl h
            · exact Or.inr ⟨h.1, nwk_steps rfl hs1' h.2⟩
          have hc1 : msg ∈ xc.1.done → completedB (store s xc.1 false) ⟨p, n, msg⟩ = true :=
            fun h => completedB_store hl0 (upd_key hu1) h
          -- implied outputs: processed without retries
          have himp : ∀ (l : List String) (st : State), (∀ m ∈ l, m ≠ "submit-failed" ∧ m ≠ "failed" ∧ needsLive msg) →
              RInv g st →
              (needsLive msg → ((∀ x, K.live x = true) ∨
                ((∀ x : Proxy, x.pt = p → x.name = n → x.status ≠ .waiting → K.live x = true) ∧ NWk p n st))) →
              Steps g K.noRetry st (l.foldl (fun st m => (processMessage g fuel st p n .internal sn m).1) st) := by
            intro l; induction l with
            | nil => intro st _ _ _; exact Steps.refl st
            | cons a l ihl =>
              intro st hne hst hnwst
              simp only [List.foldl_cons]
              have hnl := (hne a List.mem_cons_self).2.2
              have h3 : Steps g K.noRetry st (processMessage g fuel st p n .internal sn a).1 := by
                apply ih K.noRetry st p n .internal sn a hst hsui hmsg
                · intro _
                  rcases hnwst hnl with h | h
                  · exact Or.inl h
                  · right
                    refine ⟨h.1, ?_⟩
                    intro x0' hg' _
                    have := h.2
                    unfold NWk at this
                    rw [hg'] at this
                    exact this
                · intro h
                  rcases h with h | h
                  · exact absurd h (hne a List.mem_cons_self).2.1
                  · exact absurd h (hne a List.mem_cons_self).1
                · intro h; exact absurd h (hne a List.mem_cons_self).1
              have hst' := rinv_steps hwf (h3.mono K.noRetry_le) hst
              have hnw' : needsLive msg → ((∀ x, K.live x = true) ∨
                  ((∀ x : Proxy, x.pt = p → x.name = n → x.status ≠ .waiting → K.live x = true) ∧
                    NWk p n (processMessage g fuel st p n .internal sn a).1)) := by
                intro hn
                rcases hnwst hn with h | h
                · exact Or.inl h
                · exact Or.inr ⟨h.1, nwk_steps rfl h3 h.2⟩
              exact h3.trans (ihl _ (fun m hm => hne m (List.mem_cons_of_mem _ hm)) hst' hnw')
          have hs2' := himp ((if (msg == "succeeded" || msg == "failed") = true then ["submitted", "started"]
              else if (msg == "started") = true then ["submitted"] else []).filter fun m => !xc.1.isDone m)
              (store s xc.1 false)
              (by
                intro m hm
                have hm' := (List.mem_filter.mp hm).1
                split at hm'
                · rename_i hc
                  have hnl : needsLive msg := by
                    simp only [Bool.or_eq_true, beq_iff_eq] at hc
                    rcases hc with hc | hc
                    · exact Or.inr (Or.inl hc)
                    · exact Or.inr (Or.inr hc)
                  simp only [List.mem_cons, List.not_mem_nil, or_false] at hm'
                  rcases hm' with rfl | rfl <;> exact ⟨by decide, by decide, hnl⟩
                · split at hm'
                  · rename_i hc
                    have hnl : needsLive msg := Or.inl (by simpa using hc)
                    simp only [List.mem_cons, List.not_mem_nil, or_false] at hm'
                    subst hm'; exact ⟨by decide, by decide, hnl⟩
                  · cases hm')
              hi1 hnw1
          generalize hS : (List.foldl (fun st m => (processMessage g fuel st p n Flag.internal sn m).1) _ _) = S at hs2'
          have hs2 : Steps g K (store s xc.1 false) S := hs2'.mono K.noRetry_le
          have hiS := rinv_steps hwf hs2 hi1
          have hnwS : needsLive msg → ((∀ x, K.live x = true) ∨
              ((∀ x : Proxy, x.pt = p → x.name = n → x.status ≠ .waiting → K.live x = true) ∧ NWk p n S)) := by
            intro hn
            rcases hnw1 hn with h | h
            · exact Or.inl h
            · exact Or.inr ⟨h.1, nwk_steps rfl hs2' h.2⟩
          have hcS : msg ∈ xc.1.done → completedB S ⟨p, n, msg⟩ = true :=
            fun h => completedB_steps hwf hs2 hi1 (hc1 h)
          refine (hs1.trans hs2).trans ?_
          -- for a submit-failed message nothing happened so far: the proxy is still the one looked up first
          have hallowS : msg = "submit-failed" → ∀ x2 tr2, lookup S p n = some (x2, tr2) → K.allow x2 = true := by
            intro hm x2 tr2 hl2
            subst hm
            have hxc' : xc = (x0, some false) := by rw [← hxc]; rfl
            have hSs : S = store s x0 false := by
              rw [← hS, hxc']
              rfl
            have hg2 : S.get? p n = some x0 := by
              rw [hSs]
              show (s.put x0).get? p n = some x0
              have := get?_put_same (s := s) (y := x0) (x := x0) (by rw [hx0.2.1, hx0.2.2]; exact hg)
              rw [hx0.2.1, hx0.2.2] at this
              exact this
            rw [lookup_of_get?_some hg2] at hl2
            simp only [Option.some.injEq, Prod.mk.injEq] at hl2
            rw [← hl2.1]
            exact hallow rfl x0 hg
          -- standard outputs exist when the task is defined
          have hstd : ∀ m, m ∈ ["submitted", "started", "succeeded", "failed", "submit-failed"] →
              (g.task? n).isSome → hasOutput g x0 m = true := by
            intro m hm ht
            exact hasOutput_std hwf (by rw [hx0.2.2]; exact ht) hm
          split
          · exact Steps.refl S
          · rename_i x2 tr2 hl2
            have hk2 : tr2 = false → x2 ∈ S.pool ∧ x2.pt = p ∧ x2.name = n := fun h => by
              subst h; exact get?_some_spec (lookup_false hl2)
            have hkk := lookup_key hl2
            have hm2 : K.msg x2 = true := hmsg x2 hkk.1 hkk.2
            -- a pooled proxy is `live`
            have hlv : needsLive msg → tr2 = false → K.live x2 = true := by
              intro hn htr
              subst htr
              rcases hnwS hn with h | h
              · exact h x2
              · apply h.1 x2 hkk.1 hkk.2
                have := h.2
                unfold NWk at this
                rw [lookup_false hl2] at this
                exact this
            split
            · -- started
              rename_i hm
              have hm' : msg = "started" := by simpa using hm
              split
              · exact Steps.refl S
              · refine steps_store_spawn hwf hsui hiS hl2 (fun htr => Upd.running x2 hm2 (hlv (Or.inl hm') htr)) (fun _ ht => Or.inl ?_)
                have := hcS (hdone1 (Or.inr ⟨hstd msg (by simp [hm']) ht, by simp [hm'], by simp [hm']⟩))
                rw [hm'] at this
                exact this
            · split
              · -- succeeded
                rename_i hm
                have hm' : msg = "succeeded" := by simpa using hm
                refine steps_store_spawn hwf hsui hiS hl2 (fun htr => Upd.succeeded x2 hm2 (hlv (Or.inr (Or.inl hm')) htr)) (fun _ ht => Or.inl ?_)
                have := hcS (hdone1 (Or.inr ⟨hstd msg (by simp [hm']) ht, by simp [hm'], by simp [hm']⟩))
                rw [hm'] at this
                exact this
              · split
                · -- failed
                  rename_i hm
                  have hm' : msg = "failed" := by simpa using hm
                  have hret := hretry (Or.inl hm')
                  split
                  · exact Steps.refl S
                  · show Steps g K S (Prod.fst (if (decide (x2.submitNum > 0) && decide (x2.execTry < maxExec g n)) = true
                        then _ else _ : State × Bool))
                    split
                    · rename_i hr
                      simp only [Bool.and_eq_true, decide_eq_true_eq] at hr
                      have hr' : x2.submitNum > 0 ∧ x2.execTry < maxExec g x2.name := by rw [hkk.2]; exact hr
                      exact steps_store hl2 (fun htr => Upd.execRetry x2 hr' hm2 (hlv (Or.inr (Or.inr hm')) htr) hret)
                    · rename_i hr
                      simp only [Bool.and_eq_true, decide_eq_true_eq] at hr
                      have hr' : ¬ (x2.submitNum > 0 ∧ x2.execTry < maxExec g x2.name) := by rw [hkk.2]; exact hr
                      simp only
                      refine steps_store_spawn hwf hsui hiS hl2 (fun htr => Upd.failedFinal x2 hr' hm2 (hlv (Or.inr (Or.inr hm')) htr))
                        (fun htr ht => Or.inr ?_)
                      split
                      · apply setComplete_mem
                        exact hasOutput_std hwf (by simpa [hkk.2] using ht) (by simp)
                      · rename_i hst
                        have hst' : x2.status = .failed := by simpa using hst
                        simp only [reset_done]
                        exact (hiS.sdPool x2 (hk2 htr).1 (by rw [hkk.2]; exact ht)).1 hst'
                · split
                  · -- submit-failed
                    rename_i hm
                    have hm' : msg = "submit-failed" := by simpa using hm
                    have hal := hallowS hm' x2 tr2 hl2
                    have hret := hretry (Or.inr hm')
                    split
                    · exact Steps.refl S
                    · show Steps g K S (Prod.fst (if (decide (x2.submitNum > 0) && decide (x2.subTry < maxSub g n)) = true
                          then _ else _ : State × Bool))
                      split
                      · rename_i hr
                        simp only [Bool.and_eq_true, decide_eq_true_eq] at hr
                        have hr' : x2.submitNum > 0 ∧ x2.subTry < maxSub g x2.name := by rw [hkk.2]; exact hr
                        exact steps_store hl2 (fun _ => Upd.subRetry x2 hal hr' hm2 hret)
                      · rename_i hr
                        simp only [Bool.and_eq_true, decide_eq_true_eq] at hr
                        have hr' : ¬ (x2.submitNum > 0 ∧ x2.subTry < maxSub g x2.name) := by rw [hkk.2]; exact hr
                        simp only
                        refine steps_store_spawn hwf hsui hiS hl2 (fun _ => Upd.subFailedFinal x2 hal hr' hm2)
                          (fun htr ht => Or.inr ?_)
                        split
                        · apply setComplete_mem
                          exact hasOutput_std hwf (by simpa [hkk.2] using ht) (by simp)
                        · rename_i hst
                          have hst' : x2.status = .submitFailed := by simpa using hst
                          simp only [reset_done]
                          exact (hiS.sdPool x2 (hk2 htr).1 (by rw [hkk.2]; exact ht)).2 hst'
                  · split
                    · -- submitted
                      rename_i hm
                      have hm' : msg = "submitted" := by simpa using hm
                      split
                      · exact Steps.refl S
                      · have hcomp : (g.task? n).isSome → completedB S ⟨p, n, "submitted"⟩ = true := by
                          intro ht
                          have := hcS (hdone1 (Or.inr ⟨hstd msg (by simp [hm']) ht, by simp [hm'], by simp [hm']⟩))
                          rw [hm'] at this
                          exact this
                        have h5' : Steps g K S (if (x2.status == Status.preparing) = true then
                            store S ((x2.reset (status := some .submitted)).reset (queued := some false)) tr2 else S) := by
                          by_cases hp : x2.status = Status.preparing
                          · simp only [hp, beq_self_eq_true, if_true]
                            exact steps_store hl2 (fun _ => Upd.submitted x2 hp hm2)
                          · have : (x2.status == Status.preparing) = false := by simpa using hp
                            simp only [this, Bool.false_eq_true, if_false]
                            exact Steps.refl S
                        refine h5'.trans (steps_spawnChildren hwf hsui (rinv_steps hwf h5' hiS) ?_)
                        intro _ ht
                        exact completedB_steps hwf h5' hiS (hcomp ht)
                    · split
                      · -- a custom output newly completed
                        rename_i hcm
                        refine steps_spawnChildren hwf hsui hiS (fun _ _ => ?_)
                        apply hcS
                        apply hdone1
                        left
                        simpa using hcm
                      · exact Steps.refl S

/-! ### The message queue -/

theorem groupMsgs_mem (q : List Msg) :
    ∀ grp ∈ groupMsgs q, ∀ m ∈ grp.2, m ∈ q ∧ m.pt = grp.1.1 ∧ m.name = grp.1.2 := by
  unfold groupMsgs
  have key : ∀ (l : List Msg) (acc : List ((Int × String) × List Msg)) (seen : List Msg),
      (∀ grp ∈ acc, ∀ m ∈ grp.2, m ∈ seen ∧ m.pt = grp.1.1 ∧ m.name = grp.1.2) →
      ∀ grp ∈ l.foldl (fun acc m =>
        if acc.any (fun e => e.1 == (m.pt, m.name)) then
          acc.map fun e => if e.1 == (m.pt, m.name) then (e.1, e.2 ++ [m]) else e
        else acc ++ [((m.pt, m.name), [m])]) acc, ∀ m ∈ grp.2, m ∈ seen ++ l ∧ m.pt = grp.1.1 ∧ m.name = grp.1.2 := by
    intro l; induction l with
    | nil => intro acc seen h grp hg m hm; simpa using h grp hg m hm
    | cons a l ih =>
      intro acc seen h grp hg m hm
      simp only [List.foldl_cons] at hg
      have := ih _ (seen ++ [a]) ?_ grp hg m hm
      · simpa using this
      · intro grp' hg' m' hm'
        split at hg'
        · obtain ⟨e, he, rfl⟩ := List.mem_map.mp hg'
          by_cases hek : (e.1 == (a.pt, a.name)) = true
          · simp only [hek, if_true] at hm' ⊢
            simp only [List.mem_append, List.mem_singleton] at hm'
            rcases hm' with hm' | hm'
            · have := h e he m' hm'
              exact ⟨List.mem_append_left _ this.1, this.2⟩
            · subst hm'
              have hek' : e.1 = (m'.pt, m'.name) := by simpa using hek
              refine ⟨by simp, ?_, ?_⟩
              · rw [hek']
              · rw [hek']
          · simp only [hek, Bool.false_eq_true, if_false] at hm' ⊢
            have := h e he m' hm'
            exact ⟨List.mem_append_left _ this.1, this.2⟩
        · rcases List.mem_append.mp hg' with hg' | hg'
          · have := h grp' hg' m' hm'
            exact ⟨List.mem_append_left _ this.1, this.2⟩
          · simp only [List.mem_singleton] at hg'
            subst hg'
            simp only [List.mem_singleton] at hm'
            subst hm'
            exact ⟨by simp, rfl, rfl⟩
  intro grp hg m hm
  have := key q [] [] (by intro g hg; cases hg) grp hg m hm
  simpa using this

/-- `Q` is any invariant of the atomic actions; it has to provide the `live` knowledge for the queued messages -/
theorem steps_processQueue (hwf : g.wf = true) {s : State} (Q : State → Prop)
    (hQact : ∀ a b, RInv g a → Q a → Act g K a b → Q b) (hi : RInv g s) (hQ : Q s)
    (hmsg : ∀ x, K.msg x = true) (hret : K.retry = true) (hsui : K.sui = true ∨ g.noSui = true)
    (hlv : ∀ st, RInv g st → Q st → ∀ m ∈ s.queue, LiveHyp K st m.pt m.name .received m.submitNum)
    (hq : (∀ x, K.allow x = true) ∨ (∀ m ∈ s.queue, m.text ≠ "submit-failed")) :
    Steps g K s (processQueue g s) := by
  unfold processQueue
  simp only
  have hP : ∀ a b, RInv g a ∧ Q a → Act g K a b → RInv g b ∧ Q b :=
    fun a b h ha => ⟨rinv_act hwf h.1 ha, hQact a b h.1 h.2 ha⟩
  have h0 : Steps g K s { s with queue := [] } := steps_frame rfl rfl rfl rfl
  have hi0 := Steps.inv (fun st => RInv g st ∧ Q st) hP h0 ⟨hi, hQ⟩
  refine h0.trans ?_
  have hmem := groupMsgs_mem s.queue
  generalize groupMsgs s.queue = groups at hmem
  generalize ({ s with queue := [] } : State) = s0 at hi0
  -- one group
  have hgrp : ∀ (grp : (Int × String) × List Msg), (∀ m ∈ grp.2, m ∈ s.queue ∧ m.pt = grp.1.1 ∧ m.name = grp.1.2) →
      ∀ (st : State), RInv g st ∧ Q st →
      Steps g K st (
        match st.get? grp.1.1 grp.1.2 with
        | none => st
        | some _ =>
          let (st, poll) := grp.2.foldl (fun (acc : State × Bool) m =>
              let (st', pl) := processMessage g 4 acc.1 grp.1.1 grp.1.2 .received m.submitNum m.text
              (st', acc.2 || pl)) (st, false)
          if poll then { st with polls := st.polls ++ [(grp.1.1, grp.1.2)] } else st) := by
    intro grp hgm st hst
    split
    · exact Steps.refl st
    · have : ∀ (l : List Msg), (∀ m ∈ l, m ∈ s.queue ∧ m.pt = grp.1.1 ∧ m.name = grp.1.2) →
          ∀ (acc : State × Bool), RInv g acc.1 ∧ Q acc.1 →
          Steps g K acc.1 (l.foldl (fun (acc : State × Bool) m =>
            let (st', pl) := processMessage g 4 acc.1 grp.1.1 grp.1.2 .received m.submitNum m.text
            (st', acc.2 || pl)) acc).1 := by
        intro l; induction l with
        | nil => intro _ acc _; exact Steps.refl _
        | cons m l ihl =>
          intro hl acc ha
          have hml := hl m List.mem_cons_self
          have h1 : Steps g K acc.1 (processMessage g 4 acc.1 grp.1.1 grp.1.2 .received m.submitNum m.text).1 := by
            apply steps_processMessage hwf 4 K _ _ _ _ _ _ ha.1 hsui (fun x _ _ => hmsg x)
            · intro _
              have := hlv acc.1 ha.1 ha.2 m hml.1
              rw [hml.2.1, hml.2.2] at this
              exact this
            · exact fun _ => hret
            · intro hm x _
              rcases hq with hq | hq
              · exact hq x
              · exact absurd hm (hq m hml.1)
          exact h1.trans (ihl (fun m' hm' => hl m' (List.mem_cons_of_mem _ hm'))
            (let (st', pl) := processMessage g 4 acc.1 grp.1.1 grp.1.2 .received m.submitNum m.text
             (st', acc.2 || pl)) (Steps.inv (fun st => RInv g st ∧ Q st) hP h1 ha))
      have h2 := this grp.2 hgm (st, false) hst
      simp only
      split
      · exact h2.trans (steps_frame rfl rfl rfl rfl)
      · exact h2
  have : ∀ (l : List ((Int × String) × List Msg)),
      (∀ grp ∈ l, ∀ m ∈ grp.2, m ∈ s.queue ∧ m.pt = grp.1.1 ∧ m.name = grp.1.2) → ∀ (st : State), RInv g st ∧ Q st →
      Steps g K st (l.foldl (fun (st : State) grp =>
        let (p, n) := grp.1
        match st.get? p n with
        | none => st
        | some _ =>
          let (st, poll) := grp.2.foldl (fun (acc : State × Bool) m =>
              let (st', pl) := processMessage g 4 acc.1 p n .received m.submitNum m.text
              (st', acc.2 || pl)) (st, false)
          if poll then { st with polls := st.polls ++ [(p, n)] } else st) st) := by
    intro l; induction l with
    | nil => intro _ st _; exact Steps.refl st
    | cons grp l ihl =>
      intro hl st hst
      simp only [List.foldl_cons]
      have h1 := hgrp grp (hl grp List.mem_cons_self) st hst
      exact h1.trans (ihl (fun g' hg' => hl g' (List.mem_cons_of_mem _ hg')) _
        (Steps.inv (fun st => RInv g st ∧ Q st) hP h1 hst))
  exact this groups hmem s0 hi0

/-! ### The main loop -/

theorem teq_checkStalled (s : State) : TEq s (checkStalled g s) := by
  unfold checkStalled
  split
  · exact TEq.rfl' s
  · split
    · exact ⟨rfl, rfl, rfl, rfl⟩
    · exact TEq.rfl' s

theorem teq_checkAutoShutdown (s : State) : TEq s (checkAutoShutdown g s).1 := by
  unfold checkAutoShutdown
  simp only
  split
  · exact teq_checkStalled s
  · split <;> exact teq_checkStalled s

theorem steps_finishLoop (s : State) : Steps g K s (finishLoop g s) := by
  unfold finishLoop
  simp only
  have h1 : Steps g K s (if (s.schedUpd || s.pool.any (·.upd)) = true then
      { s with stalled := false, schedUpd := false, pool := s.pool.map fun x => { x with upd := false } }
    else s) := by
    split
    · exact Steps.single (Act.clearUpd rfl ⟨rfl, rfl, rfl⟩)
    · exact Steps.refl s
  generalize (if (s.schedUpd || s.pool.any (·.upd)) = true then
      { s with stalled := false, schedUpd := false, pool := s.pool.map fun x => { x with upd := false } }
    else s) = s1 at h1 ⊢
  have h2 : Steps g K s1 { s1 with db := some s1.pool } := steps_frame rfl rfl rfl rfl
  refine (h1.trans h2).trans ?_
  split
  · exact (teq_checkStalled _).steps
  · exact Steps.refl _

/-- primitives before the queue is processed do not touch the queue -/
theorem queue_spawnNextParentless (s : State) (x : Proxy) : (spawnNextParentless g s x).queue = s.queue := by
  unfold spawnNextParentless
  split
  · rfl
  · split
    · unfold spawnAndAdd
      split
      · rfl
      · split
        · unfold State.add; split <;> rfl
        · rfl
    · rfl

theorem queue_releaseRunahead (s : State) : (releaseRunahead g s).1.queue = s.queue := by
  unfold releaseRunahead
  split
  · rfl
  · split
    · rfl
    · simp only
      apply foldl_inv (fun st : State => st.queue = s.queue) _ _ _ _ rfl
      intro st x hst
      rw [queue_spawnNextParentless]
      split
      · exact hst
      · exact hst

theorem queue_computeRunahead (s : State) (f : Bool) : (computeRunahead g s f).queue = s.queue := by
  unfold computeRunahead
  simp only
  split
  · rfl
  · split <;> rfl

theorem queue_checkAutoShutdown (s : State) : (checkAutoShutdown g s).1.queue = s.queue := by
  have hcs : ∀ t : State, (checkStalled g t).queue = t.queue := by
    intro t; unfold checkStalled; split
    · rfl
    · split <;> rfl
  unfold checkAutoShutdown
  simp only
  split
  · exact hcs s
  · split <;> exact hcs s

theorem queue_queueIfReady (s : State) (x : Proxy) : (queueIfReady s x).queue = s.queue := by
  unfold queueIfReady; split <;> rfl

theorem queue_sweepQueue (s : State) : (sweepQueue s).queue = s.queue := by
  unfold sweepQueue
  apply foldl_inv (fun st : State => st.queue = s.queue) _ _ _ _ rfl
  intro st x hst
  split
  · split
    · rw [queue_queueIfReady]; exact hst
    · exact hst
  · exact hst

theorem queue_releaseAndSubmit (s : State) : (releaseAndSubmit s).queue = s.queue := by
  unfold releaseAndSubmit
  simp only
  split
  · rfl
  · show (List.foldl _ s _).queue = s.queue
    apply foldl_inv (fun st : State => st.queue = s.queue) _ _ _ _ rfl
    intro st x hst
    exact hst

/-- the main loop up to and including job submission; the flag says whether automatic shutdown was decided -/
def preSubmit (g : Graph) (s : State) : State × Bool :=
  let s := computeRunahead g s
  let s := (releaseRunahead g s).1
  let r := checkAutoShutdown g s
  if r.2 then (r.1, true) else (releaseAndSubmit (sweepQueue r.1), false)

theorem mainLoop_eq (g : Graph) (s : State) :
    mainLoop g s = if s.stop.isSome then s else
      if (preSubmit g s).2 then { (preSubmit g s).1 with stop := some "AUTOMATIC" }
      else finishLoop g (processQueue g (preSubmit g s).1) := by
  unfold mainLoop preSubmit
  split
  · rfl
  · simp only
    split <;> rfl

theorem steps_preSubmit (hwf : g.wf = true) (hs : K.sched = true) {s : State} (hi : RInv g s) :
    Steps g K s (preSubmit g s).1 ∧ (preSubmit g s).1.queue = s.queue := by
  unfold preSubmit
  simp only
  have h1 : Steps g K s (computeRunahead g s) := steps_computeRunahead s false
  have hi1 := rinv_steps hwf h1 hi
  have h2 : Steps g K (computeRunahead g s) (releaseRunahead g (computeRunahead g s)).1 :=
    steps_releaseRunahead hwf hs hi1
  have hi2 := rinv_steps hwf h2 hi1
  have h3 : Steps g K (releaseRunahead g (computeRunahead g s)).1
      (checkAutoShutdown g (releaseRunahead g (computeRunahead g s)).1).1 := (teq_checkAutoShutdown _).steps
  have hi3 := rinv_steps hwf h3 hi2
  have hq3 : (checkAutoShutdown g (releaseRunahead g (computeRunahead g s)).1).1.queue = s.queue := by
    rw [queue_checkAutoShutdown, queue_releaseRunahead, queue_computeRunahead]
  generalize (checkAutoShutdown g (releaseRunahead g (computeRunahead g s)).1) = R at h3 hi3 hq3 ⊢
  split
  · exact ⟨h1.trans (h2.trans h3), hq3⟩
  · have h4 : Steps g K R.1 (sweepQueue R.1) := steps_sweepQueue hwf hs hi3
    have hi4 := rinv_steps hwf h4 hi3
    have h5 : Steps g K (sweepQueue R.1) (releaseAndSubmit (sweepQueue R.1)) := steps_releaseAndSubmit hs hi4
    exact ⟨(h1.trans (h2.trans h3)).trans (h4.trans h5), by rw [queue_releaseAndSubmit, queue_sweepQueue, hq3]⟩

theorem steps_postSubmit (hwf : g.wf = true) (Q : State → Prop)
    (hQact : ∀ a b, RInv g a → Q a → Act g K a b → Q b) (hmsg : ∀ x, K.msg x = true) (hret : K.retry = true)
    (hsui : K.sui = true ∨ g.noSui = true) {s : State} (hi : RInv g s) (hQ : Q s)
    (hlv : ∀ st, RInv g st → Q st → ∀ m ∈ s.queue, LiveHyp K st m.pt m.name .received m.submitNum)
    (hq : (∀ x, K.allow x = true) ∨ (∀ m ∈ s.queue, m.text ≠ "submit-failed")) :
    Steps g K s (finishLoop g (processQueue g s)) :=
  (steps_processQueue hwf Q hQact hi hQ hmsg hret hsui hlv hq).trans (steps_finishLoop _)

theorem steps_mainLoop (hwf : g.wf = true) (hs : K.sched = true) (hmsg : ∀ x, K.msg x = true) (hret : K.retry = true)
    (hsui : K.sui = true ∨ g.noSui = true)
    (Q : State → Prop) (hQact : ∀ a b, RInv g a → Q a → Act g K a b → Q b) {s : State}
    (hi : RInv g s) (hQ : Q s)
    (hlv : ∀ st, RInv g st → Q st → ∀ m ∈ s.queue, LiveHyp K st m.pt m.name .received m.submitNum)
    (hq : (∀ x, K.allow x = true) ∨ (∀ m ∈ s.queue, m.text ≠ "submit-failed")) :
    Steps g K s (mainLoop g s) := by
  rw [mainLoop_eq]
  split
  · exact Steps.refl s
  · obtain ⟨h1, hq1⟩ := steps_preSubmit (K := K) hwf hs hi
    split
    · exact h1.trans (steps_frame rfl rfl rfl rfl)
    · have hP := Steps.inv (fun st => RInv g st ∧ Q st)
        (fun a b h ha => ⟨rinv_act hwf h.1 ha, hQact a b h.1 h.2 ha⟩) h1 ⟨hi, hQ⟩
      exact h1.trans (steps_postSubmit hwf Q hQact hmsg hret hsui hP.1 hP.2 (by rw [hq1]; exact hlv)
        (by rw [hq1]; exact hq))

/-! ### One operation -/

theorem rinv_clearOp {s : State} (hi : RInv g s) : RInv g (clearOp s) :=
  ⟨hi.nodup, hi.sdPool, hi.sdHist, hi.nosui⟩

theorem steps_step_gen (hwf : g.wf = true) (hs : K.sched = true) (hmsg : ∀ x, K.msg x = true) (hret : K.retry = true)
    (hsui : K.sui = true ∨ g.noSui = true)
    (Q : State → Prop) (hQact : ∀ a b, RInv g a → Q a → Act g K a b → Q b) {s : State}
    (hi : RInv g s) (hQ : Q (clearOp s)) (op : Op)
    (hlv : op = .loop → ∀ st, RInv g st → Q st → ∀ m ∈ s.queue, LiveHyp K st m.pt m.name .received m.submitNum)
    (hop : (∀ x, K.allow x = true) ∨ opOK K.allow s op = true) :
    Steps g K (clearOp s) (step g s op) := by
  unfold step
  have hc := rinv_clearOp hi
  cases op with
  | loop =>
    apply steps_mainLoop hwf hs hmsg hret hsui Q hQact hc hQ (hlv rfl)
    rcases hop with h | h
    · exact Or.inl h
    · right
      intro m hm
      unfold opOK at h
      have := List.all_eq_true.mp h m hm
      simpa using this
  | subres p n ok sn =>
    apply steps_processMessage hwf 4 K _ _ _ _ _ _ hc hsui (fun x _ _ => hmsg x)
    · intro hn
      cases ok <;> (rcases hn with h | h | h <;> simp at h)
    · exact fun _ => hret
    · intro hm x hx
      rcases hop with h | h
      · exact h x
      · unfold opOK at h
        cases ok with
        | true => simp at hm
        | false =>
          have hx' : s.get? p n = some x := hx
          simpa [hx'] using h
  | msg p n sn text => exact steps_frame rfl rfl rfl rfl

theorem steps_step (hwf : g.wf = true) (hs : K.sched = true) (hmsg : ∀ x, K.msg x = true)
    (hlive : ∀ x, K.live x = true) (hret : K.retry = true) (hsui : K.sui = true) {s : State}
    (hi : RInv g s) (op : Op) (hop : (∀ x, K.allow x = true) ∨ opOK K.allow s op = true) :
    Steps g K (clearOp s) (step g s op) :=
  steps_step_gen hwf hs hmsg hret (Or.inl hsui) (fun _ => True) (fun _ _ _ _ _ => trivial) hi trivial op
    (fun _ _ _ _ _ _ => Or.inl hlive) hop

theorem steps_init (hwf : g.wf = true) (hs : K.sched = true) : Steps g K ({} : State) (init g) :=
  steps_loadFromPoint hwf hs

end CylcModel.Sched
