/-
`Runahead` — component model of `TaskPool.compute_runahead`, `set_max_future_offset` and the release
decision of `release_runahead_tasks` (cylc/flow/task_pool.py) on an explicitly given pool: count
limits `Pn` *and* duration limits, future-trigger offsets, stop point, the cached base point /
sequence points and both early returns.  (The frozen scheduler model `Sched` has count limits only
and no future offsets; this component covers the rest of C04 by direct correspondence with the real
functions run on a pool stub.)

Points, intervals and offsets are integers (datetime points: seconds since the epoch, converted by
the adapter); a recurrence is given as the ascending list of its points, as produced by the real
sequence objects (`get_first_point` / `get_next_point`), which are the subject of C16/C17.
Core Lean only.
-/
import CylcModel.Sched

namespace CylcModel.Runahead
open CylcModel.Sched (sortDedup minOf)

inductive Limit where
  | count (n : Nat)          -- `Pn`: count cycles
  | dur (d : Int)            -- a duration
  deriving Repr, DecidableEq, Inhabited

structure Cfg where
  seqs : List (List Int)
  limit : Limit
  start : Int
  stop : Option Int          -- `TaskPool.stop_point`
  /-- which variant of the "limit already at the stop point" early return the code under test has
  (probed by the adapter on a fixed three-call scenario): `false` = return early whenever the limit
  sits at the stop point (the code as found: finding `stale-limit-at-stop-point`);
  `true` = only when the pool is empty or the base point moved forward (findings/C04-fix-1.diff) -/
  guarded : Bool := false
  deriving Repr, Inhabited

structure Task where
  pt : Int
  off : Option Int := none   -- `tdef.max_future_prereq_offset`
  rh : Bool := true          -- `state.is_runahead`
  deriving Repr, DecidableEq, Inhabited

structure St where
  pool : List Task := []
  limit : Option Int := none         -- `runahead_limit_point`
  prevBase : Option Int := none      -- `_prev_runahead_base_point`
  prevPts : List Int := []           -- `_prev_runahead_sequence_points` (None and the empty set are both falsy)
  maxOff : Option Int := none        -- `max_future_offset`
  deriving Repr, Inhabited

/-- the runahead base point: earliest pooled point, or (empty pool) the earliest first point of a
recurrence from the start point -/
def basePoint (c : Cfg) (s : St) : Option Int :=
  if s.pool.isEmpty then minOf (c.seqs.filterMap fun q => q.find? (· ≥ c.start))
  else minOf (s.pool.map (·.pt))

/-- the points the loop over one recurrence collects from base point `b` -/
def contribution (c : Cfg) (b : Int) (q : List Int) : List Int :=
  match c.limit with
  | .count n => (q.filter (· ≥ b)).take (n + 1)
  | .dur d => (q.filter (· ≥ b)).takeWhile (· ≤ b + d)

def collect (c : Cfg) (b : Int) : List Int := sortDedup (c.seqs.flatMap (contribution c b))

/-- limit from the collected points: (n+1)-th earliest for a count limit, the latest for a duration -/
def pick (c : Cfg) (b : Int) (pts : List Int) : Int :=
  match c.limit with
  | .count n => ((pts.take (n + 1)).getLast?).getD b
  | .dur _ => pts.getLast?.getD b

def addOff (o : Option Int) (l : Int) : Int :=
  match o with
  | some v => l + v
  | none => l

def capStop (c : Cfg) (l : Int) : Int :=
  match c.stop with
  | some sp => if l > sp then sp else l
  | none => l

/-- `compute_runahead(force)`; returns the new state and the return value ("changed") -/
def compute (c : Cfg) (s : St) (force : Bool) : St × Bool :=
  match basePoint c s with
  | none => (s, false)
  | some b =>
    let pb := s.prevBase.getD b
    let s := { s with prevBase := some pb }
    if !force && s.limit.isSome && (b == pb || (s.limit == c.stop && (!c.guarded || s.pool.isEmpty || b > pb))) then (s, false)
    else
      let pts := if !force && !s.prevPts.isEmpty && b == pb then s.prevPts else collect c b
      let l := capStop c (addOff s.maxOff (pick c b pts))
      ({ s with prevPts := pts, prevBase := some b, limit := some l }, true)

/-- the largest future-trigger offset among pooled tasks -/
def maxOffOf (pool : List Task) : Option Int :=
  pool.foldl (fun m t =>
    match t.off, m with
    | some o, none => some o
    | some o, some v => if o > v then some o else some v
    | none, m => m) none

/-- `set_max_future_offset` -/
def setMaxOff (c : Cfg) (s : St) : St :=
  let m := maxOffOf s.pool
  let s' := { s with maxOff := m }
  if m != s.maxOff then (compute c s' true).1 else s'

/-- `release_runahead_tasks`: the released points (pool order) -/
def release (s : St) : St × List Int :=
  match s.limit with
  | none => (s, [])
  | some l =>
    if s.pool.isEmpty then (s, []) else
    ({ s with pool := s.pool.map fun t => if t.pt ≤ l && t.rh then { t with rh := false } else t },
     (s.pool.filter fun t => t.pt ≤ l && t.rh).map (·.pt))

inductive Op where
  | pool (ts : List Task)      -- the pool becomes `ts` (tasks added / removed), nothing else is called
  | offset                     -- `set_max_future_offset()` as `add_to_pool` / `remove` call it
  | compute (force : Bool)
  | release
  deriving Repr, Inhabited

structure Obs where
  limit : Option Int
  maxOff : Option Int
  changed : Option Bool := none
  released : List Int := []
  deriving Repr, Inhabited

def step (c : Cfg) (s : St) : Op → St × Obs
  | .pool ts => let s := { s with pool := ts }; (s, { limit := s.limit, maxOff := s.maxOff })
  | .offset => let s := setMaxOff c s; (s, { limit := s.limit, maxOff := s.maxOff })
  | .compute f => let (s, ch) := compute c s f; (s, { limit := s.limit, maxOff := s.maxOff, changed := some ch })
  | .release => let (s, r) := release s; (s, { limit := s.limit, maxOff := s.maxOff, released := r })

def run (c : Cfg) (ops : List Op) : List Obs :=
  (ops.foldl (fun (acc : List Obs × St) op =>
    let (s, o) := step c acc.2 op
    (acc.1 ++ [o], s)) ([], {})).1

/-! ### specification (used by the theorems and by the judge) -/

/-- every recurrence is a strictly ascending list, and some recurrence has a point at or after the
start point (so that a base point exists even for an empty pool) -/
def wf (c : Cfg) : Bool :=
  (c.seqs.all fun q => decide (q.Pairwise (· < ·))) &&
  !(c.seqs.filterMap fun q => q.find? (· ≥ c.start)).isEmpty

/-- all points of the recurrences at or after `b`: distinct, ascending -/
def allFrom (c : Cfg) (b : Int) : List Int := sortDedup (c.seqs.flatMap fun q => q.filter (· ≥ b))

/-- `Pn`: the (n+1)-th earliest point at or after the base point (the latest if fewer);
duration `D`: the latest point within `D` of the base point; the base point itself if there is none -/
def spec0 (c : Cfg) (b : Int) : Int :=
  match c.limit with
  | .count n => (((allFrom c b).take (n + 1)).getLast?).getD b
  | .dur d => (((allFrom c b).filter (· ≤ b + d)).getLast?).getD b

/-- `RunaheadSpec`: extended by the largest future-trigger offset `o` among pooled tasks, capped at the stop point -/
def specLimit (c : Cfg) (o : Option Int) (b : Int) : Int :=
  let l1 := spec0 c b + o.getD 0
  match c.stop with
  | some sp => min sp l1
  | none => l1

end CylcModel.Runahead
