/-
Model of `cylc/flow/task_outputs.py` (completion expressions, `TaskOutputs.is_complete`,
`get_optional_outputs`, `iter_required_messages`), of the completion part of
`cylc/flow/config.py` (`_set_completion_expressions`, `_check_completion_expression`),
of `TaskDef.tweak_outputs` and of `cylc/flow/run_modes/skip.py` (`process_outputs`,
`check_task_skip_config`).  Used by C11 and C12.  Core Lean only.

Ported as it is, quirks included:
* completion variables are triggers with `-` replaced by `_`; the `{compvar: completed}` dict
  built by `is_complete` keeps the *last* output of a colliding pair (`x-y` / `x_y`);
* expressions are Python text: `parsePy` is a hand model of `ast.parse` + the whitelist of
  `CompletionEvaluator` for the token language (names, `and`, `or`, parentheses, constants,
  anything else = invalid), with Python's precedence (`and` over `or`);
* evaluation is Python's: short-circuit, an unbound name that is reached is a `NameError`;
* a variable called `expr` clashes with the evaluator's own parameter (`TypeError`) as long as
  the generated table `evalKwClash` lists it.

Tables consumed from `Generated/OutputsTables.lean` (regenerated from the source on every run):
the standard outputs, `FINAL_OUTPUT_COMPLETION`, the Python keyword list, the kwarg clash list,
two probed validation flags and the graph/expression consistency table.
-/
import CylcModel.BExpr
import CylcModel.Generated.OutputsTables

namespace CylcModel.Outputs
open CylcModel
open CylcModel.Generated.Outputs

/-! ### Task definitions -/

/-- `trigger_to_completion_variable` -/
def compvar (t : String) : String := String.ofList (t.toList.map fun c => if c = '-' then '_' else c)

/-- one entry of `TaskDef.outputs`: `trigger: (message, required)`;
`req = some true` required, `some false` optional, `none` not used in the graph -/
structure OutDef where
  trigger : String
  message : String
  req : Option Bool
  deriving Repr, DecidableEq, Inhabited

/-- `TaskDef.outputs` in dict order (the six standard outputs first, then `[outputs]`) -/
structure TaskDef where
  outs : List OutDef
  deriving Repr, Inhabited

/-- `tdef.outputs[t][1]` (`none` also when the key is missing: callers assume it is present) -/
def TaskDef.reqOf (d : TaskDef) (t : String) : Option Bool :=
  match d.outs.find? (fun o => o.trigger == t) with
  | some o => o.req
  | none => none

/-- `TaskDef.set_required_output` -/
def TaskDef.setReq (d : TaskDef) (t : String) (r : Option Bool) : TaskDef :=
  ⟨d.outs.map fun o => if o.trigger == t then { o with req := r } else o⟩

/-- `TaskDef.tweak_outputs` (not in Cylc-7 compatibility mode):
if neither `:succeeded` nor `:failed` is used in the graph, success is required. -/
def tweakOutputs (d : TaskDef) : TaskDef :=
  if (d.reqOf "succeeded").isNone && (d.reqOf "failed").isNone then d.setReq "succeeded" (some true)
  else d

/-! ### Sorting (Python `sorted(set(...))` on strings) -/

def insertSorted (x : String) : List String → List String
  | [] => [x]
  | y :: ys => if x < y then x :: y :: ys else if x = y then y :: ys else y :: insertSorted x ys

def sortDedup (l : List String) : List String := l.foldr insertSorted []

def nodupB : List String → Bool
  | [] => true
  | x :: xs => !xs.contains x && nodupB xs

/-! ### The default completion expression (`get_completion_expression`) -/

/-- completion variables of the required outputs, sorted, without duplicates -/
def requiredVars (d : TaskDef) : List String :=
  sortDedup ((d.outs.filter fun o => o.req == some true).map fun o => compvar o.trigger)

def failOpt (d : TaskDef) : Bool :=
  d.reqOf "succeeded" == some false || d.reqOf "failed" == some false

def subOpt (d : TaskDef) : Bool :=
  d.reqOf "submitted" == some false || d.reqOf "submit-failed" == some false

def expOpt (d : TaskDef) : Bool := d.reqOf "expired" == some false

/-- `acc and x1 and x2 ...` -/
def conjAcc (acc : BExpr String) : List String → BExpr String
  | [] => acc
  | x :: xs => conjAcc (.and acc (.atom x)) xs

abbrev Part := BExpr String × String

/-- step (1): all required outputs -/
def partRequired (d : TaskDef) : List Part :=
  match requiredVars d with
  | [] => []
  | [x] => [(.atom x, x)]
  | x :: xs => [(conjAcc (.atom x) xs, "(" ++ " and ".intercalate (x :: xs) ++ ")")]

/-- step (2): optional success -/
def partSuccess (d : TaskDef) (p : List Part) : List Part :=
  if failOpt d then
    match p with
    | [] => [(.or (.atom "succeeded") (.atom "failed"), "succeeded or failed")]
    | (e, s) :: _ => [(.or (.and e (.atom "succeeded")) (.atom "failed"), "(" ++ s ++ " and succeeded) or failed")]
  else p

/-- steps (3), (4): optional submission, optional expiry -/
def partPre (d : TaskDef) (p : List Part) : List Part :=
  let p3 := if subOpt d then p ++ [(.atom "submit_failed", "submit_failed")] else p
  if expOpt d then p3 ++ [(.atom "expired", "expired")] else p3

def defaultParts (d : TaskDef) : List Part := partPre d (partSuccess d (partRequired d))

def orJoin : List Part → Option (BExpr String) × String
  | [] => (none, "")
  | (e, s) :: rest => (some (rest.foldl (fun acc p => .or acc p.1) e), " or ".intercalate (s :: rest.map (·.2)))

/-- the default completion expression: its structure and its exact text -/
def defaultExpr (d : TaskDef) : Option (BExpr String) × String := orJoin (defaultParts d)

/-! ### Python expression text -/

inductive Tok where
  | lp | rp | and | or
  | name (s : String)
  | const
  | bad
  deriving Repr, DecidableEq

def isIdStart (c : Char) : Bool := c.isAlpha || c == '_'
def isIdChar (c : Char) : Bool := c.isAlphanum || c == '_'

/-- ASCII Python identifier -/
def isPyIdent (w : String) : Bool :=
  match w.toList with
  | [] => false
  | c :: cs => isIdStart c && cs.all isIdChar

/-- a word that `ast` reads as a `Name` node -/
def isPyName (w : String) : Bool := isPyIdent w && !pyKeywords.contains w

/-- a word that `ast` reads as a `Constant` node: `True False None` and plain decimal integers -/
def isPyConst (w : String) : Bool :=
  w == "True" || w == "False" || w == "None" ||
  (match w.toList with
   | [] => false
   | c :: cs => (c :: cs).all Char.isDigit && (c != '0' || cs.all (· == '0')))

def classifyWord (w : String) : Tok :=
  if w == "and" then .and else if w == "or" then .or
  else if isPyConst w then .const
  else if isPyName w then .name w
  else .bad

def flushWord (cur : List Char) (acc : List Tok) : List Tok :=
  if cur.isEmpty then acc else classifyWord (String.ofList cur.reverse) :: acc

/-- words are separated by blanks and parentheses -/
def tokenizeAux : List Char → List Char → List Tok → List Tok
  | [], cur, acc => (flushWord cur acc).reverse
  | c :: cs, cur, acc =>
    if c == ' ' then tokenizeAux cs [] (flushWord cur acc)
    else if c == '(' then tokenizeAux cs [] (.lp :: flushWord cur acc)
    else if c == ')' then tokenizeAux cs [] (.rp :: flushWord cur acc)
    else tokenizeAux cs (c :: cur) acc

def tokenize (s : String) : List Tok := tokenizeAux s.toList [] []

inductive Op where
  | lp | and | or
  deriving Repr, DecidableEq

/-- parse tree with constants: `none` = a `Constant` leaf -/
abbrev PE := BExpr (Option String)

def applyOp : Op → List PE → Option (List PE)
  | .and, r :: l :: rest => some (.and l r :: rest)
  | .or, r :: l :: rest => some (.or l r :: rest)
  | _, _ => none

/-- reduce operators from the stack until `stop` holds for the top one -/
def popOps (stop : Op → Bool) : List Op → List PE → Option (List Op × List PE)
  | [], out => some ([], out)
  | op :: ops, out =>
    if stop op then some (op :: ops, out)
    else match applyOp op out with
      | some out' => popOps stop ops out'
      | none => none

structure PSt where
  out : List PE := []
  ops : List Op := []
  expectOperand : Bool := true

/-- operator-precedence parsing: `and` binds tighter than `or`, both associate to the left -/
def pstep (st : PSt) : Tok → Option PSt
  | .name s => if st.expectOperand then some { st with out := .atom (some s) :: st.out, expectOperand := false } else none
  | .const => if st.expectOperand then some { st with out := .atom none :: st.out, expectOperand := false } else none
  | .lp => if st.expectOperand then some { st with ops := .lp :: st.ops } else none
  | .rp =>
    if st.expectOperand then
      -- `()` : the empty tuple, a leaf without names (like a constant)
      match st.ops with
      | .lp :: ops => some { st with ops := ops, out := .atom none :: st.out, expectOperand := false }
      | _ => none
    else match popOps (· == .lp) st.ops st.out with
      | some (.lp :: ops, out) => some { st with ops := ops, out := out }
      | _ => none
  | .and =>
    if st.expectOperand then none
    else match popOps (· != .and) st.ops st.out with
      | some (ops, out) => some { ops := .and :: ops, out := out, expectOperand := true }
      | none => none
  | .or =>
    if st.expectOperand then none
    else match popOps (· == .lp) st.ops st.out with
      | some (ops, out) => some { ops := .or :: ops, out := out, expectOperand := true }
      | none => none
  | .bad => none

def prun : PSt → List Tok → Option PSt
  | st, [] => some st
  | st, t :: ts => match pstep st t with
    | some st' => prun st' ts
    | none => none

def parseToks (ts : List Tok) : Option PE :=
  match prun {} ts with
  | none => none
  | some st =>
    if st.expectOperand then none
    else match popOps (fun _ => false) st.ops st.out with
      | some ([], [e]) => some e
      | _ => none

def namesOnly : PE → Option (BExpr String)
  | .atom (some s) => some (.atom s)
  | .atom none => none
  | .and l r => match namesOnly l, namesOnly r with
    | some a, some b => some (.and a b)
    | _, _ => none
  | .or l r => match namesOnly l, namesOnly r with
    | some a, some b => some (.or a b)
    | _, _ => none

/-- what Python makes of an expression text -/
inductive PyExpr where
  | empty                      -- '' : `ast.parse` gives an empty module, `eval` mode is a SyntaxError
  | invalid                    -- SyntaxError, or a node that is not whitelisted by construction of the token language
  | noNames                    -- parses, constants only: no `Name` node, the evaluator rejects `Constant`
  | mixed                      -- parses, names and constants: the evaluator rejects `Constant`
  | ok (e : BExpr String)
  deriving Repr, DecidableEq

def parsePy (text : String) : PyExpr :=
  if text.isEmpty then .empty
  else match parseToks (tokenize text) with
    | none => .invalid
    | some pe =>
      match namesOnly pe with
      | some e => .ok e
      | none => if pe.vars.all Option.isNone then .noNames else .mixed

/-! ### Evaluation (`CompletionEvaluator`) -/

inductive EvalErr where
  | invalid      -- InvalidCompletionExpression / SyntaxError
  | name         -- NameError
  | type         -- TypeError: a variable called like the evaluator's own parameter
  deriving Repr, DecidableEq

/-- `CompletionEvaluator(<parsed>, **vars)` where `vars` has the keys `keys` and the values `env` -/
def pyEvalParsed (p : PyExpr) (keys : List String) (env : String → Option Bool) : Except EvalErr Bool :=
  if keys.any (evalKwClash.contains ·) then .error .type
  else match p with
    | .ok e => match e.evalSC env with
      | some b => .ok b
      | none => .error .name
    | _ => .error .invalid

/-- the evaluator on the text rendered from a known structure: the atoms must be words that Python
reads as names -/
def pyOfB (e : BExpr String) : PyExpr := if e.vars.all isPyName then .ok e else .invalid

/-- the `{compvar: completed}` dict of `is_complete`: a later output overwrites an earlier one
with the same completion variable -/
def envOfKV (done : String → Bool) : List (String × String) → String → Option Bool
  | [], _ => none
  | (cv, msg) :: rest, v =>
    match envOfKV done rest v with
    | some b => some b
    | none => if cv = v then some (done msg) else none

/-- `(completion variable, message)` of every output, in dict order -/
def kvOf (outs : List OutDef) : List (String × String) := outs.map fun o => (compvar o.trigger, o.message)

def envOf (done : String → Bool) (outs : List OutDef) : String → Option Bool := envOfKV done (kvOf outs)

def compvars (outs : List OutDef) : List String := outs.map fun o => compvar o.trigger

/-- `TaskOutputs.is_complete()` for outputs `outs`, a parsed non-empty completion expression and
the completed messages `done` -/
def isCompleteParsed (p : PyExpr) (outs : List OutDef) (done : String → Bool) : Except EvalErr Bool :=
  pyEvalParsed p (compvars outs) (envOf done outs)

/-- `TaskOutputs(text).is_complete()`; the blank expression of a removed task definition falls back to
`FINAL_OUTPUT_COMPLETION` -/
def isCompleteText (text : String) (outs : List OutDef) (done : String → Bool) : Except EvalErr Bool :=
  isCompleteParsed (parsePy (if text.isEmpty then finalCompletion else text)) outs done

/-- `TaskOutputs(tdef).is_complete()` when the task has no user completion expression -/
def isCompleteDefault (d : TaskDef) (done : String → Bool) : Except EvalErr Bool :=
  match (defaultExpr d).1 with
  | some e => isCompleteParsed (pyOfB e) d.outs done
  | none => isCompleteParsed (parsePy finalCompletion) d.outs done

/-! ### Classification (`get_optional_outputs`, `iter_required_messages`) -/

/-- the variables handed to the evaluator when `output` is tested: every known completion variable is
true except `output`; `expired`, `submit_failed` and the disabled output are false -/
def classEnv (all : List String) (disable : Option String) (output v : String) : Option Bool :=
  if disable = some v then some false
  else if v = "expired" ∨ v = "submit_failed" then some false
  else if v ∈ all then some (v != output)
  else none

def classKeys (all : List String) (disable : Option String) : List String :=
  all ++ ["expired", "submit_failed"] ++ disable.toList

/-- `is_optional` of a referenced output (`none` = NameError) -/
def isOptional (e : BExpr String) (all : List String) (disable : Option String) (output : String) : Option Bool :=
  e.evalSC (classEnv all disable output)

/-- `get_optional_outputs(text, outputs, disable)` as a list sorted by completion variable:
`some true` optional, `some false` required, `none` not referenced -/
def optionalOutputs (p : PyExpr) (outputs : List String) (disable : Option String) :
    Except EvalErr (List (String × Option Bool)) :=
  let all := outputs.map compvar
  let unref := (sortDedup all).map fun v => (v, (none : Option Bool))
  match p with
  | .invalid => .error .invalid
  | .empty => .ok unref
  | .noNames => .ok unref
  | .mixed => if (classKeys all disable).any (evalKwClash.contains ·) then .error .type else .error .invalid
  | .ok e =>
    if (classKeys all disable).any (evalKwClash.contains ·) then .error .type
    -- one evaluation per referenced variable; any of them may reach an unbound name
    else if e.vars.any (fun o => (isOptional e all disable o).isNone) then .error .name
    else .ok ((sortDedup (e.vars ++ all)).map fun v =>
      (v, if e.vars.contains v then isOptional e all disable v else none))

/-- the text held by a `TaskOutputs` object built from a task definition -/
def exprText (d : TaskDef) (user : Option String) : String :=
  match user with
  | some t => if t.isEmpty then (defaultExpr d).2 else t
  | none => (defaultExpr d).2

/-- `list(TaskOutputs.iter_required_messages(disable))`, sorted -/
def requiredMessages (text : String) (outs : List OutDef) (disable : Option String) :
    Except EvalErr (List String) :=
  match optionalOutputs (parsePy text) (compvars outs) disable with
  | .error e => .error e
  | .ok l =>
    let reqVars := (l.filter fun p => p.2 == some false).map (·.1)
    .ok (sortDedup ((outs.filter fun o => reqVars.contains (compvar o.trigger)).map (·.message)))

/-! ### Skip mode (`run_modes/skip.py`) -/

/-- `_message_to_trigger[message]` -/
def triggerOf (outs : List OutDef) (message : String) : String :=
  match outs.find? (fun o => o.message == message) with
  | some o => o.trigger
  | none => ""

/-- `process_outputs(itask, rtconfig)` with `rtconfig['skip']['outputs'] = conf`, sorted -/
def skipOutputs (text : String) (outs : List OutDef) (conf : List String) : Except EvalErr (List String) :=
  let disable := if conf.contains "failed" then "succeeded" else "failed"
  match requiredMessages text outs (some disable) with
  | .error e => .error e
  | .ok req =>
    let part1 := req.filter fun m =>
      let trig := triggerOf outs m
      !(trig == "succeeded" || trig == "failed") && (conf.isEmpty || conf.contains trig)
    let part2 := (outs.filter fun o => conf.contains o.trigger).map (·.message)
    let fin := if conf.contains "failed" then "failed" else "succeeded"
    .ok (sortDedup (["submitted", "started"] ++ part1 ++ part2 ++ [fin]))

/-- `check_task_skip_config`: `true` = accepted -/
def skipConfigOk (conf : List String) : Bool := !(conf.contains "succeeded" && conf.contains "failed")

/-! ### Validation (`config.py`) -/

/-- the decision of `_check_completion_expression` for one output, looked up in the table
tabulated from the real function -/
def consistent (graphOpt exprOpt : Option Bool) (preExec : Bool) : Bool :=
  (consistencyTable.lookup (graphOpt, exprOpt, preExec)).getD false

def isPreExec (v : String) : Bool := v == "submit_failed" || v == "expired"

/-- last entry wins, as in the dict comprehension -/
def lookupLast (v : String) : List (String × Option Bool) → Option (Option Bool)
  | [] => none
  | (k, x) :: rest => match lookupLast v rest with
    | some r => some r
    | none => if k = v then some x else none

/-- `graph_optionals`: completion variable ↦ is-optional, with "failed is implicitly optional if
succeeded is optional" -/
def graphOptionals (d : TaskDef) : String → Option Bool :=
  let raw : List (String × Option Bool) := d.outs.map fun o => (compvar o.trigger, o.req.map (!·))
  let g (v : String) : Option Bool := (lookupLast v raw).getD none
  fun v => if v = "failed" ∧ g "succeeded" = some true ∧ g "failed" = none then some true else g v

inductive Verdict where
  | accept | reject
  deriving Repr, DecidableEq

/-- `_check_completion_expression` (outside Cylc-7 compatibility mode).  An internal `KeyError`
(a name that is not an output but is never reached by the evaluation) counts as `reject`. -/
def checkCompletion (d : TaskDef) (text : String) : Verdict :=
  if text.toList.contains '-' then .reject
  else match optionalOutputs (parsePy text) (d.outs.map (·.trigger)) none with
    | .error _ => .reject
    | .ok exprOpts =>
      let known := compvars d.outs
      let keys := sortDedup (known ++ exprOpts.map (·.1))
      if keys.all fun v =>
          known.contains v &&
          consistent (graphOptionals d v) ((exprOpts.lookup v).getD none) (isPreExec v)
      then .accept else .reject

/-- the completion variables of `FINAL_OUTPUT_COMPLETION` -/
def finalVars : List String := ["succeeded", "failed", "submit_failed", "expired"]

/-- two outputs share a completion variable that the expression (or the fallback expression of a
removed task) uses -/
def collidesOn (d : TaskDef) (used : List String) : Bool :=
  (compvars d.outs).any fun v => (used.contains v || finalVars.contains v) && (compvars d.outs).count v > 1

def requiredNamesOk (d : TaskDef) : Bool := (requiredVars d).all isPyName

/-- `get_variable_names(text)` of an expression that passed the checks -/
def usedNames : PyExpr → List String
  | .ok e => e.vars
  | _ => []

inductive Cfg where
  | ok (text : String)      -- the completion expression recorded for the task
  | reject
  deriving Repr, DecidableEq

/-- the derived expression: name check, then collision check (each only if the probed flag says the
code performs it) -/
def configureDefault (d : TaskDef) : Cfg :=
  if cfgRejectsUnevaluable && !requiredNamesOk d then .reject
  else if cfgRejectsCollision && collidesOn d (requiredVars d) then .reject
  else .ok (defaultExpr d).2

/-- `_set_completion_expressions` for one task (after `tweak_outputs`) -/
def configure (d : TaskDef) (user : Option String) : Cfg :=
  match user with
  | some text =>
    if text.isEmpty then configureDefault d
    else match checkCompletion d text with
      | .reject => .reject
      | .accept => if cfgRejectsCollision && collidesOn d (usedNames (parsePy text)) then .reject else .ok text
  | none => configureDefault d

end CylcModel.Outputs
